import ZarrsModel.Driver.Proto
import ZarrsModel.Driver.C01
import ZarrsModel.Driver.C03
import ZarrsModel.Driver.C05
import ZarrsModel.Driver.C08
import ZarrsModel.Driver.C09
import ZarrsModel.Driver.C10
import ZarrsModel.Driver.C11
import ZarrsModel.Driver.C12
import ZarrsModel.Driver.C12Deflate
import ZarrsModel.Driver.C13
import ZarrsModel.Driver.C14
import ZarrsModel.Driver.C15
import ZarrsModel.Driver.C16
import ZarrsModel.Driver.C16Conc
import ZarrsModel.Driver.C17
import ZarrsModel.Driver.C18
import ZarrsModel.Driver.C19
import ZarrsModel.Driver.C20
import ZarrsModel.Driver.C02Shard
import ZarrsModel.Driver.C02PackBits
import ZarrsModel.Driver.C03Chain
import ZarrsModel.Driver.C02Vlen
import ZarrsModel.Driver.C05Chain
/-
Line-protocol driver: reads `request -> implementation outcome` lines, replays each request through the
model's executable definitions and prints one verdict line per disagreement:
  `DIFF <n> model=<...>`    the implementation outcome is not among the outcomes the model/spec accepts
  `BAD <n>`                 unparsable request (never defaulted)
  `NOTE <n> ...`            internal cross-check of the driver (model vs spec) failed
  `INFO <n> ...`            informational (e.g. a store-operation trace that differs from the model's program): no verdict
and a final `SUMMARY` line.
-/
open Zarrs Zarrs.Proto

structure DState where
  c01 : DriverC01.St := {}
  c05 : DriverC05.St := {}
  c08 : DriverC08.St := {}
  c15 : DriverC15.St := {}
  c16 : DriverC16.St := {}
  c13 : DriverC13.St := {}
  c12 : DriverC12.St := {}
  /-- C07: the stored shard of the case was altered behind the API (`corrupt_entry`): reads are no longer predicted, only
  compared between the two forms -/
  c07taint : Bool := false

/-- new state, acceptable outcomes (`any` accepts everything), optional note -/
def dispatch (st : DState) (l : Line) : Option (DState × List String × Option String) :=
  match l.verbs.head? with
  | some "c03" =>
    if l.verbs[1]? == some "chains" || l.verbs[1]? == some "chaindec" || l.verbs[1]? == some "chainpd" then
      (DriverC03Chain.handle l).map (fun (a, n) => (st, a, n))
    else (DriverC03.handle l).map (fun a => (st, a, none))
  | some "c02v" => (DriverC02V.handle l).map (fun (a, n) => (st, a, n))
  | some "c02s" => (DriverC02S.handle l).map (fun (a, n) => (st, a, n))
  | some "c02p" => (DriverC02P.handle l).map (fun (a, n) => (st, a, n))
  | some "c02" => (DriverC01.handle st.c01 l).map (fun (s, a, n) => ({ st with c01 := s }, a, n))
  | some "c04" => (DriverC01.handle st.c01 l).map (fun (s, a, n) => ({ st with c01 := s }, a, n))
  | some "c05" =>
    if l.verbs[1]? == some "pes" || l.verbs[1]? == some "pesr" then (DriverC05Chain.handle l).map (fun (a, n) => (st, a, n)) else
    (DriverC05.handle st.c05 l).map (fun (s, a, n) => ({ st with c05 := s }, a, n))
  | some "c06" => (DriverC01.handle st.c01 l).map (fun (s, a, n) => ({ st with c01 := s }, a, n))
  | some "c01" => (DriverC01.handle st.c01 l).map (fun (s, a, n) => ({ st with c01 := s }, a, n))
  | some "c08" => (DriverC08.handle st.c08 l).map (fun (s, a, n) => ({ st with c08 := s }, a, n))
  | some "c09" => (DriverC09.handle l).map (fun m => (st, [m], none))
  | some "c10" => (DriverC10.handle l).map (fun m => (st, [m], none))
  | some "c15" => (DriverC15.handle st.c15 l).map (fun (s, a, n) => ({ st with c15 := s }, a, n))
  | some "c16" =>
    if l.verbs[1]? == some "conc" then (DriverC16Conc.handle l).map (fun a => (st, a, none)) else
    -- free-running stress lines (harness/src/stress.rs): every operation behaves as if it ran alone
    if l.verbs[1]? == some "fsrace" then some (st, ["ok"], none) else
    (DriverC16.handle st.c16 l).map (fun (s, a, n) => ({ st with c16 := s }, a, n))
  | some "c17" => (DriverC17.handle st.c01 l).map (fun (s, a, n) => ({ st with c01 := s }, a, n))
  | some "c18" =>
    if l.verbs[1]? == some "stress" then some (st, ["ok"], none) else
    (DriverC18.handle l).map (fun (a, n) => (st, a, n))
  | some "c20" => (DriverC20.handle st.c01 l).map (fun (s, a, n) => ({ st with c01 := s }, a, n))
  | some "c19" => (DriverC19.handle l).map (fun a => (st, a, none))
  | some "c11" => (DriverC11.handle l).map (fun m => (st, [m], none))
  | some "c07" =>
    -- array operations are judged by the C01 model, hierarchy queries by the C13 model; a `MISMATCH` outcome
    -- (the two APIs disagree) never equals a prediction
    match l.verbs[1]? with
    | some "hcfg" => some ({ st with c13 := {} }, ["ok"], none)
    | some "hop" => (DriverC13.handleOp st.c13 { l with verbs := ["c13", "op"] ++ l.verbs.drop 2 }).map (fun (s, a) => ({ st with c13 := s }, a, none))
    | _ =>
      -- a stored value altered behind the API: from here to the next `cfg` the model predicts nothing; what binds is that
      -- both forms answer alike (the harness prints `MISMATCH …` otherwise)
      if l.verbs[2]? == some "corrupt_entry" then some ({ st with c07taint := true }, [l.outcome], none)
      else if st.c07taint && l.verbs[1]? != some "cfg" then
        some (st, [if l.outcome.startsWith "MISMATCH" then "the same outcome or class of error through both forms" else l.outcome], none)
      else (DriverC01.handle st.c01 l).map (fun (s, a, n) => ({ st with c01 := s, c07taint := false }, a, n))
  | some "c12" =>
    if l.verbs[1]? == some "zinflate" then (DriverC12Deflate.handle l).map (fun a => (st, a, none))
    else (DriverC12.handle st.c12 l).map (fun (s, a) => ({ st with c12 := s }, a, none))
  | some "c13" => (DriverC13.handle st.c13 l).map (fun (s, a, n) => ({ st with c13 := s }, a, n))
  | some "c14" => (DriverC14.handle l).map (fun a => (st, a, none))
  | _ => none

partial def loop (h : IO.FS.Stream) (st : DState) (n : Nat) (ok diff bad : Nat) : IO (Nat × Nat × Nat) := do
  let line ← h.getLine
  if line.isEmpty then return (ok, diff, bad)
  let s := (line.trimAsciiEnd).toString
  if s.isEmpty || s.startsWith "#" then loop h st (n + 1) ok diff bad else
  let l := parseLine s
  match dispatch st l with
  | none => IO.println s!"BAD {n}"; loop h st (n + 1) ok diff (bad + 1)
  | some (st', acc, note) =>
    -- a note starting with `info:` is informational (recorded in the evidence, never a verdict)
    if let some t := note then
      if t.startsWith "info:" then IO.println s!"INFO {n} {t}" else IO.println s!"NOTE {n} {t}"
    if acc.contains l.outcome || acc.contains "any" then loop h st' (n + 1) (ok + 1) diff bad
    else IO.println s!"DIFF {n} model={" || ".intercalate acc}"; loop h st' (n + 1) ok (diff + 1) bad

def main (args : List String) : IO UInt32 := do
  -- `driver --gen c18 <tier> <seed>`: the driver is the case generator where only the model knows the valid cases
  if args == ["--pes-stats"] then DriverC05Chain.statsMain; return 0
  if let ["--gen", "c18", tier, seed] := args then
    for l in DriverC18.genCases tier (seed.toNat?.getD 1) do IO.println l
    return 0
  if let ["--gen", "c12", tier, seed] := args then
    for l in DriverC12.genCases tier (seed.toNat?.getD 1) do IO.println l
    for l in DriverC12Deflate.genCases tier (seed.toNat?.getD 1) do IO.println l
    return 0
  let stdin ← IO.getStdin
  let (ok, diff, bad) ← loop stdin {} 1 0 0 0
  IO.println s!"SUMMARY ok={ok} diff={diff} bad={bad}"
  return 0
