import ZarrsModel.Driver.Proto
import ZarrsModel.Driver.C09
import ZarrsModel.Driver.C10
import ZarrsModel.Driver.C11
/-
Line-protocol driver: reads `request -> implementation outcome` lines, replays each request through the
model's executable definitions and prints one verdict line per request:
  `OK`                      model outcome equals the implementation outcome (or model says `any`)
  `DIFF <n> model=<...>`    they differ
  `BAD <n>`                 unparsable request (never defaulted)
-/
open Zarrs Zarrs.Proto

def dispatch (l : Line) : Option String :=
  match l.verbs.head? with
  | some "c09" => DriverC09.handle l
  | some "c10" => DriverC10.handle l
  | some "c11" => DriverC11.handle l
  | _ => none

partial def loop (h : IO.FS.Stream) (n : Nat) (ok diff bad : Nat) : IO (Nat × Nat × Nat) := do
  let line ← h.getLine
  if line.isEmpty then return (ok, diff, bad)
  let s := (line.trimAsciiEnd).toString
  if s.isEmpty || s.startsWith "#" then loop h (n + 1) ok diff bad else
  let l := parseLine s
  match dispatch l with
  | none => IO.println s!"BAD {n}"; loop h (n + 1) ok diff (bad + 1)
  | some m =>
    if m == l.outcome || m == "any" then loop h (n + 1) (ok + 1) diff bad
    else IO.println s!"DIFF {n} model={m}"; loop h (n + 1) ok (diff + 1) bad

def main : IO UInt32 := do
  let stdin ← IO.getStdin
  let (ok, diff, bad) ← loop stdin 1 0 0 0
  IO.println s!"SUMMARY ok={ok} diff={diff} bad={bad}"
  return 0
