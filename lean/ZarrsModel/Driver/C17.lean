import ZarrsModel.Model.WriteMap
import ZarrsModel.Model.WriteMapShard
import ZarrsModel.Driver.C01
/- driver handler for C17: value as in C01 + verdict on every recorded write map.

Every published buffer is judged by `tiles` (C17.tiles_iff).  In addition the recorded maps are compared with the maps
the model predicts:
* unsharded arrays, `retrieve_array_subset`: the last buffer against `ArrCfg.writeMap` (as before);
* sharded arrays (the chain description of the `cfg` line parses to a `WChain` whose array-to-bytes codec is
  `sharding_indexed`, any nesting depth, transposes and squeeze at any level), requests `retrieve_chunk`,
  `retrieve_array_subset`, `sharded_subset`, `inner_chunk`, `inner_chunks`, `pd`: ALL buffers published during the request
  against the predicted list (Model/WriteMapShard.lean: `decodePubs`, `decodeIntoPubs`, `pdPubs`, `shardedReadMap`,
  `shardedSubsetMap`), as multisets of `(length, sorted non-empty ranges)`; neither the order of the writes inside a
  buffer nor the order of the publishes (task order) is compared.

Granularity.  Every leaf view issues one write per contiguous run of its subset in the buffer's shape
(`contiguous_linearised_indices`), for `copy_from_slice` and `fill` alike, so the ranges of a buffer are decided by its
leaf views, and those by the chain and by WHICH chunks / inner chunks are stored (a missing shard is one `fill` of the
shard's view, a stored one is written inner chunk by inner chunk through `decode_into`).  The driver knows the store
(the model store of C01; an inner chunk is stored iff it is not all fill, `ShardingCodec::encode`), so the run
granularity is stable and is what is compared.  Ranges are NOT merged: merging adjacent ranges would turn every complete
map into the single range `(0, len)` and the comparison into the `tiles` verdict again. -/
namespace Zarrs.DriverC17
open Zarrs Zarrs.Proto Zarrs.Partial

def parseRange (s : String) : Option (Nat × Nat) :=
  match s.splitOn ":" with
  | [o, l] => do pure (← o.toNat?, ← l.toNat?)
  | _ => none

/-- `<len>@<off>:<len>,...` -/
def parseMap (s : String) : Option (Nat × List (Nat × Nat)) :=
  match s.splitOn "@" with
  | [n, body] => do
    let len ← n.toNat?
    if body == "~" then pure (len, []) else
    let rs ← (body.splitOn ",").mapM parseRange
    pure (len, rs)
  | _ => none

def sameRanges (a b : List (Nat × Nat)) : Bool :=
  sortRanges (a.filter (·.2 != 0)) == sortRanges (b.filter (·.2 != 0))

/-! ### the chain description of the `cfg` line (harness/src/arr.rs `gen_chain`) -/

/-- split at `sep` outside brackets -/
def splitTop (sep : Char) (s : String) : List String :=
  let (parts, cur, _) := s.toList.foldl (fun (acc : List String × List Char × Nat) ch =>
    let (parts, cur, depth) := acc
    if ch == '[' then (parts, ch :: cur, depth + 1)
    else if ch == ']' then (parts, ch :: cur, depth - 1)
    else if ch == sep && depth == 0 then (String.ofList cur.reverse :: parts, [], depth)
    else (parts, ch :: cur, depth)) ([], [], 0)
  (String.ofList cur.reverse :: parts).reverse

def parseA2A (tok : String) : Option AStage :=
  if tok == "squeeze" then some .squeeze
  else if tok.startsWith "transpose" then
    ((tok.drop 9).toString.toList.mapM (fun (c : Char) => if c.isDigit then some (c.toNat - 48) else none)).map AStage.transpose
  else none

/-- `transpose10|shard[2x2;end;le;bytes-little|gzip]|crc32c` → `WChain` (bytes-to-bytes codecs and the kind of a
non-sharding array-to-bytes codec do not matter for views) -/
def parseChain : Nat → String → Option WChain
  | 0, _ => none
  | fuel + 1, s =>
    let toks := splitTop '|' s
    let a2a := (toks.takeWhile (fun t => (parseA2A t).isSome)).filterMap parseA2A
    match toks.dropWhile (fun t => (parseA2A t).isSome) with
    | [] => none
    | t :: _ =>
      if t.startsWith "shard[" then
        let body := ((t.drop 6).toString.dropEnd 1).toString
        match splitTop ';' body with
        | [ish, _, _, sub] => do
          let inner ← (ish.splitOn "x").mapM (·.toNat?)
          let subc ← parseChain fuel sub
          pure (.shard a2a inner subc)
        | _ => none
      else some (.leaf a2a)

/-! ### predicted publishes -/

structure Ctx where
  cfg : ArrCfg DriverC01.Elem
  kv : KV
  es : Nat
  chain : WChain

/-- presence of chunk `c` (`none`: the model cannot read the chunk) -/
def Ctx.pres (x : Ctx) (c : Idx) : Option (Shape × Presence) := do
  let sh ← x.cfg.chunkShape c
  let data ← x.cfg.retrieveChunkIfExists x.kv c
  pure (sh, x.chain.presence x.cfg.storeEmpty x.cfg.fill sh data)

/-- `retrieve_chunk_opt` -/
def Ctx.chunkPubs (x : Ctx) (c : Idx) : Option (List Pub) := do
  let (sh, p) ← x.pres c
  x.chain.decodePubs x.es sh p

/-- `retrieve_chunk_subset_opt(c, q)` -/
def Ctx.chunkSubsetPubs (x : Ctx) (c : Idx) (q : Subset) : Option (List Pub) := do
  let (sh, p) ← x.pres c
  if !q.inboundsShape sh then none
  else if q.start.all (· == 0) && q.shape == sh then x.chain.decodePubs x.es sh p
  else x.chain.pdPubs x.es sh p q

/-- `retrieve_array_subset_opt(r)` -/
def Ctx.subsetPubs (x : Ctx) (r : Subset) : Option (List Pub) := do
  if r.rank != x.cfg.shape.length then none else
  let box ← x.cfg.grid.chunksInArraySubset r x.cfg.shape
  match box.numElements with
  | 0 => pure []
  | 1 =>
    let cs ← x.cfg.chunkSubset box.start
    if cs == r then x.chunkPubs box.start else x.chunkSubsetPubs box.start (r.relativeTo cs.start)
  | _ =>
    if r.numElements * x.es == 0 then pure [] else
    let inner ← flatOpt (box.indices.map (fun c => do
      let cs ← x.cfg.grid.subset c
      let (sh, p) ← x.pres c
      let q := (cs.overlap r).relativeTo cs.start
      if !q.inboundsShape sh then none
      else if q.start.all (· == 0) && q.shape == sh then x.chain.decodeIntoPubs x.es sh p
      else x.chain.pdPubs x.es sh p q))
    let trees : List (Idx × IntoTree) ← box.indices.mapM (fun c => do
      let (_, p) ← x.pres c
      pure (c, x.chain.intoTree p))
    let tree : Idx → IntoTree := fun c => ((trees.find? (·.1 == c)).map (·.2)).getD .fill
    let m ← x.cfg.shardedReadMap tree r x.es
    pure (inner ++ [(r.numElements * x.es, m)])

/-- `retrieve_array_subset_sharded_opt(r)` on a sharded array -/
def Ctx.shardedSubsetPubs (x : Ctx) (r : Subset) : Option (List Pub) := do
  let box ← x.cfg.grid.chunksInArraySubset r x.cfg.shape
  if box.numElements == 0 then pure [] else
  if r.numElements * x.es == 0 then pure [] else
  let inner ← flatOpt (box.indices.map (fun c => do
    let cs ← x.cfg.grid.subset c
    let (sh, p) ← x.pres c
    x.chain.pdPubs x.es sh p ((cs.overlap r).relativeTo cs.start)))
  let m ← x.cfg.shardedSubsetMap r x.es
  pure (inner ++ [(r.numElements * x.es, m)])

def isSharded : WChain → Bool
  | .shard .. => true
  | .leaf _ => false

/-- the buffers the request publishes (`none`: not a request with a prediction, or the model has none) -/
def Ctx.expect (x : Ctx) (verb : String) (l : Line) : Option (List Pub) := do
  match verb with
  | "retrieve_chunk" => x.chunkPubs (← l.nl "c")
  | "retrieve_array_subset" => x.subsetPubs (← DriverC01.parseSubset (← l.get "r"))
  | "sharded_subset" => x.shardedSubsetPubs (← DriverC01.parseSubset (← l.get "r"))
  | "inner_chunk" =>
    let ic ← l.nl "ic"; let ish ← l.nl "ishape"
    let r : Subset := ⟨zipMul ic ish, ish⟩
    let c ← x.cfg.grid.chunkIndices r.start
    let cs ← x.cfg.chunkSubset c
    let (sh, p) ← x.pres c
    x.chain.pdPubs x.es sh p (r.relativeTo cs.start)
  | "inner_chunks" =>
    let ib ← DriverC01.parseSubset (← l.get "ibox"); let ish ← l.nl "ishape"
    let r : Subset := ⟨zipMul ib.start ish, zipMul ib.shape ish⟩
    if r.isEmpty then pure [] else x.shardedSubsetPubs r
  | "pd" =>
    let c ← l.nl "c"
    let rs ← ((← l.get "rs").splitOn "|").mapM DriverC01.parseSubset
    let (sh, p) ← x.pres c
    flatOpt (rs.map (fun r => x.chain.pdPubs x.es sh p r))
  | _ => none

def canon (p : Pub) : Pub := (p.1, sortRanges (p.2.filter (·.2 != 0)))

/-- multiset equality of canonical publishes -/
def samePubs (a b : List Pub) : Bool :=
  let ca := a.map canon
  let cb := b.map canon
  ca.length == cb.length && (ca.foldl (fun (rest : Option (List Pub)) p =>
    match rest with
    | none => none
    | some r => if r.contains p then some (r.erase p) else none) (some cb)).isSome

def showPub (p : Pub) : String :=
  toString p.1 ++ "@" ++ ",".intercalate (p.2.map (fun r => toString r.1 ++ ":" ++ toString r.2))

def handle (st : DriverC01.St) (l : Line) : Option (DriverC01.St × List String × Option String) := do
  -- an array whose sharding configuration is INVALID (path `/bad`: the inner chunk shape does not divide the shard shape):
  -- nothing is predicted; an operation may fail, and a buffer that IS returned must be tiled by the recorded writes
  if st.path == "/bad".toList && l.verbs[1]? != some "cfg" then
    match l.outcome.splitOn " wmaps=" with
    | [_, wm] =>
      let ms ← if wm == "-" then pure [] else (wm.splitOn ";").mapM parseMap
      if ms.all (fun m => tiles m.1 m.2) then return (st, [l.outcome], none)
      else return (st, ["every published buffer must be tiled by the recorded writes (invalid sharding configuration)"], none)
    | _ => return (st, [if l.outcome == "panic" then "an error (not a panic)" else l.outcome], none)
  match l.outcome.splitOn " wmaps=" with
  | [val, wm] =>
    -- `async_subset`: the value of `retrieve_array_subset`; its buffers are judged by tiling only
    let lv := if l.verbs[2]? == some "async_subset" then { l with verbs := l.verbs.set 2 "retrieve_array_subset" } else l
    let (st', acc, note) ← DriverC01.handle st { lv with outcome := val }
    -- a region the model rejects (it reaches beyond the chunk grid): the property speaks of buffers that ARE returned, so an
    -- error and a panic both return nothing to judge here (the panic is recorded as an observation in DESIGN §10.4)
    let acc := if acc == ["err"] && val == "panic" then [val] else acc
    let ms ← if wm == "-" then pure [] else (wm.splitOn ";").mapM parseMap
    let bad := ms.filter (fun m => !tiles m.1 m.2)
    if !bad.isEmpty then
      pure (st', ["every published buffer must be tiled by the recorded writes; untiled buffer of length " ++ toString (bad.head!.1)], note)
    else
      let sharded := (st.chain.splitOn "shard").length > 1
      -- on the plain (unsharded) multi-chunk path the map must be the predicted one
      let note2 := match st.cfg, l.verbs[2]?, (l.get "r").bind DriverC01.parseSubset with
        | some cfg, some "retrieve_array_subset", some r =>
          if st.es == 0 || sharded then none else
          match cfg.writeMap r st.es, ms.getLast? with
          | some pm, some m =>
            if m.1 == r.numElements * st.es && !sameRanges pm m.2 && m.2.length > 1 then some "write map differs from the predicted map" else none
          | _, _ => none
        | _, _, _ => none
      -- sharded arrays: every buffer published during the request against the model's list
      let note3 := match st.cfg, l.verbs[2]?, parseChain 8 st.chain with
        | some cfg, some verb, some chain =>
          if st.es == 0 || !isSharded chain || !val.startsWith "val" then none else
          let x : Ctx := { cfg := cfg, kv := st.st, es := st.es, chain := chain }
          match x.expect verb l with
          | none =>
            if ["retrieve_chunk", "retrieve_array_subset", "sharded_subset", "inner_chunk", "inner_chunks", "pd"].contains verb
            then some "no predicted write maps for a request the implementation answered" else none
          | some pubs =>
            if samePubs pubs ms then none
            else some ("published write maps differ from the predicted ones: model=" ++ ";".intercalate ((pubs.map canon).map showPub))
        | _, _, _ => none
      pure (st', acc.map (· ++ " wmaps=" ++ wm), (note.orElse (fun _ => note2)).orElse (fun _ => note3))
  | _ =>
    let (st', acc, note) ← DriverC01.handle st l
    pure (st', acc, note)

end Zarrs.DriverC17
