import ZarrsModel.Model.WriteMap
import ZarrsModel.Driver.C01
/- driver handler for C17: value as in C01 + verdict on every recorded write map -/
namespace Zarrs.DriverC17
open Zarrs Zarrs.Proto

def parseRange (s : String) : Option (Nat × Nat) :=
  match s.splitOn ":" with
  | [o, l] => do pure (← o.toNat?, ← l.toNat?)
  | _ => none

/-- `<len>@<off>:<len>,...` -/
def parseMap (s : String) : Option (Nat × List (Nat × Nat)) :=
  match s.splitOn "@" with
  | [n, body] => do
    let len ← n.toNat?
    if body == "~" then pure (len, []) else
    let rs ← (body.splitOn ",").mapM parseRange
    pure (len, rs)
  | _ => none

def sameRanges (a b : List (Nat × Nat)) : Bool :=
  sortRanges (a.filter (·.2 != 0)) == sortRanges (b.filter (·.2 != 0))

def handle (st : DriverC01.St) (l : Line) : Option (DriverC01.St × List String × Option String) := do
  match l.outcome.splitOn " wmaps=" with
  | [val, wm] =>
    let (st', acc, note) ← DriverC01.handle st { l with outcome := val }
    if wm == "-" then pure (st', acc.map (· ++ " wmaps=-"), note) else
    let ms ← (wm.splitOn ";").mapM parseMap
    let bad := ms.filter (fun m => !tiles m.1 m.2)
    if !bad.isEmpty then
      pure (st', ["every published buffer must be tiled by the recorded writes; untiled buffer of length " ++ toString (bad.head!.1)], note)
    else
      -- on the plain (unsharded) multi-chunk path the map must be the predicted one
      let note2 := match st.cfg, l.verbs[2]?, (l.get "r").bind DriverC01.parseSubset with
        | some cfg, some "retrieve_array_subset", some r =>
          if st.es == 0 || (st.chain.splitOn "shard").length > 1 then none else
          match cfg.writeMap r st.es, ms.getLast? with
          | some pm, some m =>
            if m.1 == r.numElements * st.es && !sameRanges pm m.2 && m.2.length > 1 then some "write map differs from the predicted map" else none
          | _, _ => none
        | _, _, _ => none
      pure (st', acc.map (· ++ " wmaps=" ++ wm), note.orElse (fun _ => note2))
  | _ =>
    let (st', acc, note) ← DriverC01.handle st l
    pure (st', acc, note)

end Zarrs.DriverC17
