import ZarrsModel.Driver.C03
import ZarrsModel.Model.Shard
/- driver handler for C05: reads as in C01 (the model IS the full-rewrite semantics); the raw stored value of a chunk
is parsed independently: a non-sharded value of a fully modelled chain must be exactly the encoding of the chunk, a
shard must be well formed (index at its declared location, live entries inside the value, outside the index, pairwise
disjoint) and, for a plain shard, an entry is the sentinel exactly when its inner chunk is all fill -/
namespace Zarrs.DriverC05
open Zarrs Zarrs.Proto Zarrs.Codec

/-- split at top-level `|` (not inside brackets) -/
def splitTop (s : String) : List String :=
  let (parts, cur, _) := s.toList.foldl (fun (acc : List String × List Char × Nat) ch =>
    let (ps, cur, depth) := acc
    if ch == '[' then (ps, cur ++ [ch], depth + 1)
    else if ch == ']' then (ps, cur ++ [ch], depth - 1)
    else if ch == '|' && depth == 0 then (ps ++ [String.ofList cur], [], depth)
    else (ps, cur ++ [ch], depth)) ([], [], 0)
  parts ++ [String.ofList cur]

def swapUnit (dtype : String) (es : Nat) : Nat :=
  if dtype == "complex64" then 4 else if dtype.startsWith "r" || dtype == "bool" then 1 else es

/-- encode a chunk with a fully modelled unsharded chain; none if some codec is not modelled -/
def encodeModelled (toks : List String) (dtype : String) (es : Nat) (shape : Shape) (xs : List (List Nat)) : Option Bytes :=
  let step (acc : Option DriverC03.Acc) (tok : String) : Option DriverC03.Acc := acc.bind (fun a =>
    if tok.startsWith "transpose" then
      let order := ((tok.drop 9).toString.toList.map (fun c => c.toNat - 48))
      DriverC03.stepCodec es a ("transpose:" ++ showNl order)
    else if tok == "squeeze" then DriverC03.stepCodec es a "squeeze"
    else if tok == "bytes" || tok == "bytes-little" then DriverC03.stepCodec es a ("bytes:little:" ++ toString (swapUnit dtype es))
    else if tok == "bytes-big" then DriverC03.stepCodec es a ("bytes:big:" ++ toString (swapUnit dtype es))
    else if tok == "crc32c" then DriverC03.stepCodec es a "crc32c"
    else if tok == "fletcher32" then DriverC03.stepCodec es a "fletcher32"
    else if tok == "shuffle" then DriverC03.stepCodec es a ("shuffle:" ++ toString (if es == 0 then 2 else es))
    else none)
  (toks.foldl step (some { elems := xs, shape := shape })).bind (·.bytes)

/-- `shard[<inner>;<loc>;<idx>;<inner chain>]` -/
structure ShardDesc where
  inner : Shape
  atEnd : Bool
  big : Bool
  crc : Bool
  innerChain : String

def parseShard (tok : String) : Option ShardDesc :=
  if !(tok.startsWith "shard[" && tok.endsWith "]") then none else
  let body := ((tok.drop 6).toString.dropEnd 1).toString
  match body.splitOn ";" with
  | inner :: loc :: idx :: rest => do
    let ish ← (inner.splitOn "x").mapM (·.toNat?)
    pure { inner := ish, atEnd := loc == "end", big := idx == "be", crc := idx == "le+crc", innerChain := ";".intercalate rest }
  | _ => none

def judgeRaw (st : DriverC01.St) (dtype : String) (c : Idx) (raw : Option Bytes) : Option String :=
  match st.cfg with
  | none => none
  | some cfg =>
    let toks := splitTop st.chain
    match cfg.chunkShape c, cfg.retrieveChunk st.st c with
    | some cshape, some xs =>
      let allFill := xs.all (· == cfg.fill)
      match raw with
      | none => if allFill then none else some "the chunk holds non-fill data but its key is absent"
      | some v =>
        -- position of a top-level sharding codec
        match toks.findIdx? (·.startsWith "shard[") with
        | none =>
          (match encodeModelled toks dtype st.es cshape xs with
           | some e => if e == v then none else some ("the stored value is not the encoding of the chunk: expected " ++ showHex e)
           | none => none)
        | some i =>
          if i + 1 != toks.length then none else   -- an outer bytes-to-bytes codec hides the shard
          match parseShard (toks.getD i "") with
          | none => none
          | some sd =>
            -- encoded shard shape: after the array-to-array codecs; the number of inner chunks only needs the element counts
            let n := if prod sd.inner == 0 then 0 else prod cshape / prod sd.inner
            let scfg : Shard.Cfg := ⟨n, sd.atEnd, sd.big, sd.crc⟩
            if !Shard.wellFormed scfg v then some "malformed shard: index not decodable at its declared location, or a live entry outside the value / inside the index / overlapping another"
            else if i != 0 || (sd.innerChain.splitOn "shard[").length > 1 then none else
            -- plain shard (no array-to-array codec before it, not nested): sentinel <-> inner chunk all fill
            match Shard.indexBytes scfg v with
            | none => some "no index"
            | some ib =>
              match Shard.decodeIndex scfg true ib with
              | .error _ => some "index"
              | .ok entries =>
                let innerBox : Subset := ⟨cshape.map (fun _ => 0), cshape⟩
                let innerChunks := (innerBox.chunks sd.inner).map (·.2)
                let bad := (List.zip innerChunks entries).any (fun (sub, e) =>
                  let elems := sub.extract cshape xs
                  let fill := elems.all (· == cfg.fill)
                  -- with store_empty_chunks inner chunks that are all fill may be stored; a missing one must be all fill
                  !Shard.isLive e && !fill)
                if bad then some "an inner chunk with non-fill data has the sentinel index entry" else none
    | _, _ => none

structure St where
  base : DriverC01.St := {}
  dtype : String := ""

def handle (st : St) (l : Line) : Option (St × List String × Option String) := do
  let v1 ← l.verbs[1]?
  if v1 == "cfg" then
    let (b, acc, n) ← DriverC01.handle st.base l
    pure ({ base := b, dtype := (l.get "dtype").getD "" }, acc, n)
  else
    let verb ← l.verbs[2]?
    match verb with
    | "keys" => pure (st, ["any"], none)      -- key presence may differ (partial encoders erase empty values); contents may not
    | "retrieve_chunk_if_exists" =>
      let (b, acc, n) ← DriverC01.handle st.base l
      -- presence is not part of C05: an absent chunk must be all fill, a present one must have the model's contents
      let acc' := match st.base.cfg with
        | some cfg =>
          (match cfg.retrieveChunk st.base.st ((l.nl "c").getD []) with
           | some xs => if xs.all (· == cfg.fill) then acc ++ ["none", "val " ++ DriverC01.showElems xs] else acc
           | none => acc)
        | none => acc
      pure ({ st with base := b }, acc', n)
    | "raw" =>
      let c ← l.nl "c"
      let rawv : Option (Option Bytes) :=
        if l.outcome == "raw none" then some none
        else if l.outcome.startsWith "raw " then (parseHex ((l.outcome.drop 4).toString)).map some else none
      match rawv with
      | none => pure (st, ["raw <value>"], none)
      | some r =>
        match judgeRaw st.base st.dtype c r with
        | none => pure (st, [l.outcome], none)
        | some why => pure (st, ["raw: " ++ why], none)
    | _ =>
      let (b, acc, n) ← DriverC01.handle st.base l
      pure ({ st with base := b }, acc, n)

end Zarrs.DriverC05
