import ZarrsModel.Model.VlenArr
import ZarrsModel.Driver.C03
/-
driver handler for variable-length arrays (verb `c02v`, harness/src/c02v.rs): the request carries the chunk shape, the
transposes, the vlen codec (`vlenv2:<name>` | `vlen:<32|64>:<little|big>:<index crc32c>:<data crc32c>`), the
bytes-to-bytes codecs (crc32c / fletcher32), the fill value, the elements written and the RAW stored value.
  `key`  the model's element-wise fill test (`isFillVlen` on the canonical value) decides absent / present, and
         `ChainV.encode` predicts the stored bytes;
  `dec`  `ChainV.decode raw` predicts `retrieve_chunk` (absent: all fill);
  `pd`   `ChainV.partialDecoder` over `storeHandle raw` predicts `partial_decoder(chunk).partial_decode(regions)`.
The chain is given the array cache `CodecChain::new` inserts directly above a vlen codec (`.cache` as the last
array-to-array stage).
-/
namespace Zarrs.DriverC02V
open Zarrs Zarrs.Proto Zarrs.Codec Zarrs.Partial Zarrs.Vlen Zarrs.VlenArr

def parseA2A (s : String) : Option (List AStage) :=
  if s == "-" then some [] else (s.splitOn "|").mapM (fun tok =>
    match tok.splitOn ":" with
    | ["transpose", ord] => (parseNl ord).map AStage.transpose
    | _ => none)

def parseB2B (s : String) : Option (List BStage) :=
  if s == "-" then some [] else (s.splitOn "|").mapM (fun tok =>
    match tok with
    | "crc32c" => some (BStage.stripSuffix 4 crc32c)
    | "fletcher32" => some (BStage.stripSuffix 4 fletcher32)
    | _ => none)

def parseCodec (s : String) : Option VCodec :=
  match s.splitOn ":" with
  | ["vlenv2", _] => some .v2
  | "vlen" :: _ => (DriverC03.vlenCfgOf s).map VCodec.vlen
  | _ => none

def showParts (parts : List VArr) : String :=
  "val " ++ "|".intercalate (parts.map (fun v => DriverC01.showElems v.elems))

/-- acceptable outcomes, optional note -/
def handle (l : Line) : Option (List String × Option String) := do
  let sh ← l.nl "sh"
  let fill ← parseHex (← l.get "fill")
  let a2a ← parseA2A (← l.get "a2a")
  let codec ← parseCodec (← l.get "codec")
  let b2b ← parseB2B (← l.get "b2b")
  let c : ChainV := ⟨a2a ++ [.cache], codec, b2b⟩
  let data : Option (List Bytes) := (l.get "data").bind DriverC01.parseElems
  match l.verbs[1]? with
  | some "key" =>
    let xs ← data
    -- `pad`: the value written has leading bytes before its first offset
    let v : VArr ← (match l.get "pad" with
      | none => some (VArr.ofElems xs)
      | some p => (parseHex p).map (fun pad => ⟨pad ++ xs.flatten, offsetsFrom pad.length xs⟩))
    if isFillVlen v fill then pure (["absent"], none)
    else match c.encode sh v with
      | some e => pure (["present " ++ showHex e], none)
      | none => pure (["err"], none)
  | some "dec" =>
    let raw : Option Bytes ← (match ← l.get "raw" with
      | "absent" => some none
      | s => (parseHex s).map some)
    let got : Option (List Bytes) := match raw with
      | none => some (List.replicate (prod sh) fill)
      | some b => (c.decode sh b).map VArr.elems
    let acc := match got with
      | some xs => ["val " ++ DriverC01.showElems xs]
      | none => ["err"]
    let note : Option String :=
      match data, l.get "corrupt" with
      | some xs, some "0" => if got == some xs then none else some "model full decode differs from the data written"
      | _, _ => none
    pure (acc, note)
  | some "pd" =>
    let raw : Option Bytes ← (match ← l.get "raw" with
      | "absent" => some none
      | s => (parseHex s).map some)
    let rs ← ((← l.get "rs").splitOn "|").mapM DriverC01.parseSubset
    let pd := c.partialDecoder sh fill (storeHandle raw)
    let acc := match pd rs with
      | some parts => [showParts parts]
      | none => ["err"]
    -- cross-checks on uncorrupted values: the whole chunk through the partial decoder is the data written, and every
    -- in-bounds answer is the region of the data written (the statement of `chainV_partial_eq_full_slice`)
    let note : Option String :=
      match data, l.get "corrupt" with
      | some xs, some "0" =>
        (match pd [Subset.ofShape sh] with
         | some [w] =>
           if w.elems != xs then some "model full read differs from the data written"
           else if rs.all (fun r => r.wf && r.inboundsShape sh) &&
               (pd rs).map (fun ps => ps.map VArr.elems) != some (rs.map (fun r => r.extract sh xs)) then
             some "model partial read differs from the regions of the data written"
           else none
         | _ => some "model cannot read the whole chunk")
      | _, _ => none
    pure (acc, note)
  | _ => none

end Zarrs.DriverC02V
