import ZarrsModel.Model.Iter
import ZarrsModel.Model.IterApi
import ZarrsModel.Driver.Proto
/- driver handlers for C09: compute the model outcome of each request in canonical text -/
namespace Zarrs.DriverC09
open Zarrs Zarrs.Proto

def dirsOf (s : String) : List Bool := s.toList.filterMap (fun c => if c == 'f' then some true else if c == 'b' then some false else none)

/-- run an iterator with a direction pattern, also recording `len` before and after every call -/
def runLens : Iter → List Bool → List Nat
  | it, [] => [it.len]
  | it, true :: ds => it.len :: (match it.next with | some (_, it') => runLens it' ds | none => runLens it ds)
  | it, false :: ds => it.len :: (match it.nextBack with | some (_, it') => runLens it' ds | none => runLens it ds)

def showSubset (s : Subset) : String := showNl s.start ++ "+" ++ showNl s.shape

partial def parseTree : List String → Option (SplitTree × List String)
  | [] => none
  | t :: rest =>
    if t == "L" then some (.leaf, rest) else
    match (t.drop 1).toNat? with
    | none => none
    | some k =>
      match parseTree rest with
      | none => none
      | some (l, rest1) =>
        match parseTree rest1 with
        | none => none
        | some (r, rest2) => some (.node k l r, rest2)



def showDrive (showItem : List Idx → String) (it : Iter) (dirs : List Bool) : String :=
  let r := it.run dirs
  "f=" ++ showItem r.1 ++ " b=" ++ showItem r.2.1 ++ " r=" ++ showItem r.2.2.items ++
  " lens=" ++ showNl (runLens it dirs) ++ " len=" ++ toString it.len

def showChunkItems (cs : Shape) (xs : List Idx) : String :=
  if xs.isEmpty then "~" else
  ";".intercalate (xs.map (fun c => showNl c ++ "@" ++ showSubset ⟨zipMul c cs, cs⟩))

def showLeaves (show1 : List Idx → String) (t : SplitTree) (it : Iter) : String :=
  "|".intercalate ((t.leaves it).map (fun l => show1 l.items ++ "#" ++ toString l.len))

/-- the checked constructors guard: rank and bounds -/
def guardShape (s : Subset) (arr : Shape) : Bool := s.inboundsShape arr

/-! ### API-coverage additions (explicit index ranges, `_unchecked` variants, remaining constructors) -/

def parseBnd (s : String) : Option Bnd :=
  if s == "u" then some .unb
  else if s.startsWith "i" then (s.drop 1).toNat?.map Bnd.incl
  else if s.startsWith "x" then (s.drop 1).toNat?.map Bnd.excl
  else none

def showRanges (rs : List (Nat × Nat)) : String :=
  if rs.isEmpty then "~" else ";".intercalate (rs.map (fun p => toString p.1 ++ ":" ++ toString p.2))

def evens {α} : List α → List α
  | [] => []
  | [x] => [x]
  | x :: _ :: rest => x :: evens rest

def linOf (arr : Shape) (xs : List Idx) : String := showNl (xs.map (fun i => ravel i arr))

def handleApi (l : Line) (verb : String) : Option String := do
  match verb with
  | "irange" =>
    let s : Subset := ⟨← l.nl "start", ← l.nl "shape"⟩
    let lo ← parseBnd (← l.get "lo"); let hi ← parseBnd (← l.get "hi")
    let d ← l.get "dirs"
    let it := Iter.newBounds s lo hi
    pure ("val " ++ showDrive showNll it (dirsOf d) ++ " empty=" ++ showBool (it.len == 0) ++
      " plen=" ++ toString it.len ++ " optlen=" ++ toString it.len ++ " count=" ++ toString it.items.length)
  | "irangesplit" =>
    let s : Subset := ⟨← l.nl "start", ← l.nl "shape"⟩
    let lo ← parseBnd (← l.get "lo"); let hi ← parseBnd (← l.get "hi")
    let (t, _) ← parseTree ((← l.get "tree").splitOn ".")
    pure ("val " ++ showLeaves showNll t (Iter.newBounds s lo hi))
  | "par" =>
    let s : Subset := ⟨← l.nl "start", ← l.nl "shape"⟩
    let lo ← parseBnd (← l.get "lo"); let hi ← parseBnd (← l.get "hi")
    -- predicted from the specification slice of the enumeration (Props/C09Api `newBounds_items`)
    let xs := s.indicesRange lo.lo (hi.hi s.numElements)
    pure ("val " ++ showNll xs ++ " even=" ++ showNll (evens xs) ++ " count=" ++ toString xs.length)
  | "parchunks" =>
    let s : Subset := ⟨← l.nl "start", ← l.nl "shape"⟩
    let cs ← l.nl "cs"
    let xs := (s.chunks cs).map (·.1)
    let n := toString xs.length
    pure ("val " ++ showChunkItems cs xs ++ " plen=" ++ n ++ " optlen=" ++ n ++ " count=" ++ n)
  | "ulin" =>
    let s : Subset := ⟨← l.nl "start", ← l.nl "shape"⟩
    let arr ← l.nl "arr"; let d ← l.get "dirs"
    pure ("val " ++ showDrive (linOf arr) (Iter.new s) (dirsOf d) ++ " empty=" ++ showBool (s.numElements == 0))
  | "ucontig" =>
    let s : Subset := ⟨← l.nl "start", ← l.nl "shape"⟩
    let arr ← l.nl "arr"; let d ← l.get "dirs"
    let c := s.contiguous arr
    let r := toString c.run
    pure ("val run=" ++ r ++ " runusize=" ++ r ++ " itrun=" ++ r ++ " itrunusize=" ++ r ++ " " ++
      showDrive showNll (Iter.new c.starts) (dirsOf d) ++ " empty=" ++ showBool (c.starts.numElements == 0))
  | "ucontiglin" =>
    let s : Subset := ⟨← l.nl "start", ← l.nl "shape"⟩
    let arr ← l.nl "arr"; let d ← l.get "dirs"
    let c := s.contiguous arr
    let r := toString c.run
    pure ("val run=" ++ r ++ " runusize=" ++ r ++ " itrun=" ++ r ++ " itrunusize=" ++ r ++ " " ++
      showDrive (linOf arr) (Iter.new c.starts) (dirsOf d) ++ " empty=" ++ showBool (c.starts.numElements == 0))
  | "ubyteranges" =>
    let s : Subset := ⟨← l.nl "start", ← l.nl "shape"⟩
    let arr ← l.nl "arr"; let es ← l.nat "es"
    pure ("val " ++ showRanges (s.byteRangesUnchecked arr es))
  | "uextract" =>
    let s : Subset := ⟨← l.nl "start", ← l.nl "shape"⟩
    let arr ← l.nl "arr"; let n ← l.nat "n"
    pure ("val " ++ showNl (s.extract arr (List.range n)))
  | "uchunks" =>
    let s : Subset := ⟨← l.nl "start", ← l.nl "shape"⟩
    let cs ← l.nl "cs"; let d ← l.get "dirs"
    let it := Iter.new (s.chunkBox cs)
    pure ("val " ++ showDrive (showChunkItems cs) it (dirsOf d) ++ " empty=" ++ showBool (it.len == 0))
  | "uoverlap" =>
    let a : Subset := ⟨← l.nl "astart", ← l.nl "ashape"⟩
    let b : Subset := ⟨← l.nl "bstart", ← l.nl "bshape"⟩
    let o := a.overlap b
    pure ("val " ++ showSubset o ++ " empty=" ++ showBool o.isEmpty)
  | "ubound" =>
    let s : Subset := ⟨← l.nl "start", ← l.nl "shape"⟩
    pure ("val " ++ showSubset (s.bound (← l.nl "end")))
  | "urelto" =>
    let s : Subset := ⟨← l.nl "start", ← l.nl "shape"⟩
    let o ← l.nl "o"
    if s.relativeToUnderflows o then pure "panic" else pure ("val " ++ showSubset (s.relativeTo o))
  | "uctor" =>
    let a ← l.nl "a"; let b ← l.nl "b"
    pure ("val inc=" ++ showSubset (Subset.ofStartEndInc a b) ++ " exc=" ++ showSubset (Subset.ofStartEndExc a b) ++
      " ss=" ++ showSubset ⟨a, b⟩)
  | "misc" =>
    let s : Subset := ⟨← l.nl "start", ← l.nl "shape"⟩
    let rs := s.toRanges
    let rtxt := if rs.isEmpty then "~" else ";".intercalate (rs.map (fun p => toString p.1 ++ ".." ++ toString p.2))
    let disp := "[" ++ ", ".intercalate (rs.map (fun p => toString p.1 ++ ".." ++ toString p.2)) ++ "]"
    pure ("val ranges=" ++ rtxt ++ " viaranges=" ++ showSubset (Subset.ofRanges rs) ++ " usize=" ++ showNl s.shape ++
      " nusize=" ++ toString s.numElements ++ " withshape=" ++ showSubset (Subset.withShape s.shape) ++
      " newempty=" ++ showSubset (Subset.newEmpty s.rank) ++ " disp=" ++ disp)
  | "iters" =>
    let s : Subset := ⟨← l.nl "start", ← l.nl "shape"⟩
    let arr ← l.nl "arr"; let cs ← l.nl "cs"
    let c := s.contiguous arr
    let ok := guardShape s arr
    let sb (b : Bool) := showBool b
    let ind := toString s.numElements ++ "/" ++ sb (s.numElements == 0) ++ "/" ++ showNll (Iter.new s).items
    let lin := if !ok then "err" else
      toString s.numElements ++ "/" ++ sb (s.numElements == 0) ++ "/" ++ showNl (s.linearised arr)
    let cn := c.starts.numElements
    let contig := if !ok then "err" else
      toString cn ++ "/" ++ sb (cn == 0) ++ "/" ++ toString c.run ++ "/" ++ showNll (s.contiguousIndices arr)
    let contiglin := if !ok then "err" else
      toString cn ++ "/" ++ sb (cn == 0) ++ "/" ++ toString c.run ++ "/" ++ showNl (s.contiguousLinearised arr)
    let chs := (s.chunks cs).map (·.1)
    let chunks := if cs.length != s.rank then "err" else
      toString chs.length ++ "/" ++ sb (chs.length == 0) ++ "/" ++ showChunkItems cs chs
    let unchecked := if ok && cs.length == s.rank then
      showNl (s.linearised arr) ++ "/" ++ showNll (s.contiguousIndices arr) ++ "/" ++
        showNl (s.contiguousLinearised arr) ++ "/" ++ showChunkItems cs chs
      else "skip"
    pure ("val ind=" ++ ind ++ " lin=" ++ lin ++ " contig=" ++ contig ++ " contiglin=" ++ contiglin ++
      " chunks=" ++ chunks ++ " unchecked=" ++ unchecked)
  | _ => none

def handle (l : Line) : Option String := do
  let verb ← l.verbs[1]?
  match verb with
  | "unravel" =>
    let n ← l.nat "n"; let sh ← l.nl "shape"
    if unravelPanics sh then pure "panic" else pure ("val " ++ showNl (unravel n sh))
  | "ravel" =>
    let i ← l.nl "i"; let sh ← l.nl "shape"
    pure ("val " ++ toString (ravel i sh))
  | "indices" =>
    let s : Subset := ⟨← l.nl "start", ← l.nl "shape"⟩
    let d ← l.get "dirs"
    pure ("val " ++ showDrive showNll (Iter.new s) (dirsOf d))
  | "split" =>
    let s : Subset := ⟨← l.nl "start", ← l.nl "shape"⟩
    let (t, _) ← parseTree ((← l.get "tree").splitOn ".")
    pure ("val " ++ showLeaves showNll t (Iter.new s))
  | "splitchunks" =>
    let s : Subset := ⟨← l.nl "start", ← l.nl "shape"⟩
    let cs ← l.nl "cs"
    let (t, _) ← parseTree ((← l.get "tree").splitOn ".")
    pure ("val " ++ showLeaves showNll t (Iter.new (s.chunkBox cs)))
  | "lin" =>
    let s : Subset := ⟨← l.nl "start", ← l.nl "shape"⟩
    let arr ← l.nl "arr"; let d ← l.get "dirs"
    if !guardShape s arr then pure "err" else
    pure ("val " ++ showDrive (fun xs => showNl (xs.map (fun i => ravel i arr))) (Iter.new s) (dirsOf d))
  | "contig" =>
    let s : Subset := ⟨← l.nl "start", ← l.nl "shape"⟩
    let arr ← l.nl "arr"; let d ← l.get "dirs"
    if !guardShape s arr then pure "err" else
    let c := s.contiguous arr
    pure ("val run=" ++ toString c.run ++ " " ++ showDrive showNll (Iter.new c.starts) (dirsOf d))
  | "contiglin" =>
    let s : Subset := ⟨← l.nl "start", ← l.nl "shape"⟩
    let arr ← l.nl "arr"; let d ← l.get "dirs"
    if !guardShape s arr then pure "err" else
    let c := s.contiguous arr
    pure ("val run=" ++ toString c.run ++ " " ++
      showDrive (fun xs => showNl (xs.map (fun i => ravel i arr))) (Iter.new c.starts) (dirsOf d))
  | "byteranges" =>
    let s : Subset := ⟨← l.nl "start", ← l.nl "shape"⟩
    let arr ← l.nl "arr"; let es ← l.nat "es"
    if !guardShape s arr then pure "err" else
    let rs := s.byteRanges arr es
    pure ("val " ++ (if rs.isEmpty then "~" else ";".intercalate (rs.map (fun p => toString p.1 ++ ":" ++ toString p.2))))
  | "extract" =>
    let s : Subset := ⟨← l.nl "start", ← l.nl "shape"⟩
    let arr ← l.nl "arr"; let n ← l.nat "n"
    if !(guardShape s arr && n == prod arr) then pure "err" else
    pure ("val " ++ showNl (s.extract arr (List.range n)))
  | "chunks" =>
    let s : Subset := ⟨← l.nl "start", ← l.nl "shape"⟩
    let cs ← l.nl "cs"; let d ← l.get "dirs"
    if cs.length != s.rank then pure "err" else
    pure ("val " ++ showDrive (showChunkItems cs) (Iter.new (s.chunkBox cs)) (dirsOf d))
  | "overlap" =>
    let a : Subset := ⟨← l.nl "astart", ← l.nl "ashape"⟩
    let b : Subset := ⟨← l.nl "bstart", ← l.nl "bshape"⟩
    if a.rank != b.rank then pure "err" else
    let o := a.overlap b
    pure ("val " ++ showSubset o ++ " empty=" ++ showBool o.isEmpty)
  | "bound" =>
    let s : Subset := ⟨← l.nl "start", ← l.nl "shape"⟩
    let e ← l.nl "end"
    if e.length != s.rank then pure "err" else pure ("val " ++ showSubset (s.bound e))
  | "relto" =>
    let s : Subset := ⟨← l.nl "start", ← l.nl "shape"⟩
    let o ← l.nl "o"
    if o.length != s.rank then pure "err" else
    if s.relativeToUnderflows o then pure "any" else pure ("val " ++ showSubset (s.relativeTo o))
  | "inbounds" =>
    let a : Subset := ⟨← l.nl "astart", ← l.nl "ashape"⟩
    let b : Subset := ⟨← l.nl "bstart", ← l.nl "bshape"⟩
    pure ("val " ++ showBool (a.inbounds b))
  | "inbshape" =>
    let s : Subset := ⟨← l.nl "start", ← l.nl "shape"⟩
    let arr ← l.nl "arr"
    pure ("val " ++ showBool (s.inboundsShape arr))
  | "contains" =>
    let s : Subset := ⟨← l.nl "start", ← l.nl "shape"⟩
    let i ← l.nl "i"
    pure ("val " ++ showBool (Subset.containsZip i s.start s.shape))
  | "props" =>
    let s : Subset := ⟨← l.nl "start", ← l.nl "shape"⟩
    pure ("val n=" ++ toString s.numElements ++ " empty=" ++ showBool s.isEmpty ++ " endexc=" ++ showNl s.endExc ++
      " endinc=" ++ (match s.endInc with | some e => showNl e | none => "none") ++ " dim=" ++ toString s.rank)
  | "ctor" =>
    let a ← l.nl "a"; let b ← l.nl "b"
    let bad := a.length != b.length || Subset.zipUnderflow b a
    let inc := if bad then "err" else showSubset ⟨a, (Subset.zipSub b a).map (· + 1)⟩
    let exc := if bad then "err" else showSubset (Subset.ofStartEndExc a b)
    let ss := if a.length != b.length then "err" else showSubset ⟨a, b⟩
    pure ("val inc=" ++ inc ++ " exc=" ++ exc ++ " ss=" ++ ss)
  | other => handleApi l other

end Zarrs.DriverC09
