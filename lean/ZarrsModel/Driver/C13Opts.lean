import ZarrsModel.Model.MetaOpts
import ZarrsModel.Model.Float
import ZarrsModel.Driver.Proto
import ZarrsModel.Driver.C13V2
/- driver handler for `c13 mopt` (unverified glue around `Zarrs.MetaOpts`):
     c13 mopt kind=<a3|a2|g3|g2> ver=<default|v3> alias=<0|1> zarrs=<0|1> enc=<0|1> dup=<0|1> text=<hex>
       -> rej-open | ok plug=<A|B|C|x per codec> mo=<hex> zj=<hex> z2=<hex> zt=<hex> re=<rej | ok zjr= z2r= ztr=>
   The stored document is predicted by `MetaOpts.metadataOpt`; codec NAMES (and their order, `must_understand`, the
   presence of a configuration) are compared exactly, the configurations the codecs re-create are opaque (as in the
   `aopen` rule); everything else is compared as text.  The `plug` letters of the outcome are the oracle for which
   codecs the plugins create; their kinds must agree with the transcribed table `MetaOpts.codecKinds`. -/
namespace Zarrs.DriverC13Opts
open Zarrs Zarrs.Json Zarrs.Meta Zarrs.MetaV2 Zarrs.MetaOpts Zarrs.Proto

def hexOf (bs : List Nat) : String := showHex bs
def outTokens (s : String) : List (String × String) := ((s.splitOn " ").filterMap splitKV)
def tok (toks : List (String × String)) (k : String) : Option String := (toks.find? (·.1 == k)).map (·.2)

def optsOf (l : Line) : Option Opts := do
  let ver ← l.get "ver"
  let v ← if ver == "v3" then some ConvertVersion.v3 else if ver == "default" then some ConvertVersion.default else none
  let b := fun (k : String) => (l.get k).bind (fun s => if s == "1" then some true else if s == "0" then some false else none)
  pure ⟨v, ← b "zarrs", ← b "alias", ← b "enc"⟩

/-- codec configurations made equal (the configuration a codec writes is opaque) -/
def blank (d : ArrayDoc) : ArrayDoc := { d with codecs := d.codecs.map (fun c => { c with config := c.config.map (fun _ => []) }) }

def kindOfChar (c : Char) : Option Kind :=
  if c == 'A' then some .a2a else if c == 'B' then some .a2b else if c == 'C' then some .b2b else none

def optObjEq : Option Obj → Option Obj → Bool
  | none, none => true
  | some a, some b => J.beq (.obj a) (.obj b)
  | _, _ => false

/-- the plugins as the implementation reported them for the codecs of the document (by identifier and configuration) -/
def plugOfFlags (cs : List MetaV3) (flags : List Char) : Plug := fun ident cfg =>
  match (cs.zip flags).find? (fun p => codecV3.identifier p.1.name == ident && optObjEq p.1.config cfg) with
  | some (m, f) => (kindOfChar f).map (fun k => ⟨k, m.config.getD [], encodeOnlyIdents.contains ident⟩)
  | none => none

/-- the plugins by the transcribed tables (every known identifier creates) -/
def plugOfTable : Plug := fun ident cfg =>
  (codecKind ident).map (fun k => ⟨k, cfg.getD [], encodeOnlyIdents.contains ident⟩)

/-- do the reported kinds agree with the transcribed table -/
def kindsAgree (cs : List MetaV3) (flags : List Char) : Bool :=
  (cs.zip flags).all (fun p => match kindOfChar p.2 with
    | some k => codecKind (codecV3.identifier p.1.name) == some k
    | none => true)

def docEq (e a : ArrayDoc) : Bool :=
  print (blank e).toJ == print (blank a).toJ && a.codecs.all (fun c => c.config.isSome && c.mu)

def compactOf (text : List Nat) : String := match parse text with | some j => hexOf (print j) | none => "unparsable"

def fail (why : String) : List String := [s!"(model) {why}"]

def handleA3 (l : Line) (o : Opts) (text : List Nat) : List String :=
  match ArrayDoc.ofText text with
  | none => ["rej-open"]
  | some d =>
    if !fillOk d.fill then ["any"] else
    let rank := (regularRank d.chunkGrid).getD d.shape.length
    if !(openOk d rank && dataTypeOk d.dataType) then ["rej-open"] else
    if l.outcome == "rej-open" then ["rej-open"] else   -- the plugins' acceptance is not modelled
    let toks := outTokens l.outcome
    match tok toks "plug", tok toks "mo", tok toks "zj", tok toks "z2", tok toks "zt", tok toks "re" with
    | some plug, some mo, some zj, some z2, some zt, some re =>
      let flags := if plug == "-" then [] else plug.toList
      if flags.length != d.codecs.length then fail "plug letters do not match the codec list" else
      if !kindsAgree d.codecs flags then fail "codec kinds differ from the table MetaOpts.codecKinds" else
      match chainOf (plugOfFlags d.codecs flags) d.codecs with
      | none => ["rej-open"]
      | some ch =>
        match metadataOpt o (.v3 d ch) with
        | some (.v3 e) =>
          let moOk := match (parseHex mo).bind ArrayDoc.ofText with | some a => docEq e a | none => false
          let storeOk := zj == mo && z2 == "-" && zt == "-"
          let reOk := re == "ok" && tok toks "zjr" == some zj && tok toks "z2r" == some "-" && tok toks "ztr" == some "-"
          if moOk && storeOk && reOk then [l.outcome]
          else fail s!"ok mo~{hexOf (print e.toJ)} zj=mo re=ok zjr=zj (moOk={moOk} storeOk={storeOk} reOk={reOk})"
        | _ => fail "metadata_opt of a V3 array is a V3 document"
    | _, _, _, _, _, _ => fail "ok plug= mo= zj= z2= zt= re="

def keyHex : Option (List Nat) → String
  | some t => hexOf t
  | none => "-"

/-- the three metadata keys of the node as the outcome shows them -/
def showKeys (k : NodeKeys) (sfx : String) : String :=
  s!"zj{sfx}={keyHex k.zarrJson} z2{sfx}={keyHex k.v2meta} zt{sfx}={keyHex k.zattrs}"

/-- the store before the handle stores its metadata: the request's text (shown compact) under the V2 key -/
def v2Keys (text : List Nat) : NodeKeys := { v2meta := (parse text).map print }

def handleA2 (l : Line) (o : Opts) (text : List Nat) : List String :=
  match ArrayDocV2.ofText text with
  | none => ["rej-open"]
  | some d =>
    if DriverC13V2.outsideModel d then ["any"] else
    match v2ToV3 d with
    | .error .undefined => ["any"]
    | .error _ => ["rej-open"]
    | .ok v =>
      if !(openOkV2 d && dataTypeOk v.dataType) then ["rej-open"] else
      if l.outcome == "rej-open" then ["rej-open"] else   -- the plugins' acceptance is not modelled
      let toks := outTokens l.outcome
      match metadataOpt o (.v2 d) with
      | none => fail "the conversion succeeded on creation"
      | some (.v2 e) =>
        -- `.zarray` / `.zattrs` written, read back (`openArrayKeys`), stored again by the re-opened handle
        let k1 := storeArray (v2Keys text) (.v2 e)
        let first := s!"ok plug=- mo={hexOf (print e.toJ)} {showKeys k1 ""}"
        match openArrayKeys k1 with
        | some (.v2 e') =>
          if !(openOkV2 e') then [first ++ " re=rej"] else
          match metadataOpt o (.v2 e') with
          | some out2 => [first ++ " re=ok " ++ showKeys (storeArray k1 out2) "r"]
          | none => fail "the conversion succeeded on creation"
        | _ => [first ++ " re=rej"]
      | some (.v3 e) =>
        -- (an additional field named like a V3 array field would be written twice: outside the model)
        if e.extra.any (fun kv => arrayKeys.contains kv.1) then ["any"] else
        -- written as `zarr.json` next to the `.zarray` that was there; re-opened as a V3 array, whose second store
        -- re-creates the codec metadata from the chain
        let k1 := storeArray (v2Keys text) (.v3 e)
        let first := s!"ok plug=- mo={hexOf (print e.toJ)} {showKeys k1 ""}"
        match openArrayKeys k1 with
        | some (.v3 e') =>
          let rank := (regularRank e'.chunkGrid).getD e'.shape.length
          match (if openOk e' rank && dataTypeOk e'.dataType then chainOf plugOfTable e'.codecs else none) with
          | none => fail (first ++ " re=ok (the converted document must open)")
          | some ch =>
            match metadataOpt o (.v3 e' ch) with
            | some (.v3 e2) =>
              let firstOk := l.outcome.startsWith (first ++ " ")
              let reOk := tok toks "re" == some "ok" && tok toks "z2r" == some (keyHex k1.v2meta) && tok toks "ztr" == some "-" &&
                (match (tok toks "zjr").bind parseHex |>.bind ArrayDoc.ofText with | some a => docEq e2 a | none => false)
              if firstOk && reOk then [l.outcome]
              else fail (first ++ s!" re=ok zjr~{hexOf (print e2.toJ)} z2r=z2 ztr=- (firstOk={firstOk} reOk={reOk})")
            | _ => fail "metadata_opt of a V3 array is a V3 document"
        | _ => fail (first ++ " re=ok (the written text must be read back)")

def groupLine (o : Opts) (k0 : NodeKeys) (g : GroupOut) : List String :=
  let out := groupMetadataOpt o g
  let mo := match out with | .v3 e => hexOf (print e.toJ) | .v2 e => hexOf (print e.toJ)
  let k1 := storeGroup k0 out
  let first := s!"ok plug=- mo={mo} {showKeys k1 ""}"
  match openGroup k1 with
  | some g' => [first ++ " re=ok " ++ showKeys (storeGroup k1 (groupMetadataOpt o g')) "r"]
  | none => [first ++ " re=rej"]

def handleG3 (o : Opts) (text : List Nat) : List String :=
  match parse text with
  | none => ["rej-open"]
  | some j =>
    if (match j with | .obj ob => (lookup ob (ascii "consolidated_metadata")).isSome | _ => false) then ["any"] else
    match GroupDoc.ofJ j with
    | none => ["rej-open"]
    | some d => if !(groupOk d) then ["rej-open"] else groupLine o {} (.v3 d)

def handleG2 (l : Line) (o : Opts) (text : List Nat) : List String :=
  match GroupDocV2.ofText text with
  | none => ["rej-open"]
  | some d =>
    if !(d.extra.all (fun kv => !kv.2.mu)) then ["rej-open"] else
    -- an additional field named like a V3 group field is carried over by the conversion: the written text holds
    -- that key twice, which `serde` refuses when the node is re-opened (the JSON model would merge the two)
    if o.convertVersion == .v3 && d.extra.any (fun kv => groupKeys.contains kv.1) then
      (if tok (outTokens l.outcome) "re" == some "rej" then [l.outcome] else fail "ok .. re=rej (a key is written twice)") else
    groupLine o (v2Keys text) (.v2 d)

def handle (l : Line) : Option (List String) := do
  let kind ← l.get "kind"
  let o ← optsOf l
  let text ← parseHex (← l.get "text")
  let dup := (l.get "dup") == some "1"
  -- a number beyond binary64 fails the whole parse ("number out of range")
  let tooBig := match parse text with
    | some j => !(j.allNums (fun t => (Zarrs.Float.readF64 t).isSome))
    | none => false
  if tooBig || dup then pure ["rej-open"] else
  match kind with
  | "a3" => pure (handleA3 l o text)
  | "a2" => pure (handleA2 l o text)
  | "g3" => pure (handleG3 o text)
  | "g2" => pure (handleG2 l o text)
  | _ => none

end Zarrs.DriverC13Opts
