import ZarrsModel.Model.MetaV2
import ZarrsModel.Driver.Proto
/- driver handlers for the V2 part of C13 (unverified glue around `Zarrs.MetaV2`):
     c13 a2doc text=<hex>  -> rej | ser=<hex> ser2=<hex|rej>     `ArrayMetadataV2` read, written, read, written
     c13 g2doc text=<hex>  -> rej | ser=<hex> ser2=<hex|rej>     `GroupMetadataV2`
     c13 v2to3 text=<hex>  -> rej | rej-conv | v3=<hex>          `array_metadata_v2_to_v3` with the default aliases -/
namespace Zarrs.DriverC13V2
open Zarrs Zarrs.Json Zarrs.Meta Zarrs.MetaV2 Zarrs.Proto

def hexOf (bs : List Nat) : String := showHex bs

/-- a `|V<digits>` data type name with non-ASCII bytes: the regex `\d` of the alias table also matches non-ASCII
    decimal digits, which the model leaves out -/
def outsideModel (d : ArrayDocV2) : Bool :=
  match d.dtype with
  | .simple (124 :: 86 :: rest) => rest.any (fun b => b ≥ 128)
  | _ => false

def twice {α} (ofText : List Nat → Option α) (toJ : α → J) (text : List Nat) : String :=
  match ofText text with
  | none => "rej"
  | some d =>
    let s1 := print (toJ d)
    match ofText s1 with
    | none => s!"ser={hexOf s1} ser2=rej"
    | some d2 => s!"ser={hexOf s1} ser2={hexOf (print (toJ d2))}"

def handleDoc (verb : String) (text : List Nat) (dup : Bool) : Option (List String) :=
  match verb with
  | "a2doc" => if dup then some ["rej"] else some [twice ArrayDocV2.ofText ArrayDocV2.toJ text]
  | "g2doc" => if dup then some ["rej"] else some [twice GroupDocV2.ofText GroupDocV2.toJ text]
  | "v2to3" =>
    if dup then some ["rej"] else
    match ArrayDocV2.ofText text with
    | none => some ["rej"]
    | some d =>
      if outsideModel d then some ["any"] else
      match v2ToV3 d with
      | .error .undefined => some ["any"]
      | .error _ => some ["rej-conv"]
      | .ok v3 => some [s!"v3={hexOf (print v3.toJ)}"]
  | _ => none

/-- `a2open`: does the model say that `Array::open` must reject the `.zarray` text?  (One direction only: data type,
    codec and fill value support beyond the metadata level are not modelled, so an accepted document may still be
    rejected.)  Not decided for inputs outside the model. -/
def mustRejectOpen (text : List Nat) : Bool :=
  match ArrayDocV2.ofText text with
  | none => true
  | some d =>
    if outsideModel d then false else
    match v2ToV3 d with
    | .error .undefined => false
    | _ => !openOkV2 d

end Zarrs.DriverC13V2
