import ZarrsModel.Model.Conform
import ZarrsModel.Model.Meta
import ZarrsModel.Model.FillMeta
import ZarrsModel.Driver.Proto
/- driver handlers and case generator for C12 (unverified glue around `Zarrs.Conform`, `Zarrs.Inflate`, `Zarrs.Meta`) -/
namespace Zarrs.DriverC12
open Zarrs Zarrs.Inflate Zarrs.Proto Zarrs.Conform Zarrs.Json Zarrs.Meta

/-! ### metadata -> specification-level configuration -/

def natOfJ : J → Option Nat
  | .num t => asU64 t
  | _ => none
def natList : J → Option (List Nat)
  | .arr xs => xs.mapM natOfJ
  | _ => none
def strOfJ : J → Option String
  | .str s => some (String.ofList (s.map Char.ofNat))
  | _ => none
def cfgGet (m : MetaV3) (k : String) : Option J := m.config.bind (fun c => lookup c (ascii k))

def dtOf (name : String) : Option (FillMeta.DT × Nat) :=
  match name with
  | "bool" => some (.bool, 1)
  | "int8" => some (.int 1, 1) | "int16" => some (.int 2, 2) | "int32" => some (.int 4, 4) | "int64" => some (.int 8, 8)
  | "uint8" => some (.uint 1, 1) | "uint16" => some (.uint 2, 2) | "uint32" => some (.uint 4, 4) | "uint64" => some (.uint 8, 8)
  | "float32" => some (.float Float.f32, 4) | "float64" => some (.float Float.f64, 8)
  | "complex64" => some (.complex Float.f32, 8)
  | _ => none

def realCodec : FillMeta.NumCodec := ⟨fun _ => [], Float.readF64⟩

def b2bOf (ms : List MetaV3) : Option (List B2BK) :=
  ms.mapM (fun m => match String.ofList (m.name.map Char.ofNat) with
    | "gzip" => some B2BK.gzip
    | "crc32c" => some B2BK.crc32c
    | _ => none)

def isA2A (m : MetaV3) : Bool := m.name == ascii "transpose"
def orderOf (m : MetaV3) : Option (List Nat) := (cfgGet m "order").bind natList
def bigOf (m : MetaV3) : Bool := (cfgGet m "endian").bind strOfJ == some "big"

def innerOf (ms : List MetaV3) : Option Inner := do
  let ts := ms.takeWhile isA2A
  let rest := ms.dropWhile isA2A
  match rest with
  | b :: tail =>
    if b.name != ascii "bytes" then none else
    pure ⟨← ts.mapM orderOf, bigOf b, ← b2bOf tail⟩
  | [] => none

def chainOf (ms : List MetaV3) : Option Chain := do
  let ts := ms.takeWhile isA2A
  let rest := ms.dropWhile isA2A
  match rest with
  | b :: tail =>
    let a2b ← (if b.name == ascii "bytes" then some (A2BK.bytes (bigOf b))
      else if b.name == ascii "sharding_indexed" then do
        let ishape ← (cfgGet b "chunk_shape").bind natList
        let codecs ← (match cfgGet b "codecs" with | some (.arr xs) => xs.mapM MetaV3.ofJ | _ => none)
        let icodecs ← (match cfgGet b "index_codecs" with | some (.arr xs) => xs.mapM MetaV3.ofJ | _ => none)
        let inner ← innerOf codecs
        let (idxBig, idxCrc) ← (match icodecs with
          | [i] => if i.name == ascii "bytes" then some (bigOf i, false) else none
          | [i, c] => if i.name == ascii "bytes" && c.name == ascii "crc32c" then some (bigOf i, true) else none
          | _ => none)
        let atEnd := (cfgGet b "index_location").bind strOfJ != some "start"
        pure (A2BK.shard ishape inner idxBig idxCrc atEnd)
      else none)
    pure ⟨← ts.mapM orderOf, a2b, ← b2bOf tail⟩
  | [] => none

/-- a complex64 array is, byte for byte, a float32 array with one more (innermost) dimension of extent 2: every
    codec of the modelled set treats the two components as consecutive float32 elements -/
def expandChain (rank : Nat) (c : Chain) : Chain :=
  let ex (o : List Nat) := o ++ [rank]
  { transposes := c.transposes.map ex,
    a2b := match c.a2b with
      | .bytes big => .bytes big
      | .shard ishape inner ib ic ae => .shard (ishape ++ [2]) { inner with transposes := inner.transposes.map ex } ib ic ae,
    b2b := c.b2b }

def v3Of (text : Bytes) (path : String) : Option (V3 × Bool) := do
  let d ← ArrayDoc.ofText text
  let shape ← d.shape.mapM asU64
  let chunk ← (cfgGet d.chunkGrid "chunk_shape").bind natList
  let (dt, es) ← dtOf (String.ofList (d.dataType.name.map Char.ofNat))
  let fill ← FillMeta.fromMeta realCodec .direct dt d.fill
  let enc := if d.cke.name == ascii "v2" then Keys.Enc.v2 else Keys.Enc.default
  let sepDefault := if d.cke.name == ascii "v2" then '.' else '/'
  let sep := match (cfgGet d.cke "separator").bind strOfJ with | some "." => '.' | some "/" => '/' | _ => sepDefault
  let chain ← chainOf d.codecs
  if d.dataType.name == ascii "complex64" then
    if fill.take 4 != fill.drop 4 then none else
    -- the chunk key does not see the extra dimension: keys are computed from the first `rank` coordinates
    pure (⟨shape ++ [2], chunk ++ [2], 4, fill.take 4, enc, sep, expandChain shape.length chain, path.toList⟩, true)
  else pure (⟨shape, chunk, es, fill, enc, sep, chain, path.toList⟩, false)

def v2Of (text : Bytes) (path : String) : Option V2 := do
  let j ← parse text
  match j with
  | .obj o =>
    let shape ← (lookup o (ascii "shape")).bind natList
    let chunk ← (lookup o (ascii "chunks")).bind natList
    let dts ← (lookup o (ascii "dtype")).bind strOfJ
    let (big, kind, es) ← (match dts.toList with
      | [e, k, n] => (String.ofList [n]).toNat?.map (fun es => (e == '>', k, es))
      | _ => none)
    let dt : FillMeta.DT := if kind == 'f' then .float (if es == 4 then Float.f32 else Float.f64) else if kind == 'i' then .int es else .uint es
    let fillJ ← lookup o (ascii "fill_value")
    let fill ← (match fillJ with
      | .null => some (List.replicate es 0)
      | j => FillMeta.fromMeta realCodec .direct dt j)
    let fOrder := (lookup o (ascii "order")).bind strOfJ == some "F"
    let sep := if (lookup o (ascii "dimension_separator")).bind strOfJ == some "/" then '/' else '.'
    let comp ← (match lookup o (ascii "compressor") with
      | some .null => some Comp2.none
      | some (.obj c) => (match (lookup c (ascii "id")).bind strOfJ with
        | some "zlib" => some Comp2.zlib
        | some "gzip" => some Comp2.gzip
        | _ => none)
      | _ => none)
    pure ⟨shape, chunk, es, big, fill, fOrder, sep, comp, path.toList⟩
  | _ => none

/-! ### judging -/

inductive Arr where
  | v3 (a : V3)
  | v2 (a : V2)

def Arr.shape : Arr → Shape | .v3 a => a.shape | .v2 a => a.shape
def Arr.chunk : Arr → Shape | .v3 a => a.chunk | .v2 a => a.chunk
def Arr.fill : Arr → Elem | .v3 a => a.fill | .v2 a => a.fill
def Arr.read : Arr → Store → Option (List Elem) | .v3 a => a.read | .v2 a => a.read

structure St where
  arr : Option Arr := none
  /-- what was written through the API (direction w), C order -/
  content : List Elem := []
  /-- raw values put into the store (direction r) -/
  store : Store := []
  path : String := "/"
  /-- complex64 seen as float32 with a trailing dimension of 2 -/
  cplx : Bool := false

def showElems (xs : List Elem) : String := if xs.isEmpty then "~" else ".".intercalate (xs.map showHex)
def parseElems (s : String) : Option (List Elem) := if s == "~" then some [] else (s.splitOn ".").mapM parseHex

def expandElems (cplx : Bool) (xs : List Elem) : List Elem := if cplx then xs.flatMap (fun e => [e.take 4, e.drop 4]) else xs
def mergeElems (cplx : Bool) : List Elem → List Elem
  | a :: b :: rest => if cplx then (a ++ b) :: mergeElems cplx rest else a :: mergeElems cplx (b :: rest)
  | xs => xs
/-- the store as the expanded model addresses it: one more chunk coordinate, always 0 -/
def expandKeys (cplx : Bool) (sep : Char) (s : Store) (metaKeys : List (List Char)) : Store :=
  if cplx then s.map (fun (k, v) => if metaKeys.contains k then (k, v) else (k ++ [sep, '0'], v)) else s
def contractKeys (cplx : Bool) (s : Store) : Store :=
  if cplx then s.map (fun (k, v) => (k.take (k.length - 2), v)) else s

def parseSubset (s : String) : Option (Idx × Shape) :=
  match s.splitOn "+" with
  | [a, b] => do pure (← parseNl a, ← parseNl b)
  | _ => none

def regionOf (shape : Shape) (xs : List Elem) (start sh : List Nat) (dflt : Elem) : List Elem :=
  (boxIndices sh).map (fun w => xs.getD (ravel (addIdx w start) shape) dflt)

def writeRegion (shape : Shape) (xs : List Elem) (start sh : List Nat) (data : List Elem) : List Elem :=
  let idxs := (boxIndices sh).map (fun w => ravel (addIdx w start) shape)
  (idxs.zip data).foldl (fun acc (i, d) => acc.set i d) xs

def metaKeyOf (path : String) (name : String) : String :=
  if path == "/" then name else (path.drop 1).toString ++ "/" ++ name

def sepOf : Arr → Char | .v3 a => a.sep | .v2 a => a.sep
def St.metaKeys (st : St) : List (List Char) := [(metaKeyOf st.path "zarr.json").toList, (metaKeyOf st.path ".zarray").toList]
/-- elements, regions and chunk indices of the line protocol in the coordinates of the (possibly expanded) model -/
def St.elems (st : St) (s : String) : Option (List Elem) := (parseElems s).map (expandElems st.cplx)
def St.show (st : St) (xs : List Elem) : String := showElems (mergeElems st.cplx xs)
def St.subset (st : St) (s : String) : Option (Idx × Shape) :=
  (parseSubset s).map (fun (a, b) => if st.cplx then (a ++ [0], b ++ [2]) else (a, b))
def St.cidx (st : St) (c : List Nat) : List Nat := if st.cplx then c ++ [0] else c
def St.readStore (st : St) (arr : Arr) (s : Store) : Option (List Elem) := arr.read (expandKeys st.cplx (sepOf arr) s st.metaKeys)

def handle (st : St) (l : Line) : Option (St × List String) := do
  let verb ← l.verbs[1]?
  match verb with
  | "inflate" =>
    let data ← parseHex (← l.get "data")
    let r := if (← l.get "kind") == "gzip" then gunzip data else unzlib data
    pure (st, [match r with | some d => "val " ++ showHex d | none => "none"])
  | "cfg" =>
    let path := (l.get "path").getD "/"
    match l.get "meta" with
    | some mh =>
      let text ← parseHex mh
      let (arr, cplx) ← (if (l.get "ver") == some "2" then (v2Of text path).map (fun a => (Arr.v2 a, false)) else (v3Of text path).map (fun (a, c) => (Arr.v3 a, c)))
      pure ({ arr := some arr, content := List.replicate (prod arr.shape) arr.fill, store := [], path, cplx }, ["ok"])
    | none => pure ({ arr := none, content := [], store := [], path }, ["ok"])
  | "op" =>
    let op ← l.verbs[2]?
    match op with
    | "put" =>
      let k := (← l.get "k")
      let v ← parseHex (← l.get "v")
      -- the metadata document configures the reader
      let st := if k == metaKeyOf st.path "zarr.json" then
          (match v3Of v st.path with | some (a, c) => { st with arr := some (Arr.v3 a), cplx := c } | none => { st with arr := none })
        else if k == metaKeyOf st.path ".zarray" then { st with arr := (v2Of v st.path).map Arr.v2, cplx := false } else st
      pure ({ st with store := st.store.filter (·.1 != k.toList) ++ [(k.toList, v)] }, ["ok"])
    | "open" => pure (st, [if st.arr.isSome then "ok" else "any"])
    | "store_array_subset" =>
      let arr ← st.arr
      let (start, sh) ← st.subset (← l.get "r")
      let data ← st.elems (← l.get "data")
      pure ({ st with content := writeRegion arr.shape st.content start sh data }, ["ok"])
    | "store_chunk" =>
      let arr ← st.arr
      let c := st.cidx (← l.nl "c")
      let data ← st.elems (← l.get "data")
      let start := List.zipWith (· * ·) c arr.chunk
      -- only the part of the chunk inside the array is array content
      let idxs := (boxIndices arr.chunk).map (fun w => addIdx w start)
      let content := (idxs.zip data).foldl (fun acc (i, d) => if inB i arr.shape then acc.set (ravel i arr.shape) d else acc) st.content
      pure ({ st with content }, ["ok"])
    | "erase_chunk" =>
      let arr ← st.arr
      let c := st.cidx (← l.nl "c")
      let start := List.zipWith (· * ·) c arr.chunk
      let idxs := (boxIndices arr.chunk).map (fun w => addIdx w start)
      let content := idxs.foldl (fun acc i => if inB i arr.shape then acc.set (ravel i arr.shape) arr.fill else acc) st.content
      pure ({ st with content }, ["ok"])
    | "dump" =>
      -- direction w: the stored values, read by the specification-level reader, must be what was written
      let arr ← st.arr
      let body := (l.outcome.drop 3).toString
      let kvs ← (if body == "~" then some [] else (body.splitOn ";").mapM (fun kv => match kv.splitOn "=" with
        | [k, v] => (parseHex v).map (fun b => (k.toList, b))
        | _ => none))
      match st.readStore arr kvs with
      | some xs => pure (st, [if xs == st.content then l.outcome else "kv <values that decode to what was written> (the specification reader gets " ++ st.show xs ++ " instead of " ++ st.show st.content ++ ")"])
      | none => pure (st, ["kv <values the specification reader can decode>"])
    | "retrieve_array_subset" =>
      let arr ← st.arr
      let (start, sh) ← st.subset (← l.get "r")
      let content ← (if (l.get "dir") == some "r" || !st.store.isEmpty then st.readStore arr st.store else some st.content)
      pure (st, ["val " ++ st.show (regionOf arr.shape content start sh arr.fill)])
    | "retrieve_chunk" =>
      let arr ← st.arr
      let c := st.cidx (← l.nl "c")
      let content ← (if !st.store.isEmpty then st.readStore arr st.store else some st.content)
      let start := List.zipWith (· * ·) c arr.chunk
      pure (st, ["val " ++ st.show ((boxIndices arr.chunk).map (fun w =>
        let i := addIdx w start
        if inB i arr.shape then content.getD (ravel i arr.shape) arr.fill else arr.fill))])
    | _ => none
  | _ => none

/-! ### generator of independently encoded arrays (direction r) -/

instance : Inhabited Keys.Enc := ⟨Keys.Enc.default⟩
instance : Inhabited Comp2 := ⟨Comp2.none⟩
abbrev G := StateM Nat
def rnd (n : Nat) : G Nat := modifyGet fun s =>
  let s' := (s * 6364136223846793005 + 1442695040888963407) % 18446744073709551616
  (if n == 0 then 0 else (s' / 8589934592) % n, s')
def pick {α} [Inhabited α] (xs : List α) : G α := do let i ← rnd xs.length; pure (xs.getD i default)
def chance (a b : Nat) : G Bool := do let r ← rnd b; pure (r < a)
def shuffleL (xs : List Nat) : G (List Nat) := do
  let mut ys := xs.toArray
  for i in (List.range ys.size).reverse do
    let j ← rnd (i + 1)
    let a := ys.getD i 0; let b := ys.getD j 0
    ys := (ys.set! i b).set! j a
  pure ys.toList

def jNats (xs : List Nat) : String := "[" ++ ",".intercalate (xs.map toString) ++ "]"
def hexOfStr (s : String) : String := showHex (s.toUTF8.toList.map (·.toNat))

structure DTG where
  name : String
  v2 : String       -- V2 dtype letter+size
  es : Nat
  fills : List (String × Bytes)
instance : Inhabited DTG := ⟨⟨"uint8", "u1", 1, [("0", [0])]⟩⟩

def dtypes : List DTG := [
  ⟨"uint8", "u1", 1, [("0", [0]), ("7", [7])]⟩,
  ⟨"int16", "i2", 2, [("0", [0, 0]), ("-2", [0xfe, 0xff])]⟩,
  ⟨"float32", "f4", 4, [("0.0", [0, 0, 0, 0]), ("\"NaN\"", [0, 0, 0xc0, 0x7f]), ("1.5", [0, 0, 0xc0, 0x3f])]⟩,
  ⟨"uint64", "u8", 8, [("0", [0, 0, 0, 0, 0, 0, 0, 0]), ("72623859790382856", [8, 7, 6, 5, 4, 3, 2, 1])]⟩,
  -- complex64: modelled as float32 with a trailing dimension of 2 (fill: both components equal)
  ⟨"complex64", "c8", 4, [("[0.0,0.0]", [0, 0, 0, 0]), ("[1.5,1.5]", [0, 0, 0xc0, 0x3f]), ("[\"NaN\",\"NaN\"]", [0, 0, 0xc0, 0x7f])]⟩]

def b2bJson (cs : List B2BK) : List String := cs.map (fun c => match c with
  | .gzip => "{\"name\":\"gzip\",\"configuration\":{\"level\":5}}"
  | .crc32c => "{\"name\":\"crc32c\"}")
def bytesJson (big : Bool) : String := "{\"name\":\"bytes\",\"configuration\":{\"endian\":\"" ++ (if big then "big" else "little") ++ "\"}}"
def transposeJson (o : List Nat) : String := "{\"name\":\"transpose\",\"configuration\":{\"order\":" ++ jNats o ++ "}}"

def genB2B : G (List B2BK) := do pick [[], [], [.gzip], [.crc32c], [.gzip, .crc32c], [.crc32c, .gzip]]

def divisorsOf (n : Nat) : List Nat := (List.range (n + 1)).filter (fun d => d > 0 && n % d == 0)

def genData (es : Nat) (n : Nat) (fill : Elem) : G (List Elem) := do
  let mut out : List Elem := []
  for _ in List.range n do
    let sel ← rnd 6
    let e ← (if sel == 0 then pure fill else do
      let mut bs : Bytes := []
      for _ in List.range es do
        let b ← rnd (if sel < 3 then 4 else 256)
        bs := bs ++ [b]
      pure bs)
    out := out ++ [e]
  pure out

/-- blank out whole chunks (they are then not stored at all) -/
def blankChunks (shape chunk : Shape) (fill : Elem) (xs : List Elem) : G (List Elem) := do
  let grid := gridOf shape chunk
  let mut ys := xs.toArray
  for c in boxIndices grid do
    if (← chance 1 4) then
      for w in boxIndices chunk do
        let i := List.zipWith (fun cw s => cw.1 * s + cw.2) (c.zip w) chunk
        if inB i shape then ys := ys.set! (ravel i shape) fill
  pure ys.toList

def genLayout : G Layout := do
  pure { deflate := ← rnd 2, gzipExtra := ← chance 1 2, reverseInner := ← chance 1 2, pad := ← pick [0, 0, 1, 5] }

def readLines (shape chunk : Shape) : G (List String) := do
  let whole := s!"c12 op retrieve_array_subset r={showNl (shape.map (fun _ => 0))}+{showNl shape}"
  let mut out := [whole]
  for _ in List.range 3 do
    let mut st : List Nat := []; let mut sh : List Nat := []
    for d in shape do
      let s ← rnd (d + 1); let n ← rnd (d - s + 1)
      st := st ++ [s]; sh := sh ++ [n]
    out := out ++ [s!"c12 op retrieve_array_subset r={showNl st}+{showNl sh}"]
  let grid := gridOf shape chunk
  for c in (boxIndices grid).take 6 do
    out := out ++ [s!"c12 op retrieve_chunk c={showNl c}"]
  pure out

def genV3 : G (List String) := do
  let dt ← pick dtypes
  let cplx := dt.name == "complex64"
  let rank ← (if cplx then pick [1, 1, 2, 2, 3] else pick [0, 1, 1, 2, 2, 3])
  let (fillJ, fill) ← pick dt.fills
  let chunk ← (List.range rank).mapM (fun _ => pick [1, 2, 3, 4, 6])
  let shape ← chunk.mapM (fun c => do let k ← rnd 3; let r ← rnd c; pure (c * k + r + (if k == 0 && r == 0 then 1 else 0)))
  let nT ← pick [0, 0, 1, 2]
  let ts ← (List.range (if rank == 0 then 0 else nT)).mapM (fun _ => shuffleL (List.range rank))
  let eshape := encodedShape chunk ts
  let sharded ← chance 1 2
  let a2b ← (if sharded then do
      let ishape ← eshape.mapM (fun d => pick (divisorsOf d))
      let nTi ← pick [0, 0, 1]
      let tsi ← (List.range (if rank == 0 then 0 else nTi)).mapM (fun _ => shuffleL (List.range rank))
      let inner : Inner := ⟨tsi, ← chance 1 2, ← genB2B⟩
      pure (A2BK.shard ishape inner (← chance 1 2) (← chance 1 2) (← chance 1 2))
    else do pure (A2BK.bytes (← chance 1 2)))
  let b2b ← genB2B
  let chain : Chain := ⟨ts, a2b, b2b⟩
  let (encName, enc) ← pick [("default", Keys.Enc.default), ("v2", Keys.Enc.v2)]
  let sep ← pick ['/', '.']
  -- the separator may be left out of the metadata: then it is the default of the encoding (`/` for default, `.` for v2)
  let ckeForm ← pick [0, 0, 1, 2]
  let sep := if ckeForm == 0 then sep else (if encName == "v2" then '.' else '/')
  let path ← pick ["/", "/a", "/g/arr"]
  let a : V3 := if cplx then ⟨shape ++ [2], chunk ++ [2], 4, fill, enc, sep, expandChain rank chain, path.toList⟩
    else ⟨shape, chunk, dt.es, fill, enc, sep, chain, path.toList⟩
  let codecsJ := ts.map transposeJson ++ [match a2b with
      | .bytes big => bytesJson big
      | .shard ishape inner idxBig idxCrc atEnd =>
        "{\"name\":\"sharding_indexed\",\"configuration\":{\"chunk_shape\":" ++ jNats ishape ++ ",\"codecs\":[" ++
          ",".intercalate (inner.transposes.map transposeJson ++ [bytesJson inner.big] ++ b2bJson inner.b2b) ++ "],\"index_codecs\":[" ++
          ",".intercalate ([bytesJson idxBig] ++ (if idxCrc then ["{\"name\":\"crc32c\"}"] else [])) ++ "],\"index_location\":\"" ++
          (if atEnd then "end" else "start") ++ "\"}}"] ++ b2bJson b2b
  let metaText := "{\"zarr_format\":3,\"node_type\":\"array\",\"shape\":" ++ jNats shape ++ ",\"data_type\":\"" ++ dt.name ++
    "\",\"chunk_grid\":{\"name\":\"regular\",\"configuration\":{\"chunk_shape\":" ++ jNats chunk ++ "}},\"chunk_key_encoding\":{\"name\":\"" ++
    encName ++ (if ckeForm == 0 then "\",\"configuration\":{\"separator\":\"" ++ String.singleton sep ++ "\"}}" else if ckeForm == 1 then "\"}" else "\",\"configuration\":{}}") ++
    ",\"fill_value\":" ++ fillJ ++ ",\"codecs\":[" ++
    ",".intercalate codecsJ ++ "]}"
  let data ← genData dt.es (prod a.shape) fill
  let data ← blankChunks a.shape a.chunk fill data
  let layout ← genLayout
  let store := contractKeys cplx (a.write layout data)
  let puts := store.map (fun (k, v) => s!"c12 op put k={String.ofList k} v={showHex v}")
  let reads ← readLines shape chunk
  pure ([s!"c12 cfg dir=r ver=3 store=memory path={path} es={if cplx then 8 else dt.es}",
         s!"c12 op put k={metaKeyOf path "zarr.json"} v={hexOfStr metaText}"] ++ puts ++ ["c12 op open"] ++ reads)

def genV2 : G (List String) := do
  let rank ← pick [0, 1, 1, 2, 2, 3]
  let dt ← pick (dtypes.filter (·.name != "complex64"))
  let (fillJ, fill) ← pick dt.fills
  let chunk ← (List.range rank).mapM (fun _ => pick [1, 2, 3, 4])
  let shape ← chunk.mapM (fun c => do let k ← rnd 3; let r ← rnd c; pure (c * k + r + (if k == 0 && r == 0 then 1 else 0)))
  let big ← chance 1 2
  let fOrder ← (if rank == 0 then pure false else chance 1 2)
  let sep ← pick ['.', '/']
  let comp ← pick [Comp2.none, Comp2.zlib, Comp2.gzip]
  let path ← pick ["/", "/a", "/g/arr"]
  let a : V2 := ⟨shape, chunk, dt.es, big, fill, fOrder, sep, comp, path.toList⟩
  let endian := if dt.es == 1 then "|" else if big then ">" else "<"
  let filters ← pick ["\"filters\":null,", "\"filters\":[],", ""]
  let sepJ ← (if sep == '.' then pick ["", "\"dimension_separator\":\".\","] else pure "\"dimension_separator\":\"/\",")
  let compJ := match comp with
    | .none => "null"
    | .zlib => "{\"id\":\"zlib\",\"level\":1}"
    | .gzip => "{\"id\":\"gzip\",\"level\":1}"
  let metaText := "{\"zarr_format\":2,\"shape\":" ++ jNats shape ++ ",\"chunks\":" ++ jNats chunk ++ ",\"dtype\":\"" ++ endian ++ dt.v2 ++
    "\",\"compressor\":" ++ compJ ++ ",\"fill_value\":" ++ fillJ ++ "," ++ filters ++ sepJ ++ "\"order\":\"" ++ (if fOrder then "F" else "C") ++ "\"}"
  let data ← genData dt.es (prod shape) fill
  let data ← blankChunks shape chunk fill data
  let layout ← genLayout
  let store := a.write layout data
  let puts := store.map (fun (k, v) => s!"c12 op put k={String.ofList k} v={showHex v}")
  let reads ← readLines shape chunk
  pure ([s!"c12 cfg dir=r ver=2 store=memory path={path} es={dt.es}",
         s!"c12 op put k={metaKeyOf path ".zarray"} v={hexOfStr metaText}"] ++ puts ++ ["c12 op open"] ++ reads)

def genCases (tier : String) (seed : Nat) : List String :=
  let n := if tier == "thorough" then 4000 else 400
  ((List.range n).foldl (fun (acc : List String × Nat) i =>
    let (ls, s) := (if i % 3 == 2 then genV2 else genV3).run (acc.2 + i)
    (acc.1 ++ ls, s)) ([], seed * 2654435761 + 12345)).1

end Zarrs.DriverC12
