/- line-protocol helpers shared by all driver handlers (unverified glue) -/
namespace Zarrs.Proto

def showNl (xs : List Nat) : String :=
  if xs.isEmpty then "-" else ",".intercalate (xs.map toString)

def showNll (xs : List (List Nat)) : String :=
  if xs.isEmpty then "~" else ";".intercalate (xs.map showNl)

def parseNl (s : String) : Option (List Nat) :=
  if s == "-" then some [] else (s.splitOn ",").mapM (·.toNat?)

def parseNll (s : String) : Option (List (List Nat)) :=
  if s == "~" then some [] else (s.splitOn ";").mapM parseNl

def showBool (b : Bool) : String := if b then "true" else "false"

def hexDigit (n : Nat) : Char :=
  if n < 10 then Char.ofNat (48 + n) else Char.ofNat (87 + n)

def showHex (bs : List Nat) : String :=
  if bs.isEmpty then "-" else String.ofList (bs.flatMap (fun b => [hexDigit (b / 16 % 16), hexDigit (b % 16)]))

def hexVal (c : Char) : Option Nat :=
  if '0' ≤ c ∧ c ≤ '9' then some (c.toNat - 48)
  else if 'a' ≤ c ∧ c ≤ 'f' then some (c.toNat - 87)
  else none

def parseHexAux : List Char → Option (List Nat)
  | [] => some []
  | a :: b :: rest => do
    let x ← hexVal a
    let y ← hexVal b
    let r ← parseHexAux rest
    pure ((x * 16 + y) :: r)
  | _ => none

def parseHex (s : String) : Option (List Nat) :=
  if s == "-" then some [] else parseHexAux s.toList

structure Line where
  verbs : List String
  args : List (String × String)
  outcome : String     -- implementation outcome (text after " -> "), "" when absent

def Line.get (l : Line) (k : String) : Option String := (l.args.find? (·.1 == k)).map (·.2)
def Line.nl (l : Line) (k : String) : Option (List Nat) := l.get k >>= parseNl
def Line.nat (l : Line) (k : String) : Option Nat := l.get k >>= (·.toNat?)

def splitKV (tok : String) : Option (String × String) :=
  match tok.splitOn "=" with
  | [_] => none
  | k :: rest => some (k, "=".intercalate rest)
  | [] => none

def parseLine (s : String) : Line :=
  let (body, outcome) :=
    match s.splitOn " -> " with
    | [b] => (b, "")
    | b :: rest => (b, " -> ".intercalate rest)
    | [] => ("", "")
  let toks := (body.splitOn " ").filter (· ≠ "")
  let verbs := toks.filter (fun t => (splitKV t).isNone)
  let args := toks.filterMap splitKV
  ⟨verbs, args, outcome⟩

end Zarrs.Proto
