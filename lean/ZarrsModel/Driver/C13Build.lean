import ZarrsModel.Model.Builder
import ZarrsModel.Model.MetaOpts
import ZarrsModel.Driver.Proto
/- driver handlers for the builder part of C13 (unverified glue around `Zarrs.Builder`):
     c13 build dt=.. shape=.. grid=.. fill=<hex> ops=<setters>  -> err-grid | err-dims | err-fill | err-other | ok doc=<hex> re=<same|rej> rb=same
     c13 gbuild ops=<setters>                                   -> ok doc=<hex> re=<same|rej>
   The codec configurations a codec writes are opaque (compared by name, in order); everything else of the built
   document is predicted exactly. -/
namespace Zarrs.DriverC13Build
open Zarrs Zarrs.Json Zarrs.Meta Zarrs.Builder Zarrs.Proto

def hexOf (bs : List Nat) : String := showHex bs

def dtMeta (n : String) : MetaV3 := ⟨ascii n, none, true⟩
def dtClass (n : String) : DtClass := if n == "string" then .string else .fixed

/-- `DataType::metadata_fill_value` for the data types the harness uses (float32 only for the three values it draws) -/
def fillMeta (dt : MetaV3) (bs : List Nat) : Option J :=
  let n := String.ofList (dt.name.map Char.ofNat)
  if n == "uint8" then (match bs with | [b] => some (natNum b) | _ => none)
  else if n == "int16" then (if bs.length == 2 then some (.num (FillMeta.intTok (FillMeta.leInt bs))) else none)
  else if n == "int32" then (if bs.length == 4 then some (.num (FillMeta.intTok (FillMeta.leInt bs))) else none)
  else if n == "bool" then (match bs with | [0] => some (.bool false) | [1] => some (.bool true) | _ => none)
  else if n == "float32" then
    (if bs == [0, 0, 0, 0] then some (.num "0.0".toList) else if bs == [0, 0, 192, 127] then some (.str (ascii "NaN"))
     else if bs == [0, 0, 192, 63] then some (.num "1.5".toList)
     else if bs == [255, 255, 255, 255] then some (.str (ascii "0xffffffff"))   -- a NaN with a payload: its bits in hex
     else none)
  else if n == "string" then (if validUtf8 bs then some (.str bs) else none)   -- `String::from_utf8`
  else if n == "r16" then (if bs.length == 2 then some (.arr (bs.map natNum)) else none)
  else none

def dimsOf (s : String) : Option (List Nat) := if s == "-" then some [] else parseNl s

def sepOf (s : String) : Sep := if s == "." then .dot else .slash

def objOfHex (h : String) : Option Obj :=
  match (parseHex h).bind parse with
  | some (.obj o) => some o
  | _ => none

/-- `AdditionalFields` read from a JSON object: a `BTreeMap` of `AdditionalField`s -/
def extrasOfObj (o : Obj) : List (Str × AField) := o.foldl (fun acc kv => insertExtra kv.1 (AField.ofJ kv.2) acc) []

/-- a codec of the request (`name` or `name~<hex configuration>`, `!name` a gzip codec under an unregistered name): the
    name it is held under is the default name of its identifier; an encode-only codec writes no metadata -/
def codecOf (s : String) : Option CodecB :=
  if s.startsWith "!" then some ⟨ascii (s.drop 1).toString, some []⟩ else
  let (name, cfg) : String × Option String := match s.splitOn "~" with
    | [n, c] => (n, some c)
    | _ => (s, none)
  let ident := MetaOpts.codecV3.identifier (ascii name)
  let cfgObj : Option Obj := match cfg with | some c => objOfHex c | none => some []
  match cfgObj with
  | none => none
  | some c => some ⟨MetaOpts.codecV3.defaultName ident, if MetaOpts.encodeOnlyIdents.contains ident then none else some c⟩

def codecsOf (s : String) : Option (List CodecB) := if s == "-" then some [] else (s.splitOn ",").mapM codecOf

def dimNamesOf (s : String) : Option (List (Option Str)) :=
  if s == "none" then none else some ((s.splitOn ",").map (fun n => if n == "-" then none else some (ascii n)))

def setterOf (op : String) : Option Setter :=
  let (k, v) := match op.splitOn ":" with
    | k :: rest => (k, ":".intercalate rest)
    | [] => (op, "")
  match k with
  | "shape" => (dimsOf v).map .shape
  | "dt" => some (.dataType (dtMeta v))
  | "grid" => (dimsOf v).map (fun g => .chunkGrid (.regular g))
  | "fill" => (parseHex v).map .fillValue
  | "cke" =>
    let n := (v.dropEnd 1).toString
    let sp := sepOf (v.takeEnd 1).toString
    some (.chunkKeyEncoding (if n == "v2" then .v2 sp else .default sp))
  | "sep" => some (.ckeDefaultSeparator (sepOf v))
  | "a2a" => (codecsOf v).map .a2a
  | "a2b" => (codecOf v).map .a2b
  | "b2b" => (codecsOf v).map .b2b
  | "attrs" => (objOfHex v).map .attributes
  | "extra" => (objOfHex v).map (fun o => .additionalFields (extrasOfObj o))
  | "dims" => some (.dimensionNames (dimNamesOf v))
  | "st" => some (.storageTransformers [])
  | _ => none

/-- the plugins' acceptance of a built document: every codec name belongs to a registered codec (the other parts come
    from domain objects that exist) -/
def plug (d : ArrayDoc) : Bool :=
  d.codecs.all (fun c => (MetaOpts.codecKind (MetaOpts.codecV3.identifier c.name)).isSome)

def metaEq (a b : MetaV3) : Bool := J.beq a.toJ b.toJ

/-- the implementation's document against the model's: everything but the codec configurations -/
def docMatches (m i : ArrayDoc) : Bool :=
  m.shape == i.shape && metaEq m.dataType i.dataType && metaEq m.chunkGrid i.chunkGrid && metaEq m.cke i.cke &&
  J.beq m.fill i.fill && m.codecs.map (·.name) == i.codecs.map (·.name) && i.codecs.all (fun c => c.mu && c.config.isSome) &&
  J.beq (.obj m.attrs) (.obj i.attrs) && i.st.isEmpty && m.st.isEmpty && m.dimNames == i.dimNames &&
  J.beq (.obj (m.extra.map (fun kv => (kv.1, kv.2.toJ)))) (.obj (i.extra.map (fun kv => (kv.1, kv.2.toJ))))

def outTokens (s : String) : List (String × String) := ((s.splitOn " ").filterMap splitKV)

def handleBuild (l : Line) : Option (List String) := do
  let dt ← l.get "dt"
  let shape ← dimsOf (← l.get "shape")
  let grid ← dimsOf (← l.get "grid")
  let fillS ← l.get "fill"
  let fill ← parseHex fillS
  let opsS ← l.get "ops"
  let setters ← if opsS == "-" then some [] else (opsS.splitOn ";").mapM setterOf
  let b := applyAll (BuilderState.new shape (dtMeta dt) (dtClass dt) [] (.regular grid) fill) setters
  -- float32 fill values outside the table of `fillMeta`: not decided here
  if b.dataType.name == ascii "float32" && b.fill.length == 4 && (fillMeta b.dataType b.fill).isNone then pure ["any"] else
  match build fillMeta plug b with
  | .error (.gridRank _ _) => pure ["err-grid"]
  | .error (.dimNames _ _) => pure ["err-dims"]
  | .error .fill => pure ["err-fill"]
  | .error .plugin => pure ["err-other"]
  | .ok d =>
    let re := if d.extra.all (fun kv => !kv.2.mu) then "same" else "rej"
    let model := s!"ok doc={hexOf (print d.toJ)} re={re} rb=same"
    let toks := outTokens l.outcome
    match toks.find? (·.1 == "doc"), toks.find? (·.1 == "re"), toks.find? (·.1 == "rb") with
    | some (_, dh), some (_, r), some (_, rb) =>
      match (parseHex dh).bind ArrayDoc.ofText with
      | some i => pure [if docMatches d i && r == re && rb == "same" && l.outcome.startsWith "ok " then l.outcome else model]
      | none => pure [model]
    | _, _, _ => pure [model]

def handleGBuild (l : Line) : Option (List String) := do
  let opsS ← l.get "ops"
  let ops ← if opsS == "-" then some [] else (opsS.splitOn ";").mapM (fun op =>
    let (k, v) := match op.splitOn ":" with
      | k :: rest => (k, ":".intercalate rest)
      | [] => (op, "")
    match k with
    | "attrs" => (objOfHex v).map GroupSetter.attributes
    | "extra" => (objOfHex v).map (fun o => GroupSetter.additionalFields (extrasOfObj o))
    | _ => none)
  let d := groupBuilderDoc (ops.foldl GroupSetter.apply {})
  let re := if groupOk d then "same" else "rej"
  pure [s!"ok doc={hexOf (print d.toJ)} re={re}"]

def handle (l : Line) : Option (List String) :=
  match l.verbs[1]? with
  | some "build" => handleBuild l
  | some "gbuild" => handleGBuild l
  | _ => none

end Zarrs.DriverC13Build
