import ZarrsModel.Model.Codec
import ZarrsModel.Driver.C01
/- driver handler for C03: predicted encoding of modelled chains, round trip and declared size always required -/
namespace Zarrs.DriverC03
open Zarrs Zarrs.Proto Zarrs.Codec

abbrev Elem := List Nat

/-- interpret the `model=` descriptor on element lists / bytes; `none` = contains a parameter codec -/
structure Acc where
  elems : List Elem
  shape : Shape
  bytes : Option Bytes := none
  a2a : List String := []

def stepCodec (_es : Nat) (acc : Acc) (tok : String) : Option Acc :=
  match tok.splitOn ":" with
  | ["transpose", ord] => do
    let order ← parseNl ord
    let tshape := permute acc.shape order
    let back := permute tshape (inverseOrder order)
    pure { acc with elems := transposeEnc order acc.shape acc.elems, shape := tshape,
                    a2a := acc.a2a ++ [showNl acc.shape ++ ">" ++ showNl tshape ++ "~" ++ showNl back] }
  | ["squeeze"] =>
    let sq := acc.shape.filter (· > 1)
    let sq := if sq.isEmpty then [1] else sq
    pure { acc with shape := sq, a2a := acc.a2a ++ [showNl acc.shape ++ ">" ++ showNl sq ++ "~none"] }
  | ["bytes", e, u] => do
    let unit ← u.toNat?
    pure { acc with bytes := some (bytesEnc (e == "big") unit acc.elems.flatten) }
  | ["crc32c"] => acc.bytes.map (fun b => { acc with bytes := some (crc32cEnc b) })
  | ["fletcher32"] => acc.bytes.map (fun b => { acc with bytes := some (fletcher32Enc b) })
  | ["shuffle", n] => do
    let k ← n.toNat?
    let b ← acc.bytes
    let e ← shuffleEnc k b
    pure { acc with bytes := some e }
  | _ => none

/-- a2a shape mappings only (always predictable) -/
def a2aOnly (shape : Shape) (toks : List String) : List String :=
  (toks.foldl (fun (acc : Shape × List String) tok =>
    match tok.splitOn ":" with
    | ["transpose", ord] =>
      (match parseNl ord with
       | some order => let t := permute acc.1 order; (t, acc.2 ++ [showNl acc.1 ++ ">" ++ showNl t ++ "~" ++ showNl (permute t (inverseOrder order))])
       | none => acc)
    | ["squeeze"] => let sq := acc.1.filter (· > 1); let sq := if sq.isEmpty then [1] else sq; (sq, acc.2 ++ [showNl acc.1 ++ ">" ++ showNl sq ++ "~none"])
    | _ => acc) (shape, [])).2

def field (toks : List String) (k : String) : String :=
  match toks.find? (·.startsWith (k ++ "=")) with
  | some t => (t.drop (k.length + 1)).toString
  | none => ""

def handle (l : Line) : Option (List String) := do
  let shape ← l.nl "shape"
  let model := (← l.get "model").splitOn "|"
  let modelled := (l.get "modelled") == some "1"
  let es := ((l.get "es").bind (·.toNat?)).getD 0
  let otoks := l.outcome.splitOn " "
  if otoks.head? != some "val" then pure ["val rt=true sizeok=true (encode and decode must succeed)"] else
  let a2a := a2aOnly shape model
  let a2aStr := if a2a.isEmpty then "-" else ";".intercalate a2a
  if modelled then
    let elems ← DriverC01.parseElems (← l.get "data")
    let acc ← model.foldl (fun (a : Option Acc) tok => a.bind (fun a => stepCodec es a tok)) (some { elems := elems, shape := shape })
    let enc ← acc.bytes
    pure ["val rt=true sizeok=true len=" ++ toString enc.length ++ " decl=fixed:" ++ toString enc.length ++ " a2a=" ++ a2aStr ++ " enc=" ++ showHex enc]
  else
    pure ["val rt=true sizeok=true len=" ++ field otoks "len" ++ " decl=" ++ field otoks "decl" ++ " a2a=" ++ a2aStr ++ " enc=?"]

end Zarrs.DriverC03
