import ZarrsModel.Model.Codec
import ZarrsModel.Model.PackBits
import ZarrsModel.Model.Lossy
import ZarrsModel.Model.Vlen
import ZarrsModel.Driver.C01
import ZarrsModel.Driver.C03Fso
/- driver handler for C03: predicted encoding of modelled chains, round trip and declared size always required -/
namespace Zarrs.DriverC03
open Zarrs Zarrs.Proto Zarrs.Codec

abbrev Elem := List Nat

/-- interpret the `model=` descriptor on element lists / bytes; `none` = contains a parameter codec -/
structure Acc where
  elems : List Elem
  shape : Shape
  bytes : Option Bytes := none
  a2a : List String := []

/-- `vlen:<32|64>:<little|big>:<index crc32c 0|1>:<data crc32c 0|1>`: the modelled configurations of the `vlen` codec -/
def vlenCfgOf (tok : String) : Option Vlen.Cfg :=
  match tok.splitOn ":" with
  | ["vlen", w, e, ic, dc] =>
    if (w == "64" || w == "32") && (e == "big" || e == "little") && (ic == "0" || ic == "1") && (dc == "0" || dc == "1") then
      some ⟨w == "64", e == "big", if ic == "1" then [crc32cCodec] else [], if dc == "1" then [crc32cCodec] else []⟩
    else none
  | _ => none

def stepCodec (_es : Nat) (acc : Acc) (tok : String) : Option Acc :=
  match tok.splitOn ":" with
  | ["vlenv2"] =>
    -- `vlen_v2` / `vlen-utf8` / `vlen-bytes` / `vlen-array`: the numcodecs layout of the (transposed) elements
    (match Vlen.vlenV2Enc acc.elems.length (Vlen.VArr.ofElems acc.elems) with
     | .ok b => some { acc with bytes := some b }
     | .error _ => none)
  | ["vlen", _, _, _, _] => do
    let c ← vlenCfgOf tok
    match Vlen.vlenEnc c acc.elems.length (Vlen.VArr.ofElems acc.elems) with
    | .ok b => some { acc with bytes := some b }
    | .error _ => none
  | ["transpose", ord] => do
    let order ← parseNl ord
    let tshape := permute acc.shape order
    let back := permute tshape (inverseOrder order)
    pure { acc with elems := transposeEnc order acc.shape acc.elems, shape := tshape,
                    a2a := acc.a2a ++ [showNl acc.shape ++ ">" ++ showNl tshape ++ "~" ++ showNl back] }
  | ["squeeze"] =>
    let sq := acc.shape.filter (· > 1)
    let sq := if sq.isEmpty then [1] else sq
    pure { acc with shape := sq, a2a := acc.a2a ++ [showNl acc.shape ++ ">" ++ showNl sq ++ "~none"] }
  | ["bytes", e, u] => do
    let unit ← u.toNat?
    pure { acc with bytes := some (bytesEnc (e == "big") unit acc.elems.flatten) }
  | ["packbits", w, f, l, pad, sg] => do
    let c : PackBits.Cfg := ⟨← w.toNat?, ← f.toNat?, ← l.toNat?,
      (if pad == "first" then .firstByte else if pad == "last" then .lastByte else .none), sg == "1"⟩
    pure { acc with bytes := some (PackBits.encode c acc.elems.flatten) }
  | ["crc32c"] => acc.bytes.map (fun b => { acc with bytes := some (crc32cEnc b) })
  | ["fletcher32"] => acc.bytes.map (fun b => { acc with bytes := some (fletcher32Enc b) })
  | ["shuffle", n] => do
    let k ← n.toNat?
    let b ← acc.bytes
    let e ← shuffleEnc k b
    pure { acc with bytes := some e }
  | _ => none

/-- a2a shape mappings only (always predictable) -/
def a2aOnly (shape : Shape) (toks : List String) : List String :=
  (toks.foldl (fun (acc : Shape × List String) tok =>
    match tok.splitOn ":" with
    | ["transpose", ord] =>
      (match parseNl ord with
       | some order => let t := permute acc.1 order; (t, acc.2 ++ [showNl acc.1 ++ ">" ++ showNl t ++ "~" ++ showNl (permute t (inverseOrder order))])
       | none => acc)
    | ["squeeze"] => let sq := acc.1.filter (· > 1); let sq := if sq.isEmpty then [1] else sq; (sq, acc.2 ++ [showNl acc.1 ++ ">" ++ showNl sq ++ "~none"])
    | _ => acc) (shape, [])).2

def field (toks : List String) (k : String) : String :=
  match toks.find? (·.startsWith (k ++ "=")) with
  | some t => (t.drop (k.length + 1)).toString
  | none => ""

def leNat (b : List Nat) : Nat := b.foldr (fun x acc => x + 256 * acc) 0
def natLE : Nat → Nat → List Nat
  | 0, _ => []
  | k + 1, v => v % 256 :: natLE k (v / 256)

/-- a number as a signed rational (negative?, numerator, denominator) from its little-endian bytes -/
def ratOf (dtype : String) (b : List Nat) : Option (Bool × Nat × Nat) :=
  let v := leNat b
  let w := 8 * b.length
  if dtype.startsWith "float" || dtype == "bfloat16" then
    let f : Float.Fmt := if dtype == "float32" then Float.f32 else if dtype == "float64" then Float.f64 else if dtype == "float16" then Float.f16 else Float.bf16
    if f.isFinite v then let (n, d) := f.value (f.mag v); some (f.neg v, n, d) else none
  else if dtype.startsWith "int" then (if v ≥ 2 ^ (w - 1) then some (true, 2 ^ w - v, 1) else some (false, v, 1))
  else some (false, v, 1)

/-- |a - b| ≤ tn/td, on signed rationals -/
def within (a b : Bool × Nat × Nat) (tn td : Nat) : Bool :=
  let (sa, na, da) := a; let (sb, nb, db) := b
  -- difference numerator over da*db
  let x := na * db; let y := nb * da
  let diff := if sa == sb then (if x ≥ y then x - y else y - x) else x + y
  diff * td ≤ tn * da * db

/-- judge the decoded elements of a lossy codec -/
def judgeLossy (spec dtype : String) (data dec : List (List Nat)) : Bool :=
  match spec.splitOn ":" with
  | ["bitround", keep, mant] =>
    (match keep.toNat?, mant.toNat? with
     | some k, some m => data.length == dec.length && (data.zip dec).all (fun (x, y) =>
         natLE x.length (Lossy.bitround (8 * x.length) m k (leNat x)) == y)
     | _, _ => false)
  | ["fso", _off, scale, _kind] =>
    (match scale.toNat? with
     | some sc => data.length == dec.length && (data.zip dec).all (fun (x, y) =>
         match ratOf dtype x, ratOf dtype y with
         | some a, some b =>
           -- 0.5/scale, plus the rounding of the float arithmetic itself (x*scale, the division on decode: relative
           -- 2^-20 for float32, 2^-49 for float64 - a value exactly half a step from its neighbours, e.g. 11363.25 at
           -- scale 10, decodes to the double nearest to 11363.3, which is not exactly 0.05 away)
           let (_, na, da) := a
           let slackN := if dtype == "float32" || dtype == "float64" then na else 0
           let slackD := if dtype == "float32" then da * 1048576 else if dtype == "float64" then da * 562949953421312 else 1
           -- tolerance = 1/(2*sc) + slackN/slackD
           within a b (slackD + 2 * sc * slackN) (2 * sc * slackD)
         | _, _ => x == y)
     | none => false)
  | ["zfp", "reversible", _] =>
    -- the reversible mode is lossless by its definition, on every data type the codec accepts
    data == dec
  | ["zfp", "accuracy", tn, td] =>
    -- fixed-accuracy mode: the absolute error is bounded by the tolerance (finite floats)
    (match tn.toNat?, td.toNat? with
     | some a, some b => data.length == dec.length && (data.zip dec).all (fun (x, y) =>
         match ratOf dtype x, ratOf dtype y with
         | some p, some q => within p q a b
         | _, _ => false)
     | _, _ => false)
  | ["zfp", "precision", _] | ["zfp", "rate", _] =>
    -- no tolerance is prescribed: decoding succeeds with the right number of elements (the declared size is judged apart)
    data.length == dec.length && (data.zip dec).all (fun (x, y) => x.length == y.length)
  | _ => false

/-- `c03 vdec codec=<vlenv2|vlen:…> shape=<n> bytes=<hex>`: decode an arbitrary byte string as a chunk of `n`
variable-length elements: `err` or `val <elems>` (the model never panics; where the pinned tree does, it says `err`) -/
def handleVdec (l : Line) : Option (List String) := do
  let tok ← l.get "codec"
  let n := prod (← l.nl "shape")
  let b ← parseHex (← l.get "bytes")
  let r ← if tok == "vlenv2" then some (Vlen.vlenV2Dec n b) else (vlenCfgOf tok).map (fun c => Vlen.vlenDec c n b)
  pure [match r with
        | .ok v => "val " ++ DriverC01.showElems v.elems
        | .error _ => "err"]

def handle (l : Line) : Option (List String) := do
  if l.verbs[1]? == some "vdec" then return (← handleVdec l)
  if l.verbs[1]? == some "fsorep" then return (← DriverC03Fso.handleRep l)
  -- `fixedscaleoffset` predicted by its model (Model/FixedScaleOffset.lean): also the lines the codec refuses
  if let some spec := l.get "lossy" then
    if spec.startsWith "fsox" then return (← DriverC03Fso.handleCodec l spec)
  let shape ← l.nl "shape"
  let model := (← l.get "model").splitOn "|"
  let modelled := (l.get "modelled") == some "1"
  let es := ((l.get "es").bind (·.toNat?)).getD 0
  let otoks := l.outcome.splitOn " "
  if otoks.head? != some "val" then pure ["val rt=true sizeok=true (encode and decode must succeed)"] else
  let a2a := a2aOnly shape model
  let a2aStr := if a2a.isEmpty then "-" else ";".intercalate a2a
  if let some spec := l.get "lossy" then
    -- lossy codec: encode/decode succeed, the declared size holds, the decoded value is the prescribed one
    let data ← DriverC01.parseElems (← l.get "data")
    let dec ← DriverC01.parseElems (field otoks "dec")
    let ok := field otoks "sizeok" == "true" && judgeLossy spec ((l.get "dtype").getD "") data dec
    return [if ok then l.outcome else "val sizeok=true dec=<the value the codec's definition prescribes>"]
  if modelled then
    let elems ← DriverC01.parseElems (← l.get "data")
    let acc ← model.foldl (fun (a : Option Acc) tok => a.bind (fun a => stepCodec es a tok)) (some { elems := elems, shape := shape })
    let enc ← acc.bytes
    -- the variable-length codecs declare `UnboundedSize`, and so does every bytes->bytes codec after them
    let decl := if model.any (·.startsWith "vlen") then "unbounded" else "fixed:" ++ toString enc.length
    pure ["val rt=true sizeok=true len=" ++ toString enc.length ++ " decl=" ++ decl ++ " a2a=" ++ a2aStr ++ " enc=" ++ showHex enc]
  else
    pure ["val rt=true sizeok=true len=" ++ field otoks "len" ++ " decl=" ++ field otoks "decl" ++ " a2a=" ++ a2aStr ++ " enc=?"]

end Zarrs.DriverC03
