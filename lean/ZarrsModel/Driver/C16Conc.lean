import ZarrsModel.Driver.Proto
import ZarrsModel.Model.Concurrency
/- driver handler for `c16 conc` lines (harness/src/c16c.rs): the model of `concurrency_chunks_and_codec` /
`calc_concurrency_outer_inner` / `RecommendedConcurrency::new` / `CodecOptions` (`Model/Concurrency.lean`) predicts the
line's outcome exactly: the recommendations as read back, both limits, every option field; for `e2e=<k>` lines the
number of keys written and the read outcomes follow from the options the model says are handed to the per-chunk calls
(`Props/C16Conc.chunksAndCodec_options_preserved`). Unverified glue. -/
namespace Zarrs.DriverC16Conc
open Zarrs Zarrs.Proto Zarrs.Concurrency

def showMax : Option Nat → String
  | none => "inf"
  | some m => toString m

def b01 (b : Bool) : String := if b then "1" else "0"

/-- the `RangeBounds` form the harness hands to `RecommendedConcurrency::new` (`make_rec` of c16c.rs) -/
def makeRec (kind : String) (rmin : Nat) (rmax : Option Nat) : Option RecConc :=
  match kind, rmax with
  | "ho", some b => some (RecConc.new rmin b)
  | "ho", none => some (RecConc.ofBounds (.included rmin) .unbounded)
  | "from", _ => some (RecConc.ofBounds (.included rmin) .unbounded)
  | "inc", some b => some (RecConc.ofBounds (.included rmin) (.included b))
  | "to", some b => some (RecConc.ofBounds .unbounded (.excluded b))
  | "toinc", some b => some (RecConc.ofBounds .unbounded (.included b))
  | "full", _ => some (RecConc.ofBounds .unbounded .unbounded)
  | "xs", some b => some (RecConc.ofBounds (.excluded rmin) (.excluded b))
  | "xsinc", some b => some (RecConc.ofBounds (.excluded rmin) (.included b))
  | "xs", none => some (RecConc.ofBounds (.excluded rmin) .unbounded)
  | "newmin", _ => some (RecConc.newMinimum rmin)
  | "newmax", some b => some (RecConc.newMaximum b)
  | _, _ => none

/-- the end-to-end part: arrays of `k` chunks with the chain bytes + crc32c (`chainRec leafRec [leafRec]`), operations at
    `concurrent_target = target`; what happens to each chunk is decided by the options the split hands down -/
def e2e (cfg : GlobalCfg) (k target : Nat) : String :=
  let codec := chainRec leafRec [leafRec]
  -- the single-chunk fast paths do not go through the split
  let down (o : Opts) : Option Opts := if k ≤ 1 then some o else (chunksAndCodec cfg target k o codec).map (·.2)
  let wr := match down ⟨true, true, target, false⟩ with
    | some o => if o.storeEmptyChunks then toString k else "0"
    | none => "panic"
  let rd (validate : Bool) := match down ⟨validate, false, target, false⟩ with
    | some o => if o.validateChecksums then "err" else "ok"
    | none => "panic"
  s!" e2e keys={wr}/{wr} nv={rd false}/{rd false}/{rd false} v={rd true}/{rd true}/{rd true}"

def handle (l : Line) : Option (List String) := do
  let target ← l.nat "target"
  let chunks ← l.nat "chunks"
  let ccm ← l.nat "ccm"
  let rmin ← l.nat "rmin"
  let rmaxS ← l.get "rmax"
  let rmax : Option Nat ← if rmaxS == "inf" then some none else (rmaxS.toNat?).map some
  let kind := (l.get "rk").getD "ho"
  let o ← l.nl "opts"
  if o.length != 4 then none else
  let opts : Opts := ⟨o[0]! != 0, o[1]! != 0, o[2]!, o[3]! != 0⟩
  let rec_ ← makeRec kind rmin rmax
  let cfg : GlobalCfg := { codecConcurrentTarget := 0, chunkConcurrentMinimum := ccm }
  let crec := chunksRec ccm chunks
  match chunksAndCodec cfg target chunks opts rec_, calcOuterInner target crec rec_ with
  | some (lim, out), some (co, ci) =>
    -- Binding: the three option flags handed down are the caller's, both limits are at least 1 (0 would mean "no limit" /
    -- no progress), and the end-to-end observables. Informational: the NUMERIC split (another split of the same target that
    -- keeps every caller option is an equally valid implementation; no observable of the property depends on it).
    let toks := l.outcome.splitOn " "
    let obs (k : String) : String := match toks.find? (·.startsWith (k ++ "=")) with
      | some t => (t.drop (k.length + 1)).toString | none => ""
    let ge1 (t : String) : Bool := match t.toNat? with | some n => n ≥ 1 | none => false
    let oo := (obs "opts").splitOn ","
    let coi := (obs "coi").splitOn ","
    let shapeOk := ge1 (obs "lim") && oo.length == 4 && ge1 (oo[2]?.getD "") && coi.length == 2 && coi.all ge1
    let s := if shapeOk then
        s!"rec={obs "rec"} crec={obs "crec"} lim={obs "lim"} coi={obs "coi"} " ++
        s!"opts={b01 out.validateChecksums},{b01 out.storeEmptyChunks},{oo[2]?.getD ""},{b01 out.experimentalPartialEncoding}"
      else
        s!"rec={rec_.min},{showMax rec_.max} crec={crec.min},{showMax crec.max} lim={lim} coi={co},{ci} " ++
        s!"opts={b01 out.validateChecksums},{b01 out.storeEmptyChunks},{out.concurrentTarget},{b01 out.experimentalPartialEncoding}"
    match l.get "e2e" with
    | none => pure [s]
    | some ks =>
      let k ← ks.toNat?
      pure [s ++ e2e cfg k target]
  | _, _ => pure ["panic"]

end Zarrs.DriverC16Conc
