import ZarrsModel.Driver.C01
/- driver handler for C16: C01/C06 handlers + parallel client sections executed sequentially on the model -/
namespace Zarrs.DriverC16
open Zarrs Zarrs.Proto

structure St where
  base : DriverC01.St := {}
  pending : List (Nat × Line) := []
  nthreads : Nat := 0

/-- strip `pthread` from the verbs so that the C01 handler sees `c16 op <verb> ...` -/
def unwrap (l : Line) : Line := { l with verbs := l.verbs.filter (· != "pthread") }

def handle (st : St) (l : Line) : Option (St × List String × Option String) := do
  let v1 ← l.verbs[1]?
  if v1 == "cfg" then
    let (b, acc, n) ← DriverC01.handle st.base l
    pure ({ base := b, pending := [], nthreads := 0 }, acc, n)
  else
    let verb ← l.verbs[2]?
    match verb with
    | "set_ccm" => pure (st, ["ok"], none)
    | "pstart" => pure ({ st with pending := [], nthreads := (l.nat "n").getD 0 }, ["ok"], none)
    | "pthread" => pure ({ st with pending := st.pending ++ [((l.nat "t").getD 0, unwrap l)] }, ["queued"], none)
    | "prun" =>
      -- sequential execution, thread by thread (the regions are chunk-disjoint: C16.interleave_eq_solo)
      let (b, outs, notes) := (List.range st.nthreads).foldl (fun (acc : DriverC01.St × List String × List String) t =>
        let ops := (st.pending.filter (·.1 == t)).map (·.2)
        let (b, rs, ns) := ops.foldl (fun (a : DriverC01.St × List String × List String) op =>
          match DriverC01.handle a.1 op with
          | some (b', o, n) => (b', a.2.1 ++ [o.headD "?"], match n with | some x => a.2.2 ++ [x] | none => a.2.2)
          | none => (a.1, a.2.1 ++ ["bad-op"], a.2.2)) (acc.1, [], acc.2.2)
        (b, acc.2.1 ++ [",".intercalate rs], ns)) (st.base, [], [])
      pure ({ st with base := b, pending := [] }, ["par " ++ "|".intercalate outs], notes.head?)
    | "tl_cached_subset" =>
      let (b, acc, n) ← DriverC01.handle st.base { l with verbs := ["c16", "op", "cached_subset"] }
      pure ({ st with base := b }, acc, n)
    | "tl_cached_chunks" =>
      let (b, acc, n) ← DriverC01.handle st.base { l with verbs := ["c16", "op", "cached_chunks"] }
      pure ({ st with base := b }, acc, n)
    | _ =>
      let (b, acc, n) ← DriverC01.handle st.base l
      pure ({ st with base := b }, acc, n)

end Zarrs.DriverC16
