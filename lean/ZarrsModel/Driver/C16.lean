import ZarrsModel.Driver.C01
import ZarrsModel.Driver.C05
/- driver handler for C16: C01/C06 handlers + parallel client sections executed sequentially on the model;
`rawshard`: the raw stored value of a shard written at some concurrency target is parsed independently of zarrs
(Props/C16Shard: every schedule of the parallel assembly yields a legal shard of the same length holding the same inner
chunks) -/
namespace Zarrs.DriverC16
open Zarrs Zarrs.Proto Zarrs.Codec

structure St where
  base : DriverC01.St := {}
  pending : List (Nat × Line) := []
  nthreads : Nat := 0
  dtype : String := ""
  /-- `grp=` of `rawshard` lines: length and inner-chunk payloads of the first value seen in the group -/
  groups : List (String × Nat × List (Option Bytes)) := []

/-- live entries sorted by offset do not overlap (entries of size 0 occupy nothing); `Shard.wellFormed` states the same
pairwise (cubic on lists — too slow for shards with a thousand inner chunks) -/
def disjointSorted (live : List (Nat × Nat)) : Bool :=
  let sorted := (live.filter (fun e => e.2 != 0)).mergeSort (fun a b => a.1 ≤ b.1)
  (sorted.zip (sorted.drop 1)).all (fun (a, b) => decide (a.1 + a.2 ≤ b.1))

/-- judge the raw value of a (top-level, last-in-chain) shard against the model's contents of the chunk: returns the
complaint, or the total length and the stored inner-chunk payloads in index order -/
def judgeShard (st : DriverC01.St) (dtype : String) (c : Idx) (v : Bytes) : Except String (Nat × List (Option Bytes)) :=
  match st.cfg with
  | none => .error "no configuration"
  | some cfg =>
    let toks := DriverC05.splitTop st.chain
    match cfg.chunkShape c, cfg.retrieveChunk st.st c, toks.findIdx? (·.startsWith "shard[") with
    | some cshape, some xs, some i =>
      if i + 1 != toks.length then .error "rawshard needs the sharding codec last in the chain" else
      match DriverC05.parseShard (toks.getD i "") with
      | none => .error "unparsable shard description"
      | some sd =>
        let n := if prod sd.inner == 0 then 0 else prod cshape / prod sd.inner
        let scfg : Shard.Cfg := ⟨n, sd.atEnd, sd.big, sd.crc⟩
        match Shard.indexBytes scfg v with
        | none => .error "the value is shorter than its index"
        | some ib =>
          match Shard.decodeIndex scfg true ib with
          | .error _ => .error "the index does not decode at its declared location (checksum validated)"
          | .ok entries =>
            let live := entries.filter Shard.isLive
            let reg := Shard.indexRegion scfg v.length
            if !live.all (fun e => decide (e.1 + e.2 ≤ v.length) && (decide (e.1 + e.2 ≤ reg.1) || decide (reg.2 ≤ e.1))) then
              .error "a live index entry reaches outside the value or into the index"
            else if !disjointSorted live then .error "two live index entries overlap (two inner chunks were given the same byte range)"
            else
              let total := (live.map (·.2)).sum
              if v.length != total + Shard.indexSize scfg then
                .error s!"the length {v.length} is not the sum of the stored inner chunks {total} plus the index {Shard.indexSize scfg}"
              else
                let payloads := entries.map (fun e => if Shard.isLive e then some (slice v e.1 (e.1 + e.2)) else none)
                -- contents: plain shard (no array-to-array codec before it, not nested)
                if i != 0 || (sd.innerChain.splitOn "shard[").length > 1 then .ok (v.length, payloads) else
                let innerBox : Subset := ⟨cshape.map (fun _ => 0), cshape⟩
                let innerChunks := (innerBox.chunks sd.inner).map (·.2)
                let itoks := DriverC05.splitTop sd.innerChain
                let bad := (List.zip innerChunks payloads).findSome? (fun (sub, pl) =>
                  let elems := sub.extract cshape xs
                  let fill := elems.all (· == cfg.fill)
                  match pl with
                  | none => if fill then none else some "an inner chunk with non-fill data has the sentinel index entry"
                  | some b =>
                    if fill then some "an all-fill inner chunk is stored (store_empty_chunks is off)" else
                    match DriverC05.encodeModelled itoks dtype st.es sd.inner elems with
                    | some e => if e == b then none else
                        some ("an inner chunk's stored bytes " ++ showHex b ++ " are not its encoding " ++ showHex e)
                    | none => none)
                match bad with
                | some why => .error why
                | none => .ok (v.length, payloads)
    | _, _, _ => .error "not a sharded chunk of the model"

/-- strip `pthread` from the verbs so that the C01 handler sees `c16 op <verb> ...` -/
def unwrap (l : Line) : Line := { l with verbs := l.verbs.filter (· != "pthread") }

def handle (st : St) (l : Line) : Option (St × List String × Option String) := do
  let v1 ← l.verbs[1]?
  if v1 == "cfg" then
    let (b, acc, n) ← DriverC01.handle st.base l
    pure ({ base := b, pending := [], nthreads := 0, dtype := (l.get "dtype").getD "", groups := [] }, acc, n)
  else
    let verb ← l.verbs[2]?
    match verb with
    | "shardext_steal" => pure (st, ["val n=" ++ (l.get "n").getD "?" ++ " bad_a=0 bad_b=0"], none)
    | "shardext_stress" => pure (st, ["val n=" ++ (l.get "n").getD "?" ++ " bad_a=0 bad_b=0"], none)
    | "set_ccm" => pure (st, ["ok"], none)
    | "set_ct" => pure (st, ["ok"], none)
    | "rawshard" =>
      let c ← l.nl "c"
      let grp := (l.get "grp").getD ""
      if !l.outcome.startsWith "raw " || l.outcome == "raw none" then pure (st, ["raw <value>"], none) else
      match parseHex ((l.outcome.drop 4).toString) with
      | none => pure (st, ["raw <value>"], none)
      | some v =>
        match judgeShard st.base st.dtype c v with
        | .error why => pure (st, ["rawshard: " ++ why], none)
        | .ok (len, payloads) =>
          if grp == "" then pure (st, [l.outcome], none) else
          match st.groups.find? (·.1 == grp) with
          | none => pure ({ st with groups := (grp, len, payloads) :: st.groups }, [l.outcome], none)
          | some (_, len0, payloads0) =>
            if len != len0 then pure (st, [s!"rawshard: length {len0} expected (same contents written at another concurrency target), not {len}"], none)
            else if payloads != payloads0 then pure (st, ["rawshard: the stored inner chunks differ from those written at another concurrency target"], none)
            else pure (st, [l.outcome], none)
    | "pstart" => pure ({ st with pending := [], nthreads := (l.nat "n").getD 0 }, ["ok"], none)
    | "pthread" => pure ({ st with pending := st.pending ++ [((l.nat "t").getD 0, unwrap l)] }, ["queued"], none)
    | "prun" =>
      -- sequential execution, thread by thread (the regions are chunk-disjoint: C16.interleave_eq_solo)
      let (b, outs, notes) := (List.range st.nthreads).foldl (fun (acc : DriverC01.St × List String × List String) t =>
        let ops := (st.pending.filter (·.1 == t)).map (·.2)
        let (b, rs, ns) := ops.foldl (fun (a : DriverC01.St × List String × List String) op =>
          match DriverC01.handle a.1 op with
          | some (b', o, n) => (b', a.2.1 ++ [o.headD "?"], match n with | some x => a.2.2 ++ [x] | none => a.2.2)
          | none => (a.1, a.2.1 ++ ["bad-op"], a.2.2)) (acc.1, [], acc.2.2)
        (b, acc.2.1 ++ [",".intercalate rs], ns)) (st.base, [], [])
      pure ({ st with base := b, pending := [] }, ["par " ++ "|".intercalate outs], notes.head?)
    | "tl_cached_subset" =>
      let (b, acc, n) ← DriverC01.handle st.base { l with verbs := ["c16", "op", "cached_subset"] }
      pure ({ st with base := b }, acc, n)
    | "tl_cached_chunks" =>
      let (b, acc, n) ← DriverC01.handle st.base { l with verbs := ["c16", "op", "cached_chunks"] }
      pure ({ st with base := b }, acc, n)
    | _ =>
      let (b, acc, n) ← DriverC01.handle st.base l
      pure ({ st with base := b }, acc, n)

end Zarrs.DriverC16
