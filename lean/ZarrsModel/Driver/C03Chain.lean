import ZarrsModel.Model.ChainSDec
import ZarrsModel.Driver.C02Shard
/-
driver handler for C03 on (nested) sharded chains (verbs `c03 chains`, `c03 chaindec`; harness/src/c03c.rs).
The request carries the chunk shape, the sharding levels (inner shapes, index location / byte order / crc32c, the
array-to-array codecs before and the bytes-to-bytes codecs after each level, outermost first) and the leaf chain.

`chains`: the implementation's encoding `enc` is judged WITHOUT assuming a layout (the order of the inner chunks in
`ShardingCodec::encode_*` depends on the schedule of the parallel loop): the model's full decoder `ChainS.decode` on
`enc` must return the data, every shard at every level must be well formed (`Shard.wellFormed`), the length must be that
of the model's encoding and the declared size the model's `ChainS.bound`.  With `strict=1` in the request the bytes are compared with the model's own layout instead.
`chaindec`: the model's `ChainS.decode` predicts accept/reject and the value.
-/
namespace Zarrs.DriverC03Chain
open Zarrs Zarrs.Proto Zarrs.Codec Zarrs.Partial

structure Level where
  ish : Shape
  cfg : Shard.Cfg
  a2a : List AStage
  b2b : List BStage

def buildS (es : Nat) : List Level → Chain × List Bool → ChainS
  | [], c => .leaf c.1 c.2
  | l :: rest, c => .shard l.a2a l.cfg l.ish es (buildS es rest c) l.b2b

def zipLevels : List Shape → List String → List String → List String → List String → List String → Option (List Level)
  | [], [], [], [], [], [] => some []
  | s :: ss, l :: ls, e :: es, c :: cs, a :: as, b :: bs => do
    let a2a ← DriverC02S.parseA2A a
    let b2b ← DriverC02S.parseB2B b
    let rest ← zipLevels ss ls es cs as bs
    pure ({ ish := s, cfg := ⟨0, l == "end", e == "big", c == "1"⟩, a2a := a2a, b2b := b2b } :: rest)
  | _, _, _, _, _, _ => none

/-- every shard value at every level is well formed (index decodes, live entries inside the value, outside the index,
pairwise disjoint), and every stored inner chunk is again such a value -/
def wfAll : ChainS → Shape → Bytes → Bool
  | .leaf _ _, _, _ => true
  | .shard a2a cfg ish _ inner b2b, sh, b =>
    match decodeB2B b2b b with
    | none => false
    | some v =>
      let cfg' : Shard.Cfg := { cfg with nChunks := prod (zipDiv (shapesOf a2a sh) ish) }
      Shard.wellFormed cfg' v &&
      (match Shard.decode cfg' true v with
       | .error _ => false
       | .ok chunks => chunks.all (fun ch => match ch with
           | none => true
           | some e => wfAll inner ish e))

def parseChain (l : Line) : Option (ChainS × Shape × Elem) := do
  let ssh ← l.nl "ssh"
  let ishs ← parseNll (← l.get "ishs")
  let levels ← zipLevels ishs ((← l.get "locs").splitOn ";") ((← l.get "iends").splitOn ";")
    ((← l.get "icrcs").splitOn ";") ((← l.get "a2as").splitOn ";") ((← l.get "b2bs").splitOn ";")
  let es ← l.nat "es"
  let fill ← parseHex (← l.get "fill")
  let leaf ← DriverC02S.parseLeaf es (← l.get "chain")
  if levels.isEmpty then none else
  pure (buildS es levels leaf, ssh, fill)

def field (toks : List String) (k : String) : String :=
  match toks.find? (·.startsWith (k ++ "=")) with
  | some t => (t.drop (k.length + 1)).toString
  | none => ""

/-- acceptable outcomes, optional note -/
def handle (l : Line) : Option (List String × Option String) := do
  let (c, ssh, fill) ← parseChain l
  if l.verbs[1]? == some "chainpd" then
    -- the partial decoder over a stored value: wherever the model's full decoder accepts the value, every in-bounds region is
    -- the slice of the decoded chunk; a value the full decoder rejects carries no requirement here (a partial read need not
    -- touch the offending bytes)
    let b ← parseHex (← l.get "bytes")
    let rs ← ((← l.get "rs").splitOn "|").mapM DriverC01.parseSubset
    return ([match c.decode ssh fill b with
             | some xs => "val " ++ "|".intercalate (rs.map (fun r => DriverC01.showElems (r.extract ssh xs)))
             | none => l.outcome], none)
  if l.verbs[1]? == some "chaindec" then
    let b ← parseHex (← l.get "bytes")
    return ([match c.decode ssh fill b with
             | some xs => "val " ++ DriverC01.showElems xs
             | none => "err"], none)
  let data ← DriverC01.parseElems (← l.get "data")
  let otoks := l.outcome.splitOn " "
  let menc := c.encode ssh fill data
  let decl := match c.bound ssh with
    | some n => "bounded:" ++ toString n
    | none => "unbounded"
  let want := "val rt=true sizeok=true len=" ++ toString menc.length ++ " decl=" ++ decl
  if otoks.head? != some "val" then return ([want ++ " enc=<a legal layout>"], none)
  let enc ← parseHex (field otoks "enc")
  let okDec := c.decode ssh fill enc == some data
  let okWf := wfAll c ssh enc
  let okModel := c.decode ssh fill menc == some data
  if l.get "strict" == some "1" then
    -- byte-for-byte comparison with the model's layout (inner chunks in C order): used to COUNT schedule-dependent layouts
    return ([want ++ " enc=" ++ showHex menc], none)
  if okDec && okWf && okModel then
    -- layout accepted: the rest of the outcome is predicted exactly
    pure ([want ++ " enc=" ++ showHex enc], none)
  else
    pure ([want ++ " enc=<a legal layout: model decode ok=" ++ toString okDec ++ " wellformed=" ++ toString okWf ++
      " model roundtrip=" ++ toString okModel ++ ">"], none)

end Zarrs.DriverC03Chain
