import ZarrsModel.Driver.C01
import ZarrsModel.Model.IndexEntry
/- driver handler for C15: judge the corruption tallies reported by the harness by the protection level of the case -/
namespace Zarrs.DriverC15
open Zarrs Zarrs.Proto

structure St where
  base : DriverC01.St := {}
  prot : String := "none"
  /-- sharded case: the inner chunks carry a checksum / the index carries a checksum -/
  isum : Bool := false
  icrc : Bool := false
  /-- a crc32c stage at the top level of the chain: every alteration that changes the decoded data changes the bytes
  that stage checks, so MULTI-byte corruption is detected too (up to a 2^-32 collision); Fletcher-32 alone gives no such
  certainty (a run of 0x0000 words replaced by 0xFFFF words has the same sums) -/
  crcTop : Bool := false

def setField (toks : List String) (k v : String) : List String :=
  toks.map (fun t => if t.startsWith (k ++ "=") then k ++ "=" ++ v else t)
def getField (toks : List String) (k : String) : Option String :=
  (toks.find? (·.startsWith (k ++ "="))).map (fun t => (t.drop (k.length + 1)).toString)

/-- is the index entry (off, size) live and outside a value of `len` bytes (also when off+size ≥ 2^64)?
The executable `Nat` form `IndexEntry.entryOutOfBoundsNat`; `C15Entry.classify_err_iff_nat` / `entryBadChecked_iff_nat`
(Props/C15Entry.lean) prove it is, for every triple of `u64`, the verdict of the code's
`offset.checked_add(size).is_none_or(|end| end > len)` behind its sentinel test -/
def entryOutOfBounds (off size len : Nat) : Bool := IndexEntry.entryOutOfBoundsNat off size len

/-- the codec names at the top level of a chain description (`shard[…]` contents removed) -/
def topTokens (chain : String) : List String :=
  let (_, cur, acc) := chain.toList.foldl (fun (st : Nat × List Char × List String) c =>
    let (d, cur, acc) := st
    if c == '[' then (d + 1, cur, acc)
    else if c == ']' then (d - 1, cur, acc)
    else if d > 0 then (d, cur, acc)
    else if c == '|' then (d, [], acc ++ [String.ofList cur])
    else (d, cur ++ [c], acc)) (0, [], [])
  acc ++ [String.ofList cur]

def handle (st : St) (l : Line) : Option (St × List String × Option String) := do
  let v1 ← l.verbs[1]?
  if v1 == "cfg" then
    let (b, acc, n) ← DriverC01.handle st.base l
    pure ({ base := b, prot := (l.get "prot").getD "none", isum := (l.get "isum") == some "1", icrc := (l.get "icrc") == some "1",
            crcTop := (topTokens ((l.get "chain").getD "")).contains "crc32c" }, acc, n)
  else
    let verb ← l.verbs[2]?
    -- lines after an abort of the child process were not executed
    if l.outcome == "skip" then pure (st, ["skip"], none) else
    if verb == "novalidate" then
      -- reads with validation switched off after altering only checksum bytes: nothing may change
      let toks := l.outcome.splitOn " "
      if toks.head? != some "nv" then
        if l.outcome == "absent" then pure (st, [l.outcome], none)
        else pure (st, ["nv … (the pristine value must be readable and no read may abort the process)"], none)
      else pure (st, [" ".intercalate (setField (setField toks "bad" "0") "first" "-")], none)
    else
    if !(["corrupt_all", "multi", "truncate_all", "extend", "setindex"].contains verb) then
      let (b, acc, n) ← DriverC01.handle st.base l
      pure ({ st with base := b }, acc, n)
    else
      let toks := l.outcome.splitOn " "
      if toks.head? != some "sum" then
        -- `absent` (the chunk is not stored) and `skip` carry no verdict; anything else (abort, failed pristine read) is a violation
        if l.outcome == "absent" || l.outcome == "skip" then pure (st, [l.outcome], none)
        else pure (st, ["sum … (the pristine value must be readable and no read may abort the process)"], none)
      else
        -- requirements
        let t := setField toks "panics" "0"
        -- different data from a whole-value read: never after ONE altered byte, a truncation or an extension of a protected
        -- value; after a multi-byte corruption only where detection is certain (the property's own wording)
        let t := if (st.prot == "outer" || st.prot == "some") && (verb != "multi" || st.crcTop) then setField t "full_diff" "0" else t
        let t := if st.prot == "outer" && verb == "corrupt_all" then setField t "full_same" "0" else t
        -- a shard whose inner chunks carry a checksum: one altered byte outside the index is inside a protected inner
        -- chunk (zarrs writes no gaps), so every whole-value read must fail; likewise inside a checksummed index
        let t := if verb == "corrupt_all" && st.isum then setField t "data_full_noterr" "0" else t
        let t := if verb == "corrupt_all" && st.icrc then setField t "index_full_noterr" "0" else t
        let t := if verb == "truncate_all" && (getField toks "short_noterr").isSome then setField t "short_noterr" "0" else t
        let t := if verb == "setindex" then
            match (getField toks "eoff").bind (·.toNat?), (getField toks "esize").bind (·.toNat?), (getField toks "len").bind (·.toNat?) with
            | some off, some size, some len =>
              -- an entry referring outside the stored value: every whole-value read AND every partial read confined to
              -- that inner chunk must be an error or return what it returned before ("error or unchanged data")
              if entryOutOfBounds off size len then setField (setField (setField t "full_noterr" "0") "touch_bad" "0") "touch_first" "-" else t
            | _, _, _ => t
          else t
        -- `first=` names the first offending read; it is informational
        let t := if t != toks then setField t "first" "-" else t
        pure (st, [" ".intercalate t], none)

end Zarrs.DriverC15
