import ZarrsModel.Model.Grid
import ZarrsModel.Model.GridApi
import ZarrsModel.Driver.Proto
/- driver handlers for C10 -/
namespace Zarrs.DriverC10
open Zarrs Zarrs.Proto

def parseDim (s : String) : Option DimCfg :=
  if s.startsWith "f" then (s.drop 1).toNat?.map DimCfg.fixed
  else if s.startsWith "v" then (parseNl (s.drop 1).toString).map DimCfg.varying
  else none

def parseGrid (s : String) : Option Grid :=
  if s.startsWith "R" then (parseNl (s.drop 1).toString).map (fun cs => Grid.new (cs.map DimCfg.fixed))
  else if s == "~" then some []
  else ((s.splitOn ";").mapM parseDim).map Grid.new

def showSubset (s : Subset) : String := showNl s.start ++ "+" ++ showNl s.shape
def so {α} (f : α → String) : Option α → String
  | some x => f x
  | none => "none"

/-! ### API-coverage additions: `_unchecked` trait methods, the regular grid's own accessors and `From` conversions,
the grid-related `Array` methods -/

def soe {α} (f : α → String) : Option α → String
  | some x => f x
  | none => "err"

def handleApi (l : Line) (verb : String) (g : Grid) (arr : Shape) : Option String := do
  let d := g.length
  match verb with
  | "ugridshape" =>
    -- both implementations `assert_eq!(array_shape.len(), self.dimensionality())`
    if arr.length != d then pure "panic" else pure ("val " ++ so showNl (g.gridShape arr))
  | "uchunk" =>
    let c ← l.nl "c"
    pure ("val origin=" ++ so showNl (g.chunkOrigin c) ++ " shape=" ++ so showNl (g.chunkShape c) ++
      " shapenz=" ++ so showNl (g.chunkShape c) ++ " subset=" ++ so showSubset (g.subset c))
  | "uelem" =>
    let i ← l.nl "i"
    pure ("val cidx=" ++ so showNl (g.chunkIndices i) ++ " eidx=" ++ so showNl (g.chunkElementIndices i))
  | "regular" =>
    -- `RegularChunkGrid::chunk_shape{,_u64}` and the `From`/`TryFrom` conversions to `ChunkGrid`: all the same grid
    let cs ← parseNl ((← l.get "grid").drop 1).toString
    let raw ← l.nl "raw"
    let gs := if arr.length != d then "err" else so showNl (g.gridShape arr)
    let fromarr := if cs.length == 1 || cs.length == 2 then gs ++ "/" ++ gs else "skip"
    let tf := if raw.any (· == 0) then "err" else
      if arr.length != raw.length then "err" else so showNl ((Grid.regular raw).gridShape arr)
    pure ("val cs=" ++ showNl cs ++ " u64=" ++ showNl cs ++ " toarr=" ++ showNl cs ++ " fromvec=" ++ gs ++ " fromslice=" ++ gs ++
      " fromshape=" ++ gs ++ " fromarr=" ++ fromarr ++ " tryfrom=" ++ tf)
  | "agridshape" =>
    match ArrGrid.new? g arr with
    | none => pure "err-build"
    | some a =>
      pure ("val " ++ so showNl a.chunkGridShape ++ " all=" ++ showSubset a.subsetAll ++ " dim=" ++ toString a.shape.length ++
        " gdim=" ++ toString a.grid.length ++ " shape=" ++ showNl a.shape)
  | "achunk" =>
    match ArrGrid.new? g arr with
    | none => pure "err-build"
    | some a =>
      let c ← l.nl "c"
      pure ("val origin=" ++ soe showNl (a.chunkOrigin c) ++ " shape=" ++ soe showNl (a.chunkShape c) ++
        " usize=" ++ soe showNl (a.chunkShape c) ++ " repr=" ++ soe showNl (a.chunkShape c) ++
        " subset=" ++ soe showSubset (a.chunkSubset c) ++ " bounded=" ++ soe showSubset (a.chunkSubsetBounded c))
  | "aregion" =>
    match ArrGrid.new? g arr with
    | none => pure "err-build"
    | some a =>
      let r : Subset := ⟨← l.nl "start", ← l.nl "shape"⟩
      pure ("val " ++ soe (so showSubset) (a.chunksInArraySubset r))
  | "achunks" =>
    match ArrGrid.new? g arr with
    | none => pure "err-build"
    | some a =>
      let r : Subset := ⟨← l.nl "start", ← l.nl "shape"⟩
      pure ("val subset=" ++ soe showSubset (a.chunksSubset r) ++ " bounded=" ++ soe showSubset (a.chunksSubsetBounded r))
  | _ => none

def handle (l : Line) : Option String := do
  let verb ← l.verbs[1]?
  let g ← parseGrid (← l.get "grid")
  let arr ← l.nl "arr"
  let d := g.length
  match verb with
  | "gridshape" =>
    let r := if arr.length != d then "err" else so showNl (g.gridShape arr)
    pure ("val " ++ r ++ " dim=" ++ toString d)
  | "chunk" =>
    let c ← l.nl "c"
    let bad := c.length != d || arr.length != d
    let f {α} (x : Option α) (sh : α → String) : String := if bad then "err" else so sh x
    pure ("val origin=" ++ f (g.chunkOrigin c) showNl ++ " shape=" ++ f (g.chunkShape c) showNl ++
      " shapenz=" ++ f (g.chunkShape c) showNl ++ " subset=" ++ f (g.subset c) showSubset ++
      " inb=" ++ showBool (g.chunkIndicesInbounds c arr))
  | "elem" =>
    let i ← l.nl "i"
    let bad := i.length != d || arr.length != d
    let f {α} (x : Option α) (sh : α → String) : String := if bad then "err" else so sh x
    pure ("val cidx=" ++ f (g.chunkIndices i) showNl ++ " eidx=" ++ f (g.chunkElementIndices i) showNl ++
      " inb=" ++ showBool (g.arrayIndicesInbounds i arr))
  | "region" =>
    let r : Subset := ⟨← l.nl "start", ← l.nl "shape"⟩
    -- `chunks_in_array_subset` checks ranks only through `chunk_indices` (empty regions skip the check)
    if r.isEmpty then pure ("val " ++ showSubset (Subset.newEmpty d)) else
    if r.rank != d || arr.length != d then pure "val err" else
    pure ("val " ++ so showSubset (g.chunksInArraySubset r arr))
  | "chunkssubset" =>
    let r : Subset := ⟨← l.nl "start", ← l.nl "shape"⟩
    if r.rank != d || arr.length != d then pure "val err" else
    pure ("val " ++ so showSubset (g.chunksSubset r))
  | other => handleApi l other g arr

end Zarrs.DriverC10
