import ZarrsModel.Model.Grid
import ZarrsModel.Driver.Proto
/- driver handlers for C10 -/
namespace Zarrs.DriverC10
open Zarrs Zarrs.Proto

def parseDim (s : String) : Option DimCfg :=
  if s.startsWith "f" then (s.drop 1).toNat?.map DimCfg.fixed
  else if s.startsWith "v" then (parseNl (s.drop 1).toString).map DimCfg.varying
  else none

def parseGrid (s : String) : Option Grid :=
  if s.startsWith "R" then (parseNl (s.drop 1).toString).map (fun cs => Grid.new (cs.map DimCfg.fixed))
  else if s == "~" then some []
  else ((s.splitOn ";").mapM parseDim).map Grid.new

def showSubset (s : Subset) : String := showNl s.start ++ "+" ++ showNl s.shape
def so {α} (f : α → String) : Option α → String
  | some x => f x
  | none => "none"

def handle (l : Line) : Option String := do
  let verb ← l.verbs[1]?
  let g ← parseGrid (← l.get "grid")
  let arr ← l.nl "arr"
  let d := g.length
  match verb with
  | "gridshape" =>
    let r := if arr.length != d then "err" else so showNl (g.gridShape arr)
    pure ("val " ++ r ++ " dim=" ++ toString d)
  | "chunk" =>
    let c ← l.nl "c"
    let bad := c.length != d || arr.length != d
    let f {α} (x : Option α) (sh : α → String) : String := if bad then "err" else so sh x
    pure ("val origin=" ++ f (g.chunkOrigin c) showNl ++ " shape=" ++ f (g.chunkShape c) showNl ++
      " shapenz=" ++ f (g.chunkShape c) showNl ++ " subset=" ++ f (g.subset c) showSubset ++
      " inb=" ++ showBool (g.chunkIndicesInbounds c arr))
  | "elem" =>
    let i ← l.nl "i"
    let bad := i.length != d || arr.length != d
    let f {α} (x : Option α) (sh : α → String) : String := if bad then "err" else so sh x
    pure ("val cidx=" ++ f (g.chunkIndices i) showNl ++ " eidx=" ++ f (g.chunkElementIndices i) showNl ++
      " inb=" ++ showBool (g.arrayIndicesInbounds i arr))
  | "region" =>
    let r : Subset := ⟨← l.nl "start", ← l.nl "shape"⟩
    -- `chunks_in_array_subset` checks ranks only through `chunk_indices` (empty regions skip the check)
    if r.isEmpty then pure ("val " ++ showSubset (Subset.newEmpty d)) else
    if r.rank != d || arr.length != d then pure "val err" else
    pure ("val " ++ so showSubset (g.chunksInArraySubset r arr))
  | "chunkssubset" =>
    let r : Subset := ⟨← l.nl "start", ← l.nl "shape"⟩
    if r.rank != d || arr.length != d then pure "val err" else
    pure ("val " ++ so showSubset (g.chunksSubset r))
  | _ => none

end Zarrs.DriverC10
