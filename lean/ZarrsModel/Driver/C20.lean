import ZarrsModel.Driver.C01
/- driver handler for C20: the wrapped operation is advanced on the model; the fault tallies must all be zero -/
namespace Zarrs.DriverC20
open Zarrs Zarrs.Proto

def getField (toks : List String) (k : String) : String :=
  match toks.find? (·.startsWith (k ++ "=")) with
  | some t => (t.drop (k.length + 1)).toString
  | none => "?"

def handle (st : DriverC01.St) (l : Line) : Option (DriverC01.St × List String × Option String) := do
  let v1 ← l.verbs[1]?
  if v1 == "cfg" then DriverC01.handle st l else
  let verb ← l.verbs[2]?
  match verb with
  | "fault_sweep" | "fault_sweep_read" =>
    -- the wrapped request: drop the wrapper verb
    let inner : Line := { l with verbs := l.verbs.filter (fun v => v != "fault_sweep" && v != "fault_sweep_read"),
                                 outcome := ((l.outcome.splitOn " faults ").headD "") }
    let (st', acc, note) ← DriverC01.handle st inner
    let toks := l.outcome.splitOn " "
    let tail := if verb == "fault_sweep"
      then " faults n=" ++ getField toks "n" ++ " ok_with_fault=0 panics=0 torn=0 retry_diff=0"
      else " faults n=" ++ getField toks "n" ++ " ok_with_fault=0 panics=0 cached_wrong=0"
    pure (st', acc.map (· ++ tail), note)
  | "fault_meta" =>
    -- `meta which:ok0:n=N:ok_with_fault=K:panics=P ...`: every method that performed store operations must fail under every fault
    let entries := (l.outcome.splitOn " ").drop 1
    let fixed := entries.map (fun e =>
      match e.splitOn ":" with
      | [w, ok0, n, _, _] => ":".intercalate [w, ok0, n, "ok_with_fault=0", "panics=0"]
      | _ => e)
    pure (st, ["meta " ++ " ".intercalate fixed], none)
  | _ => DriverC01.handle st l

end Zarrs.DriverC20
