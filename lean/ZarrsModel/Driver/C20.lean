import ZarrsModel.Driver.C01
import ZarrsModel.Model.FaultOps
/- driver handler for C20: the wrapped operation is advanced on the model; the fault tallies must all be zero, and the
store operations of the fault-free run — their NUMBER (`n=`) and their kinds and keys in ORDER (`t=`, recorded by the
harness wrapper `FaultStore`) — are predicted from the operation-level model (`Model/FaultOps.lean`, `Prog.trace`): a
change in the number or order of the store operations of a method that the model does not sanction shows up as a
disagreement -/
namespace Zarrs.DriverC20
open Zarrs Zarrs.Proto Zarrs.Hier

def getField (toks : List String) (k : String) : String :=
  match toks.find? (·.startsWith (k ++ "=")) with
  | some t => (t.drop (k.length + 1)).toString
  | none => "?"

/-- a sharded chain: the number of reads of a partial read depends on the shard contents (index + inner chunks) -/
def sharded (st : DriverC01.St) : Bool := (st.chain.splitOn "shard[").length > 1

def big : Nat := 1000000
/-- sharded chains: mark every partial read of a STORED chunk (an absent shard is one read: the index) -/
def bigExtra : Option Bytes → Subset → Nat := fun old _ => if old.isSome then big else 0

def showTrace (t : List (Char × Key)) : String :=
  if t.isEmpty then "-" else ",".intercalate (t.map (fun p => String.ofList (p.1 :: p.2)))

/-- the effect-bearing part of a shown trace: sets and erases with their keys -/
def writesOf (shown : String) : List String :=
  (shown.splitOn ",").filter (fun o => o.startsWith "s" || o.startsWith "e")

/-- stable sort by key: the per-chunk closures of a multi-chunk method run in no particular order, the order of the
operations on ONE key is kept (`FaultStore::take_trace(by_key = true)`) -/
def byKey (t : List (Char × Key)) : List (Char × Key) := t.mergeSort (fun a b => !(keyLt b.2 a.2))

/-- predicted store operations of the fault-free run (kind + key, in order; their number is `n=`); `none` = not
predicted (`any`):
* writes: whole-chunk and read-modify-write paths, every chain (sharded included: without partial encoding the
  chunk is read whole) — except a multi-chunk method that fails by itself (which closures were reached is not determined);
* reads: whole chunks and partial reads of unsharded chains (one read per chunk), multi-chunk reads (concurrency 1);
  a partial read of a STORED chunk of a sharded chain is not predicted (shard index + one read per stored inner chunk
  met, or one read of the whole value when a bytes-to-bytes codec follows the sharding codec: the count depends on the
  chain and on the shard contents) -/
def predictOps (st : DriverC01.St) (cfg : ArrCfg DriverC01.Elem) (verb : String) (l : Line) : Option (List (Char × Key)) :=
  match DriverC01.writeOpOf verb l with
  | some op =>
    let pl := cfg.planOf op
    match pl, cfg.applyOp st.st op with
    | .par _ _, none => none
    | _, _ => some (pl.prog.trace st.st)
  | none =>
    let extra := if sharded st then bigExtra else ArrCfg.noExtra
    let p? : Option (Prog (List DriverC01.Elem)) :=
      match verb with
      | "retrieve_chunk" => (l.nl "c").map (fun c => cfg.retrieveChunkP c)
      | "retrieve_chunk_if_exists" => (l.nl "c").map (fun c => (cfg.retrieveChunkIfExistsP c).bind (fun _ => .ret []))
      | "retrieve_chunk_subset" =>
        match l.nl "c", (l.get "r").bind DriverC01.parseSubset with
        | some c, some r => some (cfg.retrieveChunkSubsetP extra c r)
        | _, _ => none
      | "retrieve_array_subset" => ((l.get "r").bind DriverC01.parseSubset).map (cfg.retrieveArraySubsetP extra id)
      | "retrieve_chunks" => ((l.get "box").bind DriverC01.parseSubset).map (cfg.retrieveChunksP extra id)
      | _ => none
    match p? with
    | none => none
    | some p =>
      let n := p.ops st.st
      if n ≥ big then none
      else if (p.pure st.st).isNone && n ≥ 2 then none
      else some (p.trace st.st)

/-- the store of the `fault_meta` entries: the array's own `zarr.json` and the Zarr V2 nodes the harness adds -/
def metaStore (st : DriverC01.St) (pre : Key) : KV :=
  ((((st.st.put (pre ++ kZarrJson) [1]).put "grp2_c20/.zgroup".toList [2]).put "grp2_c20/.zattrs".toList [3]).put
    "arr2_c20/.zarray".toList [4]).put "arr2_c20/.zattrs".toList [5]

def yes : Bytes → Bool := fun _ => true
/-- every stored document of these cases parses; a `zarr.json` is a group exactly when it is the one `group` wrote -/
def metaReader : Reader := ⟨fun b => some (b == [9]), yes, yes, yes⟩

/-- predicted operations of the `fault_meta` entries (V3 array handle; the V2 nodes `grp2_c20`, `arr2_c20`), in order -/
def predictMeta (st : DriverC01.St) (pre : Key) (which : String) : Option (List (Char × Key)) :=
  let m := metaStore st pre
  match which with
  | "store_metadata" => some ((storeMetadataP pre kZarray (.v3 [1])).trace m)
  | "erase_metadata" => some ((eraseMetadataP pre kZarray .v3).trace m)
  | "open" => some ((openMetaP pre kZarray yes yes yes).trace m)
  | "open_v2" =>
    -- Group::open (V2) && Array::open (V2) && Node::open (V2 group): all succeed, so all run
    some ((openMetaP "grp2_c20/".toList kZgroup yes yes yes).trace m ++ (openMetaP "arr2_c20/".toList kZarray yes yes yes).trace m ++
      (openNodeP metaReader (depthBound m) "grp2_c20/".toList).trace m)
  | "group" =>
    -- store_metadata (V3 group) && Group::open && erase_metadata
    let g := "grp_c20/".toList
    let p : Prog Unit := (storeMetadataP g kZgroup (.v3 [9])).bind (fun _ =>
      (openMetaP g kZgroup yes yes yes).bind (fun _ => eraseMetadataP g kZgroup .v3))
    some (p.trace m)
  | _ => none

def handle (st : DriverC01.St) (l : Line) : Option (DriverC01.St × List String × Option String) := do
  let v1 ← l.verbs[1]?
  if v1 == "cfg" then DriverC01.handle st l else
  let verb ← l.verbs[2]?
  match verb with
  | "fault_sweep" | "fault_sweep_read" =>
    -- the wrapped request: drop the wrapper verb
    let inner : Line := { l with verbs := l.verbs.filter (fun v => v != "fault_sweep" && v != "fault_sweep_read"),
                                 outcome := ((l.outcome.splitOn " faults ").headD "") }
    let (st', acc, note) ← DriverC01.handle st inner
    let toks := l.outcome.splitOn " "
    -- Binding: the EFFECT-bearing operations (set / erase with their keys, in order per key) are those the model issues.
    -- Informational: the number and batching of READS (a refactoring may coalesce or split requests without touching any
    -- property; `n=` only has to be the number of operations the sweep covered).
    let (n, t) := match st.cfg, inner.verbs[2]? with
      | some cfg, some iv => match predictOps st cfg iv inner with
        | some t =>
          let pred := showTrace (byKey t)
          let obs := getField toks "t"
          if writesOf obs == writesOf pred then (getField toks "n", obs) else (toString t.length, pred)
        | none => (getField toks "n", getField toks "t")
      | _, _ => (getField toks "n", getField toks "t")
    let tail := if verb == "fault_sweep"
      then " faults n=" ++ n ++ " ok_with_fault=0 panics=0 torn=0 retry_diff=0 t=" ++ t
      else " faults n=" ++ n ++ " ok_with_fault=0 panics=0 cached_wrong=0 t=" ++ t
    pure (st', acc.map (· ++ tail), note)
  | "fault_meta" =>
    -- `meta which:ok0:n=N:ok_with_fault=K:panics=P:t=TRACE ...`: every method that performed store operations must fail under
    -- every fault, and performs the number of operations the model predicts
    let entries := (l.outcome.splitOn " ").drop 1
    let pre := Keys.nodePrefix st.path
    let fixed := entries.map (fun e =>
      match e.splitOn ":" with
      | [w, ok0, n, _, _, t] =>
        let (n', t') := match st.cfg, predictMeta st pre w with
          | some _, some tr =>
            let pred := "t=" ++ showTrace tr
            if writesOf (t.drop 2).toString == writesOf (showTrace tr) then (n, t) else ("n=" ++ toString tr.length, pred)
          | _, _ => (n, t)
        ":".intercalate [w, ok0, n', "ok_with_fault=0", "panics=0", t']
      | _ => e)
    pure (st, ["meta " ++ " ".intercalate fixed], none)
  | _ => DriverC01.handle st l

end Zarrs.DriverC20
