import ZarrsModel.Driver.C01
import ZarrsModel.Model.FaultOps
import ZarrsModel.Model.FaultList
/- driver handler for C20: the wrapped operation is advanced on the model; the fault tallies must all be zero, and the
store operations of the fault-free run — their NUMBER (`n=`) and their kinds and keys in ORDER (`t=`, recorded by the
harness wrapper `FaultStore`) — are predicted from the operation-level model (`Model/FaultOps.lean`, `Prog.trace`): a
change in the number or order of the store operations of a method that the model does not sanction shows up as a
disagreement -/
namespace Zarrs.DriverC20
open Zarrs Zarrs.Proto Zarrs.Hier

def getField (toks : List String) (k : String) : String :=
  match toks.find? (·.startsWith (k ++ "=")) with
  | some t => (t.drop (k.length + 1)).toString
  | none => "?"

/-- a sharded chain: the number of reads of a partial read depends on the shard contents (index + inner chunks) -/
def sharded (st : DriverC01.St) : Bool := (st.chain.splitOn "shard[").length > 1

def big : Nat := 1000000
/-- sharded chains: mark every partial read of a STORED chunk (an absent shard is one read: the index) -/
def bigExtra : Option Bytes → Subset → Nat := fun old _ => if old.isSome then big else 0

def showTrace (t : List (Char × Key)) : String :=
  if t.isEmpty then "-" else ",".intercalate (t.map (fun p => String.ofList (p.1 :: p.2)))

/-- the effect-bearing part of a shown trace: sets and erases with their keys -/
def writesOf (shown : String) : List String :=
  (shown.splitOn ",").filter (fun o => o.startsWith "s" || o.startsWith "e")

/-- stable sort by key: the per-chunk closures of a multi-chunk method run in no particular order, the order of the
operations on ONE key is kept (`FaultStore::take_trace(by_key = true)`) -/
def byKey (t : List (Char × Key)) : List (Char × Key) := t.mergeSort (fun a b => !(keyLt b.2 a.2))

/-- predicted store operations of the fault-free run (kind + key, in order; their number is `n=`); `none` = not
predicted (`any`):
* writes: whole-chunk and read-modify-write paths, every chain (sharded included: without partial encoding the
  chunk is read whole) — except a multi-chunk method that fails by itself (which closures were reached is not determined);
* reads: whole chunks and partial reads of unsharded chains (one read per chunk), multi-chunk reads (concurrency 1);
  a partial read of a STORED chunk of a sharded chain is not predicted (shard index + one read per stored inner chunk
  met, or one read of the whole value when a bytes-to-bytes codec follows the sharding codec: the count depends on the
  chain and on the shard contents) -/
def predictOps (st : DriverC01.St) (cfg : ArrCfg DriverC01.Elem) (verb : String) (l : Line) : Option (List (Char × Key)) :=
  match DriverC01.writeOpOf verb l with
  | some op =>
    let pl := cfg.planOf op
    match pl, cfg.applyOp st.st op with
    | .par _ _, none => none
    | _, _ => some (pl.prog.trace st.st)
  | none =>
    let extra := if sharded st then bigExtra else ArrCfg.noExtra
    let p? : Option (Prog (List DriverC01.Elem)) :=
      match verb with
      | "retrieve_chunk" => (l.nl "c").map (fun c => cfg.retrieveChunkP c)
      | "retrieve_chunk_if_exists" => (l.nl "c").map (fun c => (cfg.retrieveChunkIfExistsP c).bind (fun _ => .ret []))
      | "retrieve_chunk_subset" =>
        match l.nl "c", (l.get "r").bind DriverC01.parseSubset with
        | some c, some r => some (cfg.retrieveChunkSubsetP extra c r)
        | _, _ => none
      | "retrieve_array_subset" => ((l.get "r").bind DriverC01.parseSubset).map (cfg.retrieveArraySubsetP extra id)
      | "retrieve_chunks" => ((l.get "box").bind DriverC01.parseSubset).map (cfg.retrieveChunksP extra id)
      | _ => none
    match p? with
    | none => none
    | some p =>
      let n := p.ops st.st
      if n ≥ big then none
      else if (p.pure st.st).isNone && n ≥ 2 then none
      else some (p.trace st.st)

/-- the small hierarchy of the listing entries (harness/src/c20.rs `hier`): a `zarr.json` holding `[9]` is a group
document, `[1]` an array document (see `metaReader`) -/
def hierKeys : List (String × Bytes) :=
  [("hg_c20/zarr.json", [9]), ("hg_c20/a/zarr.json", [1]), ("hg_c20/b/zarr.json", [1]), ("hg_c20/g/zarr.json", [9]),
   ("hg_c20/g/c/zarr.json", [1]), ("hg_c20/v2/.zgroup", [2])]

/-- the store of the `fault_meta` entries: the array's own `zarr.json`, the Zarr V2 nodes and the hierarchy `hg_c20`
the harness adds -/
def metaStore (st : DriverC01.St) (pre : Key) : KV :=
  hierKeys.foldl (fun m kv => m.put kv.1.toList kv.2)
    (((((st.st.put (pre ++ kZarrJson) [1]).put "grp2_c20/.zgroup".toList [2]).put "grp2_c20/.zattrs".toList [3]).put
      "arr2_c20/.zarray".toList [4]).put "arr2_c20/.zattrs".toList [5])

def yes : Bytes → Bool := fun _ => true
/-- every stored document of these cases parses; a `zarr.json` is a group exactly when it is the one `group` wrote -/
def metaReader : Reader := ⟨fun b => some (b == [9]), yes, yes, yes⟩

/-- two listing calls of one harness closure, both made, both must be complete -/
def andThen (a b : Prog Bool) : Prog Bool := a.bind (fun x => b.bind (fun y => .ret (x && y)))

/-- the LISTING entries of `fault_meta` (harness/src/c20.rs `run`) as ONE program of `Model/FaultList.lean` each, over the
hierarchy `hg_c20`; the value is the completeness test the harness applies to a successful listing (4 children; 2 groups,
2 arrays).  `Group::open` of the V3 group is one read (`openMetaP`) -/
def listingProg (m : KV) (which : String) : Option (Prog Bool) :=
  let hg : Key := "hg_c20/".toList
  let fuel := depthBound m
  let r := metaReader
  let opened (p : Prog Bool) : Prog Bool := (openMetaP hg kZgroup yes yes yes).bind (fun _ => p)
  let len {β : Type} (p : Prog (List β)) (k : Nat) : Prog Bool := p.bind (fun v => .ret (v.length == k))
  match which with
  | "children" => some (opened (len (FaultList.childrenP r true fuel hg) 4))
  | "child_paths" =>
    some (opened (andThen (len (FaultList.childPathsP r false fuel hg) 4) (andThen (len (FaultList.childGroupPathsP r false fuel hg) 2)
      (andThen (len (FaultList.childArrayPathsP r false fuel hg) 2) (andThen (len (FaultList.childGroupsP r false fuel hg) 2)
        (len (FaultList.childArraysP r (fun _ => true) false fuel hg) 2))))))
  | "node_tree" => some ((FaultList.openNodeTreeP r fuel hg).bind (fun t => .ret (t.children.length == 4)))
  | _ => none

/-- predicted operations of the `fault_meta` entries (V3 array handle; the V2 nodes `grp2_c20`, `arr2_c20`), in order -/
def predictMeta (st : DriverC01.St) (pre : Key) (which : String) : Option (List (Char × Key)) :=
  let m := metaStore st pre
  match which with
  | "store_metadata" => some ((storeMetadataP pre kZarray (.v3 [1])).trace m)
  | "erase_metadata" => some ((eraseMetadataP pre kZarray .v3).trace m)
  | "open" => some ((openMetaP pre kZarray yes yes yes).trace m)
  | "open_v2" =>
    -- Group::open (V2) && Array::open (V2) && Node::open (V2 group): all succeed, so all run
    some ((openMetaP "grp2_c20/".toList kZgroup yes yes yes).trace m ++ (openMetaP "arr2_c20/".toList kZarray yes yes yes).trace m ++
      (openNodeP metaReader (depthBound m) "grp2_c20/".toList).trace m)
  | "group" =>
    -- store_metadata (V3 group) && Group::open && erase_metadata
    let g := "grp_c20/".toList
    let p : Prog Unit := (storeMetadataP g kZgroup (.v3 [9])).bind (fun _ =>
      (openMetaP g kZgroup yes yes yes).bind (fun _ => eraseMetadataP g kZgroup .v3))
    some (p.trace m)
  | w => (listingProg m w).map (fun p => p.trace m)

def handle (st : DriverC01.St) (l : Line) : Option (DriverC01.St × List String × Option String) := do
  let v1 ← l.verbs[1]?
  if v1 == "cfg" then DriverC01.handle st l else
  let verb ← l.verbs[2]?
  match verb with
  | "fault_sweep" | "fault_sweep_read" | "fault_sweep_pe" =>
    -- the wrapped request: drop the wrapper verb
    let inner : Line := { l with verbs := l.verbs.filter (fun v => v != "fault_sweep" && v != "fault_sweep_read" && v != "fault_sweep_pe"),
                                 outcome := ((l.outcome.splitOn " faults ").headD "") }
    let (st', acc, note) ← DriverC01.handle st inner
    let toks := l.outcome.splitOn " "
    -- Binding: the EFFECT-bearing operations (set / erase with their keys, in order per key) are those the model issues.
    -- Informational: the number and batching of READS (a refactoring may coalesce or split requests without touching any
    -- property; `n=` only has to be the number of operations the sweep covered).
    -- (Since the second false-alarm test the WRITE operations are informational too: a rewrite that skips the erase of an
    -- absent key, or writes two keys in another order, changes no observable of the property - the per-key states after
    -- every fault, which `torn` / `retry_diff` judge, are what binds. A different write trace is reported as a NOTE.)
    let (n, t) := (getField toks "n", getField toks "t")
    let traceNote : Option String := match st.cfg, inner.verbs[2]? with
      | some cfg, some iv => match predictOps st cfg iv inner with
        | some tr =>
          let pred := showTrace (byKey tr)
          if writesOf t == writesOf pred then none else some ("info: write operations differ from the model's program: model " ++ pred ++ " observed " ++ t)
        | none => none
      | _, _ => none
    let note := match note, traceNote with
      | some a, some b => some (a ++ " | " ++ b) | some a, none => some a | none, b => b
    -- `fault_sweep_pe` (the sharding partial encoder): `torn` is informational - the previous-or-intended clause of the
    -- property is about the default whole-chunk path; `retry_diff` there compares decoded contents
    let tail := if verb == "fault_sweep_pe"
      then " faults n=" ++ n ++ " ok_with_fault=0 panics=0 torn=" ++ getField toks "torn" ++ " retry_diff=0 rdk=- t=" ++ t
      else if verb == "fault_sweep"
      then " faults n=" ++ n ++ " ok_with_fault=0 panics=0 torn=0 retry_diff=0 t=" ++ t
      else " faults n=" ++ n ++ " ok_with_fault=0 panics=0 cached_wrong=0 t=" ++ t
    pure (st', acc.map (· ++ tail), note)
  | "fault_meta" =>
    -- `meta which:ok0:n=N:ok_with_fault=K:panics=P:t=TRACE ...`: every method that performed store operations must fail under
    -- every fault, and performs the number of operations the model predicts
    let entries := (l.outcome.splitOn " ").drop 1
    let pre := Keys.nodePrefix st.path
    let fixed := entries.map (fun e =>
      match e.splitOn ":" with
      | [w, ok0, n, _, _, t] =>
        let (n', t') := (n, t)
        -- Binding for a LISTING entry: the fault-free outcome is the model's (the listing is complete: `true`)
        let ok0' := match st.cfg, listingProg (metaStore st pre) w with
          | some _, some p => showBool (((p.pure (metaStore st pre)).map (·.1)) == some true)
          | _, _ => ok0
        ":".intercalate [w, ok0', n', "ok_with_fault=0", "panics=0", t']
      | _ => e)
    -- Informational (a NOTE, not a disagreement): the READ trace of a listing entry differs from the model's program
    let notes := entries.filterMap (fun e =>
      match e.splitOn ":" with
      | [w, _, n, _, _, t] =>
        match st.cfg, listingProg (metaStore st pre) w with
        | some _, some p =>
          let tr := p.trace (metaStore st pre)
          if (t.drop 2).toString == showTrace tr && n == "n=" ++ toString tr.length then none
          else some ("info: fault_meta " ++ w ++ ": operation trace differs from the model: model n=" ++ toString tr.length ++ " t=" ++
            showTrace tr ++ " observed " ++ n ++ " " ++ t)
        | _, _ => none
      | _ => none)
    let wnotes := entries.filterMap (fun e =>
      match e.splitOn ":" with
      | [w, _, _, _, _, t] =>
        match st.cfg, predictMeta st pre w with
        | some _, some tr =>
          if writesOf (t.drop 2).toString == writesOf (showTrace tr) then none
          else some ("info: fault_meta " ++ w ++ ": write operations differ from the model's program: model " ++ showTrace tr ++ " observed " ++ t)
        | _, _ => none
      | _ => none)
    let notes := notes ++ wnotes
    pure (st, ["meta " ++ " ".intercalate fixed], if notes.isEmpty then none else some (" | ".intercalate notes))
  | _ => DriverC01.handle st l

end Zarrs.DriverC20
