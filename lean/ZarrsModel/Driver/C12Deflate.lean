import ZarrsModel.Model.DeflateSpec
import ZarrsModel.Driver.C12
/-
C12 read direction, DEFLATE level (unverified glue): a generator of CONFORMANT gzip / zlib containers written by the
specification-level writer `Zarrs.DeflateSpec` — streams a real compressor would never produce (random valid code
lengths, also far from optimal; every run-length encoding of the dynamic header; copies overlapping their own output;
empty stored blocks between others; non-zero padding bits; a final empty block; all optional gzip header fields) — and
the judge of the lines `c12 zinflate kind= data= want=`: zarrs' own `gzip` / `zlib` codecs must return `render tokens`
(= `want`), and so must the model's reader (`Props/C12Deflate.lean` proves the latter; it is re-checked on every line).
About a fifth of the gzip lines are FILES of 2..4 members (RFC 1952 §2.2; `want` = the members' data one after another,
`Props/C12Gzip.lean`), a few are a valid file followed by bytes that are not a member (`want=none`: must be rejected).
-/
namespace Zarrs.DriverC12Deflate
open Zarrs Zarrs.Inflate Zarrs.Proto Zarrs.DeflateSpec Zarrs.DriverC12

/-! ### judge -/

/-- gzip values are FILES (RFC 1952 §2.2: one or more members): judged with `gunzipAll`.  A line whose value is exactly
    one member is judged with the one-member reader `gunzip` as well (`gunzipAll_one_member`: the two agree; re-checked).
    `want=none`: the generator appended bytes that are not a member, the value is not a gzip file, the model must
    reject it and so must zarrs (outcome `none`).  The judge is strict: model = want = zarrs. -/
def readGzip (data : Bytes) : Except String (Option Bytes) :=
  let all := gunzipAll data
  match gunzipMember data with
  | some (_, []) => if gunzip data == all then .ok all else .error "gunzip AND gunzipAll DISAGREE ON ONE MEMBER"
  | _ => .ok all

def handle (l : Line) : Option (List String) := do
  let data ← parseHex (← l.get "data")
  let wantS ← l.get "want"
  let want ← (if wantS == "none" then pure none else (parseHex wantS).map some)
  let r : Except String (Option Bytes) := if (← l.get "kind") == "gzip" then readGzip data else .ok (unzlib data)
  pure [match want, r with
    | _, .error e => s!"({e})"
    | some want, .ok (some d) => if d == want then "val " ++ showHex d else "val " ++ showHex want ++ " (MODEL READER DISAGREES WITH render: " ++ showHex d ++ ")"
    | some want, .ok none => "val " ++ showHex want ++ " (MODEL READER REJECTS)"
    | none, .ok none => "none"
    | none, .ok (some d) => "none (MODEL READER ACCEPTS: " ++ showHex d ++ ")"]

/-! ### generator -/

instance : Inhabited Token := ⟨.lit 0⟩

/-- `n` tokens from an output of `have_` bytes; returns the tokens and the new output length -/
def genTokens (n : Nat) (have_ : Nat) (alpha : Nat) : G (List Token × Nat) := do
  let mut toks : Array Token := #[]
  let mut len := have_
  for _ in List.range n do
    let sel ← rnd 10
    if len == 0 || sel < 4 then
      toks := toks.push (.lit (← rnd alpha)); len := len + 1
    else
      let l ← (do
        let k ← rnd 8
        if k == 0 then pure 258 else if k == 1 then pure 3 else if k < 5 then (do let r ← rnd 8; pure (3 + r))
        else if k == 5 then (do let r ← rnd 256; pure (3 + r)) else (do let r ← rnd 40; pure (3 + r)))
      let maxd := min len 32768
      let d ← (do
        let k ← rnd 8
        if k == 0 then pure 1 else if k == 1 then pure maxd
        else if k < 4 then (do let r ← rnd (min maxd l); pure (r + 1))     -- overlapping its own output
        else if k < 6 then (do let r ← rnd (min maxd 40); pure (r + 1))
        else (do let r ← rnd maxd; pure (r + 1)))
      toks := toks.push (.copy l d); len := len + l
  pure (toks.toList, len)

/-- code lengths of a COMPLETE prefix code with `n ≥ 2` leaves, depth at most `maxd`: split random leaves -/
def genTree (n maxd : Nat) : G (List Nat) := do
  let mut leaves : Array Nat := #[1, 1]
  let deep ← chance 1 3
  for _ in List.range (n - 2) do
    -- candidates: leaves that can still be split
    let cands := (List.range leaves.size).filter (fun i => leaves.getD i 0 < maxd)
    if cands.isEmpty then pure () else
      let i ← (if deep then pure (cands.foldl (fun b i => if leaves.getD i 0 ≥ leaves.getD b 0 then i else b) (cands.headD 0))
               else pick cands)
      let d := leaves.getD i 0
      leaves := (leaves.set! i (d + 1)).push (d + 1)
  pure leaves.toList

/-- lengths for the symbols `syms` (distinct) inside an alphabet of `size` symbols -/
def assignLens (size : Nat) (syms : List Nat) (maxd : Nat) : G (List Nat) := do
  let tree ← genTree syms.length maxd
  -- the tree may have fewer leaves than symbols when the depth bound stopped it: then it had 2^maxd leaves, never here
  let order ← shuffleL (List.range syms.length)
  let mut lens := (List.replicate size 0).toArray
  for (s, j) in syms.zip order do
    lens := lens.set! s (tree.getD j 0)
  pure lens.toList

def dedup (xs : List Nat) : List Nat := xs.foldl (fun acc x => if acc.contains x then acc else acc ++ [x]) []

/-- length (at most `fuel`) of the run of `v` starting at `i` -/
def runLen (arr : Array Nat) (v : Nat) : Nat → Nat → Nat
  | 0, _ => 0
  | fuel + 1, i => if i < arr.size && arr.getD i 0 == v then runLen arr v fuel (i + 1) + 1 else 0

/-- a random run-length encoding of `all` -/
def genRle (all : List Nat) : G (List ClSym) := do
  let arr := all.toArray
  let n := arr.size
  let mut out : Array ClSym := #[]
  let mut i := 0
  for _ in List.range n do
    if i < n then
      let v := arr.getD i 0
      -- run of equal values from i
      let r := runLen arr v 138 i
      let useRep ← chance 3 4
      if v == 0 && r ≥ 3 && useRep then
        let long ← chance 2 3
        if r ≥ 11 && long then
          let m ← rnd (min r 138 - 11 + 1); out := out.push (.c18 (11 + m)); i := i + 11 + m
        else
          let m ← rnd (min r 10 - 3 + 1); out := out.push (.c17 (3 + m)); i := i + 3 + m
      else if i > 0 && arr.getD (i - 1) 0 == v && r ≥ 3 && useRep then
        let m ← rnd (min r 6 - 3 + 1); out := out.push (.c16 (3 + m)); i := i + 3 + m
      else
        out := out.push (.len v); i := i + 1
  pure out.toList

def genDynHeader (toks : List Token) : G DynHeader := do
  -- literal/length alphabet: the used symbols and some unused ones get codes
  let used := dedup (litSymsOf toks)
  let nExtra ← pick [0, 0, 1, 3, 10, 40]
  let mut syms := used
  for _ in List.range nExtra do
    let s ← rnd 286
    if !syms.contains s then syms := syms ++ [s]
  -- a contiguous run of coded symbols: neighbouring equal lengths, i.e. work for the repeat code 16
  if (← chance 1 3) then
    let a ← rnd 270; let n ← pick [4, 9, 16, 30]
    for s in List.range n do
      if a + s < 286 && !syms.contains (a + s) then syms := syms ++ [a + s]
  if syms.length < 2 then syms := syms ++ [if syms.contains 0 then 1 else 0]
  let maxSym := syms.foldl max 0
  let litN ← (do let lo := max 257 (maxSym + 1); let r ← rnd (286 - lo + 1); let tight ← chance 1 2; pure (if tight then lo else lo + r))
  let litLens ← assignLens litN syms 15
  -- distance alphabet
  let dused := dedup (distSymsOf toks)
  let dExtra ← pick [0, 0, 1, 2, 5]
  let mut dsyms := dused
  for _ in List.range dExtra do
    let s ← rnd 30
    if !dsyms.contains s then dsyms := dsyms ++ [s]
  let distLens ← (if dsyms.isEmpty then pure [0]                      -- "one distance code of zero bits": all literals
    else if dsyms.length == 1 then (do                                -- a single code of one bit (incomplete set)
      let s := dsyms.headD 0
      let r ← rnd (30 - s); let n := s + 1 + r
      pure ((List.replicate n 0).set s 1))
    else do
      let maxD := dsyms.foldl max 0
      let r ← rnd (30 - maxD); let tight ← chance 1 2
      assignLens (if tight then maxD + 1 else maxD + 1 + r) dsyms 15)
  let rle ← genRle (litLens ++ distLens)
  -- code-length alphabet
  let cused := dedup (rle.map clSymOf)
  let cExtra ← pick [0, 0, 1, 2, 4]
  let mut csyms := cused
  for _ in List.range cExtra do
    let s ← rnd 19
    if !csyms.contains s then csyms := csyms ++ [s]
  if csyms.length < 2 then csyms := csyms ++ [if csyms.contains 0 then 1 else 0]
  let clLens ← assignLens 19 csyms 7
  let minN := (List.range 20).foldl (fun best n =>
    if best == 99 && (clOrder.drop n).all (fun s => clLens.getD s 0 == 0) then n else best) 99
  let lo := max 4 minN
  let r ← rnd (19 - lo + 1); let tight ← chance 1 2
  pure { litLens, distLens, clLens, hclen := (if tight then lo else lo + r) - 4, rle }

def genBits (n : Nat) : G Bits := (List.range n).mapM (fun _ => chance 1 2)

def genBytes (n alpha : Nat) : G Bytes := (List.range n).mapM (fun _ => rnd alpha)

/-- blocks of one stream; `big`: grow past the 32 KiB window so that the largest distance occurs -/
def genBlocks (big : Bool) : G (List Block) := do
  let alpha ← pick [2, 4, 16, 256]
  let nb ← (if big then pure 3 else pick [1, 1, 2, 3, 4, 6])
  let mut blocks : Array Block := #[]
  let mut len := 0
  for bi in List.range nb do
    let kind ← rnd 7
    if kind == 0 then
      let n ← pick [0, 0, 1, 5, 40]
      blocks := blocks.push (.stored (← genBits 7) (← genBytes n alpha)); len := len + n
    else
      let nt ← (if big && bi == 0 then pure 140 else pick [0, 1, 3, 8, 20, 60])
      let (toks, len') ← (if big && bi == 0 then do
          -- a few literals, then maximal copies until the window is exceeded
          let (t0, l0) ← genTokens 5 len alpha
          let reps := (List.range nt).map (fun i => Token.copy 258 (1 + i % 7))
          pure (t0 ++ reps, l0 + 258 * nt)
        else genTokens nt len alpha)
      -- when `big`, the later blocks reach back the full window
      let toks := if big && bi == 1 && len ≥ 32768 then Token.copy 258 32768 :: Token.copy 3 32768 :: toks.map (fun t =>
          match t with | .copy l d => .copy l d | t => t) else toks
      let len' := if big && bi == 1 && len ≥ 32768 then len' + 261 else len'
      if kind < 3 then blocks := blocks.push (.fixed toks)
      else blocks := blocks.push (.dynamic (← genDynHeader toks) toks)
      len := len'
    -- empty stored blocks between the others
    if (← chance 1 6) then blocks := blocks.push (.stored (← genBits 7) [])
  -- a final empty block
  let fin ← rnd 8
  if fin == 0 then blocks := blocks.push (.fixed [])
  else if fin == 1 then blocks := blocks.push (.stored (← genBits 7) [])
  else if fin == 2 then blocks := blocks.push (.dynamic (← genDynHeader []) [])
  pure blocks.toList

def maxDist (bl : List Block) : Nat :=
  bl.foldl (fun m b => match b with
    | .stored _ _ => m
    | .fixed toks | .dynamic _ toks => toks.foldl (fun m t => match t with | .copy _ d => max m d | _ => m) m) 0

def genGzHeader : G GzHeader := do
  let nonz (n : Nat) : G Bytes := (List.range n).mapM (fun _ => do let r ← rnd 255; pure (r + 1))
  let extra ← (do if (← chance 1 3) then (do let n ← pick [0, 4, 9]; pure (some (← genBytes n 256))) else pure none)
  let name ← (do if (← chance 1 3) then (do let n ← pick [0, 1, 7]; pure (some (← nonz n))) else pure none)
  let comment ← (do if (← chance 1 3) then (do let n ← pick [0, 2, 12]; pure (some (← nonz n))) else pure none)
  let h : GzHeader := { ftext := ← chance 1 3, mtime := ← genBytes 4 256, xfl := ← pick [0, 2, 4], os := ← pick [0, 3, 255],
                        extra, name, comment, hcrc := none }
  if (← chance 1 3) then
    -- FHCRC: the two low bytes of the CRC-32 of the header up to here (RFC 1952 §2.3.1)
    let h' := { h with hcrc := some (0, 0) }
    let c := crc32 (h'.bytes.take (h'.bytes.length - 2))
    pure { h' with hcrc := some (c % 256, c / 256 % 256) }
  else pure h

/-- `renderBlocks` on an array (the list version appends byte by byte: quadratic); the judge re-checks every line
    against the proved reader, so a mistake here shows as a DIFF -/
def renderFast (bl : List Block) : Option Bytes := do
  let mut out : Array Nat := #[]
  for b in bl do
    match b with
    | .stored _ data => out := out ++ data.toArray
    | .fixed toks | .dynamic _ toks =>
      for t in toks do
        match t with
        | .lit x => if x < 256 then out := out.push x else none
        | .copy l d =>
          if 3 ≤ l ∧ l ≤ 258 ∧ 1 ≤ d ∧ d ≤ 32768 ∧ d ≤ out.size then
            for _ in List.range l do out := out.push (out.getD (out.size - d) 0)
          else none
  pure out.toList

/-! #### the specification writer, tabulated: `codeOf` recomputes `next_code` for every symbol (fine for a definition,
slow for 10^5 tokens), so the generator looks the codes up in the reader's table `mkHuff lens`, whose entries are
exactly `(length, codeNat lens s, s)` (`mkHuff_mem`, `mkHuff_mem_of` in `Lemmas/DeflateHuff.lean`).  Every eighth line is
encoded by `encodeStream` itself as well and compared. -/

def codeTable (lens : List Nat) : Array (Option Bits) :=
  (mkHuff lens).foldl (fun a (e : Nat × Nat × Nat) => a.set! e.2.2 (some (bitsMsb e.1 e.2.1))) (Array.replicate lens.length none)

def encTokensFast (lt dt : Array (Option Bits)) (toks : List Token) : Option Bits := do
  let mut out : Array Bool := #[]
  for t in toks do
    match t with
    | .lit b => if b < 256 then out := out ++ (← lt.getD b none).toArray else none
    | .copy len dist =>
      if 3 ≤ len ∧ len ≤ 258 ∧ 1 ≤ dist ∧ dist ≤ 32768 then
        let c1 ← lt.getD (257 + lenSym len) none
        let c2 ← dt.getD (distSym dist) none
        out := out ++ (c1 ++ bitsLsb (lenExtra.getD (lenSym len) 0) (len - lenBase.getD (lenSym len) 0) ++
          (c2 ++ bitsLsb (distExtra.getD (distSym dist) 0) (dist - distBase.getD (distSym dist) 0))).toArray
      else none
  out := out ++ (← lt.getD 256 none).toArray
  pure out.toList

def fixedLitTable : Array (Option Bits) := codeTable fixedLitLens
def fixedDistTable : Array (Option Bits) := codeTable fixedDistLens

def encodeBlockFast (pos : Nat) (final : Bool) : Block → Option Bits
  | .fixed toks => (encTokensFast fixedLitTable fixedDistTable toks).map ([final, true, false] ++ ·)
  | .dynamic h toks => do
    -- `h.ok` (quadratic `expandCl`) is left to the compared lines; an invalid header would show as a DIFF anyway
    let hb ← encHeader h
    let t ← encTokensFast (codeTable h.litLens) (codeTable h.distLens) toks
    pure ([final, false, true] ++ (hb ++ t))
  | b => encodeBlock pos final b

def encodeStreamFast (blocks : List Block) (tailFill : Bits) : Option Bytes := do
  if blocks.isEmpty then none
  let mut bits : Array Bool := #[]
  let n := blocks.length
  for (b, i) in blocks.zipIdx do
    bits := bits ++ (← encodeBlockFast bits.size (i + 1 == n) b).toArray
  pure (fromBits (bits.toList ++ padBits tailFill ((8 - bits.size % 8) % 8)))

/-- a further member of a gzip file: its own header fields, its own stream; a quarter of them with EMPTY data (one
    empty block of any of the three kinds) -/
def genMember (check : Bool) : G (Option (GzHeader × Bytes × Bytes)) := do
  let bl ← (do
    if (← chance 1 4) then
      let k ← rnd 3
      if k == 0 then pure [Block.fixed []] else if k == 1 then pure [Block.stored (← genBits 7) []]
      else pure [Block.dynamic (← genDynHeader []) []]
    else genBlocks false)
  let fill ← genBits 7
  if check && (encodeStreamFast bl fill != encodeStream bl fill ||
      !bl.all (fun b => match b with | .dynamic h _ => h.strict | _ => true)) then return none
  let h ← genGzHeader
  match encodeStreamFast bl fill, renderFast bl with
  | some stream, some data => pure (some (h, stream, data))
  | _, _ => pure none

/-- bytes that do not start a member: the first is neither the magic 0x1f nor 0 (Python's reader skips zero padding
    after a member; RFC 1952 does not allow it, but the tie stays away from that disagreement between references) -/
def genGarbage : G Bytes := do
  let b ← rnd 254
  let b := b + 1
  let n ← pick [0, 1, 3, 18, 40]
  pure ((if b == 0x1f then 0x20 else b) :: (← genBytes n 256))

def genLine (big check : Bool) : G (Option String) := do
  let bl ← genBlocks big
  let fill ← genBits 7
  if check && (encodeStreamFast bl fill != encodeStream bl fill ||
      !bl.all (fun b => match b with | .dynamic h _ => h.strict | _ => true)) then return none
  match encodeStreamFast bl fill, renderFast bl with
  | some stream, some data =>
    if (← chance 1 2) then
      let h ← genGzHeader
      -- about a fifth of the gzip lines: a FILE of 2..4 members (RFC 1952 §2.2); `want` = the data one after another
      let mut ms : List (GzHeader × Bytes × Bytes) := [(h, stream, data)]
      if !big && (← chance 1 5) then
        let extra ← pick [1, 1, 2, 3]
        for _ in List.range extra do
          match ← genMember check with
          | some m => ms := ms ++ [m]
          | none => return none
        -- the first member empty now and then
        if (← chance 1 6) then ms := (← genGzHeader, [3, 0], []) :: ms.drop 1
      let file := gzipFile ms
      let want := (ms.map (fun m => m.2.2)).flatten
      -- a few lines: a valid file (of one or more members) followed by bytes that are not a member
      if !big && (← chance 1 25) then
        pure (some s!"c12 zinflate kind=gzip data={showHex (file ++ (← genGarbage))} want=none")
      else
        pure (some s!"c12 zinflate kind=gzip data={showHex file} want={showHex want}")
    else
      -- CINFO must cover the distances used (RFC 1950: the window size the compressor promises)
      let need := (List.range 8).foldl (fun best c => if best == 99 && 2 ^ (c + 8) ≥ maxDist bl then c else best) 99
      let r ← rnd (8 - need); let wide ← chance 2 3
      let cinfo := if wide then 7 else need + r
      pure (some s!"c12 zinflate kind=zlib data={showHex (zlibStream cinfo (← rnd 4) stream data)} want={showHex data}")
  | _, _ => pure none     -- the generator made something the specification cannot encode: reported by `genCases`

def genCases (tier : String) (seed : Nat) : List String :=
  let n := if tier == "thorough" then 12000 else 2400
  ((List.range n).foldl (fun (acc : Array String × Nat) i =>
    let (l, s) := (genLine (i % 400 == 399) (i % 8 == 0)).run (acc.2 + i)
    (acc.1.push (l.getD "c12 zinflate kind=gzip data=00 want=00 note=GENERATOR-MADE-AN-INVALID-OR-NON-STRICT-BLOCK-OR-TABULATED-WRITER-DIFFERS"), s))
    (#[], seed * 40503 + 977)).1.toList

end Zarrs.DriverC12Deflate
