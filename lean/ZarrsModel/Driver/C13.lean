import ZarrsModel.Model.Meta
import ZarrsModel.Model.Hier
import ZarrsModel.Model.Float
import ZarrsModel.Model.Consolidated
import ZarrsModel.Driver.Proto
import ZarrsModel.Driver.C13V2
import ZarrsModel.Driver.C13Opts
import ZarrsModel.Driver.C13Build
/- driver handlers for C13 (unverified glue around `Zarrs.Meta`, `Zarrs.Hier`, `Zarrs.Json`) -/
namespace Zarrs.DriverC13
open Zarrs Zarrs.Json Zarrs.Meta Zarrs.Hier Zarrs.Proto

structure St where
  kv : KV := []

def hexOf (bs : List Nat) : String := showHex bs
def serLine (j : J) : String := let h := hexOf (print j); s!"ser={h} ser2={h}"

def outTokens (s : String) : List (String × String) := ((s.splitOn " ").filterMap splitKV)

/-- strip `_zarrs` (added by `include_zarrs_metadata`) from attributes -/
def dropZarrs (o : Obj) : Obj := o.filter (fun kv => kv.1 != ascii "_zarrs")

def metaEq (a b : MetaV3) : Bool := J.beq a.toJ b.toJ
def metaListEq : List MetaV3 → List MetaV3 → Bool
  | [], [] => true
  | a :: as, b :: bs => metaEq a b && metaListEq as bs
  | _, _ => false

/-- codecs whose metadata `store_metadata` leaves out: those that need not be understood (skipped on open), and
    encode-only codecs (`experimental_codec_store_metadata_if_encode_only` is off by default) -/
def droppable (c : MetaV3) : Bool := !c.mu || c.name == ascii "bitround"
def codecsCompat : List MetaV3 → List MetaV3 → Bool
  | [], [] => true
  | c :: cs, [] => droppable c && codecsCompat cs []
  | [], _ :: _ => false
  | c :: cs, s :: ss =>
    if c.name == s.name then codecsCompat cs ss else (droppable c && codecsCompat cs (s :: ss))

def extraEq (a b : List (Str × AField)) : Bool :=
  J.beq (.obj (a.map (fun kv => (kv.1, kv.2.toJ)))) (.obj (b.map (fun kv => (kv.1, kv.2.toJ))))

/-- the stored document against the opened one, up to the documented conversions (`_zarrs` attribute, codec
    configurations re-created from the codecs) -/
def storedCompat (d s : ArrayDoc) : Bool :=
  d.shape == s.shape && metaEq d.dataType s.dataType && metaEq d.chunkGrid s.chunkGrid && metaEq d.cke s.cke &&
  J.beq d.fill s.fill && codecsCompat d.codecs s.codecs &&
  J.beq (.obj (dropZarrs d.attrs)) (.obj (dropZarrs s.attrs)) && metaListEq d.st s.st &&
  d.dimNames == s.dimNames && extraEq d.extra s.extra

def nodeStr (p : Key) : String := if p.isEmpty then "/" else "/" ++ String.ofList p.dropLast
def kindStr : Kind → String
  | .group3 => "group3" | .array3 => "array3" | .group2 => "group2" | .array2 => "array2"

def strLe (a b : String) : Bool := a.toList.map Char.toNat ≤ b.toList.map Char.toNat
def insertS (x : String) : List String → List String
  | [] => [x]
  | y :: ys => if strLe x y then x :: y :: ys else y :: insertS x ys
def sortS (xs : List String) : List String := xs.foldr insertS []
def showSet (xs : List String) : String := if xs.isEmpty then "~" else ",".intercalate (sortS xs)

/-- the stored values the hierarchy operations write are kept as one-byte markers; this is the text each stands for
    (`mkgroup`/`mkarray` of harness/src/c13.rs).  `mkdoc` and `cons` store real texts. -/
def realize (v : Bytes) : Bytes :=
  if v == [1] then ascii "{\"zarr_format\":3,\"node_type\":\"group\"}"
  else if v == [2] then ascii "{\"zarr_format\":3,\"node_type\":\"array\",\"shape\":[2],\"data_type\":\"uint8\",\"chunk_grid\":{\"name\":\"regular\",\"configuration\":{\"chunk_shape\":[1]}},\"chunk_key_encoding\":{\"name\":\"default\",\"configuration\":{\"separator\":\"/\"}},\"fill_value\":0,\"codecs\":[{\"name\":\"bytes\"}]}"
  else if v == [3] then ascii "{\"zarr_format\":2}"
  else if v == [4] then ascii "{\"zarr_format\":2,\"shape\":[2],\"chunks\":[1],\"dtype\":\"|u1\",\"compressor\":null,\"fill_value\":0,\"order\":\"C\",\"filters\":null}"
  else if v == [5] then ascii "{\"k\":1}"
  else v

def realizeKV (m : KV) : KV := m.map (fun kv => (kv.1, realize kv.2))

/-- markers read as before; any other value is read as the document it is (`Cons.docReader`) -/
def reader : Reader :=
  ⟨fun v => if v == [1] then some true else if v == [2] then some false else Cons.docReader.cls v,
   fun v => v == [4] || Cons.docReader.okA v, fun v => v == [3] || Cons.docReader.okG v,
   fun v => v == [5] || Cons.docReader.okAttrs v⟩

def prefixOfPath (p : String) : Key := if p == "/" then [] else (p.drop 1).toString.toList ++ ['/']

/-- does `Group::open` succeed at the prefix -/
def groupOpens (m : KV) (pre : Key) : Bool :=
  match m.get (pre ++ kZarrJson) with
  | some v => v == [1] || (match Cons.GroupDocC.ofText v with | some g => Cons.groupOkC g | none => false)
  | none =>
    match m.get (pre ++ kZgroup) with
    | some v =>
      (Cons.zattrsAt (realizeKV m) pre).isSome &&
      (v == [3] || (match MetaV2.GroupDocV2.ofText v with
        | some d => d.extra.all (fun kv => !kv.2.mu)
        | none => false))
    | none => false

/-- the harness prints stored texts through `serde_json::Value` (`compact`): a repeated key keeps its first position
    and takes the last value, which is what `Json.parse` does -/
def canon (t : List Nat) : List Nat := match parse t with | some j => print j | none => t

mutual
/-- documents inside the model: no object fill value anywhere (its key order is not modelled) -/
def nodeInModel : Cons.NodeDoc → Bool
  | .a3 d => fillOk d.fill
  | .g3 _ none => true
  | .g3 _ (some c) => membersInModel c
  | _ => true
def membersInModel : List (Str × Cons.NodeDoc) → Bool
  | [] => true
  | (_, d) :: rest => nodeInModel d && membersInModel rest
end

def handleDoc (l : Line) : Option (List String) := do
  let verb ← l.verbs[1]?
  let text ← parseHex (← l.get "text")
  let dup := (l.get "dup") == some "1"
  -- a number beyond binary64 fails the whole parse ("number out of range")
  let tooBig := match parse text with
    | some j => !(j.allNums (fun t => (Zarrs.Float.readF64 t).isSome))
    | none => false
  if tooBig then pure [if verb == "aopen" || verb == "gopen" then "rej-open" else "rej"] else
  match verb with
  | "meta" =>
    match (parse text).bind MetaV3.ofJ with
    | some m => pure [serLine m.toJ]
    | none => pure ["rej"]
  | "adoc" =>
    if dup then pure ["rej"] else
    match ArrayDoc.ofText text with
    | some d => if fillOk d.fill then pure [serLine d.toJ] else pure ["any"]
    | none => pure ["rej"]
  | "gdoc" =>
    if dup then pure ["rej"] else
    -- group documents with or without consolidated metadata: `Cons.GroupDocC` (Model/Consolidated.lean)
    match Cons.GroupDocC.ofText text with
    | none => pure ["rej"]
    | some g =>
      if !(nodeInModel (.g3 g.base g.cons)) then pure ["any"] else
      pure [DriverC13V2.twice Cons.GroupDocC.ofText Cons.GroupDocC.toJ text]
  | "mut" => none   -- handled before the document is parsed (see `handleMut`)
  | "a2doc" | "g2doc" | "v2to3" =>
    -- V2 documents and the V2 -> V3 conversion: predicted by `Zarrs.MetaV2` (Driver/C13V2.lean)
    DriverC13V2.handleDoc verb text dup
  | "a2open" =>
    -- V2 arrays are not modelled: an array that opens must re-open after its metadata is stored again, with the
    -- same stored document, and its operations must not panic
    if DriverC13V2.mustRejectOpen text && !dup then pure ["rej-open"] else
    if l.outcome == "rej-open" then
      pure [if (l.get "clean") == some "1" then "ok (a V2 document within the supported subset must open)" else "rej-open"] else
    let toks := outTokens l.outcome
    match toks.find? (·.1 == "stored"), toks.find? (·.1 == "stored2"), toks.find? (·.1 == "ops") with
    | some (_, a), some (_, b), some (_, ops) =>
      pure [if a == b && ops == "ok" then l.outcome else "ok stored=X stored2=X ops=ok (stored again and re-opened unchanged)"]
    | _, _, _ => pure ["ok stored=X stored2=X ops=ok"]
  | "aopen" =>
    if dup then pure ["rej-open"] else
    match ArrayDoc.ofText text with
    | none => pure ["rej-open"]
    | some d =>
      if !fillOk d.fill then pure ["any"] else
      let rank := (regularRank d.chunkGrid).getD d.shape.length
      if !(openOk d rank) then pure ["rej-open"] else
      let toks := outTokens l.outcome
      -- a valid document whose only change is a list of skippable storage transformers must still open
      let plugOk := (l.get "plug") == some "ok" || ((l.get "mut") == some "storage_transformers" && (l.get "base") == some "ok" && !d.st.isEmpty)
      if l.outcome == "rej-open" then
        pure [if plugOk then "ok (document built from valid parts must open)" else "rej-open"]
      else
        match toks.find? (·.1 == "meta"), toks.find? (·.1 == "stored"), toks.find? (·.1 == "stored2"), toks.find? (·.1 == "ops") with
        | some (_, mh), some (_, sh), some (_, s2), some (_, ops) =>
          let metaOk := parseHex mh == some (print d.toJ)
          let storedOk := match (parseHex sh).bind ArrayDoc.ofText with
            | some s => storedCompat d s
            | none => false
          let ok := metaOk && storedOk && s2 == sh && ops == "ok"
          pure [if ok then l.outcome else s!"ok meta={hexOf (print d.toJ)} stored~meta stored2=stored ops=ok (metaOk={metaOk} storedOk={storedOk} fixed={s2 == sh})"]
        | _, _, _, _ => pure ["ok meta=.. stored=.. stored2=.. ops=ok"]
  | "gopen" =>
    if dup then pure ["rej-open"] else
    match Cons.GroupDocC.ofText text with
    | none => pure ["rej-open"]
    | some g =>
      if !(nodeInModel (.g3 g.base g.cons)) then pure ["any"] else
      if !(Cons.groupOkC g) then pure ["rej-open"] else
      let t1 := print g.toJ
      let h := hexOf t1
      let hc := hexOf (canon t1)
      -- stored, re-opened and stored again: the stored text must read back (a consolidated V2 array member whose
      -- structured data type has a `null` shape does not: known defect of the V2 document reader)
      let s2 := match Cons.GroupDocC.ofText t1 with
        | some g2 => if Cons.groupOkC g2 then hexOf (canon (print g2.toJ)) else "rej-reopen"
        | none => "rej-reopen"
      pure [s!"ok meta={h} stored={hc} stored2={s2}"]
  | _ => none

def handleOp (st : St) (l : Line) : Option (St × List String) := do
  let verb ← l.verbs[2]?
  let m := st.kv
  match verb with
  | "mkgroup" =>
    let pre := prefixOfPath (← l.get "p")
    if (← l.get "v") == "3" then pure ({ kv := m.put (pre ++ kZarrJson) [1] }, ["ok"])
    else pure ({ kv := m.put (pre ++ kZgroup) [3] }, ["ok"])
  | "mkarray" =>
    let pre := prefixOfPath (← l.get "p")
    if (← l.get "v") == "3" then pure ({ kv := (m.put (pre ++ kZarrJson) [2]).put (pre ++ "c/0".toList) [9] }, ["ok"])
    else pure ({ kv := (m.put (pre ++ kZarray) [4]).put (pre ++ "0".toList) [9] }, ["ok"])
  | "rmmeta" =>
    -- through the API of the node kind found there: `Group::open`, else `Array::open`, must succeed
    let pre := prefixOfPath (← l.get "p")
    let rm := realizeKV m
    let zattrsOk := (Cons.zattrsAt rm pre).isSome
    let arrayOpens : Bool := match m.get (pre ++ kZarrJson) with
      | some v => v == [2] || (match ArrayDoc.ofText v with
          | some d => openOk d ((regularRank d.chunkGrid).getD d.shape.length)
          | none => false)
      | none => match m.get (pre ++ kZarray) with
        | some v => v == [4] || (zattrsOk && !(DriverC13V2.mustRejectOpen v))
        | none => false
    if groupOpens m pre then
      if (m.get (pre ++ kZarrJson)).isSome then pure ({ kv := m.erase (pre ++ kZarrJson) }, ["ok"])
      else pure ({ kv := (m.erase (pre ++ kZgroup)).erase (pre ++ kZattrs) }, ["ok"])
    else if arrayOpens then
      -- whether the plugins accept a given (non-marker) array document is outside the model: the outcome is followed
      let real := match m.get (pre ++ kZarrJson), m.get (pre ++ kZarray) with
        | some v, _ => v != [2]
        | none, some v => v != [4]
        | none, none => false
      if real && l.outcome == "none" then pure (st, ["none"]) else
      if (m.get (pre ++ kZarrJson)).isSome then pure ({ kv := m.erase (pre ++ kZarrJson) }, ["ok"])
      else pure ({ kv := (m.erase (pre ++ kZarray)).erase (pre ++ kZattrs) }, ["ok"])
    else pure (st, ["none"])
  | "setattrs" =>
    -- the node's attributes replaced by `n` entries and its metadata stored again: a V3 document keeps its key, a V2
    -- group's `.zattrs` exists afterwards iff there are attributes
    let pre := prefixOfPath (← l.get "p")
    let n := ((l.get "n").bind (·.toNat?)).getD 0
    match m.get (pre ++ kZarrJson) with
    | some v => if v == [1] || v == [2] then pure (st, ["ok"]) else pure (st, ["none"])
    | none =>
      if (m.get (pre ++ kZgroup)).isSome then
        pure ({ kv := if n > 0 then m.put (pre ++ kZattrs) [5] else m.erase (pre ++ kZattrs) }, ["ok"])
      else if (m.get (pre ++ kZarray)).isSome then
        -- an ARRAY is stored with the default options, which add the `_zarrs` attribute: its attributes are never empty
        pure ({ kv := m.put (pre ++ kZattrs) [5] }, ["ok"])
      else pure (st, ["none"])
  | "rmnode" =>
    let pre := prefixOfPath (← l.get "p")
    pure ({ kv := (Spec.step m (.erasePrefix pre)).1 }, ["ok"])
  | "stray" => pure ({ kv := m.put (← l.get "k").toList [9] }, ["ok"])
  | "mkdoc" =>
    let pre := prefixOfPath (← l.get "p")
    let text ← parseHex (← l.get "text")
    let m1 := m.put (pre ++ (← l.get "key").toList) text
    let m2 ← match l.get "zattrs" with
      | some z => (parseHex z).map (fun zt => m1.put (pre ++ kZattrs) zt)
      | none => some m1
    pure ({ kv := m2 }, ["ok"])
  | "cons" =>
    -- `Node::open` + `consolidate_metadata`, set on the group, stored, re-opened (Model/Consolidated.lean)
    let pre := prefixOfPath (← l.get "p")
    if m.any (fun kv => kv.2 == [5]) then pure (st, ["any"]) else
    let rm := realizeKV m
    match Cons.consolidate rm pre with
    | none => pure (st, ["err"])
    | some none => pure (st, ["array"])
    | some (some c) =>
      if !(membersInModel c) then pure (st, ["any"]) else
      if !groupOpens m pre then pure (st, ["nogroup"]) else
      match rm.get (pre ++ kZarrJson) with
      | some v =>
        match Cons.GroupDocC.ofText v with
        | none => pure (st, ["nogroup"])
        | some g =>
          let g' := g.setCons (some c)
          let t := g'.toText
          let map := match Cons.GroupDocC.ofText t with
            | some g2 => if Cons.groupOkC g2 then (match g2.cons with
                | some c2 => hexOf (print (Cons.consJ (Cons.sortKVs (Cons.membersToKVs c2))))
                | none => "-") else "rej-reopen"
            | none => "rej-reopen"
          pure ({ kv := m.put (pre ++ kZarrJson) t }, [s!"ok stored={hexOf (canon t)} map={map}"])
      | none =>
        -- a V2 group: `set_consolidated_metadata` is a no-op; `.zgroup` (and `.zattrs`) are stored again
        match rm.get (pre ++ kZgroup), Cons.zattrsAt rm pre with
        | some v, some za =>
          match MetaV2.GroupDocV2.ofText v with
          | none => pure (st, ["nogroup"])
          | some d =>
            let d' : MetaV2.GroupDocV2 := match za with | some a => { d with attrs := a } | none => d
            let t := print ({ d' with attrs := [] } : MetaV2.GroupDocV2).toJ
            let m1 := m.put (pre ++ kZgroup) t
            let m2 := if d'.attrs.isEmpty then m1.erase (pre ++ kZattrs) else m1.put (pre ++ kZattrs) (print (.obj d'.attrs))
            pure ({ kv := m2 }, [s!"ok stored={hexOf t} map=-"])
        | _, _ => pure (st, ["nogroup"])
  | "keys" => pure (st, ["keys " ++ showSet (m.keys.map String.ofList)])
  | "children" =>
    let pre := prefixOfPath (← l.get "p")
    if !groupOpens m pre then pure (st, ["nogroup"]) else
    match children reader m ((← l.get "rec") == "1") pre with
    | some ns => pure (st, ["nodes " ++ showSet (ns.map (fun n => nodeStr n.1 ++ ":" ++ kindStr n.2))])
    | none => pure (st, ["err"])
  | "paths" =>
    let pre := prefixOfPath (← l.get "p")
    if !groupOpens m pre then pure (st, ["nogroup"]) else
    match children reader m false pre with
    | some ns =>
      let all := showSet (ns.map (nodeStr ·.1))
      let gs := showSet ((ns.filter (·.2.isGroup)).map (nodeStr ·.1))
      let as := showSet ((ns.filter (fun n => !n.2.isGroup)).map (nodeStr ·.1))
      pure (st, [s!"all={all} groups={gs} arrays={as}"])
    | none => pure (st, ["all=err groups=err arrays=err"])
  | "objs" =>
    let pre := prefixOfPath (← l.get "p")
    if !groupOpens m pre then pure (st, ["nogroup"]) else
    match children reader m false pre with
    | some ns =>
      let gs := showSet ((ns.filter (·.2.isGroup)).map (nodeStr ·.1))
      let as := showSet ((ns.filter (fun n => !n.2.isGroup)).map (nodeStr ·.1))
      -- `child_arrays` creates the arrays: whether the plugins accept a given (non-marker) array document is outside
      -- the model, so `err` is accepted there when such a child exists
      let realArray := ns.any (fun n => !n.2.isGroup &&
        (match m.get (n.1 ++ kZarrJson), m.get (n.1 ++ kZarray) with
          | some v, _ => v != [2]
          | none, some v => v != [4]
          | none, none => false))
      if realArray && l.outcome == s!"groups={gs} arrays=err" then pure (st, [l.outcome]) else
      pure (st, [s!"groups={gs} arrays={as}"])
    | none => pure (st, ["groups=err arrays=err"])
  | "tree" =>
    let pre := prefixOfPath (← l.get "p")
    match openNode reader m pre with
    | some ns => pure (st, ["nodes " ++ showSet (ns.map (fun n => nodeStr n.1 ++ ":" ++ kindStr n.2))])
    | none => pure (st, ["err"])
  | "exists" =>
    let pre := prefixOfPath (← l.get "p")
    let b := showBool (nodeExists m pre)
    pure (st, [s!"val {b} {b}"])
  | _ => none

/-- `c13 mut …`: a handle changed through its setters, stored and re-opened holds what it was told: the attributes
as given (the `_zarrs` attribute is removed by the harness), the shape as set, the dimension names as set (V3 arrays;
V2 arrays and groups have none); without a setter call the stored value stays -/
def handleMut (l : Line) : Option (List String) := do
  let kind ← l.get "kind"
  let attrs ← l.get "attrs"
  let isArr := kind == "a3" || kind == "a2"
  let shape := if isArr then (l.get "shape").getD "4,6" else "-"
  let dims := if kind == "a3" then (l.get "dims").getD "y0,x0" else "none"
  pure [s!"ok dims={dims} shape={shape} attrs={attrs}"]

def handle (st : St) (l : Line) : Option (St × List String × Option String) :=
  match l.verbs[1]? with
  | some "mut" => (handleMut l).map (fun a => (st, a, none))
  | some "mopt" => (DriverC13Opts.handle l).map (fun a => (st, a, none))   -- Driver/C13Opts.lean
  | some "build" | some "gbuild" => (DriverC13Build.handle l).map (fun a => (st, a, none))   -- Driver/C13Build.lean
  | some "cfg" => some ({}, ["ok"], none)
  | some "op" => (handleOp st l).map (fun (s, a) => (s, a, none))
  | _ => (handleDoc l).map (fun a => (st, a, none))

end Zarrs.DriverC13
