import ZarrsModel.Model.Meta
import ZarrsModel.Model.Hier
import ZarrsModel.Model.Float
import ZarrsModel.Driver.Proto
import ZarrsModel.Driver.C13V2
import ZarrsModel.Driver.C13Opts
/- driver handlers for C13 (unverified glue around `Zarrs.Meta`, `Zarrs.Hier`, `Zarrs.Json`) -/
namespace Zarrs.DriverC13
open Zarrs Zarrs.Json Zarrs.Meta Zarrs.Hier Zarrs.Proto

structure St where
  kv : KV := []

def hexOf (bs : List Nat) : String := showHex bs
def serLine (j : J) : String := let h := hexOf (print j); s!"ser={h} ser2={h}"

def outTokens (s : String) : List (String × String) := ((s.splitOn " ").filterMap splitKV)

/-- strip `_zarrs` (added by `include_zarrs_metadata`) from attributes -/
def dropZarrs (o : Obj) : Obj := o.filter (fun kv => kv.1 != ascii "_zarrs")

def metaEq (a b : MetaV3) : Bool := J.beq a.toJ b.toJ
def metaListEq : List MetaV3 → List MetaV3 → Bool
  | [], [] => true
  | a :: as, b :: bs => metaEq a b && metaListEq as bs
  | _, _ => false

/-- codecs whose metadata `store_metadata` leaves out: those that need not be understood (skipped on open), and
    encode-only codecs (`experimental_codec_store_metadata_if_encode_only` is off by default) -/
def droppable (c : MetaV3) : Bool := !c.mu || c.name == ascii "bitround"
def codecsCompat : List MetaV3 → List MetaV3 → Bool
  | [], [] => true
  | c :: cs, [] => droppable c && codecsCompat cs []
  | [], _ :: _ => false
  | c :: cs, s :: ss =>
    if c.name == s.name then codecsCompat cs ss else (droppable c && codecsCompat cs (s :: ss))

def extraEq (a b : List (Str × AField)) : Bool :=
  J.beq (.obj (a.map (fun kv => (kv.1, kv.2.toJ)))) (.obj (b.map (fun kv => (kv.1, kv.2.toJ))))

/-- the stored document against the opened one, up to the documented conversions (`_zarrs` attribute, codec
    configurations re-created from the codecs) -/
def storedCompat (d s : ArrayDoc) : Bool :=
  d.shape == s.shape && metaEq d.dataType s.dataType && metaEq d.chunkGrid s.chunkGrid && metaEq d.cke s.cke &&
  J.beq d.fill s.fill && codecsCompat d.codecs s.codecs &&
  J.beq (.obj (dropZarrs d.attrs)) (.obj (dropZarrs s.attrs)) && metaListEq d.st s.st &&
  d.dimNames == s.dimNames && extraEq d.extra s.extra

def nodeStr (p : Key) : String := if p.isEmpty then "/" else "/" ++ String.ofList p.dropLast
def kindStr : Kind → String
  | .group3 => "group3" | .array3 => "array3" | .group2 => "group2" | .array2 => "array2"

def strLe (a b : String) : Bool := a.toList.map Char.toNat ≤ b.toList.map Char.toNat
def insertS (x : String) : List String → List String
  | [] => [x]
  | y :: ys => if strLe x y then x :: y :: ys else y :: insertS x ys
def sortS (xs : List String) : List String := xs.foldr insertS []
def showSet (xs : List String) : String := if xs.isEmpty then "~" else ",".intercalate (sortS xs)

def reader : Reader :=
  ⟨fun v => if v == [1] then some true else if v == [2] then some false else none, fun _ => true, fun _ => true, fun _ => true⟩

def prefixOfPath (p : String) : Key := if p == "/" then [] else (p.drop 1).toString.toList ++ ['/']

/-- does `Group::open` succeed at the prefix -/
def groupOpens (m : KV) (pre : Key) : Bool :=
  match m.get (pre ++ kZarrJson) with
  | some v => v == [1]
  | none => (m.get (pre ++ kZgroup)).isSome

def handleDoc (l : Line) : Option (List String) := do
  let verb ← l.verbs[1]?
  let text ← parseHex (← l.get "text")
  let dup := (l.get "dup") == some "1"
  -- a number beyond binary64 fails the whole parse ("number out of range")
  let tooBig := match parse text with
    | some j => !(j.allNums (fun t => (Zarrs.Float.readF64 t).isSome))
    | none => false
  if tooBig then pure [if verb == "aopen" || verb == "gopen" then "rej-open" else "rej"] else
  match verb with
  | "meta" =>
    match (parse text).bind MetaV3.ofJ with
    | some m => pure [serLine m.toJ]
    | none => pure ["rej"]
  | "adoc" =>
    if dup then pure ["rej"] else
    match ArrayDoc.ofText text with
    | some d => if fillOk d.fill then pure [serLine d.toJ] else pure ["any"]
    | none => pure ["rej"]
  | "gdoc" =>
    if dup then pure ["rej"] else
    match (parse text).bind (fun j => match j with
        | .obj o => if (lookup o (ascii "consolidated_metadata")).isSome then none else some j
        | _ => some j) with
    | none =>
      -- consolidated metadata is not modelled, but re-serialising what was parsed must still be a fixed point
      let toks := outTokens l.outcome
      match toks.find? (·.1 == "ser"), toks.find? (·.1 == "ser2") with
      | some (_, a), some (_, b) => pure [if a == b then "any" else "ser=X ser2=X (re-serialising a parsed document must be a fixed point)"]
      | _, _ => pure ["any"]
    | some _ =>
      match GroupDoc.ofText text with
      | some d => pure [serLine d.toJ]
      | none => pure ["rej"]
  | "mut" => none   -- handled before the document is parsed (see `handleMut`)
  | "a2doc" | "g2doc" | "v2to3" =>
    -- V2 documents and the V2 -> V3 conversion: predicted by `Zarrs.MetaV2` (Driver/C13V2.lean)
    DriverC13V2.handleDoc verb text dup
  | "a2open" =>
    -- V2 arrays are not modelled: an array that opens must re-open after its metadata is stored again, with the
    -- same stored document, and its operations must not panic
    if DriverC13V2.mustRejectOpen text && !dup then pure ["rej-open"] else
    if l.outcome == "rej-open" then
      pure [if (l.get "clean") == some "1" then "ok (a V2 document within the supported subset must open)" else "rej-open"] else
    let toks := outTokens l.outcome
    match toks.find? (·.1 == "stored"), toks.find? (·.1 == "stored2"), toks.find? (·.1 == "ops") with
    | some (_, a), some (_, b), some (_, ops) =>
      pure [if a == b && ops == "ok" then l.outcome else "ok stored=X stored2=X ops=ok (stored again and re-opened unchanged)"]
    | _, _, _ => pure ["ok stored=X stored2=X ops=ok"]
  | "aopen" =>
    if dup then pure ["rej-open"] else
    match ArrayDoc.ofText text with
    | none => pure ["rej-open"]
    | some d =>
      if !fillOk d.fill then pure ["any"] else
      let rank := (regularRank d.chunkGrid).getD d.shape.length
      if !(openOk d rank) then pure ["rej-open"] else
      let toks := outTokens l.outcome
      -- a valid document whose only change is a list of skippable storage transformers must still open
      let plugOk := (l.get "plug") == some "ok" || ((l.get "mut") == some "storage_transformers" && (l.get "base") == some "ok" && !d.st.isEmpty)
      if l.outcome == "rej-open" then
        pure [if plugOk then "ok (document built from valid parts must open)" else "rej-open"]
      else
        match toks.find? (·.1 == "meta"), toks.find? (·.1 == "stored"), toks.find? (·.1 == "stored2"), toks.find? (·.1 == "ops") with
        | some (_, mh), some (_, sh), some (_, s2), some (_, ops) =>
          let metaOk := parseHex mh == some (print d.toJ)
          let storedOk := match (parseHex sh).bind ArrayDoc.ofText with
            | some s => storedCompat d s
            | none => false
          let ok := metaOk && storedOk && s2 == sh && ops == "ok"
          pure [if ok then l.outcome else s!"ok meta={hexOf (print d.toJ)} stored~meta stored2=stored ops=ok (metaOk={metaOk} storedOk={storedOk} fixed={s2 == sh})"]
        | _, _, _, _ => pure ["ok meta=.. stored=.. stored2=.. ops=ok"]
  | "gopen" =>
    if dup then pure ["rej-open"] else
    match (parse text) with
    | none => pure ["rej-open"]
    | some j =>
      if (match j with | .obj o => (lookup o (ascii "consolidated_metadata")).isSome | _ => false) then pure ["any"] else
      match GroupDoc.ofJ j with
      | none => pure ["rej-open"]
      | some d =>
        if !(groupOk d) then pure ["rej-open"] else
        let h := hexOf (print d.toJ)
        pure [s!"ok meta={h} stored={h} stored2={h}"]
  | _ => none

def handleOp (st : St) (l : Line) : Option (St × List String) := do
  let verb ← l.verbs[2]?
  let m := st.kv
  match verb with
  | "mkgroup" =>
    let pre := prefixOfPath (← l.get "p")
    if (← l.get "v") == "3" then pure ({ kv := m.put (pre ++ kZarrJson) [1] }, ["ok"])
    else pure ({ kv := m.put (pre ++ kZgroup) [3] }, ["ok"])
  | "mkarray" =>
    let pre := prefixOfPath (← l.get "p")
    if (← l.get "v") == "3" then pure ({ kv := (m.put (pre ++ kZarrJson) [2]).put (pre ++ "c/0".toList) [9] }, ["ok"])
    else pure ({ kv := (m.put (pre ++ kZarray) [4]).put (pre ++ "0".toList) [9] }, ["ok"])
  | "rmmeta" =>
    let pre := prefixOfPath (← l.get "p")
    if (m.get (pre ++ kZarrJson)).isSome then pure ({ kv := m.erase (pre ++ kZarrJson) }, ["ok"])
    else if (m.get (pre ++ kZgroup)).isSome then pure ({ kv := (m.erase (pre ++ kZgroup)).erase (pre ++ kZattrs) }, ["ok"])
    else if (m.get (pre ++ kZarray)).isSome then pure ({ kv := (m.erase (pre ++ kZarray)).erase (pre ++ kZattrs) }, ["ok"])
    else pure (st, ["none"])
  | "setattrs" =>
    -- the node's attributes replaced by `n` entries and its metadata stored again: a V3 document keeps its key, a V2
    -- group's `.zattrs` exists afterwards iff there are attributes
    let pre := prefixOfPath (← l.get "p")
    let n := ((l.get "n").bind (·.toNat?)).getD 0
    match m.get (pre ++ kZarrJson) with
    | some v => if v == [1] || v == [2] then pure (st, ["ok"]) else pure (st, ["none"])
    | none =>
      if (m.get (pre ++ kZgroup)).isSome then
        pure ({ kv := if n > 0 then m.put (pre ++ kZattrs) [5] else m.erase (pre ++ kZattrs) }, ["ok"])
      else if (m.get (pre ++ kZarray)).isSome then
        -- an ARRAY is stored with the default options, which add the `_zarrs` attribute: its attributes are never empty
        pure ({ kv := m.put (pre ++ kZattrs) [5] }, ["ok"])
      else pure (st, ["none"])
  | "rmnode" =>
    let pre := prefixOfPath (← l.get "p")
    pure ({ kv := (Spec.step m (.erasePrefix pre)).1 }, ["ok"])
  | "stray" => pure ({ kv := m.put (← l.get "k").toList [9] }, ["ok"])
  | "keys" => pure (st, ["keys " ++ showSet (m.keys.map String.ofList)])
  | "children" =>
    let pre := prefixOfPath (← l.get "p")
    if !groupOpens m pre then pure (st, ["nogroup"]) else
    match children reader m ((← l.get "rec") == "1") pre with
    | some ns => pure (st, ["nodes " ++ showSet (ns.map (fun n => nodeStr n.1 ++ ":" ++ kindStr n.2))])
    | none => pure (st, ["err"])
  | "paths" =>
    let pre := prefixOfPath (← l.get "p")
    if !groupOpens m pre then pure (st, ["nogroup"]) else
    match children reader m false pre with
    | some ns =>
      let all := showSet (ns.map (nodeStr ·.1))
      let gs := showSet ((ns.filter (·.2.isGroup)).map (nodeStr ·.1))
      let as := showSet ((ns.filter (fun n => !n.2.isGroup)).map (nodeStr ·.1))
      pure (st, [s!"all={all} groups={gs} arrays={as}"])
    | none => pure (st, ["all=err groups=err arrays=err"])
  | "objs" =>
    let pre := prefixOfPath (← l.get "p")
    if !groupOpens m pre then pure (st, ["nogroup"]) else
    match children reader m false pre with
    | some ns =>
      let gs := showSet ((ns.filter (·.2.isGroup)).map (nodeStr ·.1))
      let as := showSet ((ns.filter (fun n => !n.2.isGroup)).map (nodeStr ·.1))
      pure (st, [s!"groups={gs} arrays={as}"])
    | none => pure (st, ["groups=err arrays=err"])
  | "tree" =>
    let pre := prefixOfPath (← l.get "p")
    match openNode reader m pre with
    | some ns => pure (st, ["nodes " ++ showSet (ns.map (fun n => nodeStr n.1 ++ ":" ++ kindStr n.2))])
    | none => pure (st, ["err"])
  | "exists" =>
    let pre := prefixOfPath (← l.get "p")
    let b := showBool (nodeExists m pre)
    pure (st, [s!"val {b} {b}"])
  | _ => none

/-- `c13 mut …`: a handle changed through its setters, stored and re-opened holds what it was told: the attributes
as given (the `_zarrs` attribute is removed by the harness), the shape as set, the dimension names as set (V3 arrays;
V2 arrays and groups have none); without a setter call the stored value stays -/
def handleMut (l : Line) : Option (List String) := do
  let kind ← l.get "kind"
  let attrs ← l.get "attrs"
  let isArr := kind == "a3" || kind == "a2"
  let shape := if isArr then (l.get "shape").getD "4,6" else "-"
  let dims := if kind == "a3" then (l.get "dims").getD "y0,x0" else "none"
  pure [s!"ok dims={dims} shape={shape} attrs={attrs}"]

def handle (st : St) (l : Line) : Option (St × List String × Option String) :=
  match l.verbs[1]? with
  | some "mut" => (handleMut l).map (fun a => (st, a, none))
  | some "mopt" => (DriverC13Opts.handle l).map (fun a => (st, a, none))   -- Driver/C13Opts.lean
  | some "cfg" => some ({}, ["ok"], none)
  | some "op" => (handleOp st l).map (fun (s, a) => (s, a, none))
  | _ => (handleDoc l).map (fun a => (st, a, none))

end Zarrs.DriverC13
