import ZarrsModel.Model.Array
import ZarrsModel.Model.Keys
import ZarrsModel.Driver.Proto
import ZarrsModel.Driver.C10
/- driver handlers for C01/C04/C06 (array histories): stateful, one model array + store per case -/
namespace Zarrs.DriverC01
open Zarrs Zarrs.Proto

abbrev Elem := List Nat

def parseElems (s : String) : Option (List Elem) :=
  if s == "~" then some [] else (s.splitOn ".").mapM parseHex
def showElems (xs : List Elem) : String :=
  if xs.isEmpty then "~" else ".".intercalate (xs.map showHex)

/-- the model's own (lossless) chunk encoding: length-prefixed elements -/
def encElems (xs : List Elem) : Bytes := xs.flatMap (fun e => e.length :: e)
def decElems : Nat → Bytes → Option (List Elem)
  | 0, [] => some []
  | 0, _ => none
  | _ + 1, [] => some []
  | fuel + 1, n :: rest =>
    if rest.length < n then none else
    (decElems fuel (rest.drop n)).map (rest.take n :: ·)

def parseSubset (s : String) : Option Subset :=
  match s.splitOn "+" with
  | [a, b] => do pure ⟨← parseNl a, ← parseNl b⟩
  | _ => none

structure St where
  cfg : Option (ArrCfg Elem) := none
  st : KV := []
  abs : AArr Elem := fun _ => []     -- the abstract array of C01 (specification oracle)
  es : Nat := 0                      -- element size in bytes (0 = variable length)
  chain : String := ""               -- textual description of the codec chain
  store : String := ""               -- store kind of the case (`store=` of the cfg line)
  path : List Char := ['/']          -- node path of the array (`path=` of the cfg line; used by the C20 handler)

def parseCfg (l : Line) : Option (ArrCfg Elem) := do
  let shape ← l.nl "shape"
  let grid ← DriverC10.parseGrid (← l.get "grid")
  let fill ← parseHex (← l.get "fill")
  let path := (← l.get "path").toList
  let (enc, sep) ← (match (← l.get "keys").splitOn ":" with
    | ["default", "/"] => some (Keys.Enc.default, '/')
    | ["default", "."] => some (Keys.Enc.default, '.')
    | ["v2", "/"] => some (Keys.Enc.v2, '/')
    | ["v2", "."] => some (Keys.Enc.v2, '.')
    | _ => none)
  let empty := (l.get "empty") == some "1"
  pure { shape := shape, grid := grid, fill := fill,
         keyOf := fun c => Keys.dataKey path (Keys.encode enc sep c),
         enc := encElems, dec := fun b => decElems (b.length + 1) b, storeEmpty := empty }

def optUnit (r : Option KV) (st : St) : St × String :=
  match r with
  | some kv => ({ st with st := kv }, "ok")
  | none => (st, "err")
def optVal (r : Option (List Elem)) : String :=
  match r with
  | some xs => "val " ++ showElems xs
  | none => "err"

/-- the write operation a request denotes (for the abstract array) -/
def writeOpOf (verb : String) (l : Line) : Option (WriteOp Elem) := do
  match verb with
  | "store_chunk" => pure (.storeChunk (← l.nl "c") (← parseElems (← l.get "data")))
  | "store_chunks" => pure (.storeChunks (← parseSubset (← l.get "box")) (← parseElems (← l.get "data")))
  | "store_chunk_subset" => pure (.storeChunkSubset (← l.nl "c") (← parseSubset (← l.get "r")) (← parseElems (← l.get "data")))
  | "store_array_subset" => pure (.storeArraySubset (← parseSubset (← l.get "r")) (← parseElems (← l.get "data")))
  | "erase_chunk" => pure (.eraseChunk (← l.nl "c"))
  | "erase_chunks" => pure (.eraseChunks (← parseSubset (← l.get "box")))
  | _ => none

/-- C07: the typed element forms of the writes denote the same write as the byte forms -/
def untypedVerb (verb : String) : String :=
  match verb with
  | "tstore_chunk" => "store_chunk"
  | "tstore_chunks" => "store_chunks"
  | "tstore_chunk_subset" => "store_chunk_subset"
  | "tstore_array_subset" => "store_array_subset"
  | v => v

/-- the sub-boxes and data of a partial-encoder request `penc c= rs=a|b data=x|y` -/
def pencArgs (l : Line) : Option (List (Subset × List Elem)) := do
  let rs ← ((← l.get "rs").splitOn "|").mapM parseSubset
  let ds ← ((← l.get "data").splitOn "|").mapM parseElems
  if rs.length == ds.length then pure (rs.zip ds) else none

/-- the write operations a request denotes, in order (C07 adds typed writes and the partial encoder, which applies
several sub-box writes of one chunk in one call) -/
def writeOpsOf (verb : String) (l : Line) : List (WriteOp Elem) :=
  match verb with
  | "penc" =>
    match l.nl "c", pencArgs l with
    | some c, some ps => ps.map (fun p => .storeChunkSubset c p.1 p.2)
    | _, _ => []
  | "penc_erase" => match l.nl "c" with | some c => [.eraseChunk c] | none => []
  | _ => (writeOpOf (untypedVerb verb) l).toList

/-- presence of the encoded chunk of `c` in the model store -/
def encPresent (cfg : ArrCfg Elem) (st : KV) (c : Idx) : Bool := (st.get (cfg.keyOf c)).isSome

/-- what the abstract array says a read returns (none = not a read / region not expressible) -/
def specRead (cfg : ArrCfg Elem) (a : AArr Elem) (verb : String) (l : Line) : Option String := do
  match verb with
  | "retrieve_chunk" =>
    let cs ← cfg.chunkSubset (← l.nl "c"); pure ("val " ++ showElems (a.read cs))
  | "retrieve_chunks" =>
    let region ← cfg.grid.chunksSubset (← parseSubset (← l.get "box")); pure ("val " ++ showElems (a.read region))
  | "retrieve_chunk_subset" =>
    let cs ← cfg.chunkSubset (← l.nl "c"); let r ← parseSubset (← l.get "r")
    pure ("val " ++ showElems (a.read ⟨addIdx r.start cs.start, r.shape⟩))
  | "retrieve_array_subset" => pure ("val " ++ showElems (a.read (← parseSubset (← l.get "r"))))
  | _ => none

def handleCore (st : St) (l : Line) : Option (St × List String) := do
  let v1 ← l.verbs[1]?
  if v1 == "cfg" then
    -- a configuration the implementation rejected is skipped as a whole
    if l.outcome.startsWith "err-open" then pure ({ cfg := none, st := [] }, ["any"]) else
    let cfg ← parseCfg l
    pure ({ cfg := some cfg, st := [], abs := fun _ => cfg.fill,
            es := ((l.get "es").bind (·.toNat?)).getD 0, chain := (l.get "chain").getD "", store := (l.get "store").getD "",
            path := ((l.get "path").getD "/").toList }, ["ok"])
  else
    match st.cfg with
    | none => pure (st, ["skip"])
    | some cfg =>
      let verb ← l.verbs[2]?
      match verb with
      | "store_chunk" =>
        let (s, o) := optUnit (cfg.storeChunk st.st (← l.nl "c") (← parseElems (← l.get "data"))) st; pure (s, [o])
      | "store_chunks" =>
        let (s, o) := optUnit (cfg.storeChunks st.st (← parseSubset (← l.get "box")) (← parseElems (← l.get "data"))) st; pure (s, [o])
      | "store_chunk_subset" =>
        let (s, o) := optUnit (cfg.storeChunkSubset st.st (← l.nl "c") (← parseSubset (← l.get "r")) (← parseElems (← l.get "data"))) st; pure (s, [o])
      | "store_array_subset" =>
        let (s, o) := optUnit (cfg.storeArraySubset st.st (← parseSubset (← l.get "r")) (← parseElems (← l.get "data"))) st; pure (s, [o])
      | "erase_chunk" => pure ({ st with st := cfg.eraseChunk st.st (← l.nl "c") }, ["ok"])
      | "erase_chunks" => pure ({ st with st := cfg.eraseChunks st.st (← parseSubset (← l.get "box")) }, ["ok"])
      | "retrieve_chunk" => pure (st, [optVal (cfg.retrieveChunk st.st (← l.nl "c"))])
      | "retrieve_chunk_if_exists" =>
        pure (st, [match cfg.retrieveChunkIfExists st.st (← l.nl "c") with
          | some (some xs) => "val " ++ showElems xs
          | some none => "none"
          | none => "err"])
      | "retrieve_chunks" => pure (st, [optVal (cfg.retrieveChunks st.st (← parseSubset (← l.get "box")))])
      | "retrieve_chunk_subset" => pure (st, [optVal (cfg.retrieveChunkSubset st.st (← l.nl "c") (← parseSubset (← l.get "r")))])
      | "retrieve_array_subset" => pure (st, [optVal (cfg.retrieveArraySubset st.st (← parseSubset (← l.get "r")))])
      -- C07: typed element forms of the writes (a data type without a typed form answers `untyped` and writes nothing)
      | "tstore_chunk" =>
        if l.outcome == "untyped" then pure (st, ["untyped"]) else
        let (s, o) := optUnit (cfg.storeChunk st.st (← l.nl "c") (← parseElems (← l.get "data"))) st; pure (s, [o])
      | "tstore_chunks" =>
        if l.outcome == "untyped" then pure (st, ["untyped"]) else
        let (s, o) := optUnit (cfg.storeChunks st.st (← parseSubset (← l.get "box")) (← parseElems (← l.get "data"))) st; pure (s, [o])
      | "tstore_chunk_subset" =>
        if l.outcome == "untyped" then pure (st, ["untyped"]) else
        let (s, o) := optUnit (cfg.storeChunkSubset st.st (← l.nl "c") (← parseSubset (← l.get "r")) (← parseElems (← l.get "data"))) st; pure (s, [o])
      | "tstore_array_subset" =>
        if l.outcome == "untyped" then pure (st, ["untyped"]) else
        let (s, o) := optUnit (cfg.storeArraySubset st.st (← parseSubset (← l.get "r")) (← parseElems (← l.get "data"))) st; pure (s, [o])
      -- C07: encoded chunks. The harness compares the bytes of the two APIs (over the same store contents) position by
      -- position and reports which positions hold a value: the model predicts exactly that, in the order of
      -- `chunks.indices()` (`retrieve_encoded_chunks` / `async_retrieve_encoded_chunks`, array_*_readable.rs)
      | "enc_chunk" => pure (st, [if encPresent cfg st.st (← l.nl "c") then "enc some" else "enc none"])
      | "enc_chunks" =>
        let box ← parseSubset (← l.get "box")
        let pat := box.indices.map (fun c => if encPresent cfg st.st c then '1' else '0')
        pure (st, ["encs " ++ (if pat.isEmpty then "~" else String.ofList pat)])
      -- C07: the array's metadata document (`store_metadata_opt` / `erase_metadata_opt` and their async forms; the arrays
      -- of these cases are Zarr V3, so erasing "v2" leaves the document)
      | "open_opt" => pure (st, [if (l.get "v") == some "v2" then "err" else "ok"])
      | "store_metadata" => pure (st, ["ok meta=present"])
      | "erase_metadata" => pure (st, [if (l.get "v") == some "v2" then "ok meta=present" else "ok meta=absent"])
      -- C07: the partial encoder applies the sub-box writes of one call in order (array_to_bytes_partial_encoder_default.rs
      -- `partial_encode`: decode or fill, update per subset in order, elide or encode), `erase` erases the chunk
      | "penc" =>
        let c ← l.nl "c"
        let ps ← pencArgs l
        let r := ArrCfg.foldOpt (fun kv (p : Subset × List Elem) => cfg.storeChunkSubset kv c p.1 p.2) st.st ps
        let (s, o) := optUnit r st; pure (s, [o])
      | "penc_erase" => pure ({ st with st := cfg.eraseChunk st.st (← l.nl "c") }, ["ok"])
      | "typed_chunk_if_exists" | "nd_chunk_if_exists" =>
        pure (st, [match cfg.retrieveChunkIfExists st.st (← l.nl "c") with
          | some (some xs) => "val " ++ showElems xs
          | some none => "none"
          | none => "err", "untyped"])
      | "nd_chunk" => pure (st, [optVal (cfg.retrieveChunk st.st (← l.nl "c")), "untyped"])
      | "nd_chunks" => pure (st, [optVal (cfg.retrieveChunks st.st (← parseSubset (← l.get "box"))), "untyped"])
      | "nd_chunk_subset" => pure (st, [optVal (cfg.retrieveChunkSubset st.st (← l.nl "c") (← parseSubset (← l.get "r"))), "untyped"])
      | "keys" => pure (st, ["keys " ++ (if st.st.isEmpty then "~" else ",".intercalate (st.st.keys.map String.ofList))])
      | "reopen" => pure (st, ["ok"])
      | "raw" => pure (st, ["any"])     -- judged by the C05 handler
      -- C06 routes: every route must return what the plain model read of the same region returns
      | "cache_new" => pure (st, ["ok"])
      | "shard_cache_new" => pure (st, ["ok"])
      | "pd" =>
        let c ← l.nl "c"
        let rs ← ((← l.get "rs").splitOn "|").mapM parseSubset
        let parts := rs.map (fun r => cfg.retrieveChunkSubset st.st c r)
        if parts.all Option.isSome then
          pure (st, ["val " ++ "|".intercalate (parts.map (fun p => showElems (p.getD [])))])
        else pure (st, ["err"])
      | "pdx" =>
        -- partial decoder, plus the implementation's own "full decode then slice" comparison
        let c ← l.nl "c"
        let rs ← ((← l.get "rs").splitOn "|").mapM parseSubset
        let parts := rs.map (fun r => cfg.retrieveChunkSubset st.st c r)
        if parts.all Option.isSome then
          let v := "val " ++ "|".intercalate (parts.map (fun p => showElems (p.getD [])))
          -- (C07 runs the partial decoder without the implementation-side comparison)
          pure (st, [v ++ " same=true", v])
        else pure (st, ["err"])
      | "contents" => pure (st, [optVal (cfg.retrieveArraySubset st.st ⟨cfg.shape.map (fun _ => 0), cfg.shape⟩)])
      | "typed_chunk" => pure (st, [optVal (cfg.retrieveChunk st.st (← l.nl "c")), "untyped"])
      | "typed_subset" => pure (st, [optVal (cfg.retrieveArraySubset st.st (← parseSubset (← l.get "r"))), "untyped"])
      | "typed_chunk_subset" => pure (st, [optVal (cfg.retrieveChunkSubset st.st (← l.nl "c") (← parseSubset (← l.get "r"))), "untyped"])
      | "typed_chunks" => pure (st, [optVal (cfg.retrieveChunks st.st (← parseSubset (← l.get "box"))), "untyped"])
      | "nd_subset" => pure (st, [optVal (cfg.retrieveArraySubset st.st (← parseSubset (← l.get "r"))), "untyped"])
      | "cached_chunk" => pure (st, [optVal (cfg.retrieveChunk st.st (← l.nl "c"))])
      | "cached_chunks" => pure (st, [optVal (cfg.retrieveChunks st.st (← parseSubset (← l.get "box")))])
      | "cached_chunk_subset" => pure (st, [optVal (cfg.retrieveChunkSubset st.st (← l.nl "c") (← parseSubset (← l.get "r")))])
      | "cached_subset" => pure (st, [optVal (cfg.retrieveArraySubset st.st (← parseSubset (← l.get "r")))])
      | "sharded_subset" => pure (st, [optVal (cfg.retrieveArraySubset st.st (← parseSubset (← l.get "r")))])
      -- the typed / ndarray forms of the sharded extension: the same elements (an ndarray of another shape is reported
      -- by the harness as `badshape`, which no prediction carries); data types without a typed form answer `untyped`
      | "nd_sharded_subset" | "typed_sharded_subset" =>
        pure (st, [optVal (cfg.retrieveArraySubset st.st (← parseSubset (← l.get "r"))), "untyped"])
      | "inner_chunk" | "nd_inner_chunk" | "typed_inner_chunk" =>
        let ic ← l.nl "ic"; let ish ← l.nl "ishape"
        let r : Subset := ⟨zipMul ic ish, ish⟩
        let c ← cfg.grid.chunkIndices r.start
        let cs ← cfg.chunkSubset c
        pure (st, [optVal (cfg.retrieveChunkSubset st.st c (r.relativeTo cs.start))] ++ (if verb == "inner_chunk" then [] else ["untyped"]))
      | "inner_chunks" | "nd_inner_chunks" | "typed_inner_chunks" =>
        let ib ← parseSubset (← l.get "ibox"); let ish ← l.nl "ishape"
        let r : Subset := ⟨zipMul ib.start ish, zipMul ib.shape ish⟩
        let ut := if verb == "inner_chunks" then [] else ["untyped"]
        if r.isEmpty then pure (st, ["val ~"] ++ ut) else
        pure (st, [optVal (cfg.retrieveArraySubset st.st r)] ++ ut)
      | "inner_shape" =>
        let sh := (l.get "sh") == some "1"
        let eff ← l.get "eff"
        let grid := if eff == "none" then (cfg.grid.gridShape cfg.shape)
          else (parseNl eff).map (fun e => List.zipWith (fun a c => (a + c - 1) / c) cfg.shape e)
        pure (st, ["val sharded=" ++ showBool sh ++ " eff=" ++ (if sh then eff else "none") ++ " grid=" ++
          (match (if sh then grid else cfg.grid.gridShape cfg.shape) with | some g => showNl g | none => "none")])
      | _ => none

/-- model step + cross-check of the model against the abstract specification of C01 (they are proved equal;
a note is emitted if they ever differ at run time) -/
def handle (st : St) (l : Line) : Option (St × List String × Option String) := do
  let (st', acc) ← handleCore st l
  match st.cfg, l.verbs[2]? with
  | some cfg, some verb =>
    -- advance the abstract array on accepted writes
    let abs' := if acc == ["ok"] then (writeOpsOf verb l).foldl cfg.absOp st.abs else st.abs
    let note := match specRead cfg st.abs verb l with
      | some s => if acc == [s] || acc == ["err"] then none else some ("model differs from abstract array: spec=" ++ s)
      | none => none
    -- object_store / opendal back ends reject zero-length byte ranges (outside the store contract of C08): a read of
    -- an EMPTY region through a partial decoder may therefore fail there; nothing else is excused
    let emptyReq := ["r", "rs", "box", "ibox"].any (fun k => match l.get k with
      | some v => (v.splitOn "|").any (fun one => match one.splitOn "+" with
          | [_, sh] => (sh.splitOn ",").any (· == "0")
          | _ => false)
      | none => false)
    let acc := if emptyReq && (st.store.startsWith "os_" || st.store.startsWith "od_") && (writeOpOf verb l).isNone then acc ++ ["err"] else acc
    pure ({ st' with abs := abs' }, acc, note)
  | _, _ => pure (st', acc, none)

end Zarrs.DriverC01
