import ZarrsModel.Model.FillMeta
import ZarrsModel.Driver.Proto
/- driver handlers for C14 (unverified glue around `Zarrs.FillMeta`, `Zarrs.Json`, `Zarrs.Float`) -/
namespace Zarrs.DriverC14
open Zarrs.Json Zarrs.Float Zarrs.FillMeta Zarrs.Proto

def dtOf (name : String) : Option DT :=
  match name with
  | "bool" => some .bool
  | "int8" => some (.int 1) | "int16" => some (.int 2) | "int32" => some (.int 4) | "int64" => some (.int 8)
  | "uint8" => some (.uint 1) | "uint16" => some (.uint 2) | "uint32" => some (.uint 4) | "uint64" => some (.uint 8)
  | "float16" => some (.float f16) | "bfloat16" => some (.float bf16)
  | "float32" => some (.float f32) | "float64" => some (.float f64)
  | "complex64" => some (.complex f32) | "complex128" => some (.complex f64)
  | "bytes" => some .bytes
  | "string" => some .string
  | _ =>
    if name.startsWith "r" then
      match (name.drop 1).toString.toNat? with
      | some bits => if bits % 8 == 0 && bits > 0 then some (.raw (bits / 8)) else none
      | none => none
    else none

/-- the model cannot print a finite float; it leaves a marker carrying the binary64 pattern the text must denote -/
def markCodec : NumCodec := ⟨fun b => '#' :: (toString b).toList, readF64⟩
def realCodec : NumCodec := ⟨fun _ => [], readF64⟩

def isFloatTok (t : List Char) : Bool := t.any (fun c => c == '.' || c == 'e' || c == 'E')

mutual
/-- model metadata (with markers) against the implementation's parsed text -/
def matchJ : J → J → Bool
  | .num ('#' :: ds), .num t => isFloatTok t && readF64 t == (String.ofList ds).toNat?
  | .num a, .num b => a == b
  | .null, .null => true
  | .bool a, .bool b => a == b
  | .str a, .str b => a == b
  | .arr a, .arr b => matchList a b
  | _, _ => false
def matchList : List J → List J → Bool
  | [], [] => true
  | x :: xs, y :: ys => matchJ x y && matchList xs ys
  | _, _ => false
end

def showJ (j : J) : String := String.ofList ((print j).map Char.ofNat)

def outTokens (s : String) : List (String × String) := ((s.splitOn " ").filterMap splitKV)

def handle (l : Line) : Option (List String) := do
  let verb ← l.verbs[1]?
  let dt ← dtOf (← l.get "dtype")
  match verb with
  | "rt" =>
    let bs ← parseHex (← l.get "fv")
    match toMeta markCodec dt bs with
    | none => pure ["err-tometa"]
    | some jm =>
      let expect := s!"json~{showJ jm} back={showHex bs}"
      let toks := outTokens l.outcome
      match toks.find? (·.1 == "json"), toks.find? (·.1 == "back") with
      | some (_, jh), some (_, bh) =>
        match parseHex jh, parseHex bh with
        | some text, some back =>
          match parse text with
          | none => pure [expect ++ " (text does not parse)"]
          | some ji =>
            let ok := print ji == text && matchJ jm ji && back == bs &&
              fromMeta realCodec .direct dt ji == some bs && fromMeta realCodec .viaF32 dt ji == some bs &&
              fromText realCodec .direct dt text == some bs
            pure [if ok then l.outcome else expect]
        | _, _ => none
      | _, _ => pure [expect]
  | "arr" =>
    let bs ← parseHex (← l.get "fv")
    match toMeta markCodec dt bs with
    | none => pure ["err-build", "err-store", "err-open"]
    | some _ => pure [s!"val {showHex bs}"]
  | "parse" =>
    let text ← parseHex (← l.get "text")
    match parse text with
    | none => pure ["rej-parse"]
    | some j =>
      if !(j.allNums (fun t => (readF64 t).isSome)) then pure ["rej-parse"] else
      match fromMeta realCodec .direct dt j, fromMeta realCodec .viaF32 dt j with
      | some a, some b =>
        let near : List (List Nat) :=
          -- `half`'s software binary64 -> bfloat16 conversion drops the low 32 bits before rounding; a number that
          -- is not a bfloat16 value may land on either neighbour
          match dt, j with
          | .float f, .num t =>
            if f == bf16 then
              match readF64 t with
              | some b64 =>
                let (n, d) := f64.value (f64.mag b64)
                if bf16.exact n d then [] else
                  let v := leNat a
                  [natLE 2 (v + 1), natLE 2 (v - 1)]
              | none => []
            else []
          | _, _ => []
        pure (([a, b] ++ near).map (fun x => s!"val {showHex x}"))
      | _, _ => pure ["rej"]
  | _ => none

end Zarrs.DriverC14
