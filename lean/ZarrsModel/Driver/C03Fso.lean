import ZarrsModel.Model.FixedScaleOffset
import ZarrsModel.Driver.C01
/- driver handlers for the `fixedscaleoffset` lines of C03 (`lossy=fsox:…` codec lines, `c03 fsorep` lines): unverified glue
around Model/FixedScaleOffset.lean -/
namespace Zarrs.DriverC03Fso
open Zarrs Zarrs.Proto Zarrs.Fso

/-- `add_byteoder_to_dtype` followed by the default Zarr V2 alias table (zarrs_metadata `ExtensionAliasesDataTypeV2`):
`u1` alone becomes `|u1`; a name not starting with `<` / `>` gets `<` in front (so `|i1`, `i1`, `|u1`, `|b1` name nothing and
creating the codec fails: `none`); float16 / complex are accepted by the constructor but not by the arithmetic -/
def tyOfV2 (name : String) : Option Ty :=
  let full := if name == "u1" then "|u1" else if !(name.startsWith "<" || name.startsWith ">") then "<" ++ name else name
  if full == "|u1" then some (.int false 8)
  else if full == "<i2" || full == ">i2" then some (.int true 16)
  else if full == "<i4" || full == ">i4" then some (.int true 32)
  else if full == "<i8" || full == ">i8" then some (.int true 64)
  else if full == "<u2" || full == ">u2" then some (.int false 16)
  else if full == "<u4" || full == ">u4" then some (.int false 32)
  else if full == "<u8" || full == ">u8" then some (.int false 64)
  else if full == "<f4" || full == ">f4" then some (.flt 32)
  else if full == "<f8" || full == ">f8" then some (.flt 64)
  else if full == "<f2" || full == ">f2" || full == "<c8" || full == ">c8" || full == "<c16" || full == ">c16" then some .unsupported
  else none

/-- Zarr V3 data type name of a representation -/
def tyOfV3 (name : String) : Ty :=
  if name == "int8" then .int true 8 else if name == "int16" then .int true 16 else if name == "int32" then .int true 32
  else if name == "int64" then .int true 64 else if name == "uint8" then .int false 8 else if name == "uint16" then .int false 16
  else if name == "uint32" then .int false 32 else if name == "uint64" then .int false 64
  else if name == "float32" then .flt 32 else if name == "float64" then .flt 64 else .unsupported

def v3Name : Ty → String
  | .int s b => (if s then "int" else "uint") ++ toString b
  | .flt b => "float" ++ toString b
  | .unsupported => "?"

/-- a JSON number token `-?digits(.digits)?` as the `f32` configuration field it becomes -/
def cfgNum (tok : String) : Option Rat :=
  let (neg, body) := if tok.startsWith "-" then (true, (tok.drop 1).toString) else (false, tok)
  match body.splitOn "." with
  | [ip] => do
    let n ← ip.toNat?
    pure (cfgOfIntToken (if neg then -(n : Int) else (n : Int)))
  | [ip, fp] => do
    let n ← (ip ++ fp).toNat?
    let q : Rat := (n : Rat) / ((10 : Rat) ^ fp.length)
    pure (cfgOfFloatToken (if neg then -q else q))
  | _ => none

def leNat (b : List Nat) : Nat := b.foldr (fun x acc => x + 256 * acc) 0
def natLE : Nat → Nat → List Nat
  | 0, _ => []
  | k + 1, v => v % 256 :: natLE k (v / 256)

def valOf (T : Ty) (e : List Nat) : Option Rat := if e.length == T.size then ofBits T (leNat e) else none
def bytesOf (T : Ty) (q : Rat) : Option (List Nat) := (toBits T q).map (natLE T.size)

/-- bit-for-bit, except that the rational model does not know the sign of a zero of a float type -/
def sameElem (T : Ty) (model : Rat) (actual : List Nat) : Bool :=
  match bytesOf T model with
  | some b => b == actual || (match T with
      | .flt w => model == 0 && actual.length == T.size && (fmtOf w).mag (leNat actual) == 0
      | _ => false)
  | none => false

def chunks (k : Nat) (b : List Nat) : List (List Nat) :=
  if k == 0 then [] else (List.range (b.length / k)).map (fun i => (b.drop (i * k)).take k)

def absQ (q : Rat) : Rat := if q < 0 then -q else q

/-- the convention outside the exactness predicate: `|decoded - x| ≤ 1 / (2 * scale)` plus the rounding of the float
arithmetic itself (relative 2^-20 in `f32`, 2^-49 in `f64`, of the magnitudes involved) -/
def withinTol (c : Cfg) (x dec : Rat) : Bool :=
  let slack := (absQ x + absQ c.off + absQ dec) / (if c.dtype.prec == 24 then 1048576 else 562949953421312)
  decide (absQ (dec - x) ≤ 1 / (2 * absQ c.sc) + slack)

structure Spec where
  cfg : Option Cfg        -- `none`: the codec cannot be created (`err-chain`)

def parseSpec (off sc dt at_ : String) : Option Spec := do
  let o ← cfgNum off
  let s ← cfgNum sc
  match tyOfV2 dt, (if at_ == "-" then some none else (tyOfV2 at_).map some) with
  | some T, some A => pure ⟨some ⟨o, s, T, A⟩⟩
  | _, _ => pure ⟨none⟩

def field (toks : List String) (k : String) : String :=
  match toks.find? (·.startsWith (k ++ "=")) with
  | some t => (t.drop (k.length + 1)).toString
  | none => ""

/-- `c03 codec lossy=fsox:<offset>:<scale>:<dtype>:<astype|->` (`fsoxs`: the code model everywhere, an experiment).
Integer element type: encoded bytes and decoded elements predicted exactly.  Float element type: an element inside the
exactness predicate (`encExact` / `decExact`, the hypothesis of `fso_exact_when_representable`) is predicted exactly, the
others are judged with the tolerance. -/
def handleCodec (l : Line) (spec : String) : Option (List String) := do
  let parts := spec.splitOn ":"
  let strict := parts.head? == some "fsoxs"
  let sp ← match parts with
    | [_, off, sc, dt, at_] => parseSpec off sc dt at_
    | _ => none
  match sp.cfg with
  | none => pure ["err-chain"]
  | some c =>
    let T := tyOfV3 ((l.get "dtype").getD "")
    if !usable c T then pure ["err-repr2", "err-encode"] else
    let E := encodedDataType c T
    let data ← DriverC01.parseElems (← l.get "data")
    let xs ← data.mapM (valOf T)
    let encs := xs.map (encodeElem c)
    let decs := encs.map (decodeElem c)
    let n := xs.length
    let len := n * E.size
    -- the model's own outcome line
    let encB := (encs.mapM (bytesOf E)).map List.flatten
    let decB := decs.mapM (bytesOf T)
    let predicted := match encB, decB with
      | some eb, some db =>
        "val rt=" ++ showBool (db == data) ++ " sizeok=true len=" ++ toString len ++ " decl=fixed:" ++ toString len ++
          " a2a=" ++ toString n ++ ">" ++ toString n ++ "~" ++ toString n ++ " enc=" ++ showHex eb ++ " dec=" ++ DriverC01.showElems db
      | _, _ => "val <a value of the model is not a value of the data type>"
    let allInt := (match T with | .int _ _ => true | _ => false) && (match E with | .int _ _ => true | _ => false)
    if allInt then pure [predicted] else
    -- float types involved: compare element by element
    let otoks := l.outcome.splitOn " "
    if otoks.head? != some "val" then pure [predicted] else
    let aenc ← parseHex (field otoks "enc")
    let adec ← DriverC01.parseElems (field otoks "dec")
    let aencs := chunks E.size aenc
    let isFloatT := match T with | .flt _ => true | _ => false
    let okLen := aencs.length == n && adec.length == n && aenc.length == len
    let okElems := (List.range n).all (fun i =>
      match xs[i]?, encs[i]?, decs[i]?, aencs[i]?, adec[i]? with
      | some x, some e, some d, some ae, some ad =>
        if !isFloatT || strict then sameElem E e ae && sameElem T d ad
        else
          let ee := encExact c x
          let de := ee && decExact c (encodeQ c.off c.sc x)
          (if ee then sameElem E e ae else true) &&
          (if de then sameElem T d ad else (match valOf T ad with | some dv => withinTol c x dv | none => false))
      | _, _, _, _, _ => false)
    let okRest := field otoks "sizeok" == "true" && field otoks "len" == toString len &&
      field otoks "decl" == "fixed:" ++ toString len && field otoks "a2a" == toString n ++ ">" ++ toString n ++ "~" ++ toString n &&
      field otoks "rt" == showBool (adec == data)
    pure [if okLen && okElems && okRest then l.outcome else predicted]

/-- `c03 fsorep cfg=<offset>:<scale>:<dtype>:<astype|-> dtype=<v3 name> shape=<nl> fill=<hex>`: the advertised
representation (`encodedRep`).  The fill value of a float element type outside the exactness predicate is accepted if it is
the code model's value or decodes to within the tolerance of the fill value. -/
def handleRep (l : Line) : Option (List String) := do
  let sp ← match (← l.get "cfg").splitOn ":" with
    | [off, sc, dt, at_] => parseSpec off sc dt at_
    | _ => none
  match sp.cfg with
  | none => pure ["err-chain"]
  | some c =>
    let T := tyOfV3 ((l.get "dtype").getD "")
    let shape ← l.nl "shape"
    let fillB ← parseHex (← l.get "fill")
    -- a fill value outside the model (NaN / infinite): only for representations that are refused anyway
    let fill := (valOf T fillB).getD 0
    match encodedRep c ⟨shape, T, fill⟩ with
    | none => pure ["err"]
    | some r =>
      let back := match decodedShape r.shape with | some s => showNl s | none => "none"
      let line (fb : List Nat) := "val dtype=" ++ v3Name r.dtype ++ " fill=" ++ showHex fb ++ " shape=" ++ showNl r.shape ++ " back=" ++ back ++ " same=true"
      let predicted := match bytesOf r.dtype r.fill with | some fb => line fb | none => "val <the model's fill value is not a value of the data type>"
      let isFloatT := match T with | .flt _ => true | _ => false
      let isFloatE := match r.dtype with | .flt _ => true | _ => false
      if !isFloatT && !isFloatE then pure [predicted] else
      let otoks := l.outcome.splitOn " "
      if otoks.head? != some "val" then pure [predicted] else
      let afill ← parseHex (field otoks "fill")
      let ok := sameElem r.dtype r.fill afill ||
        (isFloatT && !encExact c fill && (match valOf r.dtype afill with
          | some fv => withinTol c fill (fv / c.sc + c.off)
          | none => false))
      pure [if ok then line afill else predicted]

end Zarrs.DriverC03Fso
