import ZarrsModel.Model.RwLock
import ZarrsModel.Driver.Proto
/- driver handler for C19: an operation's probe trace must be flat (every acquisition found the lock free) -/
namespace Zarrs.DriverC19
open Zarrs Zarrs.Proto

def handle (l : Line) : Option (List String) := do
  let v1 ← l.verbs[1]?
  if v1 == "cfg" then pure ["any"] else
  if l.outcome == "skip" then pure ["skip"] else
  -- outcome: `val probes=<list> res=<..>`
  let toks := l.outcome.splitOn " "
  let ptok ← toks.find? (·.startsWith "probes=")
  let ps ← parseNl ((ptok.drop 7).toString)
  -- a panic or an error of the operation is judged by the property it belongs to (C05/C13/C15), not here
  if RwLock.traceFlat (ps.map (· == 1)) then pure [l.outcome] else pure ["flat-trace-required (an acquisition found a guard alive)"]

end Zarrs.DriverC19
