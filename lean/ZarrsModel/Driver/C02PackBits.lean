import ZarrsModel.Model.PackBitsPD
import ZarrsModel.Driver.C01
/-
driver handler for the packbits partial decoder (C02, verb `c02p`): the request carries the components of the data type
(`w` = component_size_bits, `nc` = num_components, `sign` = sign_extension), the bit range, the padding mode, the chunk
shape, the fill value, the RAW stored value (hex, or `absent`) and the regions; the model's
`PackBitsPD.partialDecoder` over `storeHandle raw` predicts the outcome of
`array.partial_decoder(chunk).partial_decode(regions)` / `array.async_partial_decoder(chunk)…` element for element.
On values written by the codec the answer is also compared with `PackBits.decode` + slicing, and the full decode
with the data written.
-/
namespace Zarrs.DriverC02P
open Zarrs Zarrs.Proto Zarrs.Codec Zarrs.Partial Zarrs.PackBits Zarrs.PackBitsPD

def parsePad (s : String) : Option Pad :=
  match s with
  | "none" => some .none
  | "first_byte" => some .firstByte
  | "last_byte" => some .lastByte
  | _ => none

def showParts (parts : List (List Elem)) : String :=
  "val " ++ "|".intercalate (parts.map DriverC01.showElems)

/-- acceptable outcomes, optional note -/
def handle (l : Line) : Option (List String × Option String) := do
  let w ← l.nat "w"
  let nc ← l.nat "nc"
  let sign ← l.nat "sign"
  let first ← l.nat "first"
  let last ← l.nat "last"
  let pad ← parsePad (← l.get "pad")
  let csh ← l.nl "csh"
  let fill ← parseHex (← l.get "fill")
  let raw : Option Bytes ← (match ← l.get "raw" with
    | "absent" => some none
    | s => (parseHex s).map some)
  let rs ← ((← l.get "rs").splitOn "|").mapM DriverC01.parseSubset
  let cfg : Cfg := ⟨w, first, last, pad, sign == 1⟩
  let pd := PackBitsPD.partialDecoder cfg nc csh fill (storeHandle raw)
  let inb := rs.all (fun r => r.wf && r.inboundsShape csh)
  let res := pd rs
  let acc := match res with
    | some parts => [showParts parts]
    | none => if inb then ["err"] else ["err", "panic"]
  -- cross-checks on values written by the codec: partial = full decode + slice; full decode = the data written
  let note : Option String :=
    match l.get "corrupt", raw with
    | some "0", some v =>
      let n1 := if inb && decodeSlice cfg nc csh v rs != res then some "partial decode differs from full decode + slice" else none
      let n2 := match (l.get "data").bind DriverC01.parseElems with
        | some xs => if PackBits.decode cfg (prod csh * nc) v == some xs.flatten then none
                     else some "model full decode differs from the data written"
        | none => none
      n1.or n2
    | _, _ => none
  pure (acc, note)

end Zarrs.DriverC02P
