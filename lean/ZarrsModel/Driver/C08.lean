import ZarrsModel.Model.Store
import ZarrsModel.Model.FsStore
import ZarrsModel.Model.AsyncRmw
import ZarrsModel.Model.MultiGet
import ZarrsModel.Driver.Proto
/- driver handlers for C08: stateful (one model store per case) -/
namespace Zarrs.DriverC08
open Zarrs Zarrs.Proto

def parseRange (s : String) : Option ByteRange :=
  if s.startsWith "s" then (s.drop 1).toNat?.map ByteRange.suffix
  else if s.startsWith "f" then
    match ((s.drop 1).toString).splitOn ":" with
    | [o, l] => do
      let off ← o.toNat?
      if l == "" then pure (ByteRange.fromStart off none) else do
        let len ← l.toNat?
        pure (ByteRange.fromStart off (some len))
    | _ => none
  else none

def parseKov (t : String) : Option (Key × Nat × Bytes) :=
  -- <key>@<off>=<hex>
  match t.splitOn "@" with
  | [k, rest] =>
    match rest.splitOn "=" with
    | [o, h] => do
      let off ← o.toNat?
      let v ← parseHex h
      pure (k.toList, off, v)
    | _ => none
  | _ => none

def showKeys (ks : List Key) : String := if ks.isEmpty then "~" else ",".intercalate (ks.map String.ofList)
def prefixOf (s : String) : Key := if s == "~" then [] else s.toList

def showRes : StoreRes → String
  | .unit => "ok"
  | .bytes none => "none"
  | .bytes (some b) => "some " ++ showHex b
  | .parts none => "none"
  | .parts (some bs) => "some " ++ ";".intercalate (bs.map showHex)
  | .size none => "none"
  | .size (some n) => "some " ++ toString n
  | .total n => "val " ++ toString n
  | .keys ks => "keys " ++ showKeys ks
  | .dir ks ps => "dir " ++ showKeys ks ++ " | " ++ showKeys ps
  | .err => "err"

def parseOp (l : Line) : Option StoreOp := do
  let verb ← l.verbs[2]?
  match verb with
  | "set" => pure (.set (← l.get "k").toList (← parseHex (← l.get "v")))
  | "setp" => pure (.setPartial (← ((← l.get "kov").splitOn ";").mapM parseKov))
  | "erase" => pure (.erase (← l.get "k").toList)
  | "erasev" => pure (.eraseValues (((← l.get "ks").splitOn ",").map String.toList))
  | "erasep" => pure (.erasePrefix (prefixOf (← l.get "p")))
  | "get" => pure (.get (← l.get "k").toList)
  | "getp" => pure (.getPartial (← l.get "k").toList (← ((← l.get "r").splitOn ",").mapM parseRange))
  | "size" => pure (.sizeKey (← l.get "k").toList)
  -- `StorageValueIO`: seek to `pos`, one `read` of `len` bytes = the ranged get `pos..pos+len` (short read = truncated slice)
  | "vio" => pure (.getPartial (← l.get "k").toList [.fromStart (← l.nat "pos") (some (← l.nat "len"))])
  | "sizep" => pure (.sizePrefix (prefixOf (← l.get "p")))
  | "list" => pure .list
  | "listp" => pure (.listPrefix (prefixOf (← l.get "p")))
  | "listd" => pure (.listDir (prefixOf (← l.get "p")))
  | _ => none

/-- outcomes the property tolerates for this request in this state (first = the ordered-map model's own) -/
def acceptable (m : KV) (op : StoreOp) (res : StoreRes) : List String :=
  match op, res with
  | .getPartial k rs, .err =>
    match m.get k with
    | some b => ["err", "some " ++ ";".intercalate (rs.map (fun r => showHex (r.extractTrunc b)))]
    | none => ["err"]
  | _, r => [showRes r]

structure St where
  kind : String := ""
  m : KV := []
  /-- the directory-tree model of `FilesystemStore` (`Model/FsStore.lean`), run alongside for the kinds `fs`, `fsdio` -/
  fs : Fs.FsState := some .nil
  /-- `spec=0` in the `cfg` line: the key universe is not prefix-free, the ordered-map specification does not apply
  and the implementation is compared with `fsStep` only -/
  specOn : Bool := true

/-- listings are compared sorted (the harness sorts them; `WalkDir` order is depth first by name) -/
def sortRes : StoreRes → StoreRes
  | .keys ks => .keys (Fs.FsState.sortKeys ks)
  | r => r

/-- returns the new state, the acceptable outcomes, and an optional note when the `MemoryStore` algorithm
and the specification disagree (they are proved equal; this is a run-time cross-check of the driver) -/
def handle (st : St) (l : Line) : Option (St × List String × Option String) := do
  let v1 ← l.verbs[1]?
  if v1 == "cfg" then
    pure ({ kind := (← l.get "store"), m := [], fs := some .nil, specOn := l.get "spec" != some "0" }, ["ok"], none)
  else if l.verbs[2]? == some "getpm" then
    -- the multi-key ranged get: one answer per request, each the single-key ranged get of the specification
    let reqs ← ((← l.get "kr").splitOn ";").mapM (fun t => match t.splitOn "@" with
      | [k, r] => (parseRange r).map (fun r => (k.toList, r))
      | _ => none)
    -- prediction: the loop as written (`Model/MultiGet.lean`); `Props/C08Multi: batched_eq_reqwise` proves it equal to the
    -- request-by-request specification, which is cross-checked here at run time
    let pred := MultiGet.batched st.m reqs
    let out := match pred with
      | none => "err"
      | some xs => "multi " ++ ";".intercalate (xs.map (fun x => match x with | none => "none" | some b => "some:" ++ showHex b))
    let note := if pred == MultiGet.reqwise st.m reqs then none else some "MultiGet.batched differs from MultiGet.reqwise"
    -- (`spec=0`: the key universe is not prefix-free, the ordered-map specification does not apply)
    pure (st, if st.specOn then [out] else ["any"], note)
  else
    let op ← parseOp l
    let (m', r) := Spec.step st.m op
    let (m2, r2) := Mem.step st.m op
    let note := if m' == m2 && r == r2 then none else some ("Mem.step differs from Spec.step: " ++ showRes r2)
    -- the concurrent model of `async_store_set_partial_values` (Model/AsyncRmw.lean) under an adversarial schedule — every
    -- future reads before any writes, writes complete in reverse issue order — must give the specified store
    -- (`Props/C08Async.lean: async_rmw_refines`; a run-time cross-check like the one above)
    let note := match note, op with
      | none, .setPartial kovs =>
        let tasks := AsyncRmw.groupByKey kovs
        let ids := List.range tasks.length
        let evs := ids.map AsyncRmw.Ev.read ++ ids.reverse.map AsyncRmw.Ev.write
        if (AsyncRmw.run tasks st.m evs).m == m' then none
        else some "AsyncRmw.run (all reads, then writes in reverse order) differs from Spec.step"
      | n, _ => n
    if st.kind == "fs" || st.kind == "fsdio" then
      -- second prediction: the directory-tree model
      let (f', fo) := Fs.fsStep st.fs op
      let shown : Option String := match fo with | .outside => none | .res x => some (showRes (sortRes x))
      let specAcc := acceptable st.m op r
      let acc := if st.specOn then specAcc else (match shown with | some t => [t] | none => ["any"])
      let n1 := match shown with
        | some t => if t != l.outcome then some ("fsStep differs from the implementation: fsStep=" ++ t) else none
        | none => if st.specOn then some "fsStep: outside the model on a specified case" else none
      let n2 := match shown with
        | some t => if st.specOn && !specAcc.contains t then some ("fsStep differs from Spec.step: fsStep=" ++ t) else none
        | none => none
      let n3 := if st.specOn && Fs.absFs f' != m' then some "absFs (fsStep) differs from the Spec.step state" else none
      let notes := [note, n1, n2, n3].filterMap id
      pure ({ st with m := if st.specOn then m' else st.m, fs := f' }, acc,
        if notes.isEmpty then none else some ("; ".intercalate notes))
    else
      pure ({ st with m := m' }, acceptable st.m op r, note)

end Zarrs.DriverC08
