import ZarrsModel.Model.ChainSPE
import ZarrsModel.Driver.C03Chain
/-
driver handler for C05 on (nested) sharded chains (verb `c05 pes`; harness/src/c05c.rs): a whole history of writes to
ONE chunk of a real array over a memory store; after every step the harness reports `ok`/`err`/`panic` and the raw
stored value of the chunk key.  The chain description is that of `c03 chains` (Driver/C03Chain.lean); `ishs=~` is a
chain without a sharding level (`ChainS.leaf`).

The history is replayed with the model, keeping the implementation's raw value after the previous step (`prev`) and the
expected decoded chunk (`expected`, from all fill: `updateRuns` per written region, a multi-subset call in order).
Per step:
 (a) the key is absent iff `expected` is all fill (after `e`: absent);
 (b) `ChainS.decode` of the implementation's value is `expected`;
 (c) every shard at every level of it is well formed (`DriverC03Chain.wfAll`);
 (d) for a partial encode (`s` on a proper subset, `p`): the MODEL's `ChainS.partialEncode` run on `prev` returns a value
     that is absent iff the implementation's is, decodes to `expected`, is well formed, and is byte-identical to the
     implementation's when the layout is determined (at most one stored updated inner chunk reaches the outermost
     sharding level — the order of the appended inner chunks is a `HashMap` iteration order — and that chunk's own
     encoding has at most one stored inner chunk per level); else of the same length;
 (e) `err` iff the front-end checks of `Array::store_chunk_subset_opt` / `store_chunk_opt` or the model reject the step,
     and then the stored value is unchanged.
The acceptable outcome is the actual outcome when all of this holds, else a text naming the first failing step and check.
-/
namespace Zarrs.DriverC05Chain
open Zarrs Zarrs.Proto Zarrs.Codec Zarrs.Partial

inductive Step where
  | s (r : Subset) (xs : List Elem)
  | p (ws : List RWrite)
  | pp (calls : List (Option (List RWrite)))  -- ONE partial encoder object, several calls (`none` = its `erase()`)
  | f (xs : List Elem)
  | e

def parseWrite (s : String) : Option RWrite :=
  match s.splitOn ":" with
  | [r, d] => do pure (← DriverC01.parseSubset r, ← DriverC01.parseElems d)
  | _ => none

def parseWrites (s : String) : Option (List RWrite) :=
  if s.isEmpty then some [] else (s.splitOn "&").mapM parseWrite

def parseStep (s : String) : Option Step :=
  if s == "e" then some .e
  else if s.startsWith "f:" then (DriverC01.parseElems (s.drop 2).toString).map .f
  else if s.startsWith "s:" then (parseWrite (s.drop 2).toString).map (fun w => .s w.1 w.2)
  else if s.startsWith "p:" then (parseWrites (s.drop 2).toString).map .p
  else if s.startsWith "P:" then (((s.drop 2).toString.splitOn "/").mapM (fun c =>
      if c == "E" then some none else (parseWrites c).map some)).map .pp
  else none

/-- chain, chunk shape, fill value, element size; zero sharding levels allowed -/
def parseChain (l : Line) : Option (ChainS × Shape × Elem × Nat) := do
  let es ← l.nat "es"
  if (← l.get "ishs") == "~" then
    let ssh ← l.nl "ssh"
    let fill ← parseHex (← l.get "fill")
    let leaf ← DriverC02S.parseLeaf es (← l.get "chain")
    pure (.leaf leaf.1 leaf.2, ssh, fill, es)
  else
    let (c, ssh, fill) ← DriverC03Chain.parseChain l
    pure (c, ssh, fill, es)

/-- is the layout of `ChainS.encode` the only one the implementation can produce?  (`ShardingCodec::encode` places the
stored inner chunks in the order the parallel loop reaches them) -/
def detEnc : ChainS → Shape → Elem → List Elem → Bool
  | .leaf _ _, _, _, _ => true
  | .shard a2a _ ish _ inner _, sh, fill, xs =>
    let ys := (encodeA2A a2a sh xs).1
    let sh' := (encodeA2A a2a sh xs).2
    let stored := (splitShard sh' ish ys).filter (fun ch => !ch.all (· == fill))
    decide (stored.length ≤ 1) && stored.all (fun ch => detEnc inner ish fill ch)

/-- is the result of a partial encode of `ws` (new decoded chunk `new`) determined byte for byte? -/
def peComparable : ChainS → Shape → Elem → List RWrite → List Elem → Bool
  | .leaf _ _, _, _, _, _ => true
  | .shard a2a _ ish _ inner _, sh, fill, ws, new =>
    let ys := (encodeA2A a2a sh new).1
    let sh' := (encodeA2A a2a sh new).2
    let chunks := splitShard sh' ish ys
    let cps := zipDiv sh' ish
    -- with an array-to-array codec before it the sharding level gets ONE write of the whole (encoded) chunk
    let touched : List Nat :=
      if (a2a.filter (fun st => !st.isCache)).isEmpty then
        ws.flatMap (fun w => if w.1.isEmpty then [] else (w.1.chunks ish).map (fun p => ravel p.1 cps))
      else List.range chunks.length
    let stored := (chunks.zipIdx).filter (fun p => touched.contains p.2 && !p.1.all (· == fill))
    decide (stored.length ≤ 1) && stored.all (fun p => detEnc inner ish fill p.1)

structure Stats where
  steps : Nat := 0
  peSteps : Nat := 0        -- steps judged by `ChainS.partialEncode` (accepted by the implementation)
  peBytes : Nat := 0        -- of these: compared byte for byte
  peSame : Nat := 0         -- of the others: bytes identical all the same
  errSteps : Nat := 0       -- rejected steps
  fullSteps : Nat := 0      -- full rewrites
  fullBytes : Nat := 0
  fullSame : Nat := 0       -- of the others: bytes identical all the same

def Stats.add (a b : Stats) : Stats :=
  ⟨a.steps + b.steps, a.peSteps + b.peSteps, a.peBytes + b.peBytes, a.peSame + b.peSame, a.errSteps + b.errSteps,
   a.fullSteps + b.fullSteps, a.fullBytes + b.fullBytes, a.fullSame + b.fullSame⟩

structure RState where
  prev : Option Bytes := none
  expected : List Elem
  stats : Stats := {}

def showRaw : Option Bytes → String
  | none => "none"
  | some b => showHex b

def parseRaw (s : String) : Option (Option Bytes) :=
  if s == "none" then some none else (parseHex s).map some

/-- checks (a) (b) (c) on the implementation's value -/
def judgeValue (c : ChainS) (ssh : Shape) (fill : Elem) (expected : List Elem) (raw : Option Bytes) : Option String :=
  match raw with
  | none => if expected.all (· == fill) then none else some "the chunk holds non-fill data but its key is absent"
  | some b =>
    if expected.all (· == fill) then some "the chunk is all fill but its key is present"
    else match c.decode ssh fill b with
      | none => some "the stored value does not decode (model decoder)"
      | some xs =>
        if xs != expected then some ("the stored value decodes to " ++ DriverC01.showElems xs ++ ", expected " ++ DriverC01.showElems expected)
        else if !DriverC03Chain.wfAll c ssh b then some "a shard of the stored value is malformed"
        else none

/-- a full rewrite (`Array::store_chunk_opt`): validation, erase when all fill, else `CodecChain::encode` -/
def judgeFull (c : ChainS) (ssh : Shape) (fill : Elem) (es : Nat) (st : RState) (xs : List Elem) (o : String)
    (raw : Option Bytes) : Except String RState :=
  match validated es (prod ssh) xs with
  | none =>
    if o != "ok" && o != "err" then .error ("outcome " ++ o)
    else if o != "err" then .error "model: err (wrong number of elements for the chunk)"
    else if raw != st.prev then .error "rejected step changed the stored value"
    else .ok { st with stats := { st.stats with errSteps := st.stats.errSteps + 1 } }
  | some _ =>
    if o != "ok" then .error "model: ok (full rewrite)"
    else match judgeValue c ssh fill xs raw with
      | some why => .error why
      | none =>
        let menc := c.encode ssh fill xs
        let det := detEnc c ssh fill xs
        match raw with
        | some b =>
          if det && b != menc then .error ("full rewrite: the stored value differs from the model's encoding " ++ showHex menc)
          else if b.length != menc.length then .error ("full rewrite: length " ++ toString b.length ++ ", model " ++ toString menc.length)
          else .ok { st with prev := raw, expected := xs, stats := { st.stats with fullSteps := st.stats.fullSteps + 1, fullBytes := st.stats.fullBytes + (if det then 1 else 0), fullSame := st.stats.fullSame + (if !det && b == menc then 1 else 0) } }
        | none => .ok { st with prev := raw, expected := xs, stats := { st.stats with fullSteps := st.stats.fullSteps + 1, fullBytes := st.stats.fullBytes + 1 } }

/-- one `partial_encode` call of a fresh partial encoder -/
def judgePE (c : ChainS) (ssh : Shape) (fill : Elem) (st : RState) (ws : List RWrite) (o : String)
    (raw : Option Bytes) : Except String RState :=
  match c.partialEncode ssh fill st.prev ws with
  | none =>
    if o != "err" then .error "model: err (partialEncode = none)"
    else if raw != st.prev then .error "rejected step changed the stored value"
    else .ok { st with stats := { st.stats with errSteps := st.stats.errSteps + 1 } }
  | some r =>
    if o != "ok" then .error ("model: ok, value " ++ showRaw r)
    else
      let new := ws.foldl (fun acc w => updateRuns ssh w.1 acc w.2) st.expected
      match judgeValue c ssh fill new raw with
      | some why => .error (why ++ " [model value " ++ showRaw r ++ "]")
      | none =>
        match judgeValue c ssh fill new r with
        | some why => .error ("MODEL value " ++ showRaw r ++ ": " ++ why)
        | none =>
          let cmp := peComparable c ssh fill ws new
          let same := r == raw
          if cmp && !same then .error ("the stored value differs from the model's " ++ showRaw r)
          else if (r.map (·.length)) != (raw.map (·.length)) then .error ("length differs from the model's " ++ showRaw r)
          else .ok { prev := raw, expected := new, stats := { st.stats with
            peSteps := st.stats.peSteps + 1,
            peBytes := st.stats.peBytes + (if cmp then 1 else 0),
            peSame := st.stats.peSame + (if !cmp && same then 1 else 0) } }

/-- `Array::store_chunk_subset_opt` (array_sync_readable_writable.rs): the subset must end inside the chunk
(`zip`, truncating), a subset that IS the chunk goes to `store_chunk_opt`, else the element count is validated and the
partial encoder called -/
def judgeS (c : ChainS) (ssh : Shape) (fill : Elem) (es : Nat) (st : RState) (r : Subset) (xs : List Elem) (o : String)
    (raw : Option Bytes) : Except String RState :=
  let reject (why : String) : Except String RState :=
    if o != "err" then .error ("model: err (" ++ why ++ ")")
    else if raw != st.prev then .error "rejected step changed the stored value"
    else .ok { st with stats := { st.stats with errSteps := st.stats.errSteps + 1 } }
  if zipAnyGt r.endExc ssh then reject "subset outside the chunk"
  else if r.shape == ssh && r.start.all (· == 0) then judgeFull c ssh fill es st xs o raw
  else if (validated es r.numElements xs).isNone then reject "wrong number of elements for the subset"
  else judgePE c ssh fill st [(r, xs)] o raw

def judgeStep (c : ChainS) (ssh : Shape) (fill : Elem) (es : Nat) (st : RState) (step : Step) (o : String)
    (raw : Option Bytes) : Except String RState :=
  let st := { st with stats := { st.stats with steps := st.stats.steps + 1 } }
  match step with
  | .e =>
    if o != "ok" then .error "model: ok (erase)"
    else if raw.isSome then .error "erased chunk is present"
    else .ok { st with prev := none, expected := List.replicate (prod ssh) fill }
  | .f xs => judgeFull c ssh fill es st xs o raw
  | .s r xs => judgeS c ssh fill es st r xs o raw
  | .p ws => judgePE c ssh fill st ws o raw
  | .pp calls =>
    -- prediction: as if every call had its own partial encoder (a handle that is kept must behave like a fresh one: the
    -- shard index it caches is the state the property names)
    match calls.foldl (fun (acc : Option (Option Bytes × List Elem)) call => acc.bind (fun a =>
        match call with
        | none => some (none, List.replicate (prod ssh) fill)
        | some ws => (c.partialEncode ssh fill a.1 ws).map (fun r => (r, ws.foldl (fun e w => updateRuns ssh w.1 e w.2) a.2))))
        (some (st.prev, st.expected)) with
    | none => if o == "err" then .ok st else .error "model: err"
    | some (_, new) =>
      if o != "ok" then .error "model: ok"
      else match judgeValue c ssh fill new raw with
        | some why => .error ("REUSED partial encoder: " ++ why)
        | none => .ok { st with prev := raw, expected := new }

def replay (c : ChainS) (ssh : Shape) (fill : Elem) (es : Nat) :
    RState → Nat → List (String × Step) → List (String × Option Bytes) → Except String RState
  | st, _, [], [] => .ok st
  | st, k, (txt, step) :: steps, (o, raw) :: outs =>
    match judgeStep c ssh fill es st step o raw with
    | .error why => .error ("step " ++ toString k ++ " (" ++ (txt.take 40).toString ++ "): " ++ why)
    | .ok st' => replay c ssh fill es st' (k + 1) steps outs
  | _, _, _, _ => .error "number of outcomes differs from the number of steps"

def parseOutcome (o : String) : Option (List (String × Option Bytes)) :=
  if !o.startsWith "val " then none else
  ((o.drop 4).toString.splitOn "|").mapM (fun t =>
    match t.splitOn ":" with
    | [a, b] => (parseRaw b).map (fun r => (a, r))
    | _ => none)

def run (l : Line) : Option (Except String RState) := do
  let (c, ssh, fill, es) ← parseChain l
  let texts := (← l.get "hist").splitOn ";"
  let steps ← texts.mapM parseStep
  match parseOutcome l.outcome with
  | none => pure (.error "outcome is no list of step results")
  | some outs => pure (replay c ssh fill es { expected := List.replicate (prod ssh) fill } 1 (texts.zip steps) outs)

/-- acceptable outcomes, optional note -/
def handle (l : Line) : Option (List String × Option String) := do
  match ← run l with
  | .ok _ => pure ([l.outcome], none)
  | .error why => pure (["val <" ++ why ++ ">"], none)

/-- `driver --pes-stats < ops`: how many steps were compared byte for byte -/
partial def statsLoop (h : IO.FS.Stream) (lines bad allBytes : Nat) (acc : Stats) : IO (Nat × Nat × Nat × Stats) := do
  let line ← h.getLine
  if line.isEmpty then return (lines, bad, allBytes, acc)
  let l := parseLine (line.trimAsciiEnd).toString
  if l.verbs.take 2 != ["c05", "pes"] then statsLoop h lines bad allBytes acc else
  match run l with
  | some (.ok st) =>
    let s := st.stats
    statsLoop h (lines + 1) bad (allBytes + (if s.peSteps == s.peBytes && s.fullSteps == s.fullBytes then 1 else 0)) (acc.add s)
  | _ => statsLoop h (lines + 1) (bad + 1) allBytes acc

def statsMain : IO Unit := do
  let (lines, bad, allBytes, s) ← statsLoop (← IO.getStdin) 0 0 0 {}
  IO.println ("PES lines=" ++ toString lines ++ " failing=" ++ toString bad ++ " lines with every step byte-compared=" ++ toString allBytes ++ " | in passing lines: steps=" ++ toString s.steps ++
    " partial-encode steps=" ++ toString s.peSteps ++ " (byte-compared=" ++ toString s.peBytes ++ ", decode+length only=" ++
    toString (s.peSteps - s.peBytes) ++ " of which bytes equal anyway=" ++ toString s.peSame ++ ") rejected steps=" ++ toString s.errSteps ++
    " full rewrites=" ++ toString s.fullSteps ++ " (byte-compared=" ++ toString s.fullBytes ++ ", of the others bytes equal anyway=" ++ toString s.fullSame ++ ")")

end Zarrs.DriverC05Chain
