import ZarrsModel.Model.Keys
import ZarrsModel.Driver.Proto
/- driver handlers for C11 -/
namespace Zarrs.DriverC11
open Zarrs.Keys Zarrs.Proto

def handle (l : Line) : Option String := do
  let verb ← l.verbs[1]?
  match verb with
  | "key" =>
    let enc ← (match ← l.get "enc" with | "default" => some Enc.default | "v2" => some Enc.v2 | _ => none)
    let sep ← (match ← l.get "sep" with | "/" => some '/' | "." => some '.' | _ => none)
    let path := (← l.get "path").toList
    let idx ← l.nl "idx"
    if !validPath path then pure "err" else
    let key := dataKey path (encode enc sep idx)
    let pre := nodePrefix path
    let metas := metaNames.map (metaKey path)
    pure ("val key=" ++ String.ofList key ++ " valid=" ++ showBool (validKey key) ++
      " beneath=" ++ showBool (pre.isPrefixOf key) ++
      " notmeta=" ++ showBool (metas.all (· != key)) ++
      " metas=" ++ ",".intercalate (metas.map String.ofList))
  | "validkey" => pure ("val " ++ showBool (validKey ((l.get "k").getD "").toList))
  | "validpath" => pure ("val " ++ showBool (validPath ((l.get "p").getD "").toList))
  | _ => none

end Zarrs.DriverC11
