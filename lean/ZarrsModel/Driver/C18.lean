import ZarrsModel.Model.MemConc
import ZarrsModel.Model.FsConc
import ZarrsModel.Driver.Proto
/- driver for C18: schedule enumeration of the model, prediction of per-thread results for a schedule,
executable linearizability check of observed histories -/
namespace Zarrs.DriverC18
open Zarrs Zarrs.MemConc Zarrs.Proto

/-- all maximal schedules (every thread finished or nobody enabled) from a state, depth-first, capped -/
partial def allScheds (pr : Protocol) (ps : Progs) (s : State) (pref : List Nat) (cap : Nat) (acc : Array (List Nat)) : Array (List Nat) :=
  if acc.size ≥ cap then acc else
  let en := (List.range ps.length).filter (fun t => enabled pr ps s t)
  if en.isEmpty then acc.push pref.reverse else
  en.foldl (fun acc t => allScheds pr ps (step pr ps s t) (t :: pref) cap acc) acc

def showOp : Op → String
  | .set v => "set:" ++ showHex v
  | .setPartial o v => "setp:" ++ toString o ++ ":" ++ showHex v
  | .get => "get"
  | .getRange o n => "getr:" ++ toString o ++ ":" ++ toString n
  | .size => "size"
  | .erase => "erase"

def parseOp (s : String) : Option Op :=
  match s.splitOn ":" with
  | ["set", v] => (parseHex v).map Op.set
  | ["setp", o, v] => do pure (Op.setPartial (← o.toNat?) (← parseHex v))
  | ["get"] => some .get
  | ["getr", o, n] => do pure (Op.getRange (← o.toNat?) (← n.toNat?))
  | ["size"] => some .size
  | ["erase"] => some .erase
  | _ => none

def showRes : Res → String
  | .unit => "ok"
  | .bytes none => "none"
  | .bytes (some b) => "some:" ++ showHex b
  | .size none => "none"
  | .size (some n) => "len:" ++ toString n
  | .err => "err"

def showProgs (ps : Progs) : String := "|".intercalate (ps.map (fun p => ",".intercalate (p.map showOp)))
def parseProgs (s : String) : Option Progs := (s.splitOn "|").mapM (fun p => (p.splitOn ",").mapM parseOp)

def showOut (s : State) : String :=
  "|".intercalate (s.out.map (fun rs => if rs.isEmpty then "-" else ",".intercalate (rs.map showRes)))

def showOptBytes : Option Bytes → String
  | none => "none"
  | some b => "some:" ++ showHex b

/-- expected outcome of replaying `sched` on the real store: per-thread responses and the final value -/
def predict (pr : Protocol) (ps : Progs) (i0 : Option Bytes) (sched : List Nat) : Option String :=
  (run pr ps (init ps i0) sched).map (fun s => "res=" ++ showOut s ++ " final=" ++ showOptBytes (finalValue s))



/-! ### the filesystem protocol: same interface -/

partial def allSchedsFs (pr : Protocol) (ps : FsConc.Progs) (s : FsConc.State) (pref : List Nat) (cap : Nat) (acc : Array (List Nat)) : Array (List Nat) :=
  if acc.size ≥ cap then acc else
  let en := (List.range ps.length).filter (fun t => FsConc.enabled pr ps s t)
  if en.isEmpty then acc.push pref.reverse else
  en.foldl (fun acc t => allSchedsFs pr ps (FsConc.step pr ps s t) (t :: pref) cap acc) acc

def showOutL (out : List (List Res)) : String :=
  "|".intercalate (out.map (fun rs => if rs.isEmpty then "-" else ",".intercalate (rs.map showRes)))

def predictFs (pr : Protocol) (ps : Progs) (i0 : Option Bytes) (sched : List Nat) : Option String :=
  (FsConc.run pr ps (FsConc.init ps i0) sched).map (fun s => "res=" ++ showOutL s.out ++ " final=" ++ showOptBytes s.file)

/-- first position of the schedule at which the scheduled thread is NOT enabled in the model (the real store must block there) -/
def firstBlocked (en : Nat → List Nat → Bool) (sched : List Nat) : Option (Nat × Nat) :=
  (List.range sched.length).findSome? (fun i => let t := sched.getD i 0; if en t (sched.take i) then none else some (i, t))

/-! ### case generation (the driver is the generator for C18: only the model knows which schedules are valid) -/

def lcg (x : Nat) : Nat := (x * 6364136223846793005 + 1442695040888963407) % 18446744073709551616

def opAlphabetMem : List Op := [.set [1, 2], .set [3], .setPartial 1 [255], .get, .getRange 0 1, .size, .erase]
def opAlphabetFs : List Op := [.set [1, 2], .set [3], .get, .getRange 0 1, .size, .erase]

def pick {α} [Inhabited α] (l : List α) (r : Nat) : α := l.getD ((r / 65536) % l.length) default

instance : Inhabited Op := ⟨.get⟩

/-- random program set: `nt` threads with 1..`maxOps` operations each -/
def randProgs (alpha : List Op) (nt maxOps : Nat) (seed : Nat) : Progs × Nat :=
  (List.range nt).foldl (fun (acc : Progs × Nat) _ =>
    let r1 := lcg acc.2
    let n := 1 + (r1 / 65536) % maxOps
    let (ops, r) := (List.range n).foldl (fun (a : List Op × Nat) _ => let r := lcg a.2; (a.1 ++ [pick alpha r], r)) ([], r1)
    (acc.1 ++ [ops], r)) ([], seed)

def caseLines (store : String) (ps : Progs) (i0 : Option Bytes) (cap : Nat) (probeBlocked : Bool) : List String :=
  let scheds := if store == "mem" then (allScheds .fixed ps (init ps i0) [] cap #[]).toList
                else (allSchedsFs .fixed ps (FsConc.init ps i0) [] cap #[]).toList
  let base := "c18 sched store=" ++ store ++ " init=" ++ (match i0 with | some b => showHex b | none => "none") ++ " progs=" ++ showProgs ps
  let showSched (sc : List Nat) : String := if sc.isEmpty then "-" else ",".intercalate (sc.map toString)
  let full := scheds.map (fun sc => base ++ " sched=" ++ showSched sc)
  -- schedules the model forbids: a valid prefix followed by a thread that is not enabled there
  let blocked := if !probeBlocked then [] else
    (scheds.take 6).filterMap (fun sc =>
      (List.range sc.length).findSome? (fun i =>
        let pre := sc.take i
        let dis := (List.range ps.length).filter (fun t =>
          if store == "mem" then
            match run .fixed ps (init ps i0) pre with
            | some s => (curOp ps s t).isSome && !enabled .fixed ps s t
            | none => false
          else
            match FsConc.run .fixed ps (FsConc.init ps i0) pre with
            | some s => (FsConc.curOp ps s t).isSome && !FsConc.enabled .fixed ps s t
            | none => false)
        match dis with
        | t :: _ => some (base ++ " sched=" ++ showSched (pre ++ [t]) ++ " probe=1")
        | [] => none))
  full ++ blocked

/-- every point of every execution of the model at which some thread's next step is NOT enabled (it would have to wait
for a lock): the valid prefix followed by that thread, as a `probe=1` line — the real store must block exactly there.
Breadth-first over schedule prefixes, capped. (A store that hands two operations on one key different locks, or
releases a lock early, lets such a step through.) -/
partial def allProbes (store : String) (ps : Progs) (i0 : Option Bytes) (cap : Nat) : List String :=
  let base := "c18 sched store=" ++ store ++ " init=" ++ (match i0 with | some b => showHex b | none => "none") ++ " progs=" ++ showProgs ps
  let showSched (sc : List Nat) : String := if sc.isEmpty then "-" else ",".intercalate (sc.map toString)
  let n := ps.length
  -- (enabled threads, disabled-but-unfinished threads) after a valid prefix
  let status (pre : List Nat) : Option (List Nat × List Nat) :=
    if store == "mem" then
      (run .fixed ps (init ps i0) pre).map (fun s =>
        ((List.range n).filter (fun t => enabled .fixed ps s t), (List.range n).filter (fun t => (curOp ps s t).isSome && !enabled .fixed ps s t)))
    else
      (FsConc.run .fixed ps (FsConc.init ps i0) pre).map (fun s =>
        ((List.range n).filter (fun t => FsConc.enabled .fixed ps s t), (List.range n).filter (fun t => (FsConc.curOp ps s t).isSome && !FsConc.enabled .fixed ps s t)))
  let rec go (frontier : List (List Nat)) (acc : List String) (fuel : Nat) : List String :=
    if fuel == 0 || frontier.isEmpty || acc.length ≥ cap then acc else
    let (next, acc) := frontier.foldl (fun (st : List (List Nat) × List String) pre =>
      match status pre with
      | none => st
      | some (en, dis) =>
        (st.1 ++ en.map (fun t => pre ++ [t]), st.2 ++ dis.map (fun t => base ++ " sched=" ++ showSched (pre ++ [t]) ++ " probe=1"))) ([], acc)
    go next acc (fuel - 1)
  (go [[]] [] 12).take cap

def genCases (tier : String) (seed : Nat) : List String :=
  let thorough := tier == "thorough"
  let inits : List (Option Bytes) := [none, some [7, 7, 7]]
  -- exhaustive: every pair of single operations, both stores, both initial states, all schedules
  let pairs (alpha : List Op) (store : String) : List String :=
    alpha.flatMap (fun a => alpha.flatMap (fun b => inits.flatMap (fun i0 => caseLines store [[a], [b]] i0 10000 true)))
  let sampled (alpha : List Op) (store : String) (n nt maxOps cap : Nat) (seed : Nat) : List String :=
    ((List.range n).foldl (fun (acc : List String × Nat) k =>
      let (ps, r) := randProgs alpha nt maxOps (lcg (acc.2 + k))
      let i0 := if (r / 7) % 2 == 0 then none else some [7, 7, 7]
      (acc.1 ++ caseLines store ps i0 cap (k % 3 == 0), r)) ([], seed)).1
  -- three threads on one key, one operation each: EVERY point at which the model makes a thread wait is probed
  let triples (store : String) : List String :=
    let progs : List Progs := if thorough then
        [[[.erase], [.set [1, 2]], [.get]], [[.erase], [.set [1, 2]], [.size]], [[.set [3]], [.set [1, 2]], [.get]],
         [[.erase], [.erase], [.set [1, 2]]], [[.get], [.erase], [.set [1, 2]]], [[.set [1, 2]], [.getRange 0 1], [.erase]]]
      else [[[.erase], [.set [1, 2]], [.get]], [[.set [1, 2]], [.size], [.erase]]]
    progs.flatMap (fun ps => inits.flatMap (fun i0 => allProbes store ps i0 (if thorough then 400 else 70)))
  -- free-running stress (no scheduler): the FIRST accesses to a key of a fresh store instance are concurrent
  [s!"c18 stress store=fs rounds={if thorough then 6000 else 1500} readers=7",
   s!"c18 stress store=mem rounds={if thorough then 4000 else 600} readers=3"] ++
  pairs opAlphabetMem "mem" ++ pairs opAlphabetFs "fs" ++ triples "fs" ++ triples "mem" ++
  sampled opAlphabetMem "mem" (if thorough then 150 else 25) 2 2 (if thorough then 400 else 60) (seed * 7919 + 1) ++
  sampled opAlphabetMem "mem" (if thorough then 60 else 10) 3 1 (if thorough then 400 else 60) (seed * 7919 + 2) ++
  sampled opAlphabetMem "mem" (if thorough then 40 else 4) 3 2 (if thorough then 300 else 40) (seed * 7919 + 3) ++
  sampled opAlphabetMem "mem" (if thorough then 40 else 4) 2 3 (if thorough then 300 else 40) (seed * 7919 + 4) ++
  sampled opAlphabetFs "fs" (if thorough then 80 else 10) 2 2 (if thorough then 200 else 40) (seed * 7919 + 5) ++
  sampled opAlphabetFs "fs" (if thorough then 30 else 4) 3 1 (if thorough then 200 else 40) (seed * 7919 + 6)

/-- replay handler: predicted outcome of the schedule on the repaired protocol; the observed history must also pass
the executable linearizability checker -/
def handle (l : Line) : Option (List String × Option String) := do
  let store ← l.get "store"
  let ps ← parseProgs (← l.get "progs")
  let i0 ← (match ← l.get "init" with | "none" => some none | h => (parseHex h).map some)
  let sched ← (match ← l.get "sched" with | "-" => some [] | s => (s.splitOn ",").mapM (·.toNat?))
  if store == "mem" then
    match history .fixed ps i0 sched with
    | some (s, h) =>
      let pred := "res=" ++ showOut s ++ " final=" ++ showOptBytes (finalValue s)
      let pred := if allFinished ps s then pred else "unfinished " ++ pred
      let note := if !allFinished ps s || linearizable i0 h (finalValue s) then none else some "model history not linearizable"
      pure ([pred], note)
    | none =>
      match firstBlocked (fun t pre => match run .fixed ps (init ps i0) pre with | some s => enabled .fixed ps s t | none => false) sched with
      | some (i, t) => pure (["blocked_t" ++ toString t ++ "_at_step_" ++ toString i], none)
      | none => none
  else
    match FsConc.history .fixed ps i0 sched with
    | some (s, h) =>
      let pred := "res=" ++ showOutL s.out ++ " final=" ++ showOptBytes s.file
      let pred := if FsConc.allFinished ps s then pred else "unfinished " ++ pred
      let note := if !FsConc.allFinished ps s || linearizable i0 h s.file then none else some "model history not linearizable"
      pure ([pred], note)
    | none =>
      match firstBlocked (fun t pre => match FsConc.run .fixed ps (FsConc.init ps i0) pre with | some s => FsConc.enabled .fixed ps s t | none => false) sched with
      | some (i, t) => pure (["blocked_t" ++ toString t ++ "_at_step_" ++ toString i], none)
      | none => none

end Zarrs.DriverC18
