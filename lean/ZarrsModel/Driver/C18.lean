import ZarrsModel.Model.MemConc
import ZarrsModel.Driver.Proto
/- driver for C18: schedule enumeration of the model, prediction of per-thread results for a schedule,
executable linearizability check of observed histories -/
namespace Zarrs.DriverC18
open Zarrs Zarrs.MemConc Zarrs.Proto

/-- all maximal schedules (every thread finished or nobody enabled) from a state, depth-first, capped -/
partial def allScheds (pr : Protocol) (ps : Progs) (s : State) (pref : List Nat) (cap : Nat) (acc : Array (List Nat)) : Array (List Nat) :=
  if acc.size ≥ cap then acc else
  let en := (List.range ps.length).filter (fun t => enabled pr ps s t)
  if en.isEmpty then acc.push pref.reverse else
  en.foldl (fun acc t => allScheds pr ps (step pr ps s t) (t :: pref) cap acc) acc

def showOp : Op → String
  | .set v => "set:" ++ showHex v
  | .setPartial o v => "setp:" ++ toString o ++ ":" ++ showHex v
  | .get => "get"
  | .size => "size"
  | .erase => "erase"

def parseOp (s : String) : Option Op :=
  match s.splitOn ":" with
  | ["set", v] => (parseHex v).map Op.set
  | ["setp", o, v] => do pure (Op.setPartial (← o.toNat?) (← parseHex v))
  | ["get"] => some .get
  | ["size"] => some .size
  | ["erase"] => some .erase
  | _ => none

def showRes : Res → String
  | .unit => "ok"
  | .bytes none => "none"
  | .bytes (some b) => "some:" ++ showHex b
  | .size none => "none"
  | .size (some n) => "len:" ++ toString n

def showProgs (ps : Progs) : String := "|".intercalate (ps.map (fun p => ",".intercalate (p.map showOp)))
def parseProgs (s : String) : Option Progs := (s.splitOn "|").mapM (fun p => (p.splitOn ",").mapM parseOp)

def showOut (s : State) : String :=
  "|".intercalate (s.out.map (fun rs => if rs.isEmpty then "-" else ",".intercalate (rs.map showRes)))

def showOptBytes : Option Bytes → String
  | none => "none"
  | some b => "some:" ++ showHex b

/-- expected outcome of replaying `sched` on the real store: per-thread responses and the final value -/
def predict (pr : Protocol) (ps : Progs) (i0 : Option Bytes) (sched : List Nat) : Option String :=
  (run pr ps (init ps i0) sched).map (fun s => "res=" ++ showOut s ++ " final=" ++ showOptBytes (finalValue s))

end Zarrs.DriverC18
