import ZarrsModel.Model.ShardPD
import ZarrsModel.Model.ShardPDAsync
import ZarrsModel.Driver.C01
/-
driver handler for the sharding partial decoder (C02, verb `c02s`): the request carries the shard geometry, the
sharding levels (inner shapes, index location / byte order / crc32c per level, outermost first), the leaf chain
(modelled codecs only: transposes, `bytes`, crc32c, shuffle as a decode-all stage), optional array-to-array /
bytes-to-bytes codecs around the outermost sharding codec, the RAW stored value (hex, or `absent`) and the regions;
the model's `ChainS.partialDecoder` over `storeHandle raw` predicts the outcome of
`array.partial_decoder(chunk).partial_decode(regions)`.
-/
namespace Zarrs.DriverC02S
open Zarrs Zarrs.Proto Zarrs.Codec Zarrs.Partial

/-- leaf chain from `|`-separated tokens: `transpose:<order>`* `bytes:<little|big>:<unit>` (`crc32c` | `shuffle:<n>`)* -/
def stepTok (es : Nat) (acc : (Chain × List Bool) × Bool) (tok : String) : Option ((Chain × List Bool) × Bool) :=
  let ((c, keep), seen) := acc
  match tok.splitOn ":" with
  | ["transpose", ord] => if seen then none else do
      let order ← parseNl ord
      pure (({ c with a2a := c.a2a ++ [.transpose order] }, keep), false)
  | ["bytes", e, u] => if seen then none else do
      let unit ← u.toNat?
      pure (({ c with big := e == "big", unit := unit, es := es }, keep), true)
  | ["bytes", e, u, _] => if seen then none else do
      let unit ← u.toNat?
      pure (({ c with big := e == "big", unit := unit, es := es }, keep), true)
  | ["crc32c"] => if seen then some (({ c with b2b := c.b2b ++ [.stripSuffix 4 crc32c] }, keep ++ [false]), true) else none
  | ["shuffle", n] => if !seen then none else do
      let k ← n.toNat?
      -- `shuffle` keeps a fixed encoded size
      pure (({ c with b2b := c.b2b ++ [.decodeAll (fun b => (shuffleEnc k b).getD b) (shuffleDec k)] }, keep ++ [true]), true)
  | _ => none

def parseLeaf (es : Nat) (s : String) : Option (Chain × List Bool) := do
  let (ck, seen) ← (s.splitOn "|").foldlM (stepTok es) (({ a2a := [], big := false, es := es, unit := 1, b2b := [] }, []), false)
  if seen then pure ck else none

def parseA2A (s : String) : Option (List AStage) :=
  if s == "-" then some [] else (s.splitOn "|").mapM (fun tok =>
    match tok.splitOn ":" with
    | ["transpose", ord] => (parseNl ord).map AStage.transpose
    | _ => none)

def parseB2B (s : String) : Option (List BStage) :=
  if s == "-" then some [] else (s.splitOn "|").mapM (fun tok =>
    match tok with
    | "crc32c" => some (BStage.stripSuffix 4 crc32c)
    | _ => none)

def buildS (es : Nat) : List (Shape × Shard.Cfg) → Chain × List Bool → ChainS
  | [], c => .leaf c.1 c.2
  | (ish, cfg) :: rest, c => .shard [] cfg ish es (buildS es rest c) []

def zip4 : List Shape → List String → List String → List String → Option (List (Shape × Shard.Cfg))
  | [], [], [], [] => some []
  | s :: ss, l :: ls, e :: es, c :: cs =>
    (zip4 ss ls es cs).map (fun r => (s, (⟨0, l == "end", e == "big", c == "1"⟩ : Shard.Cfg)) :: r)
  | _, _, _, _ => none

def showParts (parts : List (List Elem)) : String :=
  "val " ++ "|".intercalate (parts.map DriverC01.showElems)

/-- acceptable outcomes, optional note -/
def handle (l : Line) : Option (List String × Option String) := do
  let ssh ← l.nl "ssh"
  let ishs ← parseNll (← l.get "ishs")
  let levels ← zip4 ishs ((← l.get "locs").splitOn ";") ((← l.get "iends").splitOn ";") ((← l.get "icrcs").splitOn ";")
  let es ← l.nat "es"
  let fill ← parseHex (← l.get "fill")
  let leaf ← parseLeaf es (← l.get "chain")
  let oa ← parseA2A ((l.get "oa2a").getD "-")
  let ob ← parseB2B ((l.get "ob2b").getD "-")
  let raw : Option Bytes ← (match ← l.get "raw" with
    | "absent" => some none
    | s => (parseHex s).map some)
  let rs ← ((← l.get "rs").splitOn "|").mapM DriverC01.parseSubset
  match levels with
  | [] => none
  | (ish, cfg) :: rest =>
    let cs : ChainS := .shard oa cfg ish es (buildS es rest leaf) ob
    -- `route=async`: `Array::async_partial_decoder` = `ChainS.asyncPartialDecoder` (Model/ShardPDAsync.lean)
    let pd := if l.get "route" == some "async" then cs.asyncPartialDecoder ssh fill (storeHandle raw)
      else cs.partialDecoder ssh fill (storeHandle raw)
    let inb := rs.all (fun r => r.wf && r.inboundsShape ssh)
    -- `TransposePartialDecoder::partial_decode` rejects regions of the wrong rank; `transposePD` (Model/Partial.lean)
    -- does not model that test (such regions are outside C02), so with an outer transpose it is applied here
    let acc := if !oa.isEmpty && rs.any (fun r => r.rank != ssh.length) then ["err"] else match pd rs with
      | some parts => [showParts parts]
      | none => if inb then ["err"] else ["err", "panic"]
    -- cross-check on uncorrupted values: the whole shard through the model's partial decoder is the data written
    let note : Option String :=
      match l.get "data", l.get "corrupt" with
      | some d, some "0" =>
        (match DriverC01.parseElems d, pd [Subset.ofShape ssh] with
         | some xs, some [ys] => if xs == ys then none else some "model full read differs from the data written"
         | _, _ => some "model cannot read the whole shard")
      | _, _ => none
    pure (acc, note)

end Zarrs.DriverC02S
