import ZarrsModel.Model.Array
/-
Chunk caches (zarrs/src/array/chunk_cache.rs, chunk_cache/chunk_cache_lru.rs,
chunk_cache/array_chunk_cache_ext_sync.rs) as state machines.

A cache maps chunk indices to entries.  Which entries survive an insertion is decided by an eviction policy
`evict : Cache → Cache` about which the model assumes only that it never invents or alters entries (its result
is a sublist of its argument).  LRU by chunk count, LRU by byte size, capacity 0 (everything evicted at once),
capacity 1, unbounded, and moka's deferred eviction are all instances.
-/
namespace Zarrs

/-- a decoded-chunk cache holds decoded chunks; an encoded-chunk cache holds the stored bytes (or absence) -/
inductive CacheEntry (α : Type) where
  | decoded (xs : List α)
  | encoded (b : Option Bytes)

abbrev Cache (α : Type) := List (Idx × CacheEntry α)

inductive CacheKind where
  | decoded | encoded
deriving DecidableEq, Repr

namespace Cache
variable {α : Type}

def lookup (c : Cache α) (i : Idx) : Option (CacheEntry α) := (c.find? (·.1 == i)).map (·.2)

/-- move-to-front on a hit (LRU bookkeeping; irrelevant to the returned value) -/
def touch (c : Cache α) (i : Idx) : Cache α :=
  match c.find? (·.1 == i) with
  | some e => e :: c.filter (·.1 != i)
  | none => c

end Cache

namespace ArrCfg
variable {α : Type} [BEq α]

/-- what a cache of the given kind stores for chunk `c` when it misses (`try_get_or_insert_with`'s closure);
`none` = the closure failed, nothing is inserted -/
def cacheFill (cfg : ArrCfg α) (st : KV) (kind : CacheKind) (c : Idx) : Option (CacheEntry α) :=
  match kind with
  | .decoded => (cfg.retrieveChunk st c).map CacheEntry.decoded
  | .encoded => match cfg.chunkShape c with
    | some _ => some (CacheEntry.encoded (st.get (cfg.keyOf c)))
    | none => none

/-- turn a cache entry into the decoded chunk (`retrieve_chunk` of the cache) -/
def cacheDecode (cfg : ArrCfg α) (c : Idx) : CacheEntry α → Option (List α)
  | .decoded xs => some xs
  | .encoded none => (cfg.chunkShape c).map (fun s => List.replicate (prod s) cfg.fill)
  | .encoded (some b) => match cfg.chunkShape c, cfg.dec b with
    | some s, some xs => if xs.length == prod s then some xs else none
    | _, _ => none

/-- `ChunkCache::retrieve_chunk`: hit → entry; miss → fill, insert, evict -/
def cachedRetrieveChunk (cfg : ArrCfg α) (st : KV) (kind : CacheKind) (evict : Cache α → Cache α)
    (cache : Cache α) (c : Idx) : Option (List α) × Cache α :=
  match cache.lookup c with
  | some e => (cfg.cacheDecode c e, cache.touch c)
  | none =>
    match cfg.cacheFill st kind c with
    | none => (none, cache)
    | some e => (cfg.cacheDecode c e, evict ((c, e) :: cache))

/-- `retrieve_chunk_subset` through the cache: decode the chunk via the cache and extract -/
def cachedRetrieveChunkSubset (cfg : ArrCfg α) (st : KV) (kind : CacheKind) (evict : Cache α → Cache α)
    (cache : Cache α) (c : Idx) (r : Subset) : Option (List α) × Cache α :=
  match cfg.chunkShape c with
  | none => (none, cache)
  | some s =>
    if !r.inboundsShape s then (none, cache) else
    let (x, cache') := cfg.cachedRetrieveChunk st kind evict cache c
    (x.map (fun xs => r.extract s xs), cache')

/-- a sequence of cached chunk reads: results in order, final cache -/
def cachedReads (cfg : ArrCfg α) (st : KV) (kind : CacheKind) (evict : Cache α → Cache α) :
    Cache α → List Idx → List (Option (List α)) × Cache α
  | cache, [] => ([], cache)
  | cache, c :: cs =>
    let (r, cache') := cfg.cachedRetrieveChunk st kind evict cache c
    let (rs, cache'') := cachedReads cfg st kind evict cache' cs
    (r :: rs, cache'')

/-- cache coherence with an unchanged store: every entry is what the fill closure would produce now -/
def CacheOk (cfg : ArrCfg α) (st : KV) (kind : CacheKind) (cache : Cache α) : Prop :=
  ∀ p ∈ cache, cfg.cacheFill st kind p.1 = some p.2

end ArrCfg
end Zarrs
