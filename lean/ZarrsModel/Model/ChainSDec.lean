import ZarrsModel.Model.ShardPD
/-
The FULL decoder of a codec chain whose array-to-bytes codec is `bytes` or `sharding_indexed` (nested to any depth):
`CodecChain::decode` (zarrs/src/array/codec/array_to_bytes/codec_chain.rs) with
`ShardingCodec::{decode, decode_index}` (array_to_bytes/sharding/sharding_codec.rs, the `DataTypeSize::Fixed` branch),
`BytesCodec::decode` = `do_encode_or_decode` (array_to_bytes/bytes/bytes_codec.rs), `TransposeCodec::decode`
(array_to_array/transpose/transpose_codec.rs), `SqueezeCodec::decode`, `Crc32cCodec::decode` / `Fletcher32Codec::decode`,
`ArrayBytes::validate` = `validate_bytes_flen` (array_bytes.rs) and `ArrayBytesFixedDisjointView::{fill, copy_from_slice}`.

The encoder, the chain type `ChainS` and the partial decoder are in Model/ShardPD.lean.  As there, an element is its
byte string and a decoded chunk is the list of its elements in C order (the Rust code keeps the same elements in one
byte vector: the byte-length tests of the code are kept as tests on element count and element sizes, see `validated`).
Checksum validation is on (`CodecOptions::validate_checksums`, the default).  `none` = the method returns an error.
-/
namespace Zarrs.Partial
open Zarrs Zarrs.Codec

/-- `BytesToBytesCodecTraits::decode` of one stage: the checksum codecs (`Crc32cCodec::decode`, `Fletcher32Codec::decode`:
fewer than 4 bytes is an error, the stored checksum must match, the payload is the value without its last 4 bytes);
a decode-all stage stands for a compressor with its own decoder; an inserted cache is no codec -/
def BStage.dec : BStage → Bytes → Option Bytes
  | .stripSuffix _ sum, b => (checksumDec sum true b).toOption
  | .decodeAll _ d, b => d b
  | .cache, b => some b

/-- the bytes-to-bytes part of `CodecChain::decode`: `self.bytes_to_bytes.iter().rev()`, the first error ends it -/
def decodeB2B (b2b : List BStage) (b : Bytes) : Option Bytes :=
  b2b.foldr (fun st acc => acc.bind st.dec) (some b)

/-- `ArrayBytes::validate(num_elements, data_type_size)` (`validate_bytes_flen`: the byte length must be
`num_elements * data_type_size`) on a list of elements: `n` elements of `es` bytes each -/
def validated (es n : Nat) (xs : List Elem) : Option (List Elem) :=
  if xs.length == n && xs.all (·.length == es) then some xs else none

/-- `ArrayToArrayCodecTraits::decode` of one stage, `sh` = the DECODED shape of the stage.
`TransposeCodec::decode`: validates its input (the transposed array has as many elements), an order of another
length than the rank is an error (`encoded_shape`, `decode`; `TransposeOrder` is a permutation by construction),
then `transpose_array` with the inverse order; `SqueezeCodec::decode` returns its input; a cache is no codec -/
def AStage.dec : AStage → Shape → Nat → List Elem → Option (List Elem)
  | .transpose order, sh, es, ys =>
    if !validOrder order sh.length then none
    else (validated es (prod sh) ys).map (transposeDec order sh)
  | .squeeze, _, _, ys => some ys
  | .cache, _, _, ys => some ys

/-- the array-to-array part of `CodecChain::decode`: `self.array_to_array.iter().rev()` zipped with the decoded
representations (`get_array_representations`): the last stage first, stage `k` from `shapes[k+1]` to `shapes[k]` -/
def decodeA2A : List AStage → Shape → Nat → List Elem → Option (List Elem)
  | [], _, _, ys => some ys
  | st :: rest, sh, es, ys => (decodeA2A rest (st.encShape sh) es ys).bind (st.dec sh es)

/-- `BytesCodec::decode` = `do_encode_or_decode`: the byte length must be `num_elements * data_type_size`
(`InvalidBytesLengthError`), then the endianness of every swap unit is reversed; cut into elements -/
def bytesDecode (big : Bool) (es unit : Nat) (sh : Shape) (raw : Bytes) : Option (List Elem) :=
  if raw.length != prod sh * es then none else some (groups es (bytesDec big unit raw))

/-- `CodecChain::decode` of a `bytes` chain: bytes-to-bytes stages in reverse order, `bytes`, array-to-array stages in
reverse order, final `bytes.validate(num_elements, size)` -/
def Chain.decode (c : Chain) (sh : Shape) (b : Bytes) : Option (List Elem) :=
  ((decodeB2B c.b2b b).bind (bytesDecode c.big c.es c.unit (shapesOf c.a2a sh))).bind (fun ys =>
    (decodeA2A c.a2a sh c.es ys).bind (validated c.es (prod sh)))

/-- the closure `decode_chunk` of `ShardingCodec::decode` for one inner chunk `ch` of the decoded layout
(`Shard.decode`: `none` = sentinel entry, `some b` = the bytes `encoded_shard[offset..offset + size]`):
a missing chunk is all fill (`output_view_inner_chunk.fill`: a fill value of another size than the data type is an
error); else the inner chain's `decode`, whose result must have the byte length of the inner chunk
(`copy_from_slice`: `InvalidBytesLengthError`) -/
def shardChunkDec (es : Nat) (fill : Elem) (innerShape : Shape) (innerDec : Bytes → Option (List Elem))
    (ch : Option Bytes) : Option (List Elem) :=
  match ch with
  | none => if fill.length != es then none else some (List.replicate (prod innerShape) fill)
  | some b => (innerDec b).bind (validated es (prod innerShape))

/-- `ShardingCodec::decode` (fixed-size data type) on the shard value `v`, for a shard of shape `shardShape`:
`calculate_chunks_per_shard` (an extent that is no multiple of the inner extent is an error), `decode_index`
(a value shorter than its index, an undecodable index: errors), an empty output (`size_output == 0`) is returned at
once; else every inner chunk (`Shard.decode`: sentinel entry = missing, `offset + size` beyond the value = error,
otherwise the slice of the value) is decoded (`shardChunkDec`) and pasted at its place of a zero-initialised buffer
(`assembleScatter`; rayon `try_for_each`: an error if any closure fails) -/
def shardDecode (cfg : Shard.Cfg) (shardShape innerShape : Shape) (es : Nat) (fill : Elem)
    (innerDec : Bytes → Option (List Elem)) (v : Bytes) : Option (List Elem) :=
  match chunksPerShard shardShape innerShape with
  | none => none
  | some cps =>
    let cfg' : Shard.Cfg := { cfg with nChunks := prod cps }
    match Shard.indexBytes cfg' v with
    | none => none
    | some ib =>
      match Shard.decodeIndex cfg' true ib with
      | .error _ => none
      | .ok _ =>
        if prod shardShape * es == 0 then some (List.replicate (prod shardShape) [])
        else match Shard.decode cfg' true v with
          | .error _ => none
          | .ok chunks =>
            (chunks.mapM (shardChunkDec es fill innerShape innerDec)).map (fun xss =>
              assembleScatter shardShape innerShape xss
                (List.replicate (prod shardShape) (List.replicate es 0)))

/-- `CodecChain::decode` where the array-to-bytes codec is `bytes` (leaf) or `sharding_indexed`
(`ShardingCodec::decode` on the shape after the array-to-array codecs, its inner chunks decoded by the inner chain's
`CodecChain::decode`): bytes-to-bytes stages in reverse order, the array-to-bytes codec, the array-to-array stages in
reverse order, final `bytes.validate(num_elements, size)` -/
def ChainS.decode : ChainS → Shape → Elem → Bytes → Option (List Elem)
  | .leaf c _, sh, _, b => c.decode sh b
  | .shard a2a cfg innerShape es inner b2b, sh, fill, b =>
    ((decodeB2B b2b b).bind
      (shardDecode cfg (shapesOf a2a sh) innerShape es fill (fun e => inner.decode innerShape fill e))).bind (fun ys =>
        (decodeA2A a2a sh es ys).bind (validated es (prod sh)))

/-! ### the size `ShardingCodec::encoded_representation` / `CodecChain::encoded_representation` declare -/

/-- `BytesToBytesCodecTraits::encoded_representation` on a bounded size, for the stages after a sharding codec: the
checksum codecs add their 4 bytes, a cache is no codec, a decode-all stage stands for a compressor whose bound the
model does not know (`none`) -/
def bBound : List BStage → Option Nat → Option Nat
  | [], s => s
  | .stripSuffix _ _ :: rest, s => bBound rest (s.map (· + 4))
  | .cache :: rest, s => bBound rest s
  | .decodeAll _ _ :: _, _ => none

/-- `CodecChain::encoded_representation` as an upper bound (`FixedSize(n)` and `BoundedSize(n)` both give `some n`,
`UnboundedSize` and sizes the model does not know give `none`): a `bytes` chain declares its fixed size;
`ShardingCodec::encoded_representation` declares `num_chunks * inner size + index size`
(`encoded_shard_bounded_size`) when the inner chain declares a fixed or bounded size; then the bytes-to-bytes stages -/
def ChainS.bound : ChainS → Shape → Option Nat
  | .leaf c keep, sh => c.fixedSize keep sh
  | .shard a2a cfg innerShape _ inner b2b, sh =>
    let n := prod (zipDiv (shapesOf a2a sh) innerShape)
    bBound b2b ((inner.bound innerShape).map (fun m =>
      n * m + Shard.indexSize { cfg with nChunks := n }))

end Zarrs.Partial
