import ZarrsModel.Model.Json
import ZarrsModel.Model.Float
/-
Layer E: fill value bytes <-> Zarr V3 fill-value metadata (`DataType::metadata_fill_value`,
`DataType::fill_value_from_metadata`, `FillValueMetadataV3::as_*`, `From<float> for FillValueMetadataV3`).
Fill value bytes are in native (little-endian) order, as `FillValue::as_ne_bytes` gives them on the
platforms the checks run on.  The decimal text of a finite float is produced and read by `serde_json`
(ryu / `float_roundtrip`); the model takes that pair of functions as a parameter (`NumCodec`), and the
concrete reader `Float.readF64` is the correctly rounded one.
-/
namespace Zarrs.FillMeta
open Zarrs.Json Zarrs.Float

inductive DT where
  | bool
  | int (n : Nat)        -- n bytes, two's complement
  | uint (n : Nat)
  | float (f : Fmt)
  | complex (f : Fmt)
  | raw (n : Nat)
  | bytes
  | string
deriving Repr, DecidableEq

/-- little-endian bytes -> natural number -/
def leNat : List Nat → Nat
  | [] => 0
  | b :: rest => b + 256 * leNat rest

/-- natural number -> `n` little-endian bytes -/
def natLE : Nat → Nat → List Nat
  | 0, _ => []
  | n + 1, v => v % 256 :: natLE n (v / 256)

def isByte (b : Nat) : Bool := b < 256

structure NumCodec where
  /-- `serde_json`'s text for a finite binary64 pattern -/
  fmt : Nat → List Char
  /-- `serde_json`'s binary64 pattern for a number token (`none`: out of range) -/
  rd : List Char → Option Nat

def hexStr (bs : List Nat) : Str :=
  [48, 120] ++ bs.flatMap (fun b => [(hexDigit (b / 16)).toNat, (hexDigit (b % 16)).toNat])

/-- `hex_string_to_be_bytes`: `0x` then pairs of ASCII hex digits -/
def unhexPairs : List Nat → Option (List Nat)
  | [] => some []
  | a :: b :: rest =>
    match hexVal a, hexVal b, unhexPairs rest with
    | some x, some y, some r => some ((x * 16 + y) :: r)
    | _, _, _ => none
  | [_] => none

def unhexStr : Str → Option (List Nat)
  | 48 :: 120 :: rest => unhexPairs rest
  | _ => none

def sInfinity : Str := ascii "Infinity"
def sNegInfinity : Str := ascii "-Infinity"
def sNaN : Str := ascii "NaN"

/-- `From<float> for FillValueMetadataV3` on a bit pattern `b` of format `f` -/
def floatToMeta (nc : NumCodec) (f : Fmt) (b : Nat) : J :=
  if f.isInf b then (if f.neg b then .str sNegInfinity else .str sInfinity)
  else if b == f.qnan then .str sNaN
  else if f.isNan b then .str (hexStr (natLE (f.bits / 8) b).reverse)
  else .num (nc.fmt (convertBits f f64 b))

/-- how `half::f16::from_f64` narrows: directly, or through binary32 when the CPU has F16C -/
inductive Narrow | direct | viaF32
deriving Repr, DecidableEq

def narrow (how : Narrow) (f : Fmt) (b64 : Nat) : Nat :=
  if f == f64 then b64
  else if f == f16 && how == .viaF32 then convertBits f32 f16 (convertBits f64 f32 b64)
  else convertBits f64 f b64

/-- `FillValueMetadataV3::as_f16/as_bf16/as_f32/as_f64` -/
def metaToFloat (nc : NumCodec) (how : Narrow) (f : Fmt) : J → Option Nat
  | .str s =>
    if s == sInfinity then some f.inf
    else if s == sNegInfinity then some (f.signBit + f.inf)
    else if s == sNaN then some f.qnan
    else match unhexStr s with
      | some bs => if bs.length == f.bits / 8 then some (leNat bs.reverse) else none
      | none => none
  -- (repaired) a JSON number is finite: one whose nearest value of the format is infinite is not representable
  | .num t => (nc.rd t).bind (fun b => let r := narrow how f b; if f.isFinite r then some r else none)
  | _ => none

/-- `FillValueMetadataV3::as_bytes`: an array of integers in `[0, 255]` -/
def metaToBytes : J → Option (List Nat)
  | .arr xs => xs.mapM (fun x => match x with
      | .num t => (asU64 t).bind (fun v => if v < 256 then some v else none)
      | _ => none)
  | _ => none

def natTok (n : Nat) : List Char := (Nat.toDigits 10 n)
def intTok (i : Int) : List Char := if i < 0 then '-' :: natTok i.natAbs else natTok i.natAbs

/-- two's complement value of `n` little-endian bytes -/
def leInt (bs : List Nat) : Int :=
  let v := leNat bs
  if v ≥ 2 ^ (8 * bs.length - 1) then (v : Int) - 2 ^ (8 * bs.length) else v

/-- `DataType::metadata_fill_value`: `none` is `IncompatibleFillValueError` -/
def toMeta (nc : NumCodec) : DT → List Nat → Option J
  | .bool, [0] => some (.bool false)
  | .bool, [1] => some (.bool true)
  | .bool, _ => none
  | .int n, bs => if bs.length == n then some (.num (intTok (leInt bs))) else none
  | .uint n, bs => if bs.length == n then some (.num (natTok (leNat bs))) else none
  | .float f, bs => if bs.length == f.bits / 8 then some (floatToMeta nc f (leNat bs)) else none
  | .complex f, bs =>
    let w := f.bits / 8
    if bs.length == 2 * w then
      some (.arr [floatToMeta nc f (leNat (bs.take w)), floatToMeta nc f (leNat (bs.drop w))])
    else none
  | .raw n, bs => if bs.length == n then some (.arr (bs.map (fun b => .num (natTok b)))) else none
  | .bytes, bs => some (.arr (bs.map (fun b => .num (natTok b))))
  | .string, bs => if validUtf8 bs then some (.str bs) else none

/-- `DataType::fill_value_from_metadata`: `none` is `IncompatibleFillValueMetadataError` -/
def fromMeta (nc : NumCodec) (how : Narrow) : DT → J → Option (List Nat)
  | .bool, .bool b => some [if b then 1 else 0]
  | .bool, _ => none
  | .int n, .num t =>
    (asI64 t).bind (fun i =>
      if -(2 ^ (8 * n - 1) : Int) ≤ i ∧ i < 2 ^ (8 * n - 1) then some (natLE n (i % 2 ^ (8 * n)).toNat) else none)
  | .int _, _ => none
  | .uint n, .num t => (asU64 t).bind (fun v => if v < 2 ^ (8 * n) then some (natLE n v) else none)
  | .uint _, _ => none
  | .float f, j => (metaToFloat nc how f j).map (natLE (f.bits / 8))
  | .complex f, .arr [re, im] =>
    match metaToFloat nc how f re, metaToFloat nc how f im with
    | some a, some b => some (natLE (f.bits / 8) a ++ natLE (f.bits / 8) b)
    | _, _ => none
  | .complex _, _ => none
  | .raw n, j => (metaToBytes j).bind (fun bs => if bs.length == n then some bs else none)
  | .bytes, j => metaToBytes j
  | .string, .str s => some s
  | .string, _ => none

/-- the whole round trip: bytes -> metadata -> JSON text -> metadata -> bytes -/
def roundTrip (nc : NumCodec) (how : Narrow) (dt : DT) (bs : List Nat) : Option (List Nat) :=
  (toMeta nc dt bs).bind (fun j => (parse (print j)).bind (fromMeta nc how dt))

/-- JSON text -> bytes: `serde_json::from_slice::<FillValueMetadataV3>` then `fill_value_from_metadata` -/
def fromText (nc : NumCodec) (how : Narrow) (dt : DT) (text : List Nat) : Option (List Nat) :=
  (parse text).bind (fun j =>
    -- a number too large for binary64 fails the whole parse ("number out of range")
    if j.allNums (fun t => (nc.rd t).isSome) then fromMeta nc how dt j else none)

end Zarrs.FillMeta
