import ZarrsModel.Model.Grid
/-
API-coverage additions to the C10 model: the grid-related methods of `Array` (zarrs/src/array.rs) — which are
separate code from the `ChunkGridTraits` default methods they resemble (`Array::chunks_subset` is a second copy of
`ChunkGridTraits::chunks_subset`) — and the checked entry points of `ChunkGridTraits` (zarrs/src/array/chunk_grid.rs)
with their dimensionality tests inside the model.  `none` is the code's `Err`/`None` as noted at each function.
-/
namespace Zarrs

/-- the grid-related state of an `Array`: `chunk_grid()` and `shape()`.  `Array::new_with_metadata` rejects
`chunk_grid.dimensionality() != shape.len()` (`ArrGrid.new?`); `set_shape` replaces the shape unchecked. -/
structure ArrGrid where
  grid : Grid
  shape : Shape
deriving Repr

namespace ArrGrid

/-- `Array::new_with_metadata`: `InvalidChunkGridDimensionality` unless the ranks agree -/
def new? (g : Grid) (shape : Shape) : Option ArrGrid :=
  if shape.length == g.length then some ⟨g, shape⟩ else none

/-- `Array::chunk_grid_shape`: `grid_shape_unchecked(self.shape())` -/
def chunkGridShape (a : ArrGrid) : Option Shape := a.grid.gridShape a.shape

/-- `Array::subset_all`: `ArraySubset::new_with_shape(self.shape())` -/
def subsetAll (a : ArrGrid) : Subset := Subset.ofShape a.shape

/-- `Array::chunk_origin`: `chunk_grid().chunk_origin(c, shape)`, `Err` (rank) and `None` both become
`InvalidChunkGridIndicesError` (`none` here) -/
def chunkOrigin (a : ArrGrid) (c : Idx) : Option Idx :=
  if c.length != a.grid.length || a.shape.length != a.grid.length then none else a.grid.chunkOrigin c

/-- `Array::chunk_shape` (and `chunk_shape_usize`, `chunk_array_representation`, which wrap it) -/
def chunkShape (a : ArrGrid) (c : Idx) : Option Shape :=
  if c.length != a.grid.length || a.shape.length != a.grid.length then none else a.grid.chunkShape c

/-- `Array::chunk_subset`: `chunk_grid().subset(c, shape)` -/
def chunkSubset (a : ArrGrid) (c : Idx) : Option Subset :=
  if c.length != a.grid.length || a.shape.length != a.grid.length then none else a.grid.subset c

/-- `Array::chunk_subset_bounded`: `chunk_subset(c)?.bound_unchecked(self.shape())` -/
def chunkSubsetBounded (a : ArrGrid) (c : Idx) : Option Subset := (a.chunkSubset c).map (·.bound a.shape)

/-- `Array::chunks_subset(chunks)` — the Array-level copy: `chunk_subset(start)?`, `chunk_subset(end_inc)?`, from the
start of the first to the exclusive end of the last; an empty box gives the empty subset of ITS OWN rank (no rank
test on that path) -/
def chunksSubset (a : ArrGrid) (chunks : Subset) : Option Subset :=
  match chunks.endInc with
  | some e =>
    match a.chunkSubset chunks.start, a.chunkSubset e with
    | some c0, some c1 => some (Subset.ofStartEndExc c0.start c1.endExc)
    | _, _ => none
  | none => some (Subset.newEmpty chunks.rank)

/-- `Array::chunks_subset_bounded`: `chunks_subset(chunks)?.bound_unchecked(self.shape())` -/
def chunksSubsetBounded (a : ArrGrid) (chunks : Subset) : Option Subset :=
  (a.chunksSubset chunks).map (·.bound a.shape)

/-- `Array::chunks_in_array_subset`: forwards to the trait method.  Outer `none` = `Err` (rank mismatch, tested by
`chunk_indices` only on the non-empty path), inner = the trait's `Option`. -/
def chunksInArraySubset (a : ArrGrid) (r : Subset) : Option (Option Subset) :=
  if r.isEmpty then some (some (Subset.newEmpty a.grid.length))
  else if r.rank != a.grid.length || a.shape.length != a.grid.length then none
  else some (a.grid.chunksInArraySubset r a.shape)

end ArrGrid

namespace Grid

/-- `ChunkGridTraits::chunks_subset` (checked default method): rank tests first (`none` here = `Err`), then the
model of the body (`Grid.chunksSubset`, whose `none` is the code's `Ok(None)`) -/
def chunksSubsetChecked (g : Grid) (chunks : Subset) (arr : Shape) : Option (Option Subset) :=
  if chunks.rank != g.length || arr.length != g.length then none else some (g.chunksSubset chunks)

end Grid
end Zarrs
