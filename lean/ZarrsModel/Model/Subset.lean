import ZarrsModel.Model.Index
/-
`ArraySubset` (zarrs/src/array_subset.rs): start + shape.  All constructors and the algebra used by the
array code.  Operations that Rust performs with `u64` subtraction are modelled with an explicit
`underflow` outcome so the model shows where the real code panics.
-/
namespace Zarrs

structure Subset where
  start : Idx
  shape : Shape
deriving Repr, DecidableEq, BEq

namespace Subset

def rank (s : Subset) : Nat := s.start.length
def wf (s : Subset) : Bool := s.start.length == s.shape.length
def isEmpty (s : Subset) : Bool := s.shape.any (· == 0)
def numElements (s : Subset) : Nat := prod s.shape
def endExc (s : Subset) : Idx := addIdx s.start s.shape

def newEmpty (d : Nat) : Subset := ⟨List.replicate d 0, List.replicate d 0⟩
def ofShape (sh : Shape) : Subset := ⟨List.replicate sh.length 0, sh⟩

/-- `end_inc`: `None` for empty subsets -/
def endInc (s : Subset) : Option Idx :=
  if s.isEmpty then none else some ((addIdx s.start s.shape).map (· - 1))

/-- set-theoretic membership: same rank and `start ≤ i < start+shape` in every dimension -/
def mem : Idx → Idx → Shape → Bool
  | [], [], [] => true
  | i :: is, o :: os, n :: ns => decide (o ≤ i) && decide (i < o + n) && mem is os ns
  | _, _, _ => false

def contains (s : Subset) (i : Idx) : Bool := mem i s.start s.shape

/-- `contains` as written in Rust (`izip!(…).all`, truncating on rank mismatch) -/
def containsZip : Idx → Idx → Shape → Bool
  | i :: is, o :: os, n :: ns => decide (o ≤ i) && decide (i < o + n) && containsZip is os ns
  | _, _, _ => true

def zipMin : List Nat → List Nat → List Nat
  | a :: as, b :: bs => min a b :: zipMin as bs
  | _, _ => []
def zipMax : List Nat → List Nat → List Nat
  | a :: as, b :: bs => max a b :: zipMax as bs
  | _, _ => []
/-- saturating pointwise subtraction, truncating like `zip` -/
def zipSub : List Nat → List Nat → List Nat
  | a :: as, b :: bs => (a - b) :: zipSub as bs
  | _, _ => []
/-- does any pointwise subtraction underflow? -/
def zipUnderflow : List Nat → List Nat → Bool
  | a :: as, b :: bs => decide (a < b) || zipUnderflow as bs
  | _, _ => false

/-- `new_with_start_end_exc_unchecked` (saturating) -/
def ofStartEndExc (start e : Idx) : Subset := ⟨start, zipSub e start⟩

/-- `bound_unchecked(end)`: clamp start and end to `end` -/
def bound (s : Subset) (e : Idx) : Subset :=
  ofStartEndExc (zipMin s.start e) (zipMin s.endExc e)

/-- `overlap_unchecked`, specification form: max of starts, min of ends, saturating (empty when disjoint) -/
def overlap (a b : Subset) : Subset :=
  let st := zipMax a.start b.start
  ⟨st, zipSub (zipMin a.endExc b.endExc) st⟩

/-- on the pinned tree `overlap_unchecked` builds `Range`s and subtracts without saturation: it panics
(debug) / wraps (release) exactly when the operands are disjoint in some dimension -/
def overlapUnderflows (a b : Subset) : Bool :=
  zipUnderflow (zipMin a.endExc b.endExc) (zipMax a.start b.start)

/-- `relative_to_unchecked(start)`: subtract; underflow when `start` exceeds the subset's start -/
def relativeTo (s : Subset) (o : Idx) : Subset := ⟨zipSub s.start o, s.shape⟩
def relativeToUnderflows (s : Subset) (o : Idx) : Bool := zipUnderflow s.start o

def allLe : List Nat → List Nat → Bool
  | a :: as, b :: bs => decide (a ≤ b) && allLe as bs
  | _, _ => true

/-- `inbounds(other)`: same rank, start ≥ other.start, end ≤ other.end -/
def inbounds (s o : Subset) : Bool :=
  s.rank == o.rank && allLe o.start s.start && allLe s.endExc o.endExc

/-- `inbounds_shape(array_shape)` -/
def inboundsShape (s : Subset) (a : Shape) : Bool :=
  s.rank == a.length && allLe s.endExc a

end Subset
end Zarrs
