/-
Layer A (index arithmetic): `ravel_indices`, `unravel_index` of zarrs/src/array.rs and
`ArraySubset` of zarrs/src/array_subset.rs.  Numbers are `Nat`; the places where the Rust code would
overflow u64 are outside the model (see DESIGN.md, `fits64`).
-/
namespace Zarrs

abbrev Idx := List Nat
abbrev Shape := List Nat

/-- product of the extents (`iter().product()`) -/
def prod : List Nat → Nat
  | [] => 1
  | x :: xs => x * prod xs

/-- `ravel_indices(indices, shape)`: the Rust loop runs over `zip(indices, shape).rev()` accumulating
`index += i * count; count *= s`; written here left-to-right (Horner form over the tail products). -/
def ravel : Idx → Shape → Nat
  | i :: is, _ :: ss => i * prod ss + ravel is ss
  | _, _ => 0

/-- `unravel_index(index, shape)`: right-to-left `index % dim; index /= dim`.  Reversed digits. -/
def unravelRev : Nat → List Nat → List Nat
  | _, [] => []
  | n, d :: ds => (n % d) :: unravelRev (n / d) ds

/-- the Rust function as written (on the reversed shape, producing reversed digits) -/
def unravel (n : Nat) (shape : Shape) : Idx := (unravelRev n shape.reverse).reverse

/-- left-to-right form of the same function (proved equal to `unravel` in Lemmas/Index) -/
def unravelL : Nat → Shape → Idx
  | _, [] => []
  | n, s :: ss => ((n / prod ss) % s) :: unravelL (n % prod ss) ss

/-- `unravel_index` panics (remainder by zero) iff some extent is zero and the shape is non-empty. -/
def unravelPanics (shape : Shape) : Bool := shape.any (· == 0)

/-- pointwise addition, truncating like `zip` -/
def addIdx : Idx → Idx → Idx
  | a :: as, b :: bs => (a + b) :: addIdx as bs
  | _, _ => []

/-- in-bounds predicate `∀ k, i[k] < shape[k]` with equal ranks -/
def inB : Idx → Shape → Bool
  | [], [] => true
  | i :: is, s :: ss => decide (i < s) && inB is ss
  | _, _ => false

/-- C-order (lexicographic) strict order on equal-length index lists -/
def lexLt : Idx → Idx → Bool
  | a :: as, b :: bs => decide (a < b) || (a == b && lexLt as bs)
  | _, _ => false

end Zarrs
