import ZarrsModel.Model.Meta
import ZarrsModel.Model.FillMeta
/-
Layer E: `ArrayBuilder` (`zarrs/src/array/array_builder.rs`) and `GroupBuilder` (`zarrs/src/group/group_builder.rs`)
at the level of the metadata document that `build` hands to `Array::new_with_metadata` /
`Group::new_with_metadata`.

The builder holds domain objects (`DataType`, `ChunkGrid`, `FillValue`, codecs, `ChunkKeyEncoding`); the model holds
what each of them writes as metadata (`DataType::metadata`, `ChunkGrid::create_metadata` and `dimensionality`,
`DataType::metadata_fill_value`, `CodecTraits::configuration_opt` with the codec's name,
`ChunkKeyEncoding::create_metadata`).  As elsewhere in the C13 model the configurations are opaque JSON; the chunk grid
and the chunk key encoding that the builder can construct itself are written out.
-/
namespace Zarrs.Builder
open Zarrs.Json Zarrs.Meta

def natNum (n : Nat) : J := .num (FillMeta.natTok n)

/-! ### what the parts write -/

/-- `ChunkKeySeparator` -/
inductive Sep where
  | slash | dot
deriving Repr, DecidableEq

def Sep.toJ : Sep → J
  | .slash => .str (ascii "/")
  | .dot => .str (ascii ".")

/-- `ChunkKeyEncoding`: `DefaultChunkKeyEncoding::create_metadata` / `V2ChunkKeyEncoding::create_metadata`
    (`{"name": .., "configuration": {"separator": ..}}`), or any other encoding's metadata -/
inductive Cke where
  | default (s : Sep)
  | v2 (s : Sep)
  | other (m : MetaV3)
deriving Inhabited

def Cke.toMeta : Cke → MetaV3
  | .default s => ⟨ascii "default", some [(ascii "separator", s.toJ)], true⟩
  | .v2 s => ⟨ascii "v2", some [(ascii "separator", s.toJ)], true⟩
  | .other m => m

/-- `ChunkGrid`: `RegularChunkGrid::create_metadata` (`{"name": "regular", "configuration": {"chunk_shape": [..]}}`,
    dimensionality = the length of the chunk shape), or any other grid with its metadata and dimensionality -/
inductive Grid where
  | regular (chunkShape : List Nat)
  | other (m : MetaV3) (rank : Nat)
deriving Inhabited

def Grid.toMeta : Grid → MetaV3
  | .regular cs => ⟨ascii "regular", some [(ascii "chunk_shape", .arr (cs.map natNum))], true⟩
  | .other m _ => m

def Grid.rank : Grid → Nat
  | .regular cs => cs.length
  | .other _ r => r

/-- which array-to-bytes codec `ArrayBuilder::new` chooses from the data type -/
inductive DtClass where
  | fixed        -- `data_type.fixed_size().is_some()`: `BytesCodec::default()` (native endian; little on the test machine)
  | string       -- `DataType::String`: `vlen-utf8` (`VlenV2Codec`)
  | rawVar       -- `DataType::RawBits(_)` without a fixed size: `vlen-bytes` (unreachable: raw bits have a fixed size)
  | otherVar     -- any other variable-sized type: `VlenCodec::default()`
deriving Repr, DecidableEq

/-- a codec as the builder holds it: the name it is registered under (`Named*Codec`) and the configuration it writes
    (`configuration_opt` with the default options); `none`: the codec writes no metadata (an encode-only codec) -/
structure CodecB where
  name : Str
  config : Option Obj
deriving Inhabited

/-- `CodecChain::create_metadatas`: `MetadataV3::new_with_configuration(name, configuration)` for every codec that
    writes a configuration -/
def CodecB.toMeta (c : CodecB) : Option MetaV3 := c.config.map (fun cfg => ⟨c.name, some cfg, true⟩)

def bytesLittle : CodecB := ⟨ascii "bytes", some [(ascii "endian", .str (ascii "little"))]⟩
def vlenUtf8 : CodecB := ⟨ascii "vlen-utf8", some []⟩
def vlenBytes : CodecB := ⟨ascii "vlen-bytes", some []⟩
/-- `VlenCodec::default()`: its configuration is opaque here (index codecs, data codecs, index data type) -/
def vlenDefault (cfg : Obj) : CodecB := ⟨ascii "vlen", some cfg⟩

/-! ### the builder -/

structure BuilderState where
  shape : List Nat
  /-- `DataType::metadata()` -/
  dataType : MetaV3
  grid : Grid
  /-- the `FillValue` (its bytes); `build` asks the data type held at that moment to write it as metadata -/
  fill : List Nat
  cke : Cke
  a2a : List CodecB
  a2b : CodecB
  b2b : List CodecB
  /-- `StorageTransformerChain::create_metadatas()` (zarrs registers no storage transformer: a chain is empty) -/
  st : List MetaV3
  attrs : Obj
  dimNames : Option (List (Option Str))
  /-- `AdditionalFields` (a `BTreeMap`: in key order) -/
  extra : List (Str × AField)
deriving Inhabited

/-- `ArrayBuilder::new(shape, data_type, chunk_grid, fill_value)`: `bytes` (or the variable-length codec of the data
    type) as the only codec, `default` chunk key encoding with `/`, nothing else -/
def BuilderState.new (shape : List Nat) (dataType : MetaV3) (cls : DtClass) (vlenCfg : Obj) (grid : Grid)
    (fill : List Nat) : BuilderState :=
  { shape, dataType, grid, fill, cke := .default .slash, a2a := [],
    a2b := (match cls with
      | .fixed => bytesLittle
      | .string => vlenUtf8
      | .rawVar => vlenBytes
      | .otherVar => vlenDefault vlenCfg),
    b2b := [], st := [], attrs := [], dimNames := none, extra := [] }

/-- the setters of `ArrayBuilder` (each replaces one field) -/
inductive Setter where
  | shape (s : List Nat)
  | dataType (m : MetaV3)
  | chunkGrid (g : Grid)
  | fillValue (f : List Nat)
  | chunkKeyEncoding (c : Cke)
  | ckeDefaultSeparator (s : Sep)            -- `chunk_key_encoding_default_separator`
  | a2a (cs : List CodecB)                    -- `array_to_array_codecs` / `_named`
  | a2b (c : CodecB)                          -- `array_to_bytes_codec` / `_named`
  | b2b (cs : List CodecB)                    -- `bytes_to_bytes_codecs` / `_named`
  | attributes (a : Obj)
  | additionalFields (e : List (Str × AField))
  | dimensionNames (d : Option (List (Option Str)))
  | storageTransformers (st : List MetaV3)

def Setter.apply (b : BuilderState) : Setter → BuilderState
  | .shape s => { b with shape := s }
  | .dataType m => { b with dataType := m }
  | .chunkGrid g => { b with grid := g }
  | .fillValue f => { b with fill := f }
  | .chunkKeyEncoding c => { b with cke := c }
  | .ckeDefaultSeparator s => { b with cke := .default s }
  | .a2a cs => { b with a2a := cs }
  | .a2b c => { b with a2b := c }
  | .b2b cs => { b with b2b := cs }
  | .attributes a => { b with attrs := a }
  | .additionalFields e => { b with extra := e }
  | .dimensionNames d => { b with dimNames := d }
  | .storageTransformers st => { b with st := st }

def applyAll (b : BuilderState) (ss : List Setter) : BuilderState := ss.foldl Setter.apply b

inductive BuildErr where
  | gridRank (grid shape : Nat)      -- `InvalidChunkGridDimensionality`
  | dimNames (names shape : Nat)     -- `InvalidDimensionNames`
  | fill                             -- `IncompatibleFillValueError`
  | plugin                           -- `Array::new_with_metadata` refuses the document it is handed
deriving Repr, DecidableEq

/-- `CodecChain::new_named(..).create_metadatas()`: array-to-array codecs, the array-to-bytes codec, bytes-to-bytes
    codecs, in that order, without those that write no metadata -/
def codecMetas (b : BuilderState) : List MetaV3 :=
  b.a2a.filterMap CodecB.toMeta ++ b.a2b.toMeta.toList ++ b.b2b.filterMap CodecB.toMeta

/-- the document `ArrayBuilder::build` creates (`ArrayMetadataV3::new(..).with_*`), after its own checks: the chunk
    grid's dimensionality and the number of dimension names must equal the rank of the shape, and the fill value must
    fit the data type (`F` is `DataType::metadata_fill_value`: `none` is `IncompatibleFillValueError`) -/
def builderDoc (F : MetaV3 → List Nat → Option J) (b : BuilderState) : Except BuildErr ArrayDoc :=
  if b.grid.rank != b.shape.length then .error (.gridRank b.grid.rank b.shape.length) else
  match (match b.dimNames with | some ns => if ns.length != b.shape.length then some ns.length else none | none => none) with
  | some n => .error (.dimNames n b.shape.length)
  | none =>
    match F b.dataType b.fill with
    | none => .error .fill
    | some f =>
      .ok { shape := b.shape.map FillMeta.natTok, dataType := b.dataType, chunkGrid := b.grid.toMeta,
            cke := b.cke.toMeta, fill := f, codecs := codecMetas b, attrs := b.attrs, st := b.st,
            dimNames := b.dimNames, extra := b.extra }

/-- `ArrayBuilder::build`: the document, if `Array::new_with_metadata` creates the array from it.  `plug` is the
    plugins' acceptance of the document's data type, chunk grid, fill value, codecs, storage transformers and chunk key
    encoding (`Array::new_with_metadata` repeats the two rank checks, which then hold, and does NOT look at the
    additional fields). -/
def build (F : MetaV3 → List Nat → Option J) (plug : ArrayDoc → Bool) (b : BuilderState) : Except BuildErr ArrayDoc :=
  match builderDoc F b with
  | .ok d => if plug d then .ok d else .error .plugin
  | .error e => .error e

/-! ### `Array::builder()` -/

/-- what the plugins re-create from the metadata of an opened array: `data_type().metadata()`,
    `chunk_grid().create_metadata()` with its dimensionality, `chunk_key_encoding().create_metadata()`, and for each codec of the document the codec created from it (`none`: a
    codec that need not be understood and was skipped) -/
structure Recreate where
  dt : MetaV3 → MetaV3
  grid : MetaV3 → Grid
  cke : MetaV3 → Cke
  codec : MetaV3 → Option CodecB

/-- how `CodecChain::from_metadata` sorted the codecs of the document -/
structure ChainSplit where
  a2a : List MetaV3
  a2b : MetaV3
  b2b : List MetaV3

/-- `ArrayBuilder::from_array(array)` for an array opened from document `d` (`ArrayBuilder::new` from the array's
    shape, data type, chunk grid and fill value, then every other field copied through the setters; the codecs are the
    array's own, under their names) -/
def ofArray (R : Recreate) (d : ArrayDoc) (shape : List Nat) (fill : List Nat) (split : ChainSplit) (a2b : CodecB) :
    BuilderState :=
  { shape, dataType := R.dt d.dataType, grid := R.grid d.chunkGrid, fill,
    cke := R.cke d.cke, a2a := split.a2a.filterMap R.codec, a2b, b2b := split.b2b.filterMap R.codec,
    st := [], attrs := d.attrs, dimNames := d.dimNames, extra := d.extra }

/-! ### `GroupBuilder` -/

structure GroupBuilderState where
  attrs : Obj := []
  extra : List (Str × AField) := []

inductive GroupSetter where
  | attributes (a : Obj)
  | additionalFields (e : List (Str × AField))

def GroupSetter.apply (b : GroupBuilderState) : GroupSetter → GroupBuilderState
  | .attributes a => { b with attrs := a }
  | .additionalFields e => { b with extra := e }

/-- `GroupBuilder::build`: `Group::new_with_metadata` with the V3 document; only the path can be refused -/
def groupBuilderDoc (b : GroupBuilderState) : GroupDoc := ⟨b.attrs, b.extra⟩

end Zarrs.Builder
