import ZarrsModel.Model.Json
import ZarrsModel.Model.Meta
import ZarrsModel.Model.MetaV2
/-
Layer E: the metadata OPTIONS applied when metadata is written out: `Array::metadata_opt` /
`Array::store_metadata_opt` (zarrs/src/array.rs, zarrs/src/array/array_sync_writable.rs) with `ArrayMetadataOptions`
(zarrs/src/array/array_metadata_options.rs) and `Group::metadata_opt` / `Group::store_metadata_opt`
(zarrs/src/group.rs) with `GroupMetadataOptions` (zarrs/src/group/group_metadata_options.rs), on the document models
of `Model/Meta.lean` (V3) and `Model/MetaV2.lean` (V2 and the V2 -> V3 conversion).

What is modelled exactly: the `_zarrs` attribute, the version conversion, the NAMES of codecs and data types (alias ->
identifier -> default name, `ExtensionAliases` of zarrs_metadata/src/extension/extension_aliases.rs with the default
tables of `extension_aliases_codec.rs` / `extension_aliases_data_type.rs`), the regrouping of the V3 codec list by
codec kind and the dropping of encode-only codecs (`CodecChain::from_metadata` / `create_metadatas_opt`,
zarrs/src/array/codec/array_to_bytes/codec_chain.rs), and which keys of the store are written and read back.
What is opaque: whether a codec plugin accepts a configuration and the configuration it writes back
(`CodecTraits::configuration_opt`) — the `Plug` oracle.
-/
namespace Zarrs.MetaOpts
open Zarrs.Json Zarrs.Meta Zarrs.MetaV2

/-! ### the options -/

/-- `MetadataConvertVersion` (zarrs/src/config.rs): keep the version of the handle, or write Zarr V3 -/
inductive ConvertVersion where
  | default | v3
deriving DecidableEq, Inhabited, Repr

/-- `ArrayMetadataOptions` (array_metadata_options.rs) with its `CodecMetadataOptions` (codec/options.rs) flattened:
    `convert_version`, `include_zarrs_metadata`, `convert_aliased_extension_names`,
    `codec_options.experimental_codec_store_metadata_if_encode_only`.
    (`GroupMetadataOptions` only has `convert_version`.) -/
structure Opts where
  convertVersion : ConvertVersion
  includeZarrs : Bool
  convertAliased : Bool
  storeEncodeOnly : Bool
deriving DecidableEq, Inhabited, Repr

/-- `Config::default()` (config.rs: `metadata_convert_version: Default`, `include_zarrs_metadata: true`,
    `convert_aliased_extension_names: false`) and the derived `CodecMetadataOptions::default()` (`false`) -/
def Opts.dflt : Opts := ⟨.default, true, false, false⟩

/-- every setting of the options -/
def Opts.all : List Opts :=
  [ConvertVersion.default, ConvertVersion.v3].flatMap (fun v =>
    [false, true].flatMap (fun z => [false, true].flatMap (fun a => [false, true].map (fun e => ⟨v, z, a, e⟩))))

/-! ### `ExtensionAliases` (zarrs_metadata/src/extension/extension_aliases.rs) -/

/-- `ExtensionAliases { default_names, aliases_str, aliases_regex }`.  The two `HashMap`s are transcribed as
    association lists (their keys are pairwise distinct: `Props/C13Opts.lean`, `tables_functional`, so the first
    match of a list lookup is the only one); a regex is its matching predicate. -/
structure Aliases where
  defaultNames : List (Str × Str)          -- identifier -> default `name`
  aliasesStr : List (Str × Str)            -- alias -> identifier
  aliasesRegex : List ((Str → Bool) × Str) -- regex -> identifier

/-- `ExtensionAliases::identifier`: a string alias, else the first matching regex (whose identifier is looked up
    among the string aliases once more), else the name itself -/
def Aliases.identifier (a : Aliases) (name : Str) : Str :=
  match tblGet a.aliasesStr name with
  | some i => i
  | none =>
    match a.aliasesRegex.find? (fun r => r.1 name) with
    | some r => (tblGet a.aliasesStr r.2).getD r.2
    | none => name

/-- `ExtensionAliases::default_name` -/
def Aliases.defaultName (a : Aliases) (ident : Str) : Str := (tblGet a.defaultNames ident).getD ident

/-- what `metadata_opt` does to a name under `convert_aliased_extension_names`:
    `aliases.default_name(aliases.identifier(name))` -/
def Aliases.convert (a : Aliases) (name : Str) : Str := a.defaultName (a.identifier name)

/-- `ExtensionAliasesCodecV3::default()` string aliases (extension_aliases_codec.rs), in source order -/
def codecAliasStrV3 : List (Str × Str) := tbl
  [("endian", "bytes"),                                   -- core: changed to bytes after provisional acceptance
   ("zarrs.squeeze", "squeeze"), ("zarrs.vlen", "vlen"), ("zarrs.vlen_v2", "vlen_v2"), ("zarrs.zfp", "zfp"),
   ("zarrs.gdeflate", "gdeflate"),                        -- zarrs 0.20
   ("numcodecs.bitround", "bitround"), ("numcodecs.fixedscaleoffset", "fixedscaleoffset"),
   ("numcodecs.pcodec", "pcodec"), ("numcodecs.zfpy", "zfpy"), ("numcodecs.bz2", "bz2"),
   ("numcodecs.fletcher32", "fletcher32"), ("numcodecs.shuffle", "shuffle"), ("numcodecs.zlib", "zlib"),
                                                          -- zarrs 0.20 / zarr-python 3.0
   ("https://codec.zarrs.dev/array_to_bytes/bitround", "bitround"),
   ("https://codec.zarrs.dev/array_to_bytes/pcodec", "pcodec"),
   ("https://codec.zarrs.dev/array_to_bytes/vlen", "vlen"),
   ("https://codec.zarrs.dev/array_to_bytes/vlen_v2", "vlen_v2"),
   ("https://codec.zarrs.dev/array_to_bytes/zfp", "zfp"),
   ("https://codec.zarrs.dev/bytes_to_bytes/bz2", "bz2"),
   ("https://codec.zarrs.dev/bytes_to_bytes/fletcher32", "fletcher32"),
   ("https://codec.zarrs.dev/bytes_to_bytes/gdeflate", "gdeflate")]   -- zarrs < 0.20

/-- `ExtensionAliasesCodecV2::default()` default names (extension_aliases_codec.rs) -/
def codecNamesV2 : List (Str × Str) := tbl
  [("squeeze", "zarrs.squeeze"), ("vlen", "zarrs.vlen"), ("vlen_v2", "zarrs.vlen_v2"), ("zfp", "zarrs.zfp"),
   ("gdeflate", "zarrs.gdeflate")]

/-- `ExtensionAliasesDataTypeV3::default()` string aliases (extension_aliases_data_type.rs):
    `binary` (ZEP0007) for `bytes` (zarr-python); no default names, no regex -/
def dtypeAliasStrV3 : List (Str × Str) := tbl [("binary", "bytes")]

/-- `Config::codec_aliases_v3()` (config.rs: `ExtensionAliasesCodecV3::default()`); the default names are
    `MetaV2.codecNamesV3` -/
def codecV3 : Aliases := ⟨codecNamesV3, codecAliasStrV3, []⟩
/-- `Config::codec_aliases_v2()`; the string aliases are `MetaV2.codecAliasesV2` -/
def codecV2 : Aliases := ⟨codecNamesV2, codecAliasesV2, []⟩
/-- `Config::data_type_aliases_v3()` -/
def dtypeV3 : Aliases := ⟨[], dtypeAliasStrV3, []⟩
/-- `Config::data_type_aliases_v2()`: the string aliases are `MetaV2.dtypeAliasesV2`, the one regex `^\|V\d+$`
    (ASCII digits: `MetaV2.isVoidName`) maps to `bytes` -/
def dtypeV2 : Aliases := ⟨[], dtypeAliasesV2, [(isVoidName, ascii "bytes")]⟩

/-! ### data types (`DataType::from_metadata`, zarrs_data_type/src/data_type.rs) -/

/-- the names matched directly (before any alias is looked at) -/
def builtinDataTypes : List Str :=
  ["bool", "int8", "int16", "int32", "int64", "uint8", "uint16", "uint32", "uint64", "float16", "float32", "float64",
   "bfloat16", "complex64", "complex128", "string", "bytes"].map ascii

/-- `r<bits>`: `name.starts_with('r') && name.len() > 1`, `name[1..].parse::<usize>()` succeeds (an optional `+`,
    digits, below 2^64) and the size is a multiple of 8 -/
def rawBitsOk (name : Str) : Bool :=
  match name with
  | 114 :: rest =>
    !rest.isEmpty &&
    (match (match rest with | 43 :: r => parseDigits r | r => parseDigits r) with
     | some bits => bits < 2 ^ 64 && bits % 8 == 0
     | none => false)
  | _ => false

/-- `DataType::from_metadata`: `must_understand` must hold; with no (or an empty) configuration the name is matched
    against the built-in names and `r<bits>`; everything else is looked for (by `data_type_aliases_v3.identifier`)
    among the registered `DataTypePlugin`s, of which the library registers none (`inventory::submit!` of a
    `DataTypePlugin` only occurs in zarrs/examples) — so it is rejected.  In particular the one V3 data type alias,
    `binary`, is never accepted. -/
def dataTypeOk (m : MetaV3) : Bool :=
  m.mu && (match m.config with | none => true | some c => c.isEmpty) &&
  (builtinDataTypes.contains m.name || rawBitsOk m.name)

/-! ### the codec chain (`CodecChain`, codec_chain.rs; `NamedCodec`, named_codec.rs) -/

inductive Kind where
  | a2a | a2b | b2b
deriving DecidableEq, Inhabited, Repr

/-- the codec kinds by identifier: the `inventory::submit!` registrations under zarrs/src/array/codec/
    (array_to_array/{transpose,fixedscaleoffset,squeeze,bitround}.rs, array_to_bytes/{bytes,vlen,pcodec,vlen_v2,
    packbits,zfp,zfpy,sharding}.rs, bytes_to_bytes/{zstd,bz2,fletcher32,gzip,gdeflate,zlib,blosc,crc32c,shuffle}.rs);
    each plugin matches exactly its identifier (`is_identifier_*`) -/
def codecKinds : List (Str × Kind) :=
  [("transpose", Kind.a2a), ("fixedscaleoffset", .a2a), ("squeeze", .a2a), ("bitround", .a2a),
   ("bytes", .a2b), ("vlen", .a2b), ("pcodec", .a2b), ("vlen_v2", .a2b), ("vlen-array", .a2b), ("vlen-bytes", .a2b),
   ("vlen-utf8", .a2b), ("packbits", .a2b), ("zfp", .a2b), ("zfpy", .a2b), ("sharding_indexed", .a2b),
   ("zstd", .b2b), ("bz2", .b2b), ("fletcher32", .b2b), ("gzip", .b2b), ("gdeflate", .b2b), ("zlib", .b2b),
   ("blosc", .b2b), ("crc32c", .b2b), ("shuffle", .b2b)].map (fun p => (ascii p.1, p.2))

def codecKind (ident : Str) : Option Kind := (codecKinds.find? (·.1 == ident)).map (·.2)

/-- the codecs whose `configuration_opt` is `None` unless `experimental_codec_store_metadata_if_encode_only` is set:
    only `bitround` (array_to_array/bitround/bitround_codec.rs) -/
def encodeOnlyIdents : List Str := [ascii "bitround"]

/-- what a codec plugin creates from a configuration, as far as the metadata is concerned -/
structure Created where
  kind : Kind
  config : Obj         -- the configuration the codec writes (`configuration_opt` when it is not `None`)
  encodeOnly : Bool    -- `configuration_opt` is `None` unless the encode-only option is set

/-- the codec plugins: identifier and the configuration of the metadata (`plugin.create(metadata)` reads nothing
    else: no `create_codec_*` function looks at the name or at `must_understand`); `none` = creation failed (no
    plugin with that identifier, or the configuration is refused) -/
abbrev Plug := Str → Option Obj → Option Created

/-- `NamedCodec`: the name the metadata gave, and the codec -/
structure Named where
  name : Str
  codec : Created

/-- `CodecChain { array_to_array, array_to_bytes, bytes_to_bytes }` -/
structure Chain where
  a2a : List Named
  a2b : Named
  b2b : List Named

def Chain.all (c : Chain) : List Named := c.a2a ++ [c.a2b] ++ c.b2b

structure Acc where
  a2a : List Named
  a2b : Option Named
  b2b : List Named

/-- one round of the loop of `CodecChain::from_metadata`: `Codec::from_metadata(metadata, codec_aliases_v3)` resolves
    the identifier and asks the plugin; a codec that cannot be created is an error when it must be understood and is
    skipped otherwise; a second array-to-bytes codec is an error.  The position of a codec in the list is not
    looked at. -/
def chainStep (plug : Plug) (acc : Acc) (m : MetaV3) : Option Acc :=
  match plug (codecV3.identifier m.name) m.config with
  | none => if m.mu then none else some acc
  | some c =>
    match c.kind with
    | .a2a => some { acc with a2a := acc.a2a ++ [⟨m.name, c⟩] }
    | .a2b => if acc.a2b.isSome then none else some { acc with a2b := some ⟨m.name, c⟩ }
    | .b2b => some { acc with b2b := acc.b2b ++ [⟨m.name, c⟩] }

def chainFold (plug : Plug) : Acc → List MetaV3 → Option Acc
  | acc, [] => some acc
  | acc, m :: ms =>
    match chainStep plug acc m with
    | none => none
    | some acc' => chainFold plug acc' ms

/-- `CodecChain::from_metadata`: the array-to-bytes codec must be there -/
def chainOf (plug : Plug) (ms : List MetaV3) : Option Chain :=
  match chainFold plug ⟨[], none, []⟩ ms with
  | some ⟨a, some b, c⟩ => some ⟨a, b, c⟩
  | _ => none

/-- `MetadataV3::new_with_configuration(codec.name(), configuration)`: the name given, the configuration the codec
    writes, `must_understand: true` -/
def Named.toMeta (n : Named) : MetaV3 := ⟨n.name, some n.codec.config, true⟩

/-- does `configuration_opt` give `Some` -/
def Named.written (o : Opts) (n : Named) : Bool := !n.codec.encodeOnly || o.storeEncodeOnly

/-- `CodecChain::create_metadatas_opt`: array-to-array codecs, the array-to-bytes codec, bytes-to-bytes codecs, each
    left out when its `configuration_opt` is `None` -/
def Chain.metadatas (o : Opts) (c : Chain) : List MetaV3 := (c.all.filter (Named.written o)).map Named.toMeta

/-! ### the `_zarrs` attribute -/

def kZarrs : Str := ascii "_zarrs"

/-- `env!("CARGO_PKG_REPOSITORY")`, `env!("CARGO_PKG_VERSION")` of the `zarrs` crate (zarrs/Cargo.toml) -/
def pkgRepository : Str := ascii "https://github.com/LDeakin/zarrs"
def pkgVersion : Str := ascii "0.20.0-dev"

/-- `serde_json::to_value(ZarrsMetadata { description, repository, version })` (array.rs, `metadata_opt`) -/
def zarrsValue : J :=
  .obj [(ascii "description", .str (ascii "This array was created with zarrs")),
        (ascii "repository", .str pkgRepository), (ascii "version", .str pkgVersion)]

/-- `serde_json::Map::insert` (built with `preserve_order`, an `IndexMap`): an existing key keeps its place and
    gets the new value, a new key goes to the end -/
def mapInsert (o : Obj) (k : Str) (v : J) : Obj :=
  if (lookup o k).isSome then o.map (fun kv => if kv.1 == k then (kv.1, v) else kv) else o ++ [(k, v)]

def withZarrs (o : Opts) (attrs : Obj) : Obj := if o.includeZarrs then mapInsert attrs kZarrs zarrsValue else attrs

/-! ### alias conversion of a document (`metadata_opt`, "Convert aliased extension names") -/

def renameV3 (a : Aliases) (m : MetaV3) : MetaV3 := { m with name := a.convert m.name }
def renameV2 (a : Aliases) (m : MetaV2) : MetaV2 := { m with id := a.convert m.id }

/-- V3: every (top-level) codec name and the data type name; configurations — the codecs nested in a
    `sharding_indexed` configuration among them — are not touched -/
def aliasV3 (d : ArrayDoc) : ArrayDoc :=
  { d with codecs := d.codecs.map (renameV3 codecV3), dataType := renameV3 dtypeV3 d.dataType }

/-- V2: the ids of the filters and of the compressor through the V2 codec aliases; the data type is left as given (a
    NumPy typestr carries the byte order; the V2 data type aliases only lead to identifiers such as `int16`, which
    are not V2 data types) -/
def aliasV2 (d : ArrayDocV2) : ArrayDocV2 :=
  { d with filters := d.filters.map (·.map (renameV2 codecV2)), compressor := d.compressor.map (renameV2 codecV2) }

/-- the behaviour before the repair (kept for the counterexample theorem): the V2 data type name is rewritten too -/
def aliasV2Unrepaired (d : ArrayDocV2) : ArrayDocV2 :=
  { aliasV2 d with dtype := match d.dtype with
      | .simple s => .simple (dtypeV2.convert s)
      | t => t }

/-! ### arrays -/

/-- an `Array` as far as `metadata_opt` reads it: the metadata it was created with (`self.metadata`) and, for V3, the
    codec chain (`self.codecs`) -/
inductive Handle where
  | v3 (d : ArrayDoc) (chain : Chain)
  | v2 (d : ArrayDocV2)

/-- `ArrayMetadata` -/
inductive ArrayOut where
  | v3 (d : ArrayDoc)
  | v2 (d : ArrayDocV2)

/-- `Array::metadata_opt`.  In order: the `_zarrs` attribute; V3: the codec metadata re-created from the chain (V2:
    nothing); the version conversion (`array_metadata_v2_to_v3` with the global alias tables; a failure is the panic
    `expect("conversion succeeded on array creation")`: `none`); the alias conversion of what is then there. -/
def metadataOpt (o : Opts) : Handle → Option ArrayOut
  | .v3 d ch =>
    let d1 : ArrayDoc := { d with attrs := withZarrs o d.attrs, codecs := ch.metadatas o }
    some (.v3 (if o.convertAliased then aliasV3 d1 else d1))
  | .v2 d =>
    let d1 : ArrayDocV2 := { d with attrs := withZarrs o d.attrs }
    match o.convertVersion with
    | .default => some (.v2 (if o.convertAliased then aliasV2 d1 else d1))
    | .v3 =>
      match v2ToV3 d1 with
      | .ok v => some (.v3 (if o.convertAliased then aliasV3 v else v))
      | .error _ => none

/-- `Array::new_with_metadata` for a V3 document, beyond the acceptance of the chunk grid (whose rank is `gridRank`),
    the chunk key encoding and the fill value by their plugins: the structural checks of `Meta.openOk`, the data type,
    the codec chain -/
def openV3 (plug : Plug) (gridRank : Nat) (d : ArrayDoc) : Option Handle :=
  if openOk d gridRank && dataTypeOk d.dataType then (chainOf plug d.codecs).map (Handle.v3 d) else none

/-- the same for a V2 document: it is converted, and what the conversion gives must be accepted -/
def openV2 (plug : Plug) (d : ArrayDocV2) : Option Handle :=
  if openOkV2 d then
    match v2ToV3 d with
    | .ok v => if dataTypeOk v.dataType && (chainOf plug v.codecs).isSome then some (.v2 d) else none
    | .error _ => none
  else none

/-! ### the keys of a node in the store -/

/-- the metadata keys of one node: `zarr.json`, `.zarray` / `.zgroup`, `.zattrs` -/
structure NodeKeys where
  zarrJson : Option (List Nat) := none
  v2meta : Option (List Nat) := none
  zattrs : Option (List Nat) := none

/-- `Array::store_metadata_opt` after `metadata_opt` (array_sync_writable.rs): V3 writes `zarr.json`; V2 writes
    non-empty attributes to `.zattrs` (erasing that key otherwise) and `.zarray` without them.  Other keys stay. -/
def storeArray (k : NodeKeys) : ArrayOut → NodeKeys
  | .v3 d => { k with zarrJson := some d.toText }
  | .v2 d => { k with v2meta := some d.storeTexts.1, zattrs := d.storeTexts.2 }

/-- `Array::open_metadata` with `MetadataRetrieveVersion::Default` (array_sync_readable.rs): `zarr.json` first (when
    it is there and does not parse, that is an error: `.zarray` is not tried), then `.zarray` with `.zattrs` -/
def openArrayKeys (k : NodeKeys) : Option ArrayOut :=
  match k.zarrJson with
  | some t => (ArrayDoc.ofText t).map .v3
  | none =>
    match k.v2meta with
    | some t => (ArrayDocV2.openTexts t k.zattrs).map .v2
    | none => none

/-- `Array::open`: the metadata read, then `new_with_metadata` -/
def openArray (plug : Plug) (gridRank : Nat) (k : NodeKeys) : Option Handle :=
  match openArrayKeys k with
  | some (.v3 d) => openV3 plug gridRank d
  | some (.v2 d) => openV2 plug d
  | none => none

/-! ### groups -/

/-- `GroupMetadata` -/
inductive GroupOut where
  | v3 (d : GroupDoc)
  | v2 (d : GroupDocV2)

/-- `Group::metadata_opt`: only the version conversion (`group_metadata_v2_to_v3`); no `_zarrs` attribute, no names -/
def groupMetadataOpt (o : Opts) : GroupOut → GroupOut
  | .v3 d => .v3 d
  | .v2 d => match o.convertVersion with
    | .default => .v2 d
    | .v3 => .v3 (groupV2ToV3 d)

/-- `Group::store_metadata_opt`: as for arrays, with `.zgroup` -/
def storeGroup (k : NodeKeys) : GroupOut → NodeKeys
  | .v3 d => { k with zarrJson := some d.toText }
  | .v2 d =>
    { k with v2meta := some ({ d with attrs := [] } : GroupDocV2).toText,
             zattrs := if d.attrs.isEmpty then none else some (print (.obj d.attrs)) }

/-- `Group::open_metadata` followed by `validate_metadata` (no additional field that must be understood) -/
def openGroup (k : NodeKeys) : Option GroupOut :=
  match k.zarrJson with
  | some t =>
    match GroupDoc.ofText t with
    | some d => if groupOk d then some (.v3 d) else none
    | none => none
  | none =>
    match k.v2meta with
    | some t =>
      match GroupDocV2.ofText t with
      | some d =>
        let d' : Option GroupDocV2 := match k.zattrs with
          | none => some d
          | some a => match parse a with
            | some (.obj o) => some { d with attrs := o }
            | _ => none
        match d' with
        | some d' => if d'.extra.all (fun kv => !kv.2.mu) then some (.v2 d') else none
        | none => none
      | none => none
    | none => none

end Zarrs.MetaOpts
