import ZarrsModel.Model.Iter
/-
Chunk grids: zarrs/src/array/chunk_grid/{regular,rectangular}.rs and the default methods of
`ChunkGridTraits` in zarrs/src/array/chunk_grid.rs.  A regular grid is a rectangular grid whose
dimensions are all `fixed` (the two Rust implementations coincide on that fragment; both are corresponded).
-/
namespace Zarrs

/-- configuration of one dimension (`RectangularChunkGridDimensionConfiguration`) -/
inductive DimCfg where
  | fixed (s : Nat)
  | varying (sizes : List Nat)
deriving Repr, DecidableEq

/-- `scan` of `RectangularChunkGrid::new`: (offset, size) pairs with running offsets -/
def scanOffsets : Nat → List Nat → List (Nat × Nat)
  | _, [] => []
  | off, s :: ss => (off, s) :: scanOffsets (off + s) ss

/-- run-time form of one dimension (`RectangularChunkGridDimension`) -/
inductive Dim where
  | fixed (s : Nat)
  | varying (os : List (Nat × Nat))
deriving Repr, DecidableEq

def Dim.new : DimCfg → Dim
  | .fixed s => .fixed s
  | .varying sizes => .varying (scanOffsets 0 sizes)

/-- `create_metadata` -/
def Dim.toCfg : Dim → DimCfg
  | .fixed s => .fixed s
  | .varying os => .varying (os.map (·.2))

/-- `last.offset + last.size`; an empty list covers extent 0 (repaired code, see known_findings `fixed:` C10) -/
def lastEnd (os : List (Nat × Nat)) : Nat :=
  match os.getLast? with
  | some (o, s) => o + s
  | none => 0

/-- `partition_point(|os| index >= os.offset)` on offsets sorted ascending: length of the satisfying prefix -/
def partitionPoint (i : Nat) : List (Nat × Nat) → Nat
  | [] => 0
  | (o, _) :: rest => if i ≥ o then 1 + partitionPoint i rest else 0

namespace Dim

def gridShape : Dim → Nat → Option Nat
  | .fixed s, a => some ((a + s - 1) / s)          -- `a.div_ceil(s)`
  | .varying os, a => if a == lastEnd os then some os.length else none

def chunkShape : Dim → Nat → Option Nat
  | .fixed s, _ => some s
  | .varying os, c => (os[c]?).map (·.2)

def origin : Dim → Nat → Option Nat
  | .fixed s, c => some (c * s)
  | .varying os, c => (os[c]?).map (·.1)

def chunkIndex : Dim → Nat → Option Nat
  | .fixed s, i => some (i / s)
  | .varying os, i => if i < lastEnd os then some (max (partitionPoint i os) 1 - 1) else none

def elemIndex : Dim → Nat → Option Nat
  | .fixed s, i => some (i % s)
  | .varying os, i =>
    match chunkIndex (.varying os) i with
    | some c => (origin (.varying os) c).map (fun o => i - o)
    | none => none

/-- the extra per-dimension test of `RectangularChunkGrid::array_indices_inbounds` -/
def indexInGrid : Dim → Nat → Bool
  | .fixed _, _ => true
  | .varying os, i => match os.getLast? with
    | some (o, s) => decide (i < o + s)
    | none => false

end Dim

abbrev Grid := List Dim

/-- `zip(...).map(f).collect::<Option<Vec<_>>>()` -/
def zipOpt {α β γ} (f : α → β → Option γ) : List α → List β → Option (List γ)
  | a :: as, b :: bs =>
    match f a b, zipOpt f as bs with
    | some c, some cs => some (c :: cs)
    | _, _ => none
  | _, _ => some []

namespace Grid

def new (cfg : List DimCfg) : Grid := cfg.map Dim.new
def toCfg (g : Grid) : List DimCfg := g.map Dim.toCfg
def regular (cs : Shape) : Grid := cs.map Dim.fixed

def gridShape (g : Grid) (arr : Shape) : Option Shape := zipOpt (fun d a => d.gridShape a) g arr
def chunkShape (g : Grid) (c : Idx) : Option Shape := zipOpt (fun d c => d.chunkShape c) g c
def chunkOrigin (g : Grid) (c : Idx) : Option Idx := zipOpt (fun d c => d.origin c) g c
def chunkIndices (g : Grid) (i : Idx) : Option Idx := zipOpt (fun d i => d.chunkIndex i) g i
def chunkElementIndices (g : Grid) (i : Idx) : Option Idx := zipOpt (fun d i => d.elemIndex i) g i

/-- `subset_unchecked` -/
def subset (g : Grid) (c : Idx) : Option Subset :=
  match g.chunkOrigin c, g.chunkShape c with
  | some o, some s => some ⟨o, s⟩
  | _, _ => none

/-- `chunks_subset(chunks)` : the array region covered by a box of chunks -/
def chunksSubset (g : Grid) (chunks : Subset) : Option Subset :=
  match chunks.endInc with
  | some e =>
    match g.subset chunks.start, g.subset e with
    | some c0, some c1 => some (Subset.ofStartEndExc c0.start c1.endExc)
    | _, _ => none
  | none => some (Subset.newEmpty chunks.rank)

/-- `chunks_in_array_subset(region)`: the box of chunks meeting a region -/
def chunksInArraySubset (g : Grid) (r : Subset) (arr : Shape) : Option Subset :=
  match r.endInc with
  | some e =>
    let cend := match g.chunkIndices e with
      | some c => some c
      | none => g.gridShape arr
    match g.chunkIndices r.start, cend with
    | some cs, some ce => some ⟨cs, (Subset.zipSub ce cs).map (· + 1)⟩
    | _, _ => none
  | none => some (Subset.newEmpty g.length)

/-- default `array_indices_inbounds` (regular) and the rectangular override -/
def arrayIndicesInbounds (g : Grid) (i : Idx) (arr : Shape) : Bool :=
  i.length == g.length && arr.length == g.length &&
  (List.zipWith (fun (ia : Nat × Nat) (d : Dim) => (ia.2 == 0 || decide (ia.1 < ia.2)) && d.indexInGrid ia.1) (i.zip arr) g).all id

def chunkIndicesInbounds (g : Grid) (c : Idx) (arr : Shape) : Bool :=
  c.length == g.length && arr.length == g.length &&
  match g.gridShape arr with
  | some gs => (List.zipWith (fun (i s : Nat) => s == 0 || decide (i < s)) c gs).all id
  | none => false

/-- grid well-formedness: chunk sizes are `NonZeroU64` in Rust -/
def wfDim : Dim → Bool
  | .fixed s => decide (0 < s)
  | .varying os => os.all (fun p => decide (0 < p.2))
def wf (g : Grid) : Bool := g.all wfDim

end Grid
end Zarrs
