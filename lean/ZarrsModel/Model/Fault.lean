import ZarrsModel.Model.Array
/-
Store failures (C20).  Every array method is a sequence of store operations; a failing store operation makes
the per-chunk step fail (`none`), `?` propagates it, and on the whole-chunk write paths the per-chunk steps that
did run are complete single-key writes.  With internal parallelism ANY subset of the other chunks' steps may have
run before the failure is reported, so the state after a failed multi-chunk write is "the per-chunk steps of some
sub-list `done` of the chunks applied".
-/
namespace Zarrs

variable {α : Type} [BEq α]

/-- the per-chunk step of `store_array_subset_opt` (the `store_chunk` closure) -/
def ArrCfg.storeArraySubsetChunk (cfg : ArrCfg α) (region : Subset) (data : List α) (st : KV) (c : Idx) : Option KV :=
  match cfg.chunkSubset c with
  | none => none
  | some cs =>
    let ov := region.overlap cs
    cfg.storeChunkSubset st c (ov.relativeTo cs.start) ((ov.relativeTo region.start).extract region.shape data)

/-- the per-chunk step of `store_chunks_opt` -/
def ArrCfg.storeChunksChunk (cfg : ArrCfg α) (region : Subset) (data : List α) (st : KV) (c : Idx) : Option KV :=
  match cfg.chunkSubset c with
  | none => none
  | some cs => cfg.storeChunk st c ((cs.relativeTo region.start).extract region.shape data)

/-- a step that fails when the store fails on this chunk (fault set `F`) -/
def withFaults {σ} (F : Idx → Bool) (step : σ → Idx → Option σ) : σ → Idx → Option σ :=
  fun s c => if F c then none else step s c

end Zarrs
