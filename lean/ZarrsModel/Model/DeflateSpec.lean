import ZarrsModel.Model.Inflate
/-
RFC 1951 (DEFLATE) as a SPECIFICATION OF WHAT A CONFORMANT WRITER MAY EMIT — the counterpart of the decoder
`Zarrs.Inflate.inflate` (which is the specification-level reader of property C12).  Nothing here is used by the reader;
`Props/C12Deflate.lean` proves that the reader accepts every stream described here and returns the rendering of
its tokens.  The Rust side (zarrs' `gzip` and `zlib` codecs: `zarrs/src/array/codec/bytes_to_bytes/gzip/gzip_codec.rs`
`GzipCodec::decode`, `…/zlib/zlib_codec.rs` `ZlibCodec::decode`, both `flate2::bufread::{GzDecoder, ZlibDecoder}`) is
tied to this writer by the driver lines `c12 zinflate` (streams generated from this file, decoded by zarrs).

Sections of RFC 1951 are cited at each definition.
-/
namespace Zarrs.DeflateSpec
open Zarrs Zarrs.Inflate

/-! ### LZ77 tokens and their meaning (RFC 1951 §3.2.3: "literal bytes" and "<length, backward distance> pairs") -/

inductive Token where
  | lit (b : Nat)
  | copy (len dist : Nat)
deriving Repr, DecidableEq, Inhabited

/-- "move backward distance bytes in the output stream, and copy length bytes from this position to the output stream":
    one byte at a time, so that the referenced string "may overlap the current position" (§3.2.3) -/
def copyFrom : Nat → Nat → Bytes → Bytes
  | 0, _, out => out
  | n + 1, dist, out => copyFrom n dist (out ++ [out.getD (out.length - dist) 0])

/-- a token that the format can represent: a byte; a length 3..258 with a distance 1..32768 (§3.2.5) -/
def Token.ok : Token → Bool
  | .lit b => decide (b < 256)
  | .copy len dist => decide (3 ≤ len) && decide (len ≤ 258) && decide (1 ≤ dist) && decide (dist ≤ 32768)

/-- one token applied to everything produced so far (the history of earlier blocks included) -/
def renderTok (out : Bytes) : Token → Option Bytes
  | .lit b => if b < 256 then some (out ++ [b]) else none
  | .copy len dist =>
    if 3 ≤ len ∧ len ≤ 258 ∧ 1 ≤ dist ∧ dist ≤ 32768 ∧ dist ≤ out.length then some (copyFrom len dist out) else none

/-- `render tokens history`: history followed by what the tokens produce; `none` when a distance reaches before the
    start of the output -/
def render : List Token → Bytes → Option Bytes
  | [], out => some out
  | t :: ts, out => match renderTok out t with
    | some out' => render ts out'
    | none => none

/-! ### canonical Huffman codes from code lengths (RFC 1951 §3.2.2) -/

/-- `bl_count[l]` ("bl_count[0] = 0") -/
def lenCount (lens : List Nat) (l : Nat) : Nat := if l = 0 then 0 else lens.count l

/-- `next_code[l]`: "code = (code + bl_count[bits-1]) << 1" -/
def firstCode (lens : List Nat) : Nat → Nat
  | 0 => 0
  | l + 1 => (firstCode lens l + lenCount lens l) * 2

/-- the code of symbol `s` as a number: codes of one length are consecutive, in symbol order -/
def codeNat (lens : List Nat) (s : Nat) : Nat :=
  firstCode lens (lens.getD s 0) + (lens.take s).count (lens.getD s 0)

/-- the code of symbol `s`, most significant bit first (§3.1.1: "Huffman codes are packed starting with the
    most-significant bit of the code"); symbols of length 0 have no code -/
def codeOf (lens : List Nat) (s : Nat) : Option Bits :=
  if lens.getD s 0 = 0 then none else some (bitsMsb (lens.getD s 0) (codeNat lens s))

/-- Kraft sum scaled by 2^15: Σ 2^(15 - len) over the symbols that have a code -/
def kraft (lens : List Nat) : Nat := (lens.map (fun l => if l = 0 then 0 else 2 ^ (15 - l))).sum

/-- a code-length assignment that describes a prefix code: lengths at most 15 and Kraft sum at most 1.  INCOMPLETE
    sets (sum < 1) are included — RFC 1951 itself prescribes one (a single distance code of one bit, §3.2.7) — and
    the reader accepts all of them (zlib accepts only that one).  The reader `Zarrs.Inflate` does not check anything:
    it also goes on with OVER-SUBSCRIBED sets (sum > 1, which zlib rejects), reading the first listed symbol whose
    (length, code) matches; such sets are outside this specification and outside the theorems. -/
def validLens (lens : List Nat) : Bool := lens.all (fun l => decide (l ≤ 15)) && decide (kraft lens ≤ 2 ^ 15)

/-! ### symbols of tokens (RFC 1951 §3.2.5) -/

/-- index of the last base value not above `x` in an ascending table -/
def symIdx : List Nat → Nat → Nat
  | [], _ => 0
  | [_], _ => 0
  | _ :: b :: bs, x => if x < b then 0 else symIdx (b :: bs) x + 1

/-- length code minus 257: 0..28 (258 is code 285, not 284 + 31) -/
def lenSym (len : Nat) : Nat := symIdx lenBase len
/-- distance code 0..29 -/
def distSym (dist : Nat) : Nat := symIdx distBase dist

/-- `n` extra bits, least significant first (§3.1.1: "data elements are packed … starting with the least-significant bit") -/
def bitsLsb (n v : Nat) : Bits := (List.range n).map (fun i => v / 2 ^ i % 2 == 1)

/-- the bits of one token under the two code-length assignments of the block -/
def encToken (litLens distLens : List Nat) : Token → Option Bits
  | .lit b => if b < 256 then codeOf litLens b else none
  | .copy len dist =>
    if 3 ≤ len ∧ len ≤ 258 ∧ 1 ≤ dist ∧ dist ≤ 32768 then
      match codeOf litLens (257 + lenSym len), codeOf distLens (distSym dist) with
      | some c1, some c2 =>
        some (c1 ++ bitsLsb (lenExtra.getD (lenSym len) 0) (len - lenBase.getD (lenSym len) 0) ++
          (c2 ++ bitsLsb (distExtra.getD (distSym dist) 0) (dist - distBase.getD (distSym dist) 0)))
      | _, _ => none
    else none

/-- all tokens, then the end-of-block symbol 256; `none` when a used symbol has no code -/
def encTokens (litLens distLens : List Nat) : List Token → Option Bits
  | [] => codeOf litLens 256
  | t :: ts => match encToken litLens distLens t, encTokens litLens distLens ts with
    | some a, some b => some (a ++ b)
    | _, _ => none

/-! ### the header of a dynamic block (RFC 1951 §3.2.7) -/

/-- symbols of the code-length alphabet; the argument of a repeat is the repeat count itself -/
inductive ClSym where
  | len (l : Nat)      -- 0..15: a code length
  | c16 (n : Nat)      -- copy the previous code length 3..6 times
  | c17 (n : Nat)      -- 3..10 zeros
  | c18 (n : Nat)      -- 11..138 zeros
deriving Repr, DecidableEq, Inhabited

/-- what a sequence of code-length symbols stands for, appended to `acc` ("the code length repeat codes can cross
    from HLIT + 257 to the HDIST + 1 code lengths") -/
def expandCl : List ClSym → List Nat → Option (List Nat)
  | [], acc => some acc
  | .len l :: r, acc => if l ≤ 15 then expandCl r (acc ++ [l]) else none
  | .c16 n :: r, acc =>
    match acc.getLast? with
    | some p => if 3 ≤ n ∧ n ≤ 6 then expandCl r (acc ++ List.replicate n p) else none
    | none => none
  | .c17 n :: r, acc => if 3 ≤ n ∧ n ≤ 10 then expandCl r (acc ++ List.replicate n 0) else none
  | .c18 n :: r, acc => if 11 ≤ n ∧ n ≤ 138 then expandCl r (acc ++ List.replicate n 0) else none

/-- the bits of one code-length symbol under the code lengths `cl` of the code-length alphabet -/
def encClSym (cl : List Nat) : ClSym → Option Bits
  | .len l => codeOf cl l
  | .c16 n => (codeOf cl 16).map (· ++ bitsLsb 2 (n - 3))
  | .c17 n => (codeOf cl 17).map (· ++ bitsLsb 3 (n - 3))
  | .c18 n => (codeOf cl 18).map (· ++ bitsLsb 7 (n - 11))

def encCl (cl : List Nat) : List ClSym → Option Bits
  | [] => some []
  | s :: r => match encClSym cl s, encCl cl r with
    | some a, some b => some (a ++ b)
    | _, _ => none

/-- everything a writer chooses for a dynamic block besides the tokens.  The run-length encoding `rle` of the code
    lengths is a PARAMETER: any sequence of code-length symbols that expands to `litLens ++ distLens`. -/
structure DynHeader where
  /-- HLIT + 257 code lengths of the literal/length alphabet -/
  litLens : List Nat
  /-- HDIST + 1 code lengths of the distance alphabet -/
  distLens : List Nat
  /-- the 19 code lengths of the code-length alphabet, by symbol -/
  clLens : List Nat
  /-- HCLEN: `hclen + 4` of them are transmitted, in the order 16, 17, 18, 0, 8, … -/
  hclen : Nat
  rle : List ClSym
deriving Repr, Inhabited

/-- RFC 1951 gives HLIT + 257 = 257..286 and HDIST + 1 = 1..32; the five-bit fields can say up to 288 and 32, and the
    reader accepts all of that, so the specification is stated as wide as the fields. -/
def DynHeader.ok (h : DynHeader) : Bool :=
  decide (257 ≤ h.litLens.length) && decide (h.litLens.length ≤ 288) &&
  decide (1 ≤ h.distLens.length) && decide (h.distLens.length ≤ 32) &&
  decide (h.clLens.length = 19) && h.clLens.all (fun l => decide (l ≤ 7)) && decide (h.hclen ≤ 15) &&
  (clOrder.drop (h.hclen + 4)).all (fun s => h.clLens.getD s 0 == 0) &&
  validLens h.litLens && validLens h.distLens && validLens h.clLens &&
  (expandCl h.rle [] == some (h.litLens ++ h.distLens))

/-- the narrower class every deployed decoder (zlib, miniz, hence flate2 inside zarrs) accepts: at most 286 / 30 code
    lengths (zlib: "too many length or distance symbols" beyond, although RFC 1951 says HDIST + 1 = 1..32), COMPLETE
    literal/length and code-length codes, and a distance code that is complete, or a single code of one bit, or absent
    ("one distance code of zero bits", §3.2.7).  The theorems hold for `ok`; the differential tie generates `strict`
    headers, because zarrs (like zlib) rejects the rest — observed, see the report of task D1. -/
def DynHeader.strict (h : DynHeader) : Bool :=
  h.ok && decide (h.litLens.length ≤ 286) && decide (h.distLens.length ≤ 30) &&
  decide (kraft h.litLens = 2 ^ 15) && decide (kraft h.clLens = 2 ^ 15) &&
  (decide (kraft h.distLens = 2 ^ 15) || decide (kraft h.distLens = 0) ||
    (decide (kraft h.distLens = 2 ^ 14) && decide (h.distLens.count 0 + 1 = h.distLens.length)))

def encHeader (h : DynHeader) : Option Bits :=
  match encCl h.clLens h.rle with
  | some r =>
    some (bitsLsb 5 (h.litLens.length - 257) ++ (bitsLsb 5 (h.distLens.length - 1) ++ (bitsLsb 4 h.hclen ++
      ((clOrder.take (h.hclen + 4)).flatMap (fun s => bitsLsb 3 (h.clLens.getD s 0)) ++ r))))
  | none => none

/-! ### blocks and streams (RFC 1951 §3.2.3, §3.2.4) -/

inductive Block where
  /-- BTYPE 00; `fill`: the bits a writer leaves in the padding up to the byte boundary ("ignored", any value) -/
  | stored (fill : Bits) (data : Bytes)
  /-- BTYPE 01 -/
  | fixed (toks : List Token)
  /-- BTYPE 10 -/
  | dynamic (h : DynHeader) (toks : List Token)
deriving Repr, Inhabited

/-! #### which inputs a writer can encode: every symbol it uses must have a code -/

def hasCode (lens : List Nat) (s : Nat) : Bool := lens.getD s 0 != 0

/-- the literal/length symbols a token list uses (with the end-of-block symbol) -/
def litSymsOf (toks : List Token) : List Nat :=
  256 :: toks.map (fun t => match t with | .lit b => b | .copy len _ => 257 + lenSym len)
/-- the distance symbols a token list uses -/
def distSymsOf (toks : List Token) : List Nat :=
  toks.filterMap (fun t => match t with | .lit _ => none | .copy _ dist => some (distSym dist))
def clSymOf : ClSym → Nat
  | .len l => l
  | .c16 _ => 16
  | .c17 _ => 17
  | .c18 _ => 18

/-- a block a conformant writer can emit -/
def Block.ok : Block → Bool
  | .stored _ data => decide (data.length ≤ 65535) && data.all (fun b => decide (b < 256))
  | .fixed toks => toks.all Token.ok
  | .dynamic h toks =>
    h.ok && h.rle.all (fun c => hasCode h.clLens (clSymOf c)) && toks.all Token.ok &&
      (litSymsOf toks).all (hasCode h.litLens) && (distSymsOf toks).all (hasCode h.distLens)

/-- `k` padding bits taken from `fill` (zeros when it runs out) -/
def padBits (fill : Bits) (k : Nat) : Bits := (List.range k).map (fun i => fill.getD i false)

/-- one block starting at bit position `pos` of the stream -/
def encodeBlock (pos : Nat) (final : Bool) : Block → Option Bits
  | .stored fill data =>
    if data.length ≤ 65535 ∧ data.all (fun b => decide (b < 256)) then
      some ([final, false, false] ++ (padBits fill ((8 - (pos + 3) % 8) % 8) ++
        toBits (le16 data.length ++ le16 (65535 - data.length) ++ data)))
    else none
  | .fixed toks =>
    match encTokens fixedLitLens fixedDistLens toks with
    | some t => some ([final, true, false] ++ t)
    | none => none
  | .dynamic h toks =>
    if h.ok then
      match encHeader h, encTokens h.litLens h.distLens toks with
      | some hb, some t => some ([final, false, true] ++ (hb ++ t))
      | _, _ => none
    else none

/-- a non-empty sequence of blocks, the last one marked final -/
def encodeBlocks (pos : Nat) : List Block → Option Bits
  | [] => none
  | [b] => encodeBlock pos true b
  | b :: b' :: bs =>
    match encodeBlock pos false b with
    | some x => (match encodeBlocks (pos + x.length) (b' :: bs) with
      | some y => some (x ++ y)
      | none => none)
    | none => none

/-- the stream as bytes (bits packed least significant first); `tailFill`: what the writer leaves in the unused bits
    of the last byte -/
def encodeStream (blocks : List Block) (tailFill : Bits := []) : Option Bytes :=
  match encodeBlocks 0 blocks with
  | some bits => some (fromBits (bits ++ padBits tailFill ((8 - bits.length % 8) % 8)))
  | none => none

/-- the data of a block, given everything before it -/
def renderBlock (out : Bytes) : Block → Option Bytes
  | .stored _ data => some (out ++ data)
  | .fixed toks => render toks out
  | .dynamic _ toks => render toks out

/-- the data of a stream: later blocks may refer back into earlier ones (up to 32768 bytes) -/
def renderBlocks : List Block → Bytes → Option Bytes
  | [], out => some out
  | b :: bs, out => match renderBlock out b with
    | some out' => renderBlocks bs out'
    | none => none

/-! ### containers around a stream (RFC 1952, RFC 1950): every header form the reader handles -/

/-- gzip member header: FLG bits FTEXT(1) FHCRC(2) FEXTRA(4) FNAME(8) FCOMMENT(16); `name`/`comment` without the
    terminating zero; the header CRC field is not checked by the reader (any two bytes) -/
structure GzHeader where
  ftext : Bool := false
  mtime : Bytes := [0, 0, 0, 0]
  xfl : Nat := 0
  os : Nat := 255
  extra : Option Bytes := none
  name : Option Bytes := none
  comment : Option Bytes := none
  hcrc : Option (Nat × Nat) := none
deriving Repr, Inhabited

def GzHeader.flg (h : GzHeader) : Nat :=
  (if h.ftext then 1 else 0) + (if h.hcrc.isSome then 2 else 0) + (if h.extra.isSome then 4 else 0) +
    (if h.name.isSome then 8 else 0) + (if h.comment.isSome then 16 else 0)

def GzHeader.ok (h : GzHeader) : Bool :=
  decide (h.mtime.length = 4) && h.extra.all (fun e => decide (e.length < 65536)) &&
  h.name.all (fun n => n.all (· != 0)) && h.comment.all (fun n => n.all (· != 0))

/-- FEXTRA: XLEN then the subfields -/
def gzExtraBytes : Option Bytes → Bytes
  | some e => le16 e.length ++ e
  | none => []
/-- FNAME / FCOMMENT: zero-terminated -/
def gzZBytes : Option Bytes → Bytes
  | some n => n ++ [0]
  | none => []
def gzCrcBytes : Option (Nat × Nat) → Bytes
  | some (a, b) => [a, b]
  | none => []

def GzHeader.bytes (h : GzHeader) : Bytes :=
  [0x1f, 0x8b, 8, h.flg] ++ h.mtime ++ [h.xfl, h.os] ++
    (gzExtraBytes h.extra ++ (gzZBytes h.name ++ (gzZBytes h.comment ++ gzCrcBytes h.hcrc)))

/-- a gzip member around a DEFLATE stream whose data is `data` -/
def gzipMember (h : GzHeader) (stream data : Bytes) : Bytes :=
  h.bytes ++ (stream ++ (le32 (crc32 data) ++ le32 (data.length % 4294967296)))

/-- a gzip FILE (RFC 1952 §2.2): the members (header, DEFLATE stream, the data the stream stands for) "simply appear
    one after another in the file, with no additional information before, between, or after them" -/
def gzipFile : List (GzHeader × Bytes × Bytes) → Bytes
  | [] => []
  | (h, stream, data) :: ms => gzipMember h stream data ++ gzipFile ms

/-- a zlib stream: CMF = 8 + 16·cinfo, FLG with FLEVEL `level`, no preset dictionary, FCHECK making the pair a
    multiple of 31 -/
def zlibStream (cinfo level : Nat) (stream data : Bytes) : Bytes :=
  let cmf := 8 + 16 * cinfo
  let flg0 := 64 * level
  let flg := flg0 + (31 - (cmf * 256 + flg0) % 31) % 31
  [cmf, flg] ++ (stream ++ be32 (adler32 data))

end Zarrs.DeflateSpec
