import ZarrsModel.Model.Shard
import ZarrsModel.Model.Store
/-
Partial encoders (C05): `ShardingPartialEncoder::partial_encode`
(zarrs/src/array/codec/array_to_bytes/sharding/sharding_partial_encoder.rs) at the level of inner chunks, and the
default decode–update–re-encode partial encoders (array_to_bytes_partial_encoder_default.rs,
bytes_to_bytes_partial_encoder_default.rs) writing through `set_partial_values` (zero-extend, never truncate).

The stored value is `Option Bytes`; an update names inner chunks (C-order position) and their new encoded
contents (`none` = the inner chunk became all fill and is dropped).
-/
namespace Zarrs.ShardPE
open Zarrs Zarrs.Codec Zarrs.Shard

/-- `StoragePartialEncoder::partial_encode`: partial writes on the stored value -/
def writeAt (v : Option Bytes) (off : Nat) (b : Bytes) : Option Bytes := some (specSetPartial (v.getD []) off b)

/-- the index of the existing value, or all sentinels when the value is absent; `none` = undecodable -/
def currentIndex (c : Cfg) (v : Option Bytes) : Option (List (Nat × Nat)) :=
  match v with
  | none => some (List.replicate c.nChunks (sentinel, sentinel))
  | some b =>
    match indexBytes c b with
    | none => none
    | some ib => (decodeIndex c true ib).toOption

def liveEnd (idx : List (Nat × Nat)) : Nat :=
  idx.foldl (fun acc e => if isLive e then max acc (e.1 + e.2) else acc) 0

def setEntry (idx : List (Nat × Nat)) (i : Nat) (e : Nat × Nat) : List (Nat × Nat) := idx.set i e

/-- `partial_encode` for a list of updated inner chunks (as repaired: with the index at the end, an update that
removes the last inner chunks and appends nothing rewrites the shard up to the end of the remaining data, so that
the index always directly follows the live data) -/
def partialEncode (c : Cfg) (v : Option Bytes) (updates : List (Nat × Option Bytes)) : Option (Option Bytes) :=
  match currentIndex c v with
  | none => none
  | some idx =>
    let maxData0 := liveEnd idx
    -- invalidate the entries of every touched inner chunk
    let idx1 := updates.foldl (fun ix u => setEntry ix u.1 (sentinel, sentinel)) idx
    let (v1, maxData) := if idx1.all (fun e => !isLive e) then (none, 0) else (v, maxData0)
    let offsetNew := if c.indexAtEnd then maxData else max maxData (indexSize c)
    -- append the re-encoded inner chunks
    let (idx2, data, _) := updates.foldl (fun (acc : List (Nat × Nat) × Bytes × Nat) u =>
      match u.2 with
      | some b => (setEntry acc.1 u.1 (acc.2.2, b.length), acc.2.1 ++ b, acc.2.2 + b.length)
      | none => (setEntry acc.1 u.1 (sentinel, sentinel), acc.2.1, acc.2.2)) (idx1, [], offsetNew)
    if idx2.all (fun e => !isLive e) then some none     -- erase the shard
    else
      let ib := encodeIndex c idx2
      if c.indexAtEnd then
        if data.isEmpty && liveEnd idx2 < offsetNew then
          some (writeAt none 0 ((v1.getD []).take (liveEnd idx2) ++ ib))
        else some (writeAt v1 offsetNew (data ++ ib))
      else some (writeAt (writeAt v1 0 ib) offsetNew data)


/-- `partial_encode` as found on the pinned tree (before the repair of the stale index tail, finding F-C05-K1) -/
def partialEncodePinned (c : Cfg) (v : Option Bytes) (updates : List (Nat × Option Bytes)) : Option (Option Bytes) :=
  match currentIndex c v with
  | none => none
  | some idx =>
    let maxData0 := liveEnd idx
    -- invalidate the entries of every touched inner chunk
    let idx1 := updates.foldl (fun ix u => setEntry ix u.1 (sentinel, sentinel)) idx
    let (v1, maxData) := if idx1.all (fun e => !isLive e) then (none, 0) else (v, maxData0)
    let offsetNew := if c.indexAtEnd then maxData else max maxData (indexSize c)
    -- append the re-encoded inner chunks
    let (idx2, data, _) := updates.foldl (fun (acc : List (Nat × Nat) × Bytes × Nat) u =>
      match u.2 with
      | some b => (setEntry acc.1 u.1 (acc.2.2, b.length), acc.2.1 ++ b, acc.2.2 + b.length)
      | none => (setEntry acc.1 u.1 (sentinel, sentinel), acc.2.1, acc.2.2)) (idx1, [], offsetNew)
    if idx2.all (fun e => !isLive e) then some none     -- erase the shard
    else
      let ib := encodeIndex c idx2
      if c.indexAtEnd then some (writeAt v1 offsetNew (data ++ ib))
      else some (writeAt (writeAt v1 0 ib) offsetNew data)


/-- the intended effect on the list of inner chunks -/
def applyUpdates (chunks : List (Option Bytes)) (updates : List (Nat × Option Bytes)) : List (Option Bytes) :=
  updates.foldl (fun cs u => cs.set u.1 u.2) chunks

/-- the value is *tight*: for an index at the end, the index starts exactly where the live data ends (what
zarrs' own full encoder produces); always true for an index at the start -/
def tight (c : Cfg) (v : Bytes) : Bool :=
  match currentIndex c (some v) with
  | some idx => !c.indexAtEnd || v.length == liveEnd idx + indexSize c
  | none => false

/-- default decode–update–re-encode partial encoder (repaired): erase, then write the new encoding at offset 0 -/
def defaultPartialEncode (enc : Bytes → Bytes) (dec : Bytes → Option Bytes) (v : Option Bytes)
    (update : Bytes → Bytes) (emptyDecoded : Bytes) : Option (Option Bytes) :=
  match v with
  | none => some (writeAt none 0 (enc (update emptyDecoded)))
  | some b => (dec b).map (fun d => writeAt none 0 (enc (update d)))

/-- the code as found: no erase before the offset-0 write -/
def defaultPartialEncodePinned (enc : Bytes → Bytes) (dec : Bytes → Option Bytes) (v : Option Bytes)
    (update : Bytes → Bytes) (emptyDecoded : Bytes) : Option (Option Bytes) :=
  match v with
  | none => some (writeAt none 0 (enc (update emptyDecoded)))
  | some b => (dec b).map (fun d => writeAt (some b) 0 (enc (update d)))

end Zarrs.ShardPE
