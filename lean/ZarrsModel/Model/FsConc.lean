import ZarrsModel.Model.MemConc
/-
Layer F: the locking protocol of `FilesystemStore` (zarrs_filesystem/src/lib.rs) for ONE key.
Every key has a `RwLock<()>` in a registry that never drops entries (`get_file_mutex`: registry mutex, one atomic
step M).  Steps (aligned with yield hooks H2):
  set    : M ; L1 take the WRITE lock, open with create+truncate (the file exists and is empty) ;
               L2 write the value, release, respond
  get / ranged get : M ; L take the READ lock, open (absent -> None), read, release, respond
  erase  : M ; L take the WRITE lock, remove the file, release, respond
  size   : `.pinned` (code as found): ONE step, no lock at all: `fs::metadata(path).len()`
           `.fixed`: M ; L take the READ lock, stat, release, respond
The operating system's file operations inside one step are atomic by assumption.
-/
namespace Zarrs.FsConc
open Zarrs.MemConc (Op Res Protocol Done specStep isLinearization perms readRes)

inductive TS where
  | idle
  | haveMutex                -- after M: holds the Arc of the key's lock
  | writing                  -- set: holds the write lock, file truncated, write pending
deriving DecidableEq, Repr

structure State where
  file : Option Bytes        -- the file's contents (absent = no file)
  writer : Option Nat        -- holder of the write lock
  pc : List Nat
  ts : List TS
  out : List (List Res)
deriving DecidableEq, Repr

abbrev Progs := List (List Op)

def init (ps : Progs) (initial : Option Bytes) : State :=
  { file := initial, writer := none, pc := ps.map (fun _ => 0), ts := ps.map (fun _ => TS.idle), out := ps.map (fun _ => []) }

def curOp (ps : Progs) (s : State) (t : Nat) : Option Op :=
  match ps[t]?, s.pc[t]? with
  | some p, some k => p[k]?
  | _, _ => none

def respond (s : State) (t : Nat) (r : Res) : State :=
  { s with pc := s.pc.set t (s.pc.getD t 0 + 1), ts := s.ts.set t TS.idle,
           out := s.out.set t (s.out.getD t [] ++ [r]) }

/-- read locks are held only inside one atomic step, so only the write lock is state -/
def lockFree (s : State) : Bool := s.writer.isNone

def enabled (_pr : Protocol) (ps : Progs) (s : State) (t : Nat) : Bool :=
  match curOp ps s t, s.ts.getD t TS.idle with
  | none, _ => false
  | some .size, TS.idle => true                    -- pinned: the whole op; fixed: M
  | some _, TS.idle => true                        -- M never blocks
  | some _, TS.haveMutex => lockFree s             -- L / L1: read or write lock, both wait for the writer
  | some _, TS.writing => true                     -- L2

def step (pr : Protocol) (ps : Progs) (s : State) (t : Nat) : State :=
  match curOp ps s t, s.ts.getD t TS.idle with
  | none, _ => s
  | some .size, TS.idle =>
    (match pr with
     | .pinned => respond s t (.size (s.file.map List.length))
     | .fixed => { s with ts := s.ts.set t TS.haveMutex })
  | some _, TS.idle => { s with ts := s.ts.set t TS.haveMutex }
  | some op, TS.haveMutex =>
    (match op with
     | .set _ => { s with writer := some t, file := some [], ts := s.ts.set t TS.writing }
     | .setPartial _ _ => respond s t .unit     -- outside the model (see `noPartial`)
     | .get => respond s t (match s.file with | some b => .bytes (some b) | none => .bytes none)
     | .getRange o n => respond s t (match s.file with | some b => readRes (.getRange o n) b | none => .bytes none)
     | .size => respond s t (.size (s.file.map List.length))
     | .erase => respond { s with file := none } t .unit)
  | some op, TS.writing =>
    (match op with
     | .set v => respond { s with file := some v, writer := none } t .unit
     | _ => respond { s with writer := none } t .unit)

def run (pr : Protocol) (ps : Progs) : State → List Nat → Option State
  | s, [] => some s
  | s, t :: ts => if enabled pr ps s t then run pr ps (step pr ps s t) ts else none

inductive Reachable (pr : Protocol) (ps : Progs) (i0 : Option Bytes) : State → Prop where
  | init : Reachable pr ps i0 (init ps i0)
  | step (s : State) (t : Nat) : Reachable pr ps i0 s → t < ps.length → enabled pr ps s t = true →
      Reachable pr ps i0 (step pr ps s t)

def history (pr : Protocol) (ps : Progs) (i0 : Option Bytes) (sched : List Nat) : Option (State × List Done) :=
  let rec go (s : State) (time : Nat) (invs : List (Option Nat)) (acc : List Done) : List Nat → Option (State × List Done)
    | [] => some (s, acc)
    | t :: rest =>
      if !enabled pr ps s t then none else
      let inv := match invs.getD t none with | some i => i | none => time
      let s' := step pr ps s t
      let k := s.pc.getD t 0
      if s'.pc.getD t 0 != k then
        match curOp ps s t, (s'.out.getD t []).getLast? with
        | some op, some r => go s' (time + 1) (invs.set t none) (acc ++ [⟨t, k, op, r, inv, time⟩]) rest
        | _, _ => none
      else go s' (time + 1) (invs.set t (some inv)) acc rest
  go (init ps i0) 0 (ps.map (fun _ => none)) [] sched

def allFinished (ps : Progs) (s : State) : Bool :=
  (List.range ps.length).all (fun t => (curOp ps s t).isNone)

/-- programs of the filesystem model use whole-value operations only (partial writes go through the generic
read-modify-write of `store_set_partial_values`, i.e. a `get` followed by a `set`, each linearizable on its own) -/
def noPartial (ps : Progs) : Bool := ps.all (fun p => p.all (fun op => match op with | .setPartial _ _ => false | _ => true))

end Zarrs.FsConc
