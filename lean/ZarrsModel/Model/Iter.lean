import ZarrsModel.Model.Subset
/-
The iterators of zarrs/src/array_subset/iterators/*.rs as explicit state machines.
`Iter` is `IndicesIterator` / `ParIndicesIteratorProducer`: a subset and a half-open range of
linear positions; `next`, `nextBack` and `splitAt` are the three ways the Rust code consumes it.
-/
namespace Zarrs

/-- all indices `< shape` in C order (specification enumeration) -/
def boxIndices : Shape → List Idx
  | [] => [[]]
  | n :: ns => (List.range n).flatMap (fun k => (boxIndices ns).map (k :: ·))

namespace Subset
/-- specification: the elements of a subset in C order -/
def indices (s : Subset) : List Idx := (boxIndices s.shape).map (fun i => addIdx i s.start)
end Subset

structure Iter where
  subset : Subset
  lo : Nat
  hi : Nat
deriving Repr

namespace Iter

def new (s : Subset) : Iter := ⟨s, 0, s.numElements⟩
/-- `Indices::new_with_start_end` with an explicit `start..end` range (end clamped to the length) -/
def newRange (s : Subset) (a b : Nat) : Iter := ⟨s, a, min b s.numElements⟩
def len (it : Iter) : Nat := it.hi - it.lo
/-- the item at linear position `k`: `unravel_index(k, shape) + start` -/
def item (it : Iter) (k : Nat) : Idx := addIdx (unravel k it.subset.shape) it.subset.start

/-- `IndicesIterator::next` (range test first: the repaired order, see known_findings `fixed:` C09) -/
def next (it : Iter) : Option (Idx × Iter) :=
  if it.lo < it.hi then some (it.item it.lo, { it with lo := it.lo + 1 }) else none

/-- `IndicesIterator::next_back` -/
def nextBack (it : Iter) : Option (Idx × Iter) :=
  if it.lo < it.hi then some (it.item (it.hi - 1), { it with hi := it.hi - 1 }) else none

/-- `ParIndicesIteratorProducer::split_at(index)` -/
def splitAt (it : Iter) (k : Nat) : Iter × Iter :=
  ({ it with hi := it.lo + k }, { it with lo := it.lo + k })

/-- everything the iterator will still yield going forward -/
def items (it : Iter) : List Idx := (List.range' it.lo (it.hi - it.lo)).map it.item

/-- drive with a direction pattern: `true` = `next`, `false` = `next_back`;
returns the items taken from the front, those taken from the back (in the order taken) and the rest -/
def run : Iter → List Bool → List Idx × List Idx × Iter
  | it, [] => ([], [], it)
  | it, true :: ds =>
    match it.next with
    | some (x, it') => let (f, b, r) := run it' ds; (x :: f, b, r)
    | none => let (f, b, r) := run it ds; (f, b, r)
  | it, false :: ds =>
    match it.nextBack with
    | some (x, it') => let (f, b, r) := run it' ds; (f, x :: b, r)
    | none => let (f, b, r) := run it ds; (f, b, r)

end Iter

/-- binary tree of rayon `split_at` points (relative index at each node) -/
inductive SplitTree where
  | leaf : SplitTree
  | node : Nat → SplitTree → SplitTree → SplitTree

namespace SplitTree
def fits : SplitTree → Nat → Bool
  | leaf, _ => true
  | node k l r, n => decide (k ≤ n) && l.fits k && r.fits (n - k)
def leaves : SplitTree → Iter → List Iter
  | leaf, it => [it]
  | node k l r, it => let (a, b) := it.splitAt k; l.leaves a ++ r.leaves b
end SplitTree

/-- `LinearisedIndices`: each index ravelled in the enclosing array shape -/
def Subset.linearised (s : Subset) (arr : Shape) : List Nat :=
  (Iter.new s).items.map (fun i => ravel i arr)

/-- `ContiguousIndices::new_unchecked`: right-to-left fold carrying
(`contiguous`, `contiguous_elements`, `shape_out`) -/
def contigAux : Idx → Shape → Shape → Bool × Nat × Shape
  | o :: os, n :: ns, a :: as =>
    let (c, ce, out) := contigAux os ns as
    if c then (o == 0 && n == a, ce * n, 1 :: out) else (false, ce, n :: out)
  | _, _, _ => (true, 1, [])

structure Contig where
  starts : Subset      -- `subset_contiguous_start`
  run : Nat            -- `contiguous_elements`
deriving Repr

def Subset.contiguous (s : Subset) (arr : Shape) : Contig :=
  let (_, ce, out) := contigAux s.start s.shape arr
  ⟨⟨s.start, out⟩, ce⟩

/-- `ContiguousIndices` items (run starts, C order) -/
def Subset.contiguousIndices (s : Subset) (arr : Shape) : List Idx :=
  (Iter.new (s.contiguous arr).starts).items

/-- `ContiguousLinearisedIndices` items -/
def Subset.contiguousLinearised (s : Subset) (arr : Shape) : List Nat :=
  (s.contiguousIndices arr).map (fun i => ravel i arr)

/-- `byte_ranges(array_shape, element_size)` as `(offset, length)` pairs -/
def Subset.byteRanges (s : Subset) (arr : Shape) (es : Nat) : List (Nat × Nat) :=
  (s.contiguousLinearised arr).map (fun i => (i * es, (s.contiguous arr).run * es))

/-- `extract_elements_unchecked`: concatenate the contiguous runs -/
def Subset.extract {α} (s : Subset) (arr : Shape) (xs : List α) : List α :=
  (s.contiguousLinearised arr).flatMap (fun i => (xs.drop i).take (s.contiguous arr).run)

/-- specification of extraction: gather element by element -/
def Subset.gather {α} (s : Subset) (arr : Shape) (xs : List α) : List (Option α) :=
  s.indices.map (fun i => xs[ravel i arr]?)

def zipDiv : List Nat → List Nat → List Nat
  | a :: as, b :: bs => (a / b) :: zipDiv as bs
  | _, _ => []
def zipMul : List Nat → List Nat → List Nat
  | a :: as, b :: bs => (a * b) :: zipMul as bs
  | _, _ => []

/-- `Chunks::new_unchecked(subset, chunk_shape)`: the subset of chunk indices -/
def Subset.chunkBox (s : Subset) (cs : Shape) : Subset :=
  match s.endInc with
  | some e =>
    let cstart := zipDiv s.start cs
    let cend := zipDiv e cs
    ⟨cstart, (Subset.zipSub cend cstart).map (· + 1)⟩
  | none => Subset.newEmpty s.rank

/-- `Chunks` items: `(chunk indices, chunk subset)` -/
def Subset.chunks (s : Subset) (cs : Shape) : List (Idx × Subset) :=
  (Iter.new (s.chunkBox cs)).items.map (fun c => (c, ⟨zipMul c cs, cs⟩))

end Zarrs
