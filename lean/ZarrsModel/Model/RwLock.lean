/-
The global configuration lock (zarrs/src/config.rs: `static CONFIG: LazyLock<RwLock<Config>>`,
`global_config()` = read acquisition, `global_config_mut()` = write acquisition; guards are released when
dropped).  A writer-preferring reader–writer lock as a small-step machine over any number of threads:
a thread that wants the write lock first registers as waiting; while a writer waits, new readers block
(std's futex `RwLock` on Linux behaves this way; it is what makes a re-entrant read deadlock).
-/
namespace Zarrs.RwLock

inductive Ev where
  | acqR | relR | acqW | relW
deriving DecidableEq, Repr

/-- per-thread programs: the lock events a thread performs, in order -/
abbrev Progs := List (List Ev)

structure State where
  pc : List Nat            -- next event index per thread
  readers : List Nat       -- read guards held per thread
  writer : Option Nat      -- thread holding the write guard
  waiting : List Nat       -- threads registered as waiting writers (have executed the request half of `acqW`)
deriving DecidableEq, Repr

def init (ps : Progs) : State :=
  ⟨ps.map (fun _ => 0), ps.map (fun _ => 0), none, []⟩

def nextEv (ps : Progs) (s : State) (t : Nat) : Option Ev :=
  match ps[t]?, s.pc[t]? with
  | some p, some k => p[k]?
  | _, _ => none

def finished (ps : Progs) (s : State) (t : Nat) : Bool := (nextEv ps s t).isNone

def totalReaders (s : State) : Nat := s.readers.sum

/-- can thread `t` take a step? -/
def enabled (ps : Progs) (s : State) (t : Nat) : Bool :=
  match nextEv ps s t with
  | none => false
  | some .acqR => s.writer.isNone && s.waiting.isEmpty
  | some .relR => decide (0 < s.readers.getD t 0)
  | some .acqW => if s.waiting.contains t then s.writer.isNone && totalReaders s == 0 else true
  | some .relW => s.writer == some t

def bump (l : List Nat) (t : Nat) (f : Nat → Nat) : List Nat := l.set t (f (l.getD t 0))

/-- the step of thread `t` (meaningful when enabled) -/
def step (ps : Progs) (s : State) (t : Nat) : State :=
  match nextEv ps s t with
  | none => s
  | some .acqR => { s with pc := bump s.pc t (· + 1), readers := bump s.readers t (· + 1) }
  | some .relR => { s with pc := bump s.pc t (· + 1), readers := bump s.readers t (· - 1) }
  | some .acqW =>
    if s.waiting.contains t then
      { s with pc := bump s.pc t (· + 1), writer := some t, waiting := s.waiting.filter (· != t) }
    else { s with waiting := s.waiting ++ [t] }
  | some .relW => { s with pc := bump s.pc t (· + 1), writer := none }

/-- run a schedule (list of thread ids); `none` if a scheduled thread was not enabled -/
def run (ps : Progs) : State → List Nat → Option State
  | s, [] => some s
  | s, t :: ts => if enabled ps s t then run ps (step ps s t) ts else none

inductive Reachable (ps : Progs) : State → Prop where
  | init : Reachable ps (init ps)
  | step (s : State) (t : Nat) : Reachable ps s → t < ps.length → enabled ps s t = true → Reachable ps (step ps s t)

/-- a flat program never acquires while it holds a guard: a sequence of `acqR relR` / `acqW relW` pairs -/
def flat : List Ev → Bool
  | [] => true
  | .acqR :: .relR :: rest => flat rest
  | .acqW :: .relW :: rest => flat rest
  | _ => false

/-- deadlock: some thread is unfinished and no thread can step -/
def deadlocked (ps : Progs) (s : State) : Bool :=
  (List.range ps.length).any (fun t => !finished ps s t) &&
  (List.range ps.length).all (fun t => !enabled ps s t)

/-- observation used by the correspondence: an operation's trace of acquisitions, each tagged with whether
the lock was completely free (`true`) when the acquisition was attempted; flat iff all are free when the
operation runs on a single logical call stack -/
def traceFlat (probes : List Bool) : Bool := probes.all id

end Zarrs.RwLock
