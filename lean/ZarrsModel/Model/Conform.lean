import ZarrsModel.Model.Iter
import ZarrsModel.Model.Codec
import ZarrsModel.Model.Shard
import ZarrsModel.Model.Inflate
import ZarrsModel.Model.Keys
/-
Layer E: a specification-level Zarr reader and writer, independent of the implementation's code paths.
V3: regular grids, `default`/`v2` chunk key encodings, codec chains of `transpose`* , `bytes` | `sharding_indexed`
(one level; inner chain `transpose`*, `bytes`, `gzip`/`crc32c`*), `gzip`/`crc32c`*.  V2: C/F order, `.`/`/`
separator, compressor none/zlib/gzip, either byte order.  Elements are `es`-byte strings in little-endian order.
The writer takes layout choices (`Layout`) that the implementation itself never makes: inner chunks of a shard
in any order with padding between them, stored-block or fixed-Huffman DEFLATE, gzip headers with extra fields.
-/
namespace Zarrs.Conform
open Zarrs Zarrs.Codec Zarrs.Inflate

abbrev Elem := Bytes
abbrev Store := List (List Char × Bytes)

def Store.get (s : Store) (k : List Char) : Option Bytes := (s.find? (·.1 == k)).map (·.2)

inductive B2BK where
  | gzip | crc32c
deriving Repr, DecidableEq

structure Inner where
  transposes : List (List Nat)
  big : Bool
  b2b : List B2BK
deriving Repr

inductive A2BK where
  | bytes (big : Bool)
  | shard (innerShape : Shape) (inner : Inner) (idxBig idxCrc atEnd : Bool)
deriving Repr

structure Chain where
  transposes : List (List Nat)
  a2b : A2BK
  b2b : List B2BK
deriving Repr

/-- layout choices of the writer -/
structure Layout where
  /-- DEFLATE flavour: 0 stored blocks, 1 fixed Huffman -/
  deflate : Nat := 0
  gzipExtra : Bool := false
  /-- inner chunks are placed in the order of this rotation/reversal of the C order -/
  reverseInner : Bool := false
  /-- bytes of padding before every inner chunk -/
  pad : Nat := 0
deriving Repr

def deflateOf (l : Layout) : Bytes → Bytes := if l.deflate == 0 then deflateStored else deflateFixed

/-! ### bytes to bytes -/

def b2bDec1 : B2BK → Bytes → Option Bytes
  | .gzip, b => gunzip b
  | .crc32c, b =>
    if b.length < 4 then none else
    let body := b.take (b.length - 4)
    if Codec.le32 (crc32c body) == b.drop (b.length - 4) then some body else none

def b2bEnc1 (l : Layout) : B2BK → Bytes → Bytes
  | .gzip, b => gzipWith (deflateOf l) l.gzipExtra b
  | .crc32c, b => b ++ Codec.le32 (crc32c b)

def b2bDec (cs : List B2BK) (b : Bytes) : Option Bytes := cs.reverse.foldl (fun acc c => acc.bind (b2bDec1 c)) (some b)
def b2bEnc (l : Layout) (cs : List B2BK) (b : Bytes) : Bytes := cs.foldl (fun acc c => b2bEnc1 l c acc) b

/-! ### elements and transposes -/

def splitElems (es : Nat) (b : Bytes) : Option (List Elem) :=
  if es == 0 || b.length % es != 0 then none else some (chunksOf es (b.length + 1) b)

def bytesDecElems (big : Bool) (es : Nat) (b : Bytes) : Option (List Elem) :=
  (splitElems es b).map (fun xs => if big then xs.map List.reverse else xs)
def bytesEncElems (big : Bool) (xs : List Elem) : Bytes :=
  (if big then xs.map List.reverse else xs).flatten

/-- the shapes seen after each transpose: `[s0, s1, …, sk]` -/
def shapesThrough (s0 : Shape) : List (List Nat) → List Shape
  | [] => [s0]
  | o :: os => s0 :: shapesThrough (permute s0 o) os

def encodedShape (s0 : Shape) (ts : List (List Nat)) : Shape := (shapesThrough s0 ts).getLastD s0

/-- undo the transposes: elements in C order of the last shape back to C order of `s0` -/
def untranspose (s0 : Shape) (ts : List (List Nat)) (xs : List Elem) : List Elem :=
  let shapes := shapesThrough s0 ts
  (ts.zip shapes).reverse.foldl (fun acc (o, sh) => transposeDec o sh acc) xs
def dotranspose (s0 : Shape) (ts : List (List Nat)) (xs : List Elem) : List Elem :=
  let shapes := shapesThrough s0 ts
  (ts.zip shapes).foldl (fun acc (o, sh) => transposeEnc o sh acc) xs

/-! ### chunks -/

def innerDec (es : Nat) (shape : Shape) (c : Inner) (b : Bytes) : Option (List Elem) :=
  match (b2bDec c.b2b b).bind (bytesDecElems c.big es) with
  | some xs => if xs.length == prod shape then some (untranspose shape c.transposes xs) else none
  | none => none
def innerEnc (l : Layout) (shape : Shape) (c : Inner) (xs : List Elem) : Bytes :=
  b2bEnc l c.b2b (bytesEncElems c.big (dotranspose shape c.transposes xs))

def ceilDiv (a b : Nat) : Nat := (a + b - 1) / b
def gridOf (shape chunk : Shape) : Shape := List.zipWith ceilDiv shape chunk

/-- assemble a box of shape `shape` from sub-boxes of shape `sub` listed in C order of the grid -/
def assemble (shape sub : Shape) (parts : List (List Elem)) (dflt : Elem) : List Elem :=
  let grid := gridOf shape sub
  (boxIndices shape).map (fun i =>
    let c := List.zipWith (· / ·) i sub
    let w := List.zipWith (· % ·) i sub
    ((parts.getD (ravel c grid) []).getD (ravel w sub) dflt))
/-- the sub-box `c` (of shape `sub`) of a box of shape `shape`; positions outside take `dflt` -/
def subBox (shape sub : Shape) (xs : List Elem) (c : Idx) (dflt : Elem) : List Elem :=
  (boxIndices sub).map (fun w =>
    let i := List.zipWith (fun cw s => cw.1 * s + cw.2) (c.zip w) sub
    if inB i shape then xs.getD (ravel i shape) dflt else dflt)

/-- decode one chunk value to its elements (C order of `shape`) -/
def chunkDec (es : Nat) (fill : Elem) (shape : Shape) (c : Chain) (v : Bytes) : Option (List Elem) :=
  let eshape := encodedShape shape c.transposes
  match b2bDec c.b2b v with
  | none => none
  | some body =>
    let encoded : Option (List Elem) := match c.a2b with
      | .bytes big => bytesDecElems big es body
      | .shard ishape inner idxBig idxCrc atEnd =>
        let n := prod (gridOf eshape ishape)
        match Shard.decode ⟨n, atEnd, idxBig, idxCrc⟩ true body with
        | .error _ => none
        | .ok chunks =>
          match chunks.mapM (fun ch => match ch with
              | none => some (List.replicate (prod ishape) fill)
              | some b => innerDec es ishape inner b) with
          | some parts => some (assemble eshape ishape parts fill)
          | none => none
    match encoded with
    | some xs => if xs.length == prod eshape then some (untranspose shape c.transposes xs) else none
    | none => none

/-- place the encoded inner chunks: order and padding are the writer's choice; the index names each of them -/
def placeInner (l : Layout) (base : Nat) (chunks : List (Option Bytes)) : Bytes × List (Nat × Nat) :=
  let idxs := if l.reverseInner then (List.range chunks.length).reverse else List.range chunks.length
  let (data, placed) := idxs.foldl (fun (acc : Bytes × List (Nat × Nat × Nat)) i =>
    match chunks.getD i none with
    | none => acc
    | some b => (acc.1 ++ List.replicate l.pad 0xAA ++ b, acc.2 ++ [(i, base + acc.1.length + l.pad, b.length)])) ([], [])
  (data, (List.range chunks.length).map (fun i => match placed.find? (·.1 == i) with
    | some p => (p.2.1, p.2.2)
    | none => (Shard.sentinel, Shard.sentinel)))

/-- the array-to-bytes stage of the writer: `bytes`, or a shard whose all-fill inner chunks are left out -/
def chunkBody (l : Layout) (fill : Elem) (shape : Shape) (c : Chain) (xs : List Elem) : Bytes :=
  let eshape := encodedShape shape c.transposes
  let ys := dotranspose shape c.transposes xs
  match c.a2b with
  | .bytes big => bytesEncElems big ys
  | .shard ishape inner idxBig idxCrc atEnd =>
    let grid := gridOf eshape ishape
    let cfg : Shard.Cfg := ⟨prod grid, atEnd, idxBig, idxCrc⟩
    let chunks := (boxIndices grid).map (fun ci =>
      let part := subBox eshape ishape ys ci fill
      if part.all (· == fill) then none else some (innerEnc l ishape inner part))
    let base := if atEnd then 0 else Shard.indexSize cfg
    let (data, entries) := placeInner l base chunks
    if atEnd then data ++ Shard.encodeIndex cfg entries else Shard.encodeIndex cfg entries ++ data

/-- encode one chunk -/
def chunkEnc (l : Layout) (es : Nat) (fill : Elem) (shape : Shape) (c : Chain) (xs : List Elem) : Bytes :=
  let _ := es
  b2bEnc l c.b2b (chunkBody l fill shape c xs)

/-! ### arrays -/

structure V3 where
  shape : Shape
  chunk : Shape
  es : Nat
  fill : Elem
  keyEnc : Keys.Enc
  sep : Char
  chain : Chain
  path : List Char          -- node path, "/" or "/a/b"
deriving Repr

def V3.key (a : V3) (c : Idx) : List Char := Keys.dataKey a.path (Keys.encode a.keyEnc a.sep c)

/-- read every element of the array (C order); `none` if a stored chunk does not decode -/
def V3.read (a : V3) (s : Store) : Option (List Elem) :=
  let grid := gridOf a.shape a.chunk
  match (boxIndices grid).mapM (fun c => match s.get (a.key c) with
      | none => some (List.replicate (prod a.chunk) a.fill)
      | some v => chunkDec a.es a.fill a.chunk a.chain v) with
  | some parts => some (assemble a.shape a.chunk parts a.fill)
  | none => none

/-- write an array: every chunk that is not all fill -/
def V3.write (l : Layout) (a : V3) (xs : List Elem) : Store :=
  let grid := gridOf a.shape a.chunk
  (boxIndices grid).filterMap (fun c =>
    let part := subBox a.shape a.chunk xs c a.fill
    if part.all (· == a.fill) then none else some (a.key c, chunkEnc l a.es a.fill a.chunk a.chain part))

inductive Comp2 where
  | none | zlib | gzip
deriving Repr, DecidableEq

structure V2 where
  shape : Shape
  chunk : Shape
  es : Nat
  big : Bool
  fill : Elem
  fOrder : Bool
  sep : Char
  comp : Comp2
  path : List Char
deriving Repr

def V2.key (a : V2) (c : Idx) : List Char :=
  Keys.dataKey a.path (if c.isEmpty then ['0'] else Keys.joinSep a.sep (c.map Keys.decimal))

def revOrder (rank : Nat) : List Nat := (List.range rank).reverse

def V2.chunkDec (a : V2) (v : Bytes) : Option (List Elem) :=
  let body := match a.comp with | .none => some v | .zlib => unzlib v | .gzip => gunzip v
  match body.bind (bytesDecElems a.big a.es) with
  | some xs =>
    if xs.length != prod a.chunk then none else
    -- Fortran order: the stored elements are the C-order elements of the reversed-axes chunk
    some (if a.fOrder then transposeDec (revOrder a.chunk.length) a.chunk xs else xs)
  | none => none

def V2.chunkEnc (l : Layout) (a : V2) (xs : List Elem) : Bytes :=
  let ys := if a.fOrder then transposeEnc (revOrder a.chunk.length) a.chunk xs else xs
  let raw := bytesEncElems a.big ys
  match a.comp with
  | .none => raw
  | .zlib => zlibWith (deflateOf l) raw
  | .gzip => gzipWith (deflateOf l) l.gzipExtra raw

def V2.read (a : V2) (s : Store) : Option (List Elem) :=
  let grid := gridOf a.shape a.chunk
  match (boxIndices grid).mapM (fun c => match s.get (a.key c) with
      | none => some (List.replicate (prod a.chunk) a.fill)
      | some v => a.chunkDec v) with
  | some parts => some (assemble a.shape a.chunk parts a.fill)
  | none => none

def V2.write (l : Layout) (a : V2) (xs : List Elem) : Store :=
  let grid := gridOf a.shape a.chunk
  (boxIndices grid).filterMap (fun c =>
    let part := subBox a.shape a.chunk xs c a.fill
    if part.all (· == a.fill) then none else some (a.key c, a.chunkEnc l part))

end Zarrs.Conform
