import ZarrsModel.Model.Shard
/-
The PARALLEL assembly of a shard (C16), as a small-step machine.

zarrs/src/array/codec/array_to_bytes/sharding/sharding_codec.rs, `ShardingCodec::encode_bounded` and
`ShardingCodec::encode_unbounded`: the inner chunks of a shard are handled by the tasks of a rayon parallel loop
(`rayon_iter_concurrent_limit::iter_concurrent_limit!(shard_concurrent_limit, (0..n_chunks), try_for_each, |chunk_index| …)`).
The tasks share
  * `encoded_shard_offset : AtomicUsize`  (initially `index_encoded_size` for `ShardingIndexLocation::Start`, `0` for `End`),
  * `shard : Vec<u8>` with spare capacity, written through `UnsafeCellSlice::index_mut(range)` (no borrow checking),
  * `shard_index : Vec<u64>` (`u64::MAX` everywhere initially), slots `2i, 2i+1` written through an `UnsafeCellSlice`.
Task `i` (for an inner chunk that is not all fill — an all-fill chunk does nothing, its index entry keeps the sentinel)
  1. RESERVES its byte range: `chunk_offset = encoded_shard_offset.fetch_add(chunk_encoded.len(), Relaxed)` — ONE atomic
     read-modify-write; in `encode_bounded` it then checks `chunk_offset + len > shard_size_bounded` ⇒
     `Err("Sharding did not allocate a large enough buffer")`;
  2. writes its index entry `shard_index[2i] = chunk_offset; shard_index[2i+1] = len`;
  3. copies its bytes: `shard_slice.index_mut(chunk_offset..chunk_offset + len).copy_from_slice(&chunk_encoded)`.
After the join the index is encoded with the index codecs and copied to the start / the end, and the vector gets its
length (`set_len(shard_length)`).

`encode_bounded` allocates `num_chunks * chunk_size_bounded + index_encoded_size` bytes up front, encodes inside the
loop, and computes `shard_length` from the FINAL VALUE OF THE OFFSET; `encode_unbounded` first encodes all inner
chunks (a pure parallel map), allocates exactly `Σ len + index_encoded_size`, runs the same reserve/index/copy loop
without a capacity check, and uses the PRECOMPUTED length.

The machine interleaves the steps of the tasks in any order (a schedule is a list of task numbers).  Step 2 (two `u64`
stores into slots owned by the task) and step 3 (a `memcpy` into the reserved range) are single steps of the machine.
`step (racy := true)` is the machine of the seeded defect: the reservation is `load` … (check) … `store(load + len)`,
two steps, between which other tasks may run.

`log` is a ghost component (the order in which reservations took effect); nothing reads it.
-/
namespace Zarrs.ShardAsm
open Zarrs Zarrs.Codec

/-- which of the two encoders: `encode_bounded` (with the declared bound of one encoded inner chunk) or
`encode_unbounded` -/
inductive Mode where
  | bounded (bound : Nat)
  | unbounded
deriving DecidableEq, Repr

structure Params where
  cfg : Shard.Cfg
  /-- the encoded inner chunks in C order; `none` = the inner chunk is all fill (`bytes.is_fill_value(..)`) -/
  chunks : List (Option Bytes)
  mode : Mode
deriving DecidableEq, Repr

def lens (chunks : List (Option Bytes)) : List Nat := chunks.map (fun c => match c with | some b => b.length | none => 0)

/-- Σ of the encoded lengths (`encoded_chunk_length` in `encode_unbounded`) -/
def Params.total (p : Params) : Nat := (lens p.chunks).sum

/-- initial value of `encoded_shard_offset` -/
def Params.base (p : Params) : Nat := if p.cfg.indexAtEnd then 0 else Shard.indexSize p.cfg

/-- capacity of the shard buffer: `shard_size_bounded = encoded_shard_bounded_size(index size, bound, chunks_per_shard)`
resp. `shard_length = encoded_chunk_length + index_encoded_size` -/
def Params.cap (p : Params) : Nat :=
  match p.mode with
  | .bounded bound => p.chunks.length * bound + Shard.indexSize p.cfg
  | .unbounded => p.total + Shard.indexSize p.cfg

/-- only `encode_bounded` has the "buffer large enough" check -/
def Params.checks (p : Params) : Bool :=
  match p.mode with
  | .bounded _ => true
  | .unbounded => false

/-- well-formed parameters: one index entry per inner chunk -/
def Params.wf (p : Params) : Bool := p.cfg.nChunks == p.chunks.length

/-- the declared bound is correct (C03: `chainS_size`): every encoded inner chunk is within it -/
def Params.boundOk (p : Params) : Bool :=
  match p.mode with
  | .bounded bound => p.chunks.all (fun c => match c with | some b => decide (b.length ≤ bound) | none => true)
  | .unbounded => true

/-- what `boundOk` is used for: chunks and index fit into the buffer -/
def Params.fits (p : Params) : Bool := decide (p.total + Shard.indexSize p.cfg ≤ p.cap)

/-- the shard is shorter than 2^64 - 1 bytes (offsets are not confused with the sentinel) -/
def Params.small (p : Params) : Bool := decide (p.total + Shard.indexSize p.cfg < Shard.sentinel)

/-- program counter of one task -/
inductive Pc where
  | elided                 -- all-fill inner chunk: the task touches nothing
  | start                  -- encoded, nothing reserved
  | loaded (off : Nat)     -- RACY machine only: has read the offset, has not stored the new one
  | reserved (off : Nat)   -- owns `[off, off + len)`
  | indexed (off : Nat)    -- … and has written its index entry
  | done (off : Nat)       -- … and has copied its bytes
  | failed                 -- returned `Err("Sharding did not allocate a large enough buffer")`
  | panicked               -- `index_mut` with a range outside the buffer
deriving DecidableEq, Repr

structure State where
  offset : Nat                     -- `encoded_shard_offset`
  buf : List (Option Nat)          -- the spare capacity of `shard`; `none` = never written (uninitialised)
  index : List (Nat × Nat)         -- `shard_index`, as pairs (slots `2i`, `2i+1`)
  pc : List Pc
  log : List (Nat × Nat × Nat)     -- ghost: `(task, offset, len)` in the order the reservations took effect
deriving DecidableEq, Repr

def initPc (c : Option Bytes) : Pc :=
  match c with
  | some _ => .start
  | none => .elided

def init (p : Params) : State :=
  { offset := p.base
    buf := List.replicate p.cap none
    index := List.replicate p.chunks.length (Shard.sentinel, Shard.sentinel)
    pc := p.chunks.map initPc
    log := [] }

/-- `slice[off .. off + b.len()].copy_from_slice(b)` on a buffer with "unwritten" marks (the caller checks the range) -/
def writeAt (buf : List (Option Nat)) (off : Nat) (b : Bytes) : List (Option Nat) :=
  (List.range buf.length).map (fun k => if off ≤ k ∧ k < off + b.length then some (b.getD (k - off) 0) else buf.getD k none)

/-- one step of task `i` (a no-op for a task that has nothing left to do).  The closure of the parallel loop in
`encode_bounded` / the second loop of `encode_unbounded`; `racy` = the reservation of the seeded defect
(`load`; check; `store`) instead of `fetch_add`; check -/
def step (racy : Bool) (p : Params) (s : State) (i : Nat) : State :=
  match p.chunks[i]?, s.pc[i]? with
  | some (some b), some .start =>
    if racy then { s with pc := s.pc.set i (.loaded s.offset) }
    else if p.checks && decide (s.offset + b.length > p.cap) then
      { s with offset := s.offset + b.length, log := s.log ++ [(i, s.offset, b.length)], pc := s.pc.set i .failed }
    else
      { s with offset := s.offset + b.length, log := s.log ++ [(i, s.offset, b.length)], pc := s.pc.set i (.reserved s.offset) }
  | some (some b), some (.loaded off) =>
    if p.checks && decide (off + b.length > p.cap) then { s with pc := s.pc.set i .failed }
    else { s with offset := off + b.length, log := s.log ++ [(i, off, b.length)], pc := s.pc.set i (.reserved off) }
  | some (some b), some (.reserved off) =>
    { s with index := s.index.set i (off, b.length), pc := s.pc.set i (.indexed off) }
  | some (some b), some (.indexed off) =>
    if off + b.length > s.buf.length then { s with pc := s.pc.set i .panicked }
    else { s with buf := writeAt s.buf off b, pc := s.pc.set i (.done off) }
  | _, _ => s

/-- run a schedule: any list of task numbers (numbers of finished / elided / non-existent tasks are no-ops) -/
def run (racy : Bool) (p : Params) : State → List Nat → State
  | s, [] => s
  | s, i :: rest => run racy p (step racy p s i) rest

def Pc.isFinal : Pc → Bool
  | .elided => true
  | .done _ => true
  | _ => false

/-- every task has finished (the join of the parallel loop returns `Ok`) -/
def complete (s : State) : Bool := s.pc.all Pc.isFinal

/-- the byte range task `i` owns -/
def rangeOf (p : Params) (s : State) (i : Nat) : Option (Nat × Nat) :=
  match p.chunks[i]?, s.pc[i]? with
  | some (some b), some (.reserved off) => some (off, off + b.length)
  | some (some b), some (.indexed off) => some (off, off + b.length)
  | some (some b), some (.done off) => some (off, off + b.length)
  | _, _ => none

inductive Outcome where
  | ok (v : Bytes)
  | tooSmall      -- `Err("Sharding did not allocate a large enough buffer")`
  | panic         -- a slice index out of range
  | incomplete    -- the schedule has not run every task to its end (not an outcome of the Rust code)
  | uninit        -- the returned vector would expose bytes nobody wrote (undefined behaviour in Rust)
deriving DecidableEq, Repr

/-- `shard_length`: from the final offset in `encode_bounded`, precomputed in `encode_unbounded` -/
def shardLen (p : Params) (s : State) : Nat :=
  match p.mode with
  | .bounded _ => s.offset + (if p.cfg.indexAtEnd then Shard.indexSize p.cfg else 0)
  | .unbounded => p.total + Shard.indexSize p.cfg

/-- after the join: encode the index, copy it to its place, `set_len(shard_length)` -/
def finish (p : Params) (s : State) : Outcome :=
  if s.pc.any (· == .failed) then .tooSmall
  else if s.pc.any (· == .panicked) then .panic
  else if !complete s then .incomplete
  else
    let idx := Shard.encodeIndex p.cfg s.index
    let len := shardLen p s
    if len > s.buf.length || len < idx.length then .panic
    else
      let out := (writeAt s.buf (if p.cfg.indexAtEnd then len - idx.length else 0) idx).take len
      if out.all Option.isSome then .ok (out.map (fun x => x.getD 0)) else .uninit

/-- the whole assembly under a schedule -/
def assemble (racy : Bool) (p : Params) (sched : List Nat) : Outcome := finish p (run racy p (init p) sched)

/-- the sequential schedule visiting the tasks in `order`, `k` consecutive steps each (3 suffice for the atomic
machine, 4 for the racy one) -/
def seqSched (k : Nat) (order : List Nat) : List Nat := order.flatMap (fun i => List.replicate k i)

/-! ### locking: a pool of workers, a single mutex, fork/join with work stealing while waiting

`ArrayShardedReadableExtCache::retrieve` (zarrs/src/array/array_sync_sharded_readable_ext.rs) takes
`self.cache.lock()` (a `std::sync::Mutex`, not re-entrant) and, on a miss, creates the partial decoder of the shard —
decoding its index — before releasing it.  Callers run inside rayon tasks (one per shard).  If anything under the
lock splits work with rayon (`join` / a parallel iterator), the worker that holds the lock may, while it waits for
a stolen piece, pick up ANOTHER task that needs the same lock on top of its own stack: it then blocks on a mutex
held by a frame below it, forever.

Tasks are programs over `Instr`; root tasks start in the pool's queue, a child task enters the queue when its parent
executes `fork`.  A worker with an empty stack takes any queued task; a worker at `wait c` continues if `c` has
finished, and otherwise may take ANY queued task on top of its stack (rayon's `wait_until` steals).  -/

inductive Instr where
  | lock | unlock | work
  | fork (c : Nat)
  | wait (c : Nat)
deriving DecidableEq, Repr

structure Pool where
  progs : List (List Instr)
  roots : List Nat          -- tasks queued initially
  workers : Nat
deriving DecidableEq, Repr

structure PState where
  stacks : List (List (Nat × Nat))   -- per worker: frames `(task, pc)`, top first
  queue : List Nat
  finished : List Nat
  holder : Option Nat                -- worker holding the mutex
deriving DecidableEq, Repr

def pinit (P : Pool) : PState := ⟨List.replicate P.workers [], P.roots, [], none⟩

def instrAt (P : Pool) (t pc : Nat) : Option Instr := (P.progs.getD t [])[pc]?

/-- the steps worker `w` can take; `choice` selects the queued task to take where one is taken -/
def pstep (P : Pool) (s : PState) (w choice : Nat) : Option PState :=
  match s.stacks[w]? with
  | none => none
  | some [] =>
    if s.queue.contains choice then
      some { s with stacks := s.stacks.set w [(choice, 0)], queue := s.queue.erase choice }
    else none
  | some ((t, pc) :: below) =>
    match instrAt P t pc with
    | none => some { s with stacks := s.stacks.set w below, finished := t :: s.finished }
    | some .work => some { s with stacks := s.stacks.set w ((t, pc + 1) :: below) }
    | some .lock =>
      if s.holder.isNone then some { s with stacks := s.stacks.set w ((t, pc + 1) :: below), holder := some w } else none
    | some .unlock => some { s with stacks := s.stacks.set w ((t, pc + 1) :: below), holder := none }
    | some (.fork c) => some { s with stacks := s.stacks.set w ((t, pc + 1) :: below), queue := c :: s.queue }
    | some (.wait c) =>
      if s.finished.contains c then some { s with stacks := s.stacks.set w ((t, pc + 1) :: below) }
      else if s.queue.contains choice then
        some { s with stacks := s.stacks.set w ((choice, 0) :: (t, pc) :: below), queue := s.queue.erase choice }
      else none

def prun (P : Pool) : PState → List (Nat × Nat) → Option PState
  | s, [] => some s
  | s, (w, c) :: rest =>
    match pstep P s w c with
    | some s' => prun P s' rest
    | none => none

inductive PReach (P : Pool) : PState → Prop where
  | init : PReach P (pinit P)
  | step (s s' : PState) (w c : Nat) : PReach P s → pstep P s w c = some s' → PReach P s'

def allFinished (P : Pool) (s : PState) : Bool := (List.range P.progs.length).all (fun t => s.finished.contains t)

/-- can worker `w` step (with some choice)? -/
def penabled (P : Pool) (s : PState) (w : Nat) : Bool :=
  (pstep P s w 0).isSome || s.queue.any (fun c => (pstep P s w c).isSome)

/-- some task is unfinished and no worker can step -/
def pdeadlocked (P : Pool) (s : PState) : Bool :=
  !allFinished P s && (List.range P.workers).all (fun w => !penabled P s w)

/-- does the program hold the mutex at a fork/wait?  `held` = inside `lock … unlock` -/
def lockAcrossJoin : Bool → List Instr → Bool
  | _, [] => false
  | _, .lock :: rest => lockAcrossJoin true rest
  | _, .unlock :: rest => lockAcrossJoin false rest
  | held, .work :: rest => lockAcrossJoin held rest
  | held, .fork _ :: rest => held || lockAcrossJoin held rest
  | held, .wait _ :: rest => held || lockAcrossJoin held rest


/-- is the mutex held by the program after its first `pc` instructions (`held` = held before them)? -/
def heldAfter : Bool → List Instr → Nat → Bool
  | held, _, 0 => held
  | held, [], _ + 1 => held
  | _, .lock :: rest, pc + 1 => heldAfter true rest pc
  | _, .unlock :: rest, pc + 1 => heldAfter false rest pc
  | held, .work :: rest, pc + 1 => heldAfter held rest pc
  | held, .fork _ :: rest, pc + 1 => heldAfter held rest pc
  | held, .wait _ :: rest, pc + 1 => heldAfter held rest pc

/-- lock discipline of one program: `lock` only when not held, `unlock` only when held, released at the end -/
def balanced : Bool → List Instr → Bool
  | held, [] => !held
  | held, .lock :: rest => !held && balanced true rest
  | held, .unlock :: rest => held && balanced false rest
  | held, .work :: rest => balanced held rest
  | held, .fork _ :: rest => balanced held rest
  | held, .wait _ :: rest => balanced held rest

def isLeaf (prog : List Instr) : Bool :=
  prog.all (fun i => match i with | .fork _ => false | .wait _ => false | _ => true)

def forksOf (prog : List Instr) : List Nat :=
  prog.filterMap (fun i => match i with | .fork c => some c | _ => none)

/-- `wait c` only after `fork c` in the same program (`f` = forked so far) -/
def waitsOk : List Nat → List Instr → Bool
  | _, [] => true
  | f, .fork c :: rest => waitsOk (c :: f) rest
  | f, .wait c :: rest => f.contains c && waitsOk f rest
  | f, .lock :: rest => waitsOk f rest
  | f, .unlock :: rest => waitsOk f rest
  | f, .work :: rest => waitsOk f rest

def Pool.allForks (P : Pool) : List Nat := P.progs.flatMap forksOf

/-- a two-level pool: root tasks (queued initially) fork and join leaf tasks; every task is a root or is forked by
some task; forked tasks are not roots; non-root tasks neither fork nor wait; waits follow their forks; every program
respects the lock discipline; at least one worker -/
def Pool.wf (P : Pool) : Bool :=
  decide (0 < P.workers) &&
  P.roots.all (fun r => decide (r < P.progs.length)) &&
  (List.range P.progs.length).all (fun t => P.roots.contains t || isLeaf (P.progs.getD t [])) &&
  P.allForks.all (fun c => decide (c < P.progs.length) && !P.roots.contains c) &&
  (List.range P.progs.length).all (fun t => P.roots.contains t || P.allForks.contains t) &&
  P.progs.all (waitsOk []) &&
  P.progs.all (balanced false)

/-- no program holds the mutex at a fork or a wait -/
def Pool.noLockAcrossJoin (P : Pool) : Bool := P.progs.all (fun prog => !lockAcrossJoin false prog)

end Zarrs.ShardAsm
