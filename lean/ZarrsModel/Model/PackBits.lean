import ZarrsModel.Model.Bytes
/-
Layer C: the `packbits` array-to-bytes codec (zarrs/src/array/codec/array_to_bytes/packbits/packbits_codec.rs,
as repaired).  A component is `w` bits wide and is stored, decoded, in `ceil(w/8)` little-endian bytes (a `bool`
is a 1-bit component in one byte); the bits `first..=last` of every component are packed back to back, least
significant bit first, optionally with a byte that holds the number of padding bits.
-/
namespace Zarrs.PackBits

inductive Pad where
  | none | firstByte | lastByte
deriving Repr, DecidableEq

structure Cfg where
  w : Nat            -- component size in bits
  first : Nat
  last : Nat
  pad : Pad
  sign : Bool        -- sign extension on decode
deriving Repr

def Cfg.n (c : Cfg) : Nat := c.last - c.first + 1          -- extracted bits per component
def Cfg.cb (c : Cfg) : Nat := (c.w + 7) / 8                 -- decoded bytes per component

def ofLE : Bytes → Nat
  | [] => 0
  | b :: rest => b + 256 * ofLE rest
def toLE : Nat → Nat → Bytes
  | 0, _ => []
  | k + 1, v => v % 256 :: toLE k (v / 256)

def chunks (k : Nat) : Nat → Bytes → List Bytes
  | 0, _ => []
  | fuel + 1, b => if b.isEmpty || k == 0 then [] else b.take k :: chunks k fuel (b.drop k)

/-- the component values of a decoded buffer -/
def comps (c : Cfg) (data : Bytes) : List Nat := (chunks c.cb (data.length + 1) data).map ofLE

def bitsOf (n v : Nat) : List Bool := (List.range n).map (fun i => v / 2 ^ i % 2 == 1)
def natOfBits : List Bool → Nat
  | [] => 0
  | b :: rest => (if b then 1 else 0) + 2 * natOfBits rest

def bytesOfBits : Nat → List Bool → Bytes
  | 0, _ => []
  | _, [] => []
  | fuel + 1, bs => natOfBits (bs.take 8) :: bytesOfBits fuel (bs.drop 8)

/-- the bytes-codec fast path: byte-aligned components taken whole -/
def fast (c : Cfg) : Bool := c.w % 8 == 0 && c.first == 0 && c.last == c.w - 1

def padBits (total : Nat) : Nat := if total % 8 == 0 then 0 else 8 - total % 8

def encode (c : Cfg) (data : Bytes) : Bytes :=
  if fast c then data else
  let vs := (comps c data).map (fun v => v / 2 ^ c.first % 2 ^ c.n)
  let bits := vs.flatMap (bitsOf c.n)
  let body := bytesOfBits (bits.length + 1) bits
  match c.pad with
  | .none => body
  | .firstByte => padBits bits.length :: body
  | .lastByte => body ++ [padBits bits.length]

/-- the declared encoded size for `count` components -/
def encodedSize (c : Cfg) (count : Nat) : Nat :=
  if fast c then count * c.cb else
  (count * c.n + 7) / 8 + (if c.pad == .none then 0 else 1)

def takeBits : Nat → Nat → List Bool → List (List Bool)
  | 0, _, _ => []
  | k + 1, n, bs => bs.take n :: takeBits k n (bs.drop n)

def allBits (b : Bytes) : List Bool := b.flatMap (bitsOf 8)

/-- place an extracted value back at `first..=last`, extending the sign when asked -/
def place (c : Cfg) (v : Nat) : Nat :=
  let x := v * 2 ^ c.first
  if c.sign && v / 2 ^ (c.n - 1) % 2 == 1 then x + (2 ^ c.w - 2 ^ (c.last + 1)) else x

/-- decode `count` components; `none` for a wrong length or a wrong padding byte -/
def decode (c : Cfg) (count : Nat) (enc : Bytes) : Option Bytes :=
  if fast c then (if enc.length == count * c.cb then some enc else none) else
  if enc.length != encodedSize c count then none else
  let total := count * c.n
  let body : Option Bytes := match c.pad with
    | .none => some enc
    | .firstByte => if enc.head? == some (padBits total) then some (enc.drop 1) else none
    | .lastByte => if enc.getLast? == some (padBits total) then some enc.dropLast else none
  body.map (fun body =>
    ((takeBits count c.n (allBits body)).map (fun bs => toLE c.cb (place c (natOfBits bs)))).flatten)

/-- the values the codec is lossless on: nothing outside `first..=last`, except copies of the sign bit above `last`
    for a sign-extended type -/
def inRange (c : Cfg) (v : Nat) : Bool :=
  v < 2 ^ c.w && v % 2 ^ c.first == 0 &&
  (if c.sign then
    (let hi := v / 2 ^ (c.last + 1); let s := v / 2 ^ c.last % 2
     if s == 1 then hi == 2 ^ (c.w - c.last - 1) - 1 else hi == 0)
   else v < 2 ^ (c.last + 1))

end Zarrs.PackBits
