import ZarrsModel.Model.Store
/-
Layer F: the locking protocol of `MemoryStore` (zarrs_storage/src/store/memory_store.rs) for ONE key as a
small-step machine over any number of threads.  (Operations on other keys touch neither this key's map entry nor
its cells; the map mutex makes every map access atomic.)

Cells are `Arc<RwLock<Vec<u8>>>`; the map entry of the key points to the current cell or is absent.
Atomic steps = the critical sections between lock operations (aligned with the yield hooks H1):
  set / set_partial : S1  map lock; find-or-insert the cell; take the cell's WRITE lock; release the map lock
                      S2  write (replace / zero-extend+overwrite); release the cell lock; respond
  get / get_partial : G1  map lock; look the key up; absent -> respond None; present -> keep the Arc
                      G2  READ-lock that cell (blocks while a writer holds it); copy; respond
  size              : SZ  map lock; look up; read-lock the cell; respond its length (one step, map lock held)
  erase             : E1  map lock; remove the entry; respond
`protocol = .pinned` is the code as found: the cell is inserted EMPTY and the map lock released BEFORE the cell
lock is taken, so a set is  S1a (map: find-or-insert, keep the Arc)  then  S1b (lock the cell, write, unlock,
respond);  `.fixed` is the repaired order (S1/S2 above).
-/
namespace Zarrs.MemConc

inductive Op where
  | set (v : Bytes)
  | setPartial (off : Nat) (v : Bytes)
  | get
  | getRange (off len : Nat)           -- `get_partial_values_key(key, [FromStart(off, Some(len))])`
  | size
  | erase
deriving DecidableEq, Repr

inductive Res where
  | unit
  | bytes (b : Option Bytes)
  | size (n : Option Nat)
  | err                                -- a ranged read reaching outside the value
deriving DecidableEq, Repr

inductive Protocol where
  | fixed | pinned
deriving DecidableEq, Repr

/-- thread-local control state -/
inductive TS where
  | idle                               -- between operations
  | setGot (c : Nat)                   -- pinned protocol only: has the Arc of cell c, not yet its lock
  | setHold (c : Nat)                  -- holds the write lock of cell c, write pending
  | getHold (c : Nat)                  -- holds the Arc of cell c, has not read it yet
deriving DecidableEq, Repr

structure State where
  cells : List Bytes                   -- contents of every cell ever created (index = cell id)
  wlock : List (Option Nat)            -- per cell: the thread holding its write lock
  cur : Option Nat                     -- the map entry of the key
  pc : List Nat                        -- per thread: index of the current operation
  ts : List TS                         -- per thread: control state
  out : List (List Res)                -- per thread: responses so far (in order)
deriving DecidableEq, Repr

abbrev Progs := List (List Op)

def init (ps : Progs) (initial : Option Bytes) : State :=
  { cells := match initial with | some b => [b] | none => [],
    wlock := match initial with | some _ => [none] | none => [],
    cur := initial.map (fun _ => 0),
    pc := ps.map (fun _ => 0), ts := ps.map (fun _ => TS.idle), out := ps.map (fun _ => []) }

def curOp (ps : Progs) (s : State) (t : Nat) : Option Op :=
  match ps[t]?, s.pc[t]? with
  | some p, some k => p[k]?
  | _, _ => none

def cellFree (s : State) (c : Nat) : Bool := (s.wlock.getD c none).isNone

def applyWrite (old : Bytes) : Op → Bytes
  | .set v => setImpl old v 0 true
  | .setPartial off v => setImpl old v off false
  | _ => old

/-- finish the current operation of thread t with response r -/
def respond (s : State) (t : Nat) (r : Res) : State :=
  { s with pc := s.pc.set t (s.pc.getD t 0 + 1), ts := s.ts.set t TS.idle,
           out := s.out.set t (s.out.getD t [] ++ [r]) }

/-- the response of a read of a present value -/
def readRes : Op → Bytes → Res
  | .getRange off len, b => if off + len ≤ b.length then .bytes (some (slice b off (off + len))) else .err
  | _, b => .bytes (some b)

def isWrite : Op → Bool
  | .set _ => true
  | .setPartial _ _ => true
  | _ => false

/-- is the next step of thread `t` enabled? -/
def enabled (pr : Protocol) (ps : Progs) (s : State) (t : Nat) : Bool :=
  match curOp ps s t, s.ts.getD t TS.idle with
  | none, _ => false
  | some op, TS.idle =>
    if isWrite op then
      match pr with
      | .fixed => (match s.cur with | some c => cellFree s c | none => true)   -- S1 waits for the cell lock
      | .pinned => true                                                        -- S1a never blocks
    else match op with
      | .size => (match s.cur with | some c => cellFree s c | none => true)
      | _ => true                                                              -- G1, E1 only need the map
  | some _, TS.setGot c => cellFree s c                                        -- S1b: lock, write, unlock
  | some _, TS.setHold _ => true                                               -- S2
  | some _, TS.getHold c => cellFree s c                                       -- G2 blocks while write-locked

/-- the step of thread `t` (meaningful when enabled) -/
def step (pr : Protocol) (ps : Progs) (s : State) (t : Nat) : State :=
  match curOp ps s t, s.ts.getD t TS.idle with
  | none, _ => s
  | some op, TS.idle =>
    if isWrite op then
      -- find or insert the cell
      let (s1, c) := match s.cur with
        | some c => (s, c)
        | none => ({ s with cells := s.cells ++ [[]], wlock := s.wlock ++ [none], cur := some s.cells.length }, s.cells.length)
      match pr with
      | .fixed => { s1 with wlock := s1.wlock.set c (some t), ts := s1.ts.set t (TS.setHold c) }
      | .pinned => { s1 with ts := s1.ts.set t (TS.setGot c) }
    else match op with
      | .get => (match s.cur with
          | none => respond s t (.bytes none)
          | some c => { s with ts := s.ts.set t (TS.getHold c) })
      | .getRange _ _ => (match s.cur with
          | none => respond s t (.bytes none)
          | some c => { s with ts := s.ts.set t (TS.getHold c) })
      | .size => respond s t (.size (s.cur.map (fun c => (s.cells.getD c []).length)))
      | .erase => respond { s with cur := none } t .unit
      | _ => s
  | some op, TS.setGot c =>
    respond { s with cells := s.cells.set c (applyWrite (s.cells.getD c []) op) } t .unit
  | some op, TS.setHold c =>
    respond { s with cells := s.cells.set c (applyWrite (s.cells.getD c []) op), wlock := s.wlock.set c none } t .unit
  | some op, TS.getHold c => respond s t (readRes op (s.cells.getD c []))

def run (pr : Protocol) (ps : Progs) : State → List Nat → Option State
  | s, [] => some s
  | s, t :: ts => if enabled pr ps s t then run pr ps (step pr ps s t) ts else none

inductive Reachable (pr : Protocol) (ps : Progs) (i0 : Option Bytes) : State → Prop where
  | init : Reachable pr ps i0 (init ps i0)
  | step (s : State) (t : Nat) : Reachable pr ps i0 s → t < ps.length → enabled pr ps s t = true →
      Reachable pr ps i0 (step pr ps s t)

/-! ### sequential specification and linearizability of a finished execution -/

/-- the atomic register: value and response of one operation -/
def specStep (a : Option Bytes) : Op → Option Bytes × Res
  | .set v => (some v, .unit)
  | .setPartial off v => (some (specSetPartial (a.getD []) off v), .unit)
  | .get => (a, .bytes a)
  | .getRange off len => (a, match a with | some b => readRes (.getRange off len) b | none => .bytes none)
  | .size => (a, .size (a.map List.length))
  | .erase => (none, .unit)

/-- a completed operation: thread, index in its program, invocation and response time (step numbers) -/
structure Done where
  t : Nat
  k : Nat
  op : Op
  res : Res
  inv : Nat
  resp : Nat
deriving DecidableEq, Repr

/-- `order` is a linearization of `ops` from initial value `a0`: a permutation that is legal for the register,
returns the observed responses, respects real time (`resp a < inv b → a before b`) and ends in value `final` -/
def legalSeq : Option Bytes → List Done → Option (Option Bytes)
  | a, [] => some a
  | a, d :: ds => let (a', r) := specStep a d.op; if r == d.res then legalSeq a' ds else none

def respectsRealTime : List Done → Bool
  | [] => true
  | d :: ds => ds.all (fun e => !(decide (e.resp < d.inv))) && respectsRealTime ds

def isLinearization (a0 : Option Bytes) (ops order : List Done) (final : Option Bytes) : Bool :=
  order.length == ops.length && ops.all (fun d => order.contains d) && order.all (fun d => ops.contains d) &&
  respectsRealTime order && legalSeq a0 order == some final

/-- all permutations (used by the executable checker on small histories) -/
def perms {α} : List α → List (List α)
  | [] => [[]]
  | x :: xs => (perms xs).flatMap (fun p => (List.range (p.length + 1)).map (fun i => p.take i ++ x :: p.drop i))

/-- executable linearizability check of a finished history (exponential; for the small histories of the driver) -/
def linearizable (a0 : Option Bytes) (ops : List Done) (final : Option Bytes) : Bool :=
  (perms ops).any (fun order => isLinearization a0 ops order final)

/-- run a schedule recording invocation/response times of every operation -/
def history (pr : Protocol) (ps : Progs) (i0 : Option Bytes) (sched : List Nat) : Option (State × List Done) :=
  let rec go (s : State) (time : Nat) (invs : List (Option Nat)) (acc : List Done) : List Nat → Option (State × List Done)
    | [] => some (s, acc)
    | t :: rest =>
      if !enabled pr ps s t then none else
      let inv := match invs.getD t none with | some i => i | none => time
      let s' := step pr ps s t
      let k := s.pc.getD t 0
      if s'.pc.getD t 0 != k then
        -- the operation completed in this step
        match curOp ps s t, (s'.out.getD t []).getLast? with
        | some op, some r => go s' (time + 1) (invs.set t none) (acc ++ [⟨t, k, op, r, inv, time⟩]) rest
        | _, _ => none
      else go s' (time + 1) (invs.set t (some inv)) acc rest
  go (init ps i0) 0 (ps.map (fun _ => none)) [] sched

def finalValue (s : State) : Option Bytes := s.cur.map (fun c => s.cells.getD c [])

def allFinished (ps : Progs) (s : State) : Bool :=
  (List.range ps.length).all (fun t => (curOp ps s t).isNone)

end Zarrs.MemConc
