import ZarrsModel.Model.Bytes
/-
Layer B: the abstract ordered key-value store (`Spec`) that every zarrs store must behave as, and the
algorithm of `MemoryStore` (zarrs_storage/src/store/memory_store.rs) and of the generic read-modify-write
`store_set_partial_values` (zarrs_storage/src/storage_sync.rs).
Keys are `List Char`, ordered lexicographically by code point (= Rust `String` order on ASCII keys).
-/
namespace Zarrs

abbrev Key := List Char

def keyLt : Key → Key → Bool
  | [], [] => false
  | [], _ :: _ => true
  | _ :: _, [] => false
  | a :: as, b :: bs => decide (a.toNat < b.toNat) || (a == b && keyLt as bs)

/-- the store: association list kept sorted by key, no duplicate keys -/
abbrev KV := List (Key × Bytes)

namespace KV

def get (m : KV) (k : Key) : Option Bytes := (m.find? (·.1 == k)).map (·.2)

/-- ordered insert / replace -/
def put : KV → Key → Bytes → KV
  | [], k, v => [(k, v)]
  | (k', v') :: rest, k, v =>
    if k == k' then (k, v) :: rest
    else if keyLt k k' then (k, v) :: (k', v') :: rest
    else (k', v') :: put rest k v

def erase (m : KV) (k : Key) : KV := m.filter (·.1 != k)
def keys (m : KV) : List Key := m.map (·.1)

end KV

/-- zero-extend to at least `n` bytes -/
def zeroExtend (b : Bytes) (n : Nat) : Bytes := b ++ List.replicate (n - b.length) 0

/-- overwrite `v` at offset `off` inside `b` (which must be long enough) -/
def overwrite (b : Bytes) (off : Nat) (v : Bytes) : Bytes :=
  b.take off ++ v ++ b.drop (off + v.length)

/-- specification of a partial write: zero-extend, never truncate, overwrite -/
def specSetPartial (old : Bytes) (off : Nat) (v : Bytes) : Bytes :=
  overwrite (zeroExtend old (off + v.length)) off v

/-- `MemoryStore::set_impl` on the cell contents -/
def setImpl (data : Bytes) (v : Bytes) (off : Nat) (truncate : Bool) : Bytes :=
  if off == 0 && data.isEmpty then v
  else
    let length := off + v.length
    let data := if data.length < length then zeroExtend data length
                else if truncate then data.take length else data
    overwrite data off v

def hasPrefix (k p : Key) : Bool := p.isPrefixOf k

/-- `StoreKey::parent`: everything up to and including the last '/' ("" when there is none) -/
def parentOf (k : Key) : Key :=
  match k.reverse.dropWhile (· != '/') with
  | [] => []
  | r => r.reverse

/-- first path component of `s` (up to the first '/') and whether a '/' follows -/
def firstComponent : Key → Key × Bool
  | [] => ([], false)
  | '/' :: _ => ([], true)
  | c :: rest => let (x, more) := firstComponent rest; (c :: x, more)

def insertSorted (k : Key) : List Key → List Key
  | [] => [k]
  | x :: xs => if k == x then x :: xs else if keyLt k x then k :: x :: xs else x :: insertSorted k xs

inductive Outcome (α : Type) where
  | ok (a : α)
  | err
deriving Repr, DecidableEq

/-- operations of the storage traits -/
inductive StoreOp where
  | set (k : Key) (v : Bytes)
  | setPartial (kovs : List (Key × Nat × Bytes))
  | erase (k : Key)
  | eraseValues (ks : List Key)
  | erasePrefix (p : Key)
  | get (k : Key)
  | getPartial (k : Key) (rs : List ByteRange)
  | sizeKey (k : Key)
  | sizePrefix (p : Key)
  | list
  | listPrefix (p : Key)
  | listDir (p : Key)
deriving Repr

inductive StoreRes where
  | unit
  | bytes (b : Option Bytes)
  | parts (b : Option (List Bytes))
  | size (n : Option Nat)
  | total (n : Nat)
  | keys (ks : List Key)
  | dir (ks : List Key) (ps : List Key)
  | err
deriving Repr, DecidableEq

namespace Spec

/-- the abstract ordered map: results and state change of every operation -/
def listDir (m : KV) (p : Key) : List Key × List Key :=
  let under := m.keys.filter (hasPrefix · p)
  let ks := under.filter (fun k => parentOf k == p)
  let ps := (under.filter (fun k => parentOf k != p)).foldl
    (fun acc k => insertSorted (p ++ (firstComponent (k.drop p.length)).1 ++ ['/']) acc) []
  (ks, ps)

def step (m : KV) : StoreOp → KV × StoreRes
  | .set k v => (m.put k v, .unit)
  | .setPartial kovs =>
    (kovs.foldl (fun m (k, off, v) => m.put k (specSetPartial ((m.get k).getD []) off v)) m, .unit)
  | .erase k => (m.erase k, .unit)
  | .eraseValues ks => (ks.foldl KV.erase m, .unit)
  | .erasePrefix p => (m.filter (fun kv => !hasPrefix kv.1 p), .unit)
  | .get k => (m, .bytes (m.get k))
  | .getPartial k rs =>
    (m, match m.get k with
        | none => .parts none
        | some b => match extractByteRanges b rs with
          | some xs => .parts (some xs)
          | none => .err)
  | .sizeKey k => (m, .size ((m.get k).map List.length))
  | .sizePrefix p => (m, .total (((m.filter (fun kv => hasPrefix kv.1 p)).map (·.2.length)).sum))
  | .list => (m, .keys m.keys)
  | .listPrefix p => (m, .keys (m.keys.filter (hasPrefix · p)))
  | .listDir p => (m, let (ks, ps) := listDir m p; .dir ks ps)

end Spec

namespace Mem

/-- `MemoryStore::list_dir` as written: strip the prefix, strip one leading '/', split on '/' -/
def listDir (m : KV) (p : Key) : List Key × List Key :=
  m.keys.foldl (fun (acc : List Key × List Key) k =>
    if hasPrefix k p then
      let strip := k.drop p.length
      let strip := match strip with | '/' :: r => r | s => s
      let (c0, more) := firstComponent strip
      if more then (acc.1, insertSorted (p ++ c0 ++ ['/']) acc.2)
      else if parentOf k == p then (acc.1 ++ [k], acc.2) else acc
    else acc) ([], [])

/-- `get_partial_values_key` (repaired: every range is validated before slicing; see known_findings `fixed:` C08) -/
def getPartial (b : Bytes) (rs : List ByteRange) : Option (List Bytes) :=
  let rec go : List ByteRange → Option (List Bytes)
    | [] => some []
    | r :: rest =>
      if r.valid b.length then (go rest).map (r.extract b :: ·) else none
  go rs

def step (m : KV) : StoreOp → KV × StoreRes
  | .set k v => (m.put k (setImpl ((m.get k).getD []) v 0 true), .unit)
  | .setPartial kovs =>
    (kovs.foldl (fun m (k, off, v) => m.put k (setImpl ((m.get k).getD []) v off false)) m, .unit)
  | .erase k => (m.erase k, .unit)
  | .eraseValues ks => (ks.foldl KV.erase m, .unit)
  | .erasePrefix p => (m.keys.foldl (fun m k => if hasPrefix k p then m.erase k else m) m, .unit)
  | .get k => (m, .bytes (m.get k))
  | .getPartial k rs =>
    (m, match m.get k with
        | none => .parts none
        | some b => match getPartial b rs with
          | some xs => .parts (some xs)
          | none => .err)
  | .sizeKey k => (m, .size ((m.get k).map List.length))
  | .sizePrefix p =>
    (m, .total ((m.keys.filter (hasPrefix · p)).foldl (fun acc k => acc + ((m.get k).map List.length).getD 0) 0))
  | .list => (m, .keys m.keys)
  | .listPrefix p => (m, .keys (m.keys.filter (hasPrefix · p)))
  | .listDir p => (m, let (ks, ps) := listDir m p; .dir ks ps)

end Mem

/-- generic `store_set_partial_values(store, kovs)` over the abstract get/set: group *consecutive* equal keys,
read once, extend to the maximal end, apply the group's writes in order, write once -/
def groupConsecutive : List (Key × Nat × Bytes) → List (Key × List (Nat × Bytes))
  | [] => []
  | (k, o, v) :: rest =>
    match groupConsecutive rest with
    | (k', g) :: gs => if k == k' then (k, (o, v) :: g) :: gs else (k, [(o, v)]) :: (k', g) :: gs
    | [] => [(k, [(o, v)])]

def rmwGroup (old : Bytes) (g : List (Nat × Bytes)) : Bytes :=
  let endMax := g.foldl (fun acc (o, v) => max acc (o + v.length)) 0
  g.foldl (fun b (o, v) => overwrite b o v) (zeroExtend old endMax)

def rmwPartial (m : KV) (kovs : List (Key × Nat × Bytes)) : KV :=
  (groupConsecutive kovs).foldl (fun m (k, g) => m.put k (rmwGroup ((m.get k).getD []) g)) m

/-- sorted, duplicate-free key list -/
def KV.sorted (m : KV) : Prop := m.keys.Pairwise (fun a b => keyLt a b = true)

/-- hierarchy-shaped key set: valid keys (non-empty, no leading/trailing '/', no "//") and no key is a
directory prefix of another -/
def validKeyB (k : Key) : Bool :=
  !k.isEmpty && k.head? != some '/' && k.getLast? != some '/' &&
  !(List.zip k (k.drop 1)).any (fun p => p.1 == '/' && p.2 == '/')
def validPrefixB (p : Key) : Bool := p.isEmpty || (p.getLast? == some '/' && validKeyB p.dropLast)
def hierarchyShaped (ks : List Key) : Prop :=
  (∀ k ∈ ks, validKeyB k = true) ∧ ∀ a ∈ ks, ∀ b ∈ ks, ¬ ((a ++ ['/']).isPrefixOf b = true)

end Zarrs
