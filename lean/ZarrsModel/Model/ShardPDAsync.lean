import ZarrsModel.Model.ShardPD
/-
The ASYNCHRONOUS sharding partial decoder (C07, C17):
zarrs/src/array/codec/array_to_bytes/sharding/sharding_partial_decoder.rs, `AsyncShardingPartialDecoder::{new,
partial_decode}`, the `DataTypeSize::Fixed` branch, on the types of Model/ShardPD.lean (handles, regions, `ChainS`).

The constructor is the twin of the synchronous one (`decode_shard_index_async_partial_decoder` is
`decode_shard_index_partial_decoder` with `.await`): `shardIndexPD`.  `partial_decode` is a DIFFERENT algorithm:

  1. `chunk_info`: for every item of `array_subset.chunks_unchecked(chunk_shape)` (C order) the chunk subset and
     `Some((offset, size))` of its index entry, `None` for the sentinel entry;
  2. `results = join_all(...)` over the STORED items only (`filter_map`): `validate_inner_chunk_size`, the inner
     chain's async partial decoder over `AsyncByteIntervalPartialDecoder(offset, size)`, asked for the WHOLE inner
     chunk (`ArraySubset::new_with_shape(chunk_subset.shape())`, one request: the commented-out code asked for the
     overlap), then `extract_array_subset(overlap relative to the chunk, chunk shape)`; the future returns
     `(bytes, chunk_subset_overlap)`: every result carries ITS OWN overlap;
  3. `try_for_each` over `results`: the first `Err` is returned; else `copy_from_slice` into the view `overlap relative
     to the region` of an UNINITIALISED buffer (`Vec::with_capacity`, `set_len` at the end);
  4. the NOT-STORED items: `fill` on the view `overlap relative to the region`.

(The variable-size branch is the twin of the synchronous one — partial decode of the overlap per inner chunk,
`merge_chunks_vlen` — and is not modelled, as in Model/ShardPD.lean.)

`innerPD` is the inner chain's partial decoder (async twin: for `bytes` chains the async partial decoders of
`transpose`, `bytes`, `crc32c` and the decode-all fallbacks are line-by-line twins of the synchronous ones, so
`Chain.partialDecoder` serves for both; for a nested sharding codec it is `asyncShardPD` again:
`ChainS.asyncPartialDecoder`).
-/
namespace Zarrs.Partial
open Zarrs Zarrs.Codec

/-- one item of `chunk_info`: the chunk subset and `Some((offset, size))`, `None` for a sentinel entry -/
abbrev ChunkInfo := Subset × Option (Nat × Nat)

/-- `chunk_info` of `AsyncShardingPartialDecoder::partial_decode`: the items of `chunks_unchecked(chunk_shape)` in
C order, each with its index entry `shard_index[ravel(c, chunks_per_shard) * 2 ..]` (an index outside the decoded
index panics: `none`; possible only for regions outside the shard) -/
def chunkInfo (innerShape cps : Shape) (entries : List (Nat × Nat)) (r : Subset) : Option (List ChunkInfo) :=
  (r.chunks innerShape).mapM (fun p =>
    match entries[ravel p.1 cps]? with
    | none => none
    | some e => some (p.2, if e.1 == Shard.sentinel && e.2 == Shard.sentinel then none else some e))

/-- the `filter_map` feeding `join_all`: the stored items, in the order of `chunk_info` -/
def storedOf (ci : List ChunkInfo) : List (Subset × (Nat × Nat)) :=
  ci.filterMap (fun q => q.2.map (fun e => (q.1, e)))

/-- `filled_chunks`: the not-stored items, in the order of `chunk_info` -/
def filledOf (ci : List ChunkInfo) : List Subset :=
  ci.filterMap (fun q => if q.2.isNone then some q.1 else none)

/-- `ArrayBytes::extract_array_subset(subset, array_shape, data_type)` on the decoded inner chunk `full`:
`subset.byte_ranges(array_shape, ..)` rejects a subset outside the shape; `extract_byte_ranges_concat` rejects byte
ranges outside the buffer.  Every `ArrayPartialDecoderTraits` implementation answers a region with a buffer of the
region's size, so `full` has the chunk's number of elements; any other answer of the abstract `innerPD` is rejected. -/
def extractSubset (sub : Subset) (shape : Shape) (full : List Elem) : Option (List Elem) :=
  if !(sub.wf && sub.inboundsShape shape) then none
  else if full.length != prod shape then none
  else some (sub.extract shape full)

/-- one future of `join_all` for the stored item `q = (chunk subset, (offset, size))` of the region `r`:
`validate_inner_chunk_size` (an unexpected size is an error before the inner decoder is built), the inner chain's
partial decoder on the byte interval asked for the whole chunk (`.remove(0)`), `extract_array_subset`; the result is
`(decoded bytes of the overlap, chunk_subset_overlap)` -/
def asyncDecodeStored (fixed : Option Nat) (fill : Elem) (innerShape : Shape)
    (innerPD : Shape → Elem → BHandle → AHandle) (h : BHandle) (r : Subset) (q : Subset × (Nat × Nat)) :
    Option (List Elem × Subset) :=
  if !sizeOk fixed q.2.2 then none
  else match innerPD innerShape fill (byteIntervalPD q.2.1 q.2.2 h) [Subset.ofShape q.1.shape] with
    | some (full :: _) =>
      let ov := r.overlap q.1
      (extractSubset (ov.relativeTo q.1.start) q.1.shape full).map (fun part => (part, ov))
    | _ => none

/-- a write through an `ArrayBytesFixedDisjointView` of the region's buffer: the view and the elements -/
abbrev ViewWrite := Subset × List Elem

/-- the writes of step 3: one `copy_from_slice` per result, on the view `overlap relative to the region`, the overlap
being the one the future returned with the bytes -/
def storedWrites (r : Subset) (results : List (List Elem × Subset)) : List ViewWrite :=
  results.map (fun res => (res.2.relativeTo r.start, res.1))

/-- the writes of step 4: one `fill` per not-stored item -/
def filledWrites (fill : Elem) (r : Subset) (filled : List Subset) : List ViewWrite :=
  filled.map (fun cs => ((r.overlap cs).relativeTo r.start, List.replicate (r.overlap cs).numElements fill))

/-- all writes into the buffer of the region `r`, in program order (stored items first, then the not-stored ones);
`none`: a panic in `chunk_info`, or an `Err` among `results`.  `copy_from_slice(..).expect(..)` panics on a length
mismatch (kept, as in `shardStep`, as a test on the total byte length: `none`). -/
def asyncWrites (fixed : Option Nat) (es : Nat) (fill : Elem) (innerShape cps : Shape) (entries : List (Nat × Nat))
    (innerPD : Shape → Elem → BHandle → AHandle) (h : BHandle) (r : Subset) : Option (List ViewWrite) :=
  match chunkInfo innerShape cps entries r with
  | none => none
  | some ci =>
    match (storedOf ci).mapM (asyncDecodeStored fixed fill innerShape innerPD h r) with
    | none => none
    | some results =>
      if results.any (fun res => res.1.flatten.length != res.2.numElements * es) then none
      else some (storedWrites r results ++ filledWrites fill r (filledOf ci))

/-- apply writes to a buffer of shape `sh` (`copy_from_slice` / `fill` on disjoint views) -/
def applyViewWrites (sh : Shape) (ws : List ViewWrite) (init : List Elem) : List Elem :=
  ws.foldl (fun out w => updateRuns sh w.1 out w.2) init

/-- one region of the async `partial_decode`.  The buffer is `Vec::with_capacity(shard_size)` — uninitialised — and
`set_len(shard_size)` after the writes: `junk` stands for what the memory held (`asyncShardPD_tiles`: it is never
observed). -/
def asyncShardRegionFrom (junk : List Elem) (fixed : Option Nat) (es : Nat) (fill : Elem) (innerShape cps : Shape)
    (entries : List (Nat × Nat)) (innerPD : Shape → Elem → BHandle → AHandle) (h : BHandle) (r : Subset) :
    Option (List Elem) :=
  (asyncWrites fixed es fill innerShape cps entries innerPD h r).map (fun ws => applyViewWrites r.shape ws junk)

def asyncShardRegion (fixed : Option Nat) (es : Nat) (fill : Elem) (innerShape cps : Shape)
    (entries : List (Nat × Nat)) (innerPD : Shape → Elem → BHandle → AHandle) (h : BHandle) (r : Subset) :
    Option (List Elem) :=
  asyncShardRegionFrom (List.replicate r.numElements (List.replicate es 0)) fixed es fill innerShape cps entries
    innerPD h r

/-- `AsyncShardingPartialDecoder`: construction = `shardIndexPD` (twin); `partial_decode`: rank test of every region,
fill for an absent shard, else region by region (sequentially: "TODO: Could go parallel here?") -/
def asyncShardPD (cfg : Shard.Cfg) (validate : Bool) (shardShape innerShape : Shape) (es : Nat) (fill : Elem)
    (fixed : Option Nat) (innerPD : Shape → Elem → BHandle → AHandle) (h : BHandle) : AHandle :=
  match shardIndexPD cfg validate shardShape innerShape h with
  | none => fun _ => none
  | some index => fun rs =>
    if rs.any (fun r => !r.wf || r.rank != shardShape.length) then none else
    match index with
    | none => some (rs.map (fun r => List.replicate r.numElements fill))
    | some entries =>
      match chunksPerShard shardShape innerShape with
      | none => none
      | some cps => rs.mapM (asyncShardRegion fixed es fill innerShape cps entries innerPD h)

/-- `CodecChain::async_partial_decoder`: as `ChainS.partialDecoder`, the sharding codec building an
`AsyncShardingPartialDecoder` whose inner chain is again an async partial decoder -/
def ChainS.asyncPartialDecoder : ChainS → Shape → Elem → BHandle → AHandle
  | .leaf c _, sh, fill, input => c.partialDecoder sh fill input
  | .shard a2a cfg innerShape es inner b2b, sh, fill, input =>
    let hb := b2b.foldr (fun st h => st.pd h) input
    stackA2A a2a sh (asyncShardPD cfg true (shapesOf a2a sh) innerShape es fill (inner.fixedSize innerShape)
      (fun ish f g => inner.asyncPartialDecoder ish f g) hb)

/-! ### the two seeded variants (defects living in the difference between the two decoders) -/

/-- SEEDED "validation dropped": `asyncDecodeStored` without `validate_inner_chunk_size` -/
def asyncDecodeStoredNoCheck (fill : Elem) (innerShape : Shape)
    (innerPD : Shape → Elem → BHandle → AHandle) (h : BHandle) (r : Subset) (q : Subset × (Nat × Nat)) :
    Option (List Elem × Subset) :=
  asyncDecodeStored none fill innerShape innerPD h r q

/-- SEEDED "mispairing": the decoded bytes of `results` (stored items only) zipped with the overlaps of the
UNFILTERED `chunk_info` — result `k` is written through the view of item `k` of `chunk_info`, whatever that item is -/
def storedWritesMispaired (r : Subset) (ci : List ChunkInfo) (results : List (List Elem × Subset)) : List ViewWrite :=
  (results.zip ci).map (fun p => ((r.overlap p.2.1).relativeTo r.start, p.1.1))

def asyncWritesMispaired (fixed : Option Nat) (fill : Elem) (innerShape cps : Shape) (entries : List (Nat × Nat))
    (innerPD : Shape → Elem → BHandle → AHandle) (h : BHandle) (r : Subset) : Option (List ViewWrite) :=
  match chunkInfo innerShape cps entries r with
  | none => none
  | some ci =>
    match (storedOf ci).mapM (asyncDecodeStored fixed fill innerShape innerPD h r) with
    | none => none
    | some results => some (storedWritesMispaired r ci results ++ filledWrites fill r (filledOf ci))

end Zarrs.Partial
