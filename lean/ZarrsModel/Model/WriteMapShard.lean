import ZarrsModel.Model.WriteMap
import ZarrsModel.Model.ShardPD
/-
Write maps of the sharded decode routes (C17): which bytes of which published buffer each leaf view writes.

Every write to an output buffer goes through `ArrayBytesFixedDisjointView::{copy_from_slice, fill}`
(zarrs/src/array/array_bytes_fixed_disjoint_view.rs): a view on the subset `v` of a buffer of shape `out` with
element size `es` writes exactly the byte ranges `v.byteRanges out es`, one per contiguous run of `v` in `out`
(`contiguous_linearised_indices`), whether it copies decoded bytes or repeats the fill value.  A map is therefore
decided by the list of LEAF views (views that are written, as opposed to views that are only subdivided).

Routes (all `DataTypeSize::Fixed`):
(a)  `ShardingCodec::decode` (sharding_codec.rs): a new buffer of the shard's shape, one view per inner chunk
     `chunk_index_to_subset(k)`, `k = 0 .. num_chunks-1`; a stored inner chunk is decoded by `inner_codecs.decode` INTO A
     BUFFER OF ITS OWN (if the inner chain is sharded again that buffer is published by the nested `decode` with its own
     map (a)) and copied with one `copy_from_slice`; a missing inner chunk is one `fill`.  No recursion into sub-views.
(a') `ShardingCodec::decode_into` (reached from `CodecChain::decode_into` when the chain has no array-to-array codec):
     the caller's view is subdivided, one sub-view `view.start + chunk_subset.start` per inner chunk; missing: `fill`;
     stored: `inner_codecs.decode_into(sub-view)`, which is `CodecChain::decode_into` again: sharding without
     array-to-array codecs recurses (views of views), everything else decodes into a buffer of its own and issues one
     `copy_from_slice` on the sub-view (the default `ArrayToBytesCodecTraits::decode_into`).
(b)  `ShardingPartialDecoder::partial_decode` (sharding_partial_decoder.rs), per region: a zeroed buffer of the region's
     shape, one view `overlap(region, chunk) relative to region.start` per item of `region.chunks_unchecked(chunk_shape)`,
     written by one `copy_from_slice` (decoded piece or repeated fill value).  The inner partial decoder returns an
     owned buffer (a nested sharding partial decoder publishes it with its own map (b)).
(c)  `Array::retrieve_array_subset_sharded_opt` (array_sync_sharded_readable_ext.rs): one view per overlapped shard,
     `overlap(shard, region) relative to region.start`, written by ONE `copy_from_slice` of the bytes the cached partial
     decoder returned for `overlap relative to shard.start` (a buffer of its own, map (b)).  The region is not tested
     against the array shape: `retrieve_inner_chunks_opt` passes whole inner chunks, which reach beyond the array at a
     ragged edge.
(d)  `Array::retrieve_array_subset_opt`, two or more chunks (array_sync_readable.rs): one view per chunk as in (c);
     a whole-chunk overlap goes to `retrieve_chunk_into` (missing chunk: `fill`; stored: `CodecChain::decode_into`, route
     (a')), a partial overlap to the default `partial_decode_into` (`partial_decode` into a buffer of its own, one
     `copy_from_slice`).
-/
namespace Zarrs
open Zarrs.Partial (chunksPerShard AStage shapesOf squeezeRegion)

/-- results of the tasks of a `try_for_each`, concatenated; an error in any task is an error -/
def flatOpt {α} : List (Option (List α)) → Option (List α)
  | [] => some []
  | none :: _ => none
  | some a :: rest =>
    match flatOpt rest with
    | some b => some (a ++ b)
    | none => none

/-- `ShardingCodec::chunk_index_to_subset(k, chunks_per_shard)`: `unravel_index`, times the inner chunk shape -/
def shardChunkSubset (cps inner : Shape) (k : Nat) : Subset := ⟨zipMul (unravel k cps) inner, inner⟩

/-! ### (a) `ShardingCodec::decode` -/

/-- the views of `ShardingCodec::decode`, in the order of the chunk counter (`none`: `calculate_chunks_per_shard`
fails) -/
def shardDecodeViews (shardShape inner : Shape) : Option (List Subset) :=
  match chunksPerShard shardShape inner with
  | none => none
  | some cps => some ((List.range (prod cps)).map (shardChunkSubset cps inner))

/-- the write map of the buffer published by `ShardingCodec::decode`, fixed branch (an output of size 0 is returned
before any view exists) -/
def shardDecodeMap (shardShape inner : Shape) (es : Nat) : Option (List (Nat × Nat)) :=
  match shardDecodeViews shardShape inner with
  | none => none
  | some vs => if prod shardShape * es == 0 then some [] else some (vs.flatMap (fun v => v.byteRanges shardShape es))

/-! ### (a') `CodecChain::decode_into` / `ShardingCodec::decode_into` -/

/-- what `retrieve_chunk_into` / `CodecChain::decode_into` does with a view, as far as writes are concerned -/
inductive IntoTree where
  /-- the chunk is not stored: `fill` on the view (`copy_fill_value_into`, or the sentinel branch of `decode_into`) -/
  | fill
  /-- decode into a buffer of its own, then one `copy_from_slice` on the view (default `decode_into`; the tail of
  `CodecChain::decode_into` when the chain has array-to-array codecs) -/
  | leaf
  /-- `ShardingCodec::decode_into` with inner chunk shape `inner`; `sub k` = inner chunk `k` (C order) -/
  | shard (inner : Shape) (sub : Nat → IntoTree)

/-- byte ranges written into the buffer of shape `out` through the view `v` when a chunk of decoded shape `sh` is
handled as `t`.  `leaf`: `decoded_representation.num_elements() != output_view.num_elements()` is an error
(equivalently the length test of `copy_from_slice`).  `shard`: `ArraySubset::new_with_start_shape(zip(view.start,
chunk.start) sums, chunk.shape).unwrap()` needs equal lengths; the shape of the view is NOT compared with the shard
shape (`subdivide_unchecked`): the callers pass views of the chunk's shape. -/
def decodeIntoMap (out : Shape) (es : Nat) : IntoTree → Shape → Subset → Option (List (Nat × Nat))
  | .fill, _, v => some (v.byteRanges out es)
  | .leaf, sh, v => if prod sh == v.numElements then some (v.byteRanges out es) else none
  | .shard inner sub, sh, v =>
    match chunksPerShard sh inner with
    | none => none
    | some cps =>
      flatOpt ((List.range (prod cps)).map (fun k =>
        let st := addIdx v.start (shardChunkSubset cps inner k).start
        if st.length != inner.length then none
        else decodeIntoMap out es (sub k) inner ⟨st, inner⟩))

/-! ### (b) `ShardingPartialDecoder::partial_decode`, one region -/

/-- the views of one region: `chunk_subset_overlap.relative_to(array_subset.start())` per item of the chunk iterator -/
def shardPDViews (inner : Shape) (r : Subset) : List Subset :=
  (r.chunks inner).map (fun p => (r.overlap p.2).relativeTo r.start)

/-- the write map of the buffer `out_array_subset` of one region (`none`: the index lookup
`shard_index[ravel(chunk_indices, chunks_per_shard) * 2]` is out of range, cf. `shardStep`) -/
def shardPDMap (cps inner : Shape) (r : Subset) (es : Nat) : Option (List (Nat × Nat)) :=
  if (r.chunks inner).all (fun p => decide (ravel p.1 cps < prod cps)) then
    some ((shardPDViews inner r).flatMap (fun v => v.byteRanges r.shape es))
  else none

/-! ### (c) `retrieve_array_subset_sharded_opt` -/

/-- the write map of the output of `retrieve_array_subset_sharded_opt`: the view construction is, line by line, that
of the multi-chunk branch of `retrieve_array_subset_opt` (`chunks_in_array_subset`, `chunk_subset`, `overlap`,
`relative_to(array_subset.start())`), each view written by one `copy_from_slice`; what differs is the admissible
region (see Props/C17Shard `sharded_subset_tiles`) -/
def ArrCfg.shardedSubsetMap {α} (cfg : ArrCfg α) (region : Subset) (es : Nat) : Option (List (Nat × Nat)) :=
  cfg.writeMap region es

/-! ### (d) `retrieve_array_subset_opt`, multi-chunk, on any array (sharded: `tree c` has `shard` nodes) -/

/-- `tree c` says how `retrieve_chunk_into` handles chunk `c` (`fill` if it is not stored, else the tree of the
array's codec chain).  Per chunk: `retrieve_chunk_subset_into` tests the in-chunk region against the chunk shape, takes
the whole-chunk path if it starts at 0 and has the chunk's shape, else `partial_decode_into` (default implementation:
one `copy_from_slice`). -/
def ArrCfg.shardedReadMap {α} (cfg : ArrCfg α) (tree : Idx → IntoTree) (region : Subset) (es : Nat) :
    Option (List (Nat × Nat)) :=
  match cfg.grid.chunksInArraySubset region cfg.shape with
  | none => none
  | some chunks =>
    flatOpt (chunks.indices.map (fun c =>
      match cfg.grid.subset c with
      | none => none
      | some cs =>
        let ov := cs.overlap region
        let view := ov.relativeTo region.start
        let inChunk := ov.relativeTo cs.start
        if !inChunk.inboundsShape cs.shape then none
        else if inChunk.start.all (· == 0) && inChunk.shape == cs.shape then
          decodeIntoMap region.shape es (tree c) cs.shape view
        else some (view.byteRanges region.shape es)))

/-! ### codec chains and stored chunks, as far as views are concerned -/

/-- a codec chain: its array-to-array codecs and whether its array-to-bytes codec is `sharding_indexed` (with the
inner chunk shape and the inner chain); bytes-to-bytes codecs never see a view -/
inductive WChain where
  | leaf (a2a : List AStage)
  | shard (a2a : List AStage) (inner : Shape) (sub : WChain)

/-- which (inner) chunks are stored: `stored sub`, `sub k` = inner chunk `k` of a shard (ignored otherwise) -/
inductive Presence where
  | missing
  | stored (sub : Nat → Presence)

/-- `CodecChain::decode_into` on a stored chunk / `fill` on a missing one: the fast paths hand the view to the
array-to-bytes codec only when there is no array-to-array codec -/
def WChain.intoTree : WChain → Presence → IntoTree
  | _, .missing => .fill
  | .leaf _, .stored _ => .leaf
  | .shard a2a inner subc, .stored sub =>
    if a2a.isEmpty then .shard inner (fun k => subc.intoTree (sub k)) else .leaf

/-- `ShardingCodec::encode` omits an inner chunk whose elements all equal the fill value unless
`store_empty_chunks`; the array does the same with whole chunks.  `data = none`: the chunk is not stored. -/
def WChain.presence (storeEmpty : Bool) (fill : Partial.Elem) : WChain → Shape → Option (List Partial.Elem) → Presence
  | _, _, none => .missing
  | .leaf _, _, some _ => .stored (fun _ => .missing)
  | .shard a2a inner subc, sh, some xs =>
    let ys := (Partial.encodeA2A a2a sh xs).1
    let pieces := Partial.splitShard (shapesOf a2a sh) inner ys
    .stored (fun k =>
      match pieces[k]? with
      | none => .missing
      | some piece =>
        if !storeEmpty && piece.all (· == fill) then .missing else subc.presence storeEmpty fill inner (some piece))

/-- the region asked of the array-to-bytes partial decoder when the chain's partial decoder is asked for `r`
(`TransposePartialDecoder`, `SqueezePartialDecoder`, cf. Model/Partial.lean) -/
def a2aRegion : List AStage → Shape → Subset → Subset
  | [], _, r => r
  | st :: rest, sh, r =>
    a2aRegion rest (st.encShape sh)
      (match st with
       | .transpose order => ⟨Codec.permute r.start order, Codec.permute r.shape order⟩
       | .squeeze => squeezeRegion sh r
       | .cache => r)

/-- a published buffer: its length and the ranges written before the publish -/
abbrev Pub := Nat × List (Nat × Nat)

/-- all buffers published by `CodecChain::decode` of a stored chunk of decoded shape `sh`, inner buffers first
(publish order among the tasks of one shard is not fixed) -/
def WChain.decodePubs (es : Nat) : WChain → Shape → Presence → Option (List Pub)
  | _, _, .missing => some []
  | .leaf _, _, .stored _ => some []
  | .shard a2a inner subc, sh, .stored sub =>
    let esh := shapesOf a2a sh
    match chunksPerShard esh inner, shardDecodeMap esh inner es with
    | some cps, some m =>
      if prod esh * es == 0 then some [] else
      match flatOpt ((List.range (prod cps)).map (fun k => subc.decodePubs es inner (sub k))) with
      | none => none
      | some inner_pubs => some (inner_pubs ++ [(prod esh * es, m)])
    | _, _ => none

/-- buffers published while `CodecChain::decode_into` handles a stored chunk: none of its own (it writes into the
caller's view).  A chain with array-to-array codecs decodes fully first (`decodePubs`); `ShardingCodec::decode_into`
hands sub-views to `inner_codecs.decode_into` for the stored inner chunks. -/
def WChain.decodeIntoPubs (es : Nat) : WChain → Shape → Presence → Option (List Pub)
  | _, _, .missing => some []
  | .leaf _, _, .stored _ => some []
  | .shard a2a inner subc, sh, .stored sub =>
    if !a2a.isEmpty then (WChain.shard a2a inner subc).decodePubs es sh (.stored sub) else
    match chunksPerShard sh inner with
    | none => none
    | some cps => flatOpt ((List.range (prod cps)).map (fun k => subc.decodeIntoPubs es inner (sub k)))

/-- all buffers published by `partial_decode([r])` of the chain's partial decoder on a chunk of decoded shape `sh`
(a missing chunk has no index: fill, no view) -/
def WChain.pdPubs (es : Nat) : WChain → Shape → Presence → Subset → Option (List Pub)
  | _, _, .missing, _ => some []
  | .leaf _, _, .stored _, _ => some []
  | .shard a2a inner subc, sh, .stored sub, r =>
    let esh := shapesOf a2a sh
    let r' := a2aRegion a2a sh r
    match chunksPerShard esh inner with
    | none => none
    | some cps =>
      match shardPDMap cps inner r' es with
      | none => none
      | some m =>
        match flatOpt ((r'.chunks inner).map (fun p =>
          subc.pdPubs es inner (sub (ravel p.1 cps)) ((r'.overlap p.2).relativeTo p.2.start))) with
        | none => none
        | some inner_pubs => some (inner_pubs ++ [(r'.numElements * es, m)])

end Zarrs
