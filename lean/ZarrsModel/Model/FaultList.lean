import ZarrsModel.Model.FaultOps
import ZarrsModel.Model.Hier
/-
Hierarchy LISTINGS as store-operation programs (C20).

`Model/FaultOps.lean` writes every method as the program (`Prog`) of the store operations the Rust code issues, in its
order; a failing operation ends the run with an error (`?`).  Here the listing methods of zarrs/src/node/node_sync.rs
(`get_child_nodes`, `node_exists`, `node_exists_listable`), zarrs/src/node.rs (`Node::get_metadata`,
`Node::open_opt`) and zarrs/src/group.rs (`children`, `child_paths`, `child_group_paths`, `child_array_paths`,
`child_groups`, `child_arrays`) are such programs, with the `recursive` flag and returning the discovered TREE (prefix,
kind, children) as `Model/Hier.lean` does.  A node is addressed by its store prefix (`"a/b/"` for `/a/b`); the
conversions prefix ↔ `NodePath` (node_path.rs) cannot fail on the prefixes `list_dir` returns for valid keys and are
not modelled.  Recursion is bounded by `fuel` exactly as `Hier.childNodes` (`Hier.depthBound m` is enough for any store).

The seeded defect (`let Ok(m) = Node::get_metadata(..) else { continue }`) is a CATCH of an error, which `Prog` cannot
express; it is written directly over the failing store (`getChildNodesSwallowF`).

`node_exists_listable` issues `list_prefix`, an operation `Prog` does not have: `LProg` is a program that may start
with one `list_prefix`.
-/
namespace Zarrs.FaultList
open Zarrs Zarrs.Hier

/-! ### trees -/

/-- the store prefix of a discovered node (its `NodePath`) -/
def _root_.Zarrs.Hier.Tree.path : Tree → Key
  | .mk p _ _ => p
/-- array / group, V2 / V3 (the constructor of its `NodeMetadata`) -/
def _root_.Zarrs.Hier.Tree.kind : Tree → Kind
  | .mk _ k _ => k
/-- `Node::children` -/
def _root_.Zarrs.Hier.Tree.children : Tree → List Tree
  | .mk _ _ cs => cs

mutual
def decEqTree : (a b : Tree) → Decidable (a = b)
  | .mk p k cs, .mk p' k' cs' =>
    if hp : p = p' then
      if hk : k = k' then
        match decEqTrees cs cs' with
        | isTrue hc => isTrue (by rw [hp, hk, hc])
        | isFalse hc => isFalse (fun h => hc (by cases h; rfl))
      else isFalse (fun h => hk (by cases h; rfl))
    else isFalse (fun h => hp (by cases h; rfl))
def decEqTrees : (a b : List Tree) → Decidable (a = b)
  | [], [] => isTrue rfl
  | [], _ :: _ => isFalse (fun h => by cases h)
  | _ :: _, [] => isFalse (fun h => by cases h)
  | a :: as, b :: bs =>
    match decEqTree a b with
    | isTrue h1 =>
      (match decEqTrees as bs with
       | isTrue h2 => isTrue (by rw [h1, h2])
       | isFalse h2 => isFalse (fun h => h2 (by cases h; rfl)))
    | isFalse h1 => isFalse (fun h => h1 (by cases h; rfl))
end
/-- equality of discovered trees is decidable (`Tree` is a nested inductive: no derive handler) -/
instance : DecidableEq Tree := decEqTree

/-! ### `Node::get_metadata` and `get_child_nodes` -/

/-- `Node::get_metadata(storage, path, &MetadataRetrieveVersion::Default)` (node.rs): GET `zarr.json`; when absent GET
`.zarray` (stored and parsing: GET `.zattrs`); when absent GET `.zgroup` (stored and parsing: GET `.zattrs`); nothing:
`Err(MissingMetadata)` (`Meta.missing`); a document that does not parse: `Err(StorageError::InvalidMetadata)`
(`Meta.invalid`); a failing store operation: the `?` of that `get`.  This is `Hier.getMetaP` of `Model/FaultOps.lean` -/
def getMetadataP (r : Reader) (pre : Key) : Prog Meta := getMetaP r pre

/-- `get_child_nodes(storage, path, recursive)` (node/node_sync.rs): `discover_children` = ONE `list_dir` of the prefix,
keeping the child prefixes that do not start with `__` (zarrs_storage/src/storage_sync.rs); then for each child prefix
IN THE ORDER THE STORE LISTS THEM: `Node::get_metadata` — `Err(MissingMetadata)` ⇒ `continue`, any other error
(invalid metadata, a store failure) ⇒ `return Err`; `recursive` and a group ⇒ its own `get_child_nodes(.., true)?`
BEFORE the next sibling; `nodes.push(..)` (the loop is `Hier.childTreesWith`) -/
def getChildNodesP (r : Reader) (recursive : Bool) : Nat → Key → Prog (List Tree)
  | 0, _ => .ret []
  | fuel + 1, pre => .listDir pre (fun d =>
      childTreesWith r (fun q => if recursive then getChildNodesP r recursive fuel q else .ret [])
        (d.2.filter keepChild))

/-! ### the `Group` listing methods (group.rs) -/

/-- `Group::children(recursive)`: `get_child_nodes(&self.storage, &self.path, recursive)` -/
def childrenP (r : Reader) (recursive : Bool) (fuel : Nat) (pre : Key) : Prog (List Tree) :=
  getChildNodesP r recursive fuel pre

/-- `Group::child_paths(recursive)`: `self.children(recursive)?.into_iter().map(Into::into).collect()` — the paths of
the nodes of the RETURNED vector, i.e. of the direct children (with `recursive` the store operations of the whole
subtree are issued, the nested children are then dropped with their `Node`s) -/
def childPathsP (r : Reader) (recursive : Bool) (fuel : Nat) (pre : Key) : Prog (List Key) :=
  (childrenP r recursive fuel pre).bind (fun ts => .ret (ts.map Tree.path))

/-- `Group::child_group_paths(recursive)`: `filter_map` on `NodeMetadata::Group(_)` -/
def childGroupPathsP (r : Reader) (recursive : Bool) (fuel : Nat) (pre : Key) : Prog (List Key) :=
  (childrenP r recursive fuel pre).bind (fun ts => .ret ((ts.filter (fun t => t.kind.isGroup)).map Tree.path))

/-- `Group::child_array_paths(recursive)`: `filter_map` on `NodeMetadata::Array(_)` -/
def childArrayPathsP (r : Reader) (recursive : Bool) (fuel : Nat) (pre : Key) : Prog (List Key) :=
  (childrenP r recursive fuel pre).bind (fun ts => .ret ((ts.filter (fun t => !t.kind.isGroup)).map Tree.path))

/-- `Group::child_groups(recursive)`: the group children as `Group::new_with_metadata(storage, path, metadata)` — which
only re-validates the path (`NodePath::new`) and issues no store operation -/
def childGroupsP (r : Reader) (recursive : Bool) (fuel : Nat) (pre : Key) : Prog (List (Key × Kind)) :=
  (childrenP r recursive fuel pre).bind (fun ts =>
    .ret ((ts.filter (fun t => t.kind.isGroup)).map (fun t => (t.path, t.kind))))

/-- `Group::child_arrays(recursive)`: the array children as `Array::new_with_metadata(storage, path, metadata)`, collected
into a `Result`: no store operation, but the array metadata must be ACCEPTED (data type, codecs, grid … supported):
`arrOk q` says whether the metadata stored at prefix `q` is (a listing never changes the store and a successful read
returns the stored document, so this is a function of the prefix); one rejected array makes the method an error -/
def childArraysP (r : Reader) (arrOk : Key → Bool) (recursive : Bool) (fuel : Nat) (pre : Key) :
    Prog (List (Key × Kind)) :=
  (childrenP r recursive fuel pre).bind (fun ts =>
    let arrs := ts.filter (fun t => !t.kind.isGroup)
    if arrs.all (fun t => arrOk t.path) then .ret (arrs.map (fun t => (t.path, t.kind))) else .fail)

/-! ### `Node::open`, `node_exists`, `node_exists_listable` -/

/-- `Node::open_opt(storage, path, &Default)` (node.rs): `get_metadata(..)?` (no metadata is an error here), then for a
group `get_child_nodes(storage, &path, true)?`; the node with its children -/
def openNodeTreeP (r : Reader) (fuel : Nat) (pre : Key) : Prog Tree :=
  (getMetadataP r pre).bind (fun
    | .node k =>
      if k.isGroup then (getChildNodesP r true fuel pre).bind (fun cs => .ret (Tree.mk pre k cs))
      else .ret (Tree.mk pre k [])
    | _ => .fail)

/-- `node_exists(storage, path)` (node/node_sync.rs):
`Ok(storage.get(v3)?.is_some() || storage.get(.zarray)?.is_some() || storage.get(.zgroup)?.is_some())` — `||`
short-circuits: a key that is found ends the reads -/
def nodeExistsP (pre : Key) : Prog Bool :=
  .get (pre ++ kZarrJson) (fun
    | some _ => .ret true
    | none => .get (pre ++ kZarray) (fun
      | some _ => .ret true
      | none => .get (pre ++ kZgroup) (fun
        | some _ => .ret true
        | none => .ret false)))

/-- `ListableStorageTraits::list_prefix` over the counting / failing store -/
def flistPrefix (s : FStore) (p : Key) : FR (List Key) :=
  if s.faultNow then .err s.tick else .ok (s.m.keys.filter (hasPrefix · p)) s.tick

/-- a method that may start with ONE `list_prefix` and goes on as a `Prog` -/
inductive LProg (β : Type) where
  | prog (p : Prog β)
  | listPrefix (p : Key) (cont : List Key → Prog β)

namespace LProg
variable {β : Type}
def run : LProg β → FStore → FR β
  | .prog p, s => p.run s
  | .listPrefix q cont, s => match flistPrefix s q with
    | .ok ks s' => (cont ks).run s'
    | .err s' => .err s'
def pure : LProg β → KV → Option (β × KV)
  | .prog p, m => p.pure m
  | .listPrefix q cont, m => (cont (m.keys.filter (hasPrefix · q))).pure m
def ops : LProg β → KV → Nat
  | .prog p, m => p.ops m
  | .listPrefix q cont, m => (cont (m.keys.filter (hasPrefix · q))).ops m + 1
/-- `P<prefix>` is what the recording store of the harness prints for `list_prefix` -/
def trace : LProg β → KV → List (Char × Key)
  | .prog p, m => p.trace m
  | .listPrefix q cont, m => ('P', q) :: (cont (m.keys.filter (hasPrefix · q))).trace m
end LProg

/-- `node_exists_listable(storage, path)` (node/node_sync.rs): ONE `list_prefix(prefix)`, then
`keys.contains(v3) | keys.contains(.zarray) | keys.contains(.zgroup)` -/
def nodeExistsListableP (pre : Key) : LProg Bool :=
  .listPrefix pre (fun ks =>
    .ret (ks.contains (pre ++ kZarrJson) || ks.contains (pre ++ kZarray) || ks.contains (pre ++ kZgroup)))

/-! ### the fault-free functions the `Group` methods refine (derived from `Hier.childNodes` as the code derives them) -/

def childPaths (r : Reader) (m : KV) (recursive : Bool) (pre : Key) : Option (List Key) :=
  (childNodes r m recursive (depthBound m) pre).map (fun ts => ts.map Tree.path)
def childGroupPaths (r : Reader) (m : KV) (recursive : Bool) (pre : Key) : Option (List Key) :=
  (childNodes r m recursive (depthBound m) pre).map (fun ts => (ts.filter (fun t => t.kind.isGroup)).map Tree.path)
def childArrayPaths (r : Reader) (m : KV) (recursive : Bool) (pre : Key) : Option (List Key) :=
  (childNodes r m recursive (depthBound m) pre).map (fun ts => (ts.filter (fun t => !t.kind.isGroup)).map Tree.path)
def childGroups (r : Reader) (m : KV) (recursive : Bool) (pre : Key) : Option (List (Key × Kind)) :=
  (childNodes r m recursive (depthBound m) pre).map (fun ts =>
    (ts.filter (fun t => t.kind.isGroup)).map (fun t => (t.path, t.kind)))
def childArrays (r : Reader) (arrOk : Key → Bool) (m : KV) (recursive : Bool) (pre : Key) : Option (List (Key × Kind)) :=
  (childNodes r m recursive (depthBound m) pre).bind (fun ts =>
    let arrs := ts.filter (fun t => !t.kind.isGroup)
    if arrs.all (fun t => arrOk t.path) then some (arrs.map (fun t => (t.path, t.kind))) else none)
/-- `Node::open` as a tree -/
def openNodeTree (r : Reader) (m : KV) (pre : Key) : Option Tree :=
  match getMeta r m pre with
  | .node k =>
    if k.isGroup then (childNodes r m true (depthBound m) pre).map (Tree.mk pre k) else some (Tree.mk pre k [])
  | _ => none

/-! ### the seeded defect -/

/-- the loop of the SEEDED `get_child_nodes`: `let Ok(metadata) = Node::get_metadata(..) else { continue }` — EVERY
error of the child's metadata read (missing metadata, invalid metadata, a failing store operation) skips the child;
the store operations already issued are counted -/
def childTreesSwallowF (r : Reader) (sub : Key → FStore → FR (List Tree)) : List Key → FStore → FR (List Tree)
  | [], s => .ok [] s
  | q :: rest, s =>
    match (getMetadataP r q).run s with
    | .err s' => childTreesSwallowF r sub rest s'
    | .ok (.node k) s' =>
      (match (if k.isGroup then sub q s' else .ok [] s') with
       | .err s'' => .err s''
       | .ok cs s'' =>
         match childTreesSwallowF r sub rest s'' with
         | .err s3 => .err s3
         | .ok ts s3 => .ok (Tree.mk q k cs :: ts) s3)
    | .ok _ s' => childTreesSwallowF r sub rest s'

/-- the seeded `get_child_nodes(.., recursive)` over the failing store -/
def getChildNodesSwallowF (r : Reader) (recursive : Bool) : Nat → Key → FStore → FR (List Tree)
  | 0, _, s => .ok [] s
  | fuel + 1, pre, s =>
    match flistDir s pre with
    | .err s' => .err s'
    | .ok d s' =>
      childTreesSwallowF r (fun q s => if recursive then getChildNodesSwallowF r recursive fuel q s else .ok [] s)
        (d.2.filter keepChild) s'

end Zarrs.FaultList
