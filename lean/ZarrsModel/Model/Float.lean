/-
Layer E: IEEE-754 binary interchange formats as bit patterns (natural numbers), exact values as rationals
`num / den`, and round-to-nearest-even conversion from a rational.  Used by the fill-value model: decimal JSON
number -> binary64 (what `serde_json` with `float_roundtrip` computes), binary64 -> narrower formats
(`as f32`, `half`), and the exact widening conversions.
-/
namespace Zarrs.Float

structure Fmt where
  eb : Nat      -- exponent bits
  mb : Nat      -- stored mantissa bits
deriving Repr, DecidableEq

def f16 : Fmt := ⟨5, 10⟩
def bf16 : Fmt := ⟨8, 7⟩
def f32 : Fmt := ⟨8, 23⟩
def f64 : Fmt := ⟨11, 52⟩

def Fmt.bits (f : Fmt) : Nat := 1 + f.eb + f.mb
def Fmt.bias (f : Fmt) : Nat := 2 ^ (f.eb - 1) - 1
def Fmt.signBit (f : Fmt) : Nat := 2 ^ (f.eb + f.mb)
def Fmt.expMax (f : Fmt) : Nat := 2 ^ f.eb - 1
/-- magnitude bits of infinity -/
def Fmt.inf (f : Fmt) : Nat := f.expMax * 2 ^ f.mb
/-- the canonical quiet NaN (`0 11..1 10..0`), the Zarr "NaN" -/
def Fmt.qnan (f : Fmt) : Nat := f.inf + 2 ^ (f.mb - 1)

def Fmt.mag (f : Fmt) (b : Nat) : Nat := b % f.signBit
def Fmt.neg (f : Fmt) (b : Nat) : Bool := b / f.signBit % 2 == 1
def Fmt.isFinite (f : Fmt) (b : Nat) : Bool := f.mag b < f.inf
def Fmt.isInf (f : Fmt) (b : Nat) : Bool := f.mag b == f.inf
def Fmt.isNan (f : Fmt) (b : Nat) : Bool := f.mag b > f.inf

/-- exact value of a finite magnitude as `sig * 2^(e2)` with `e2 = expo - (bias + mb)`, returned as `(sig, expo)` -/
def Fmt.sigExp (f : Fmt) (m : Nat) : Nat × Nat :=
  let e := m / 2 ^ f.mb
  let man := m % 2 ^ f.mb
  if e == 0 then (man, 1) else (2 ^ f.mb + man, e)

/-- exact value of a finite magnitude as a rational `(num, den)` -/
def Fmt.value (f : Fmt) (m : Nat) : Nat × Nat :=
  let (sig, e) := f.sigExp m
  let off := f.bias + f.mb
  if e ≥ off then (sig * 2 ^ (e - off), 1) else (sig, 2 ^ (off - e))

/-- round the non-negative rational `num/den` (`den > 0`) to the nearest magnitude of the format, ties to even.
    The result may be `≥ f.inf`, meaning overflow. -/
def Fmt.round (f : Fmt) (num den : Nat) : Nat :=
  if num == 0 then 0 else
  -- e with 2^e ≤ num/den < 2^(e+1), as an offset from the smallest normal exponent: k = e - emin (clamped at 0)
  -- work with the biased scale: v * 2^(bias - 1 + mb) is the value in units of the smallest subnormal
  let sh := f.bias - 1 + f.mb
  let n := num * 2 ^ sh            -- value in units of 2^(emin - mb), as n / den
  -- normal numbers need the unit 2^(e - mb); find k ≥ 0 with (n / den) / 2^k in [2^mb, 2^(mb+1))
  let q0 := n / den
  let k := if q0 < 2 ^ (f.mb + 1) then 0 else Nat.log2 q0 - f.mb
  let d := den * 2 ^ k
  let m := n / d
  let r := n % d
  let m := if 2 * r > d || (2 * r == d && m % 2 == 1) then m + 1 else m
  -- m in [0, 2^(mb+1)]; bits = k * 2^mb + m (the hidden bit adds one to the exponent field)
  k * 2 ^ f.mb + m

/-- round toward zero (for faithful-rounding checks) -/
def Fmt.roundDown (f : Fmt) (num den : Nat) : Nat :=
  if num == 0 then 0 else
  let sh := f.bias - 1 + f.mb
  let n := num * 2 ^ sh
  let q0 := n / den
  let k := if q0 < 2 ^ (f.mb + 1) then 0 else Nat.log2 q0 - f.mb
  k * 2 ^ f.mb + n / (den * 2 ^ k)

/-- is `num/den` exactly representable -/
def Fmt.exact (f : Fmt) (num den : Nat) : Bool :=
  let m := f.roundDown num den
  m < f.inf && (let (a, b) := f.value m; a * den == num * b)

/-- conversion of a finite magnitude between formats, round to nearest even, overflow to infinity -/
def convert (src dst : Fmt) (m : Nat) : Nat :=
  let (a, b) := src.value m
  min (dst.round a b) dst.inf

/-- conversion of whole finite patterns (sign carried) -/
def convertBits (src dst : Fmt) (b : Nat) : Nat :=
  (if src.neg b then dst.signBit else 0) + convert src dst (src.mag b)

/-! ### decimal tokens -/

structure Dec where
  neg : Bool
  digits : Nat        -- integer and fraction digits read as one natural number
  exp10 : Int         -- value = digits * 10^exp10
deriving Repr

def natOfDigits (ds : List Char) : Nat := ds.foldl (fun acc c => acc * 10 + (c.toNat - 48)) 0

/-- read a JSON number token (already known to match the grammar) -/
def readDec (t : List Char) : Dec :=
  let (neg, t) := match t with | '-' :: r => (true, r) | r => (false, r)
  let ip := t.takeWhile Char.isDigit
  let r1 := t.dropWhile Char.isDigit
  let (fr, r2) := match r1 with
    | '.' :: r => (r.takeWhile Char.isDigit, r.dropWhile Char.isDigit)
    | r => ([], r)
  let ex : Int := match r2 with
    | _ :: '-' :: r => -(natOfDigits r : Int)
    | _ :: '+' :: r => (natOfDigits r : Int)
    | _ :: r => (natOfDigits r : Int)
    | [] => 0
  { neg, digits := natOfDigits (ip ++ fr), exp10 := ex - fr.length }

def Dec.rat (d : Dec) : Nat × Nat :=
  if d.exp10 ≥ 0 then (d.digits * 10 ^ d.exp10.toNat, 1) else (d.digits, 10 ^ (-d.exp10).toNat)

/-- decimal token -> binary64 pattern, correctly rounded; `none` when the magnitude overflows
    (`serde_json` reports "number out of range").  Exponents beyond ±400 are decided without big powers. -/
def readF64 (t : List Char) : Option Nat :=
  let d := readDec t
  let s := if d.neg then f64.signBit else 0
  if d.digits == 0 then some s
  else if d.exp10 > 400 then none
  else if d.exp10 + (Nat.log2 d.digits / 3 + 1 : Nat) < -400 then some s
  else
    let (a, b) := d.rat
    let m := f64.round a b
    if m ≥ f64.inf then none else some (s + m)

end Zarrs.Float
