import ZarrsModel.Model.WriteMap
/-
Write maps of a multi-chunk read whose region OVERHANGS the array (C17, out-of-bounds part).

`Array::retrieve_array_subset_opt` (zarrs/src/array/array_sync_readable.rs, fixed-size multi-chunk branch) and
`ArrayChunkCacheExt::retrieve_array_subset_opt_cached` (zarrs/src/array/chunk_cache/array_chunk_cache_ext_sync.rs)
do not require the region to be inside the array shape ("out-of-bounds elements will have the fill value"): the
view of a chunk is `chunk_subset.overlap(array_subset).relative_to(array_subset.start())` where
`chunk_subset = Array::chunk_subset(chunk_indices)` is `origin + chunk_shape`, NOT clamped to the array shape
(`RegularChunkGrid::subset_unchecked`), so edge chunks overhang and still cover the region as long as it stays
inside `grid_shape * chunk_shape`.  That is `ArrCfg.writeMap` (Model/WriteMap.lean) unchanged; this file adds
the extent of a regular grid and the seeded variant that clamps the copied part to the array shape.
-/
namespace Zarrs

/-- the extent covered by the chunks of a regular grid: `grid_shape[d] * chunk_shape[d]`
(`RegularChunkGrid::{grid_shape, subset_unchecked}`, zarrs/src/array/chunk_grid/regular.rs) -/
def gridExtent (G cs : Shape) : Shape := List.zipWith (· * ·) G cs

/-- seeded variant of the cached multi-chunk read
(`retrieve_array_subset_opt_cached`, zarrs/src/array/chunk_cache/array_chunk_cache_ext_sync.rs, with
`chunk_subset.overlap(&array_subset.bound(self.shape())?)` in place of `chunk_subset.overlap(array_subset)`):
the copied part is the overlap with the region CLAMPED to the array shape; the view is still placed relative to
the region's start in an output of the region's shape -/
def ArrCfg.writeMapClamped {α} (cfg : ArrCfg α) (region : Subset) (es : Nat) : Option (List (Nat × Nat)) :=
  match cfg.grid.chunksInArraySubset region cfg.shape with
  | none => none
  | some chunks =>
    ArrCfg.foldOpt (fun acc c =>
      match cfg.grid.subset c with
      | some cs =>
        some (acc ++ ((cs.overlap (region.bound cfg.shape)).relativeTo region.start).byteRanges region.shape es)
      | none => none) [] chunks.indices

/-- is byte `b` written by some range of the map? -/
def byteWritten (b : Nat) (rs : List (Nat × Nat)) : Bool := rs.any (fun r => decide (r.1 ≤ b) && decide (b < r.1 + r.2))

end Zarrs
