import ZarrsModel.Model.ChainSDec
import ZarrsModel.Model.ShardPE
/-
The partial ENCODER of a codec chain whose array-to-bytes codec is `bytes` or `sharding_indexed` (C05, C04), at ELEMENT
level: `CodecChain::partial_encoder` (zarrs/src/array/codec/array_to_bytes/codec_chain.rs) with
`ShardingPartialEncoder::{new, partial_encode}` (array_to_bytes/sharding/sharding_partial_encoder.rs), the default
decode-update-re-encode partial encoders of every other codec (`array_to_array_partial_encoder_default.rs`,
`array_to_bytes_partial_encoder_default.rs`, `bytes_to_bytes_partial_encoder_default.rs`: no array-to-array or
bytes-to-bytes codec and not `bytes` overrides `partial_encoder`, see codec.rs) and `StoragePartialEncoder` (codec.rs).

The stored value of the chunk is `Option Bytes` (`none` = the key is absent).  A call of `partial_encode` is a list of
region writes `(subset of the chunk, its elements in C order)`.  Results: `none` = the call returns an error (or
panics), `some none` = the key is erased, `some (some b)` = the new stored value.  A fresh partial encoder is built for
every call (`Array::store_chunk_subset_opt` does so): the index the sharding partial encoder keeps (`shard_index`) is
the one read from the value the call starts from.

Model/ShardPE.lean holds the inner-chunk level of `partial_encode` (`ShardPE.partialEncode`: the index and append
logic on the stored value).  Here: the step from region writes to updated inner chunks (`shardPEElems`), the same index
and append logic as a PLAN of operations on the output handle (`shardPlan`; run on the storage handle it IS
`ShardPE.partialEncode`: `Lemmas/ChainSPEPlan.lean`), the output handles of the bytes-to-bytes codecs (`bWrite`) and the
array-to-array codecs (`aPE`), and the stacking order of `CodecChain::partial_encoder`.
Elements are byte strings of the data type's size as in Model/ShardPD.lean; variable-length data types are not modelled.
`CodecOptions`: the defaults (`validate_checksums`, `store_empty_chunks = false`).
-/
namespace Zarrs.Partial
open Zarrs Zarrs.Codec Zarrs.Shard

/-- one entry of `subsets_and_bytes`: a subset of the chunk and its elements (the Rust code holds one byte vector) -/
abbrev RWrite := Subset × List Elem

def BStage.isCache : BStage → Bool
  | .cache => true
  | _ => false
def AStage.isCache : AStage → Bool
  | .cache => true
  | _ => false

/-! ### bytes side: input handles and output handles -/

/-- the input handle a codec of `CodecChain::partial_encoder` sees below the bytes-to-bytes codecs `b2b` (encode order):
their partial decoders stacked in reverse order on `StoragePartialDecoder`.  (Unlike `CodecChain::partial_decoder`,
`partial_encoder` inserts no cache.) -/
def bStack (b2b : List BStage) (v : Option Bytes) : BHandle := b2b.foldr (fun st h => st.pd h) (storeHandle v)

/-- `BytesPartialDecoderTraits::decode`: `partial_decode(&[ByteRange::FromStart(0, None)])` then `v.remove(0)`
(an empty answer panics); `none` = error, `some none` = absent -/
def readWhole (h : BHandle) : Option (Option Bytes) :=
  match h [ByteRange.fromStart 0 none] with
  | none => none
  | some none => some none
  | some (some (b :: _)) => some (some b)
  | some (some []) => none

/-- the update of `bytes_to_bytes_partial_encoder_default.rs::partial_encode`: `decoded_value.resize(max end, 0)` — which
TRUNCATES a longer value — then every `(offset, bytes)` copied in order -/
def resizeWrites (d : Bytes) (ws : List (Nat × Bytes)) : Bytes :=
  let len := ws.foldl (fun m w => max m (w.1 + w.2.length)) 0
  ws.foldl (fun acc w => specSetPartial acc w.1 w.2) (d.take len ++ List.replicate (len - d.length) 0)

/-- the output handle below the bytes-to-bytes codecs `b2b` (encode order: the head is the codec next to the
array-to-bytes codec, the last one writes to the store): `partial_encode(offsets_and_bytes)` on the stored value `v`.
`[]`: `StoragePartialEncoder::partial_encode` = `set_partial_values` (zero-extend, never truncate, `ShardPE.writeAt`).
A codec: `BytesToBytesPartialEncoderDefault` — read the whole encoded value through the input handle (the partial
decoders of the codecs after it), `codec.decode` (an absent value is the empty byte string), `resize` and copy,
`codec.encode`, then `output_handle.erase()` (every `erase` reaches the store) and `partial_encode(&[(0, encoded)])`.
An empty list of writes panics (`max().unwrap()`).  A cache is no codec. -/
def bWrite : List BStage → Option Bytes → List (Nat × Bytes) → Option (Option Bytes)
  | [], v, ws => some (ws.foldl (fun v w => ShardPE.writeAt v w.1 w.2) v)
  | .cache :: rest, v, ws => bWrite rest v ws
  | st :: rest, v, ws =>
    match readWhole (bStack rest v) with
    | none => none
    | some cur =>
      match (match cur with
             | none => some []
             | some e => st.dec e) with
      | none => none
      | some d =>
        if ws.isEmpty then none
        else bWrite rest none [(0, st.enc (resizeWrites d ws))]

/-! ### `ShardingPartialEncoder::partial_encode`: from region writes to updated inner chunks -/

def zipAnyLt : List Nat → List Nat → Bool
  | a :: as, b :: bs => decide (a < b) || zipAnyLt as bs
  | _, _ => false
def zipAnyGt : List Nat → List Nat → Bool
  | a :: as, b :: bs => decide (a > b) || zipAnyGt as bs
  | _, _ => false

/-- "Check if the inner chunk straddles the chunk subset", as written:
`inner.start().zip(subset.start()).any(|(a, b)| a < b) || inner.end_exc().zip(subset.end_exc()).any(|(a, b)| a > b)` -/
def straddles (cs r : Subset) : Bool := zipAnyLt cs.start r.start || zipAnyGt cs.endExc r.endExc

/-- the seeded variant: `&&` in place of `||` (used only to show that it loses data, `Props/C05Chain.lean`) -/
def straddlesAnd (cs r : Subset) : Bool := zipAnyLt cs.start r.start && zipAnyGt cs.endExc r.endExc

/-- `get_inner_chunks(chunk_subset)` = `chunk_grid.chunks_in_array_subset(subset, chunks_per_shard)?.indices()` with the
chunk subset of each (`chunk_grid.subset`): an empty subset meets no inner chunk (no test of its rank); else the rank of
the subset (and of `chunks_per_shard`) must be that of the grid (`IncompatibleDimensionalityError`; a shard shape of
another rank panics in `expect("already validated")`); the inner chunks in C order -/
def innerChunksOf (shardShape innerShape cps : Shape) (r : Subset) : Option (List (Idx × Subset)) :=
  match r.endInc with
  | none => some []
  | some _ =>
    if r.rank != innerShape.length || cps.length != innerShape.length || shardShape.length != innerShape.length then none
    else some (r.chunks innerShape)

/-- the first loop of `partial_encode` for one subset: it must lie inside the shard
(`end_exc().zip(shape).any(|(a, b)| a > b)`, truncating), then its inner chunks -/
def writeChunks (shardShape innerShape cps : Shape) (w : RWrite) : Option (List (Idx × Subset)) :=
  if !w.1.wf then none                       -- (a Rust `ArraySubset` always has `start.len() == shape.len()`)
  else if zipAnyGt w.1.endExc shardShape then none
  else innerChunksOf shardShape innerShape cps w.1

/-- `inner_chunks_indices`: the (ravelled) inner chunks that straddle one of the subsets; `strad` is the test -/
def straddlers (strad : Subset → Subset → Bool) (cps : Shape) (ws : List (RWrite × List (Idx × Subset))) : List Nat :=
  ws.flatMap (fun w => (w.2.filter (fun p => strad p.2 w.1.1)).map (fun p => ravel p.1 cps))

/-- "Read the straddling inner chunks" and "Decode the straddling inner chunks": the straddling inner chunks whose index
entry is live, ONE request of their byte ranges `FromStart(offset, Some(size))` to the input handle (the code sorts the
ranges by offset; which bytes a range gets does not depend on its place in the request; here: in order of the inner
chunk index), an absent value gives no chunk at all, each answer decoded by the inner chain (`inner_codecs.decode`,
whose result is validated).  The state is the map `inner_chunks_decoded` as a list indexed by the inner chunk index. -/
def peRead (es : Nat) (innerShape : Shape) (entries : List (Nat × Nat)) (innerDec : Bytes → Option (List Elem))
    (h : BHandle) (strad : List Nat) : Option (List (Option (List Elem))) :=
  if strad.any (fun i => decide (entries.length ≤ i)) then none        -- `shard_index[...]` out of range
  else
    let want := (List.range entries.length).filter (fun i =>
      strad.contains i && isLive (entries.getD i (sentinel, sentinel)))
    match h (want.map (fun i => ByteRange.fromStart (entries.getD i (0, 0)).1 (some (entries.getD i (0, 0)).2))) with
    | none => none
    | some none => some (List.replicate entries.length none)
    | some (some parts) =>
      (List.zip want parts).foldl (fun (acc : Option (List (Option (List Elem)))) (p : Nat × Bytes) =>
        match acc, (innerDec p.2).bind (validated es (prod innerShape)) with
        | some st, some xs => some (st.set p.1 (some xs))
        | _, _ => none) (some (List.replicate entries.length none))

/-- one inner chunk of one subset in "Update all of the intersecting inner chunks": the elements of the subset that fall
into the inner chunk (`extract_array_subset` of the overlap relative to the subset: an error when the bytes are too
short for it), the inner chunk so far — taken out of the map, or the fill value chunk (`inner_chunk_fill_value()`) —
updated (`update_array_bytes`: the chunk must have the inner chunk's size, the piece the overlap's) and put back -/
def peChunkStep (es : Nat) (fill : Elem) (innerShape cps : Shape) (w : RWrite)
    (st : List (Option (List Elem))) (p : Idx × Subset) : Option (List (Option (List Elem))) :=
  let i := ravel p.1 cps
  let ov := w.1.overlap p.2
  let piece := (ov.relativeTo w.1.start).extract w.1.shape w.2
  if i ≥ st.length then none
  else if piece.length != ov.numElements then none
  else
    match (match st.getD i none with
           | some x => some x
           | none => if fill.length != es then none else some (List.replicate (prod innerShape) fill)) with
    | none => none
    | some cur =>
      if cur.length != prod innerShape then none
      else some (st.set i (some (updateRuns innerShape (ov.relativeTo p.2.start) cur piece)))

/-- one subset: its inner chunks one after the other (rayon `try_for_each` over DISTINCT inner chunks: the result is
that of the sequential loop).  The elements must be of the data type's size (the Rust code has one byte vector). -/
def peWriteStep (es : Nat) (fill : Elem) (innerShape cps : Shape)
    (st : List (Option (List Elem))) (w : RWrite × List (Idx × Subset)) : Option (List (Option (List Elem))) :=
  if !w.1.2.all (·.length == es) then none
  else ArrCfg.foldOpt (peChunkStep es fill innerShape cps w.1) st w.2

/-- "Encode the updated inner chunks": every inner chunk of the map — all fill: dropped, else encoded by the inner
chain.  (The map is a `HashMap`: the ORDER of the result, hence of the appended data, is arbitrary in the Rust code;
here: by inner chunk index.) -/
def peEncode (fill : Elem) (innerEnc : List Elem → Bytes) (st : List (Option (List Elem))) : List (Nat × Option Bytes) :=
  (List.range st.length).filterMap (fun i =>
    match st.getD i none with
    | some x => some (i, if x.all (· == fill) then none else some (innerEnc x))
    | none => none)

/-- the element level of `ShardingPartialEncoder::partial_encode`: region writes → the updated inner chunks
`(inner chunk position, new encoded bytes or none)` that `ShardPE.partialEncode` / `shardPlan` take.
`entries` is `self.shard_index` (the decoded index, all sentinels for an absent shard), `h` the input handle,
`strad` the straddle test (`straddles`). -/
def shardPEElemsWith (strad : Subset → Subset → Bool) (es : Nat) (fill : Elem) (shardShape innerShape cps : Shape)
    (entries : List (Nat × Nat)) (innerDec : Bytes → Option (List Elem)) (innerEnc : List Elem → Bytes) (h : BHandle)
    (ws : List RWrite) : Option (List (Nat × Option Bytes)) :=
  match ws.mapM (fun w => (writeChunks shardShape innerShape cps w).map (fun cs => (w, cs))) with
  | none => none
  | some wcs =>
    match peRead es innerShape entries innerDec h (straddlers strad cps wcs) with
    | none => none
    | some st0 =>
      match ArrCfg.foldOpt (peWriteStep es fill innerShape cps) st0 wcs with
      | none => none
      | some st => some (peEncode fill innerEnc st)

def shardPEElems := shardPEElemsWith straddles

/-! ### the index and append logic as operations on the output handle -/

inductive POp where
  | erase                                   -- `output_handle.erase()`
  | write (ws : List (Nat × Bytes))         -- `output_handle.partial_encode(ws)`
  | rewrite (liveEnd : Nat) (ib : Bytes)    -- read `[0, liveEnd)` of the input, `erase()`, `partial_encode(&[(0, that ++ ib)])`

/-- the second half of `partial_encode` ("Check if the shard can be entirely rewritten …" to the end) as a function of
the index and the updated inner chunks: whether the shard is erased first (every remaining entry is the sentinel),
then the final operation.  The same computation as `ShardPE.partialEncode`. -/
def shardPlan (c : Cfg) (idx : List (Nat × Nat)) (updates : List (Nat × Option Bytes)) : Bool × POp :=
  let maxData0 := ShardPE.liveEnd idx
  let idx1 := updates.foldl (fun ix u => ShardPE.setEntry ix u.1 (sentinel, sentinel)) idx
  let dead := idx1.all (fun e => !isLive e)
  let maxData := if dead then 0 else maxData0
  let offsetNew := if c.indexAtEnd then maxData else max maxData (indexSize c)
  let r := updates.foldl (fun (acc : List (Nat × Nat) × Bytes × Nat) u =>
      match u.2 with
      | some b => (ShardPE.setEntry acc.1 u.1 (acc.2.2, b.length), acc.2.1 ++ b, acc.2.2 + b.length)
      | none => (ShardPE.setEntry acc.1 u.1 (sentinel, sentinel), acc.2.1, acc.2.2)) (idx1, [], offsetNew)
  let idx2 := r.1
  let data := r.2.1
  (dead,
   if idx2.all (fun e => !isLive e) then .erase
   else
     let ib := encodeIndex c idx2
     if c.indexAtEnd then
       if data.isEmpty && ShardPE.liveEnd idx2 < offsetNew then .rewrite (ShardPE.liveEnd idx2) ib
       else .write [(offsetNew, data ++ ib)]
     else .write [(0, ib), (offsetNew, data)])

/-- run the plan on the handles below the bytes-to-bytes codecs `b2b` -/
def runPlan (b2b : List BStage) (v : Option Bytes) (p : Bool × POp) : Option (Option Bytes) :=
  let v1 := if p.1 then none else v
  match p.2 with
  | .erase => some none
  | .write ws => bWrite b2b v1 ws
  | .rewrite le ib =>
    match bStack b2b v1 [ByteRange.fromStart 0 (some le)] with
    | none => none
    | some none => bWrite b2b none [(0, ib)]                 -- `unwrap_or_default()`
    | some (some (s :: _)) => bWrite b2b none [(0, s ++ ib)]
    | some (some []) => none

/-- `ShardingPartialEncoder` on the shape `sh` (after the array-to-array codecs), over the bytes-to-bytes codecs `b2b`:
`new` reads and decodes the index through the input handle (`decode_shard_index_partial_decoder`, the function the
partial decoder uses: `shardIndexPD`; an absent value: all sentinels), `partial_encode` = `shardPEElems`, `shardPlan` -/
def shardPEWith (strad : Subset → Subset → Bool) (cfg : Cfg) (ish : Shape) (es : Nat) (inner : ChainS)
    (b2b : List BStage) (sh : Shape) (fill : Elem) (v : Option Bytes) (ws : List RWrite) : Option (Option Bytes) :=
  let h := bStack b2b v
  match chunksPerShard sh ish with
  | none => none
  | some cps =>
    match shardIndexPD cfg true sh ish h with
    | none => none
    | some index =>
      let entries := index.getD (List.replicate (prod cps) (sentinel, sentinel))
      match shardPEElemsWith strad es fill sh ish cps entries (inner.decode ish fill) (inner.encode ish fill) h ws with
      | none => none
      | some updates => runPlan b2b v (shardPlan { cfg with nChunks := prod cps } entries updates)

def shardPE := shardPEWith straddles

/-! ### the default partial encoders of `bytes` and of the array-to-array codecs -/

/-- the update loop of the default partial encoders: every subset's bytes validated (`validate`), the subset inside
the chunk (`update_array_bytes` → `ArrayBytesFixedDisjointView::new`), applied in order -/
def applyWrites (es : Nat) (sh : Shape) : List Elem → List RWrite → Option (List Elem)
  | xs, [] => some xs
  | xs, w :: rest =>
    if !(w.1.wf && w.1.inboundsShape sh) then none
    else match validated es w.1.numElements w.2 with
      | none => none
      | some ys => applyWrites es sh (updateRuns sh w.1 xs ys) rest

/-- `ArrayToBytesPartialEncoderDefault` for `bytes` on the shape `sh`: the whole value through the input handle,
`BytesCodec::decode` (absent: the fill value chunk), `validate`, the updates; all fill: `erase()`; else
`BytesCodec::encode`, `erase()`, `partial_encode(&[(0, encoded)])` -/
def leafPE (c : Chain) (b2b : List BStage) (sh : Shape) (fill : Elem) (v : Option Bytes) (ws : List RWrite) :
    Option (Option Bytes) :=
  match readWhole (bStack b2b v) with
  | none => none
  | some cur =>
    match (match cur with
           | some e => bytesDecode c.big c.es c.unit sh e
           | none => some (List.replicate (prod sh) fill)) with
    | none => none
    | some d =>
      match (validated c.es (prod sh) d).bind (fun d => applyWrites c.es sh d ws) with
      | none => none
      | some new =>
        if new.all (· == fill) then some none
        else bWrite b2b none [(0, bytesEnc c.big c.unit new.flatten)]

/-- the array-to-array codecs `a2a` (encode order) of `CodecChain::partial_encoder` over the array-to-bytes partial
encoder `a2b`: `ArrayToArrayPartialEncoderDefault` of the FIRST codec is the chain's partial encoder; it reads the whole
encoded array of its codec through the partial decoder of the rest of the chain (`pd rest encodedShape`), `codec.decode`,
`validate`, the updates; all fill: `erase()`; else `codec.encode` handed as ONE whole-array write to the partial encoder
of the next codec.  A cache is no codec. -/
def aPE (es : Nat) (fill : Elem) (pd : List AStage → Shape → AHandle)
    (a2b : Shape → List RWrite → Option (Option Bytes)) :
    List AStage → Shape → List RWrite → Option (Option Bytes)
  | [], sh, ws => a2b sh ws
  | .cache :: rest, sh, ws => aPE es fill pd a2b rest sh ws
  | st :: rest, sh, ws =>
    let esh := st.encShape sh
    match pd rest esh [Subset.ofShape esh] with
    | none => none
    | some parts =>
      match parts.getLast? with                       -- `.pop().unwrap()`
      | none => none
      | some enc =>
        match (st.dec sh es enc).bind (validated es (prod sh)) with
        | none => none
        | some d =>
          match applyWrites es sh d ws with
          | none => none
          | some new =>
            if new.all (· == fill) then some none
            else aPE es fill pd a2b rest esh [(Subset.ofShape esh, st.enc sh new)]

/-- `CodecChain::partial_encoder(…).partial_encode(ws)` on the stored value `v` of a chunk of shape `sh`, for any
nesting depth (the sharding partial encoder decodes and encodes whole inner chunks with the inner CHAIN,
`inner_codecs.{decode, encode}`: nested sharding levels enter through `ChainS.decode` / `ChainS.encode`).
The caches of the model chain belong to `CodecChain::partial_decoder` only and are dropped. -/
def ChainS.partialEncodeWith (strad : Subset → Subset → Bool) :
    ChainS → Shape → Elem → Option Bytes → List RWrite → Option (Option Bytes)
  | .leaf c _, sh, fill, v, ws =>
    let a2a := c.a2a.filter (fun st => !st.isCache)
    let b2b := c.b2b.filter (fun st => !st.isCache)
    aPE c.es fill
      (fun rest esh => Chain.partialDecoder { c with a2a := rest, b2b := b2b } esh fill (storeHandle v))
      (fun esh ws => leafPE c b2b esh fill v ws) a2a sh ws
  | .shard a2a cfg ish es inner b2b, sh, fill, v, ws =>
    let a2a := a2a.filter (fun st => !st.isCache)
    let b2b := b2b.filter (fun st => !st.isCache)
    aPE es fill
      (fun rest esh => (ChainS.shard rest cfg ish es inner b2b).partialDecoder esh fill (storeHandle v))
      (fun esh ws => shardPEWith strad cfg ish es inner b2b esh fill v ws) a2a sh ws

def ChainS.partialEncode : ChainS → Shape → Elem → Option Bytes → List RWrite → Option (Option Bytes) :=
  ChainS.partialEncodeWith straddles

/-- a history of `partial_encode` calls, each through a fresh partial encoder -/
def ChainS.runPE (c : ChainS) (sh : Shape) (fill : Elem) : Option Bytes → List (List RWrite) → Option (Option Bytes)
  | v, [] => some v
  | v, ws :: rest => (c.partialEncode sh fill v ws).bind (fun v' => ChainS.runPE c sh fill v' rest)

end Zarrs.Partial
