import ZarrsModel.Model.Shard
import ZarrsModel.Model.Store
/-
Partial decoders (C02): zarrs/src/array/codec/{byte_interval_partial_decoder, bytes_partial_decoder_cache,
array_partial_decoder_cache}.rs, bytes_to_bytes/strip_suffix_partial_decoder.rs, array_to_bytes/bytes/bytes_partial_decoder.rs,
array_to_array/{transpose,squeeze}/*_partial_decoder.rs, the `*_partial_decoder_default` decode-all fallbacks,
array_to_bytes/sharding/sharding_partial_decoder.rs and the stacking order of `CodecChain::partial_decoder`.

A bytes handle answers a list of byte ranges: `none` = error, `some none` = the value is absent,
`some (some parts)` = one byte string per range.  An array handle answers a list of regions of a chunk of known
shape: `none` = error, `some parts` = the elements of each region in C order (a missing chunk reads as fill).
Elements are byte strings of the data type's size.
-/
namespace Zarrs.Partial
open Zarrs Zarrs.Codec

abbrev BHandle := List ByteRange → Option (Option (List Bytes))
abbrev Elem := Bytes
abbrev AHandle := List Subset → Option (List (List Elem))

/-- `StoragePartialDecoder`: the stored value, or absent -/
def storeHandle (v : Option Bytes) : BHandle := fun rs =>
  match v with
  | none => some none
  | some b => (extractByteRanges b rs).map some

/-- a handle that serves exactly the value `v` (any in-bounds ranges) -/
def BHandleOk (h : BHandle) (v : Bytes) : Prop :=
  ∀ rs, (∀ r ∈ rs, r.valid v.length = true) → h rs = some (some (rs.map (·.extract v)))
def BHandleAbsent (h : BHandle) : Prop := ∀ rs, h rs = some none

/-- `StripSuffixPartialDecoder` (repaired): the decoded value is the input without its last `n` bytes -/
def stripSuffixPD (n : Nat) (h : BHandle) : BHandle := fun rs =>
  let inner := rs.map (fun r => match r with
    | .suffix l => ByteRange.suffix (l + n)
    | r => r)
  match h inner with
  | none => none
  | some none => some none
  | some (some parts) =>
    let strip : ByteRange × Bytes → Option Bytes := fun (r, b) =>
      match r with
      | .fromStart _ (some _) => some b
      | _ => if b.length < n then none else some (b.take (b.length - n))
    ((rs.zip parts).mapM strip).map some

/-- `ByteIntervalPartialDecoder(offset, length)` (repaired): the decoded value is `input[offset, offset+length)` -/
def byteIntervalPD (off len : Nat) (h : BHandle) : BHandle := fun rs =>
  if rs.all (·.valid len) then
    h (rs.map (fun r => ByteRange.fromStart (off + r.start len) (some (r.length len))))
  else none

/-- decode-all fallback (`BytesToBytesPartialDecoderDefault`, and codecs that decode everything): fetch the whole
input, decode, slice -/
def decodeAllPD (dec : Bytes → Option Bytes) (h : BHandle) : BHandle := fun rs =>
  match h [ByteRange.fromStart 0 none] with
  | none => none
  | some none => some none
  | some (some [b]) => (dec b).bind (fun d => (extractByteRanges d rs).map some)
  | some (some _) => none

/-- `BytesPartialDecoderCache`: read the input once, then serve slices -/
def bytesCachePD (h : BHandle) : BHandle :=
  match h [ByteRange.fromStart 0 none] with
  | some (some [b]) => storeHandle (some b)
  | some none => storeHandle none
  | _ => fun _ => none

/-- a served array: regions of the chunk `xs` of shape `sh` -/
def AHandleOk (h : AHandle) (sh : Shape) (xs : List Elem) : Prop :=
  ∀ rs : List Subset, (∀ r ∈ rs, r.wf = true ∧ r.inboundsShape sh = true) → h rs = some (rs.map (fun r => r.extract sh xs))

/-- `BytesPartialDecoder`: byte ranges of the region, concatenated, endianness reversed per swap unit; an absent
value reads as fill -/
def bytesPD (big : Bool) (es unit : Nat) (sh : Shape) (fill : Elem) (h : BHandle) : AHandle := fun rs =>
  rs.mapM (fun r =>
    if !(r.wf && r.inboundsShape sh) then none else
    match h ((r.byteRanges sh es).map (fun p => ByteRange.fromStart p.1 (some p.2))) with
    | none => none
    | some none => some (List.replicate r.numElements fill)
    | some (some parts) => some (groups es (bytesDec big unit parts.flatten)))

/-- `TransposePartialDecoder` (repaired): ask the inner handle for the permuted region, un-permute the elements -/
def transposePD (order : List Nat) (h : AHandle) : AHandle := fun rs =>
  match h (rs.map (fun r => ⟨permute r.start order, permute r.shape order⟩)) with
  | none => none
  | some parts => some ((rs.zip parts).map (fun (r, p) => transposeDec order r.shape p))

/-- `SqueezePartialDecoder` (repaired): drop the size-1 dimensions of the chunk shape from the region; a fully
squeezed shape is `[1]`; an empty region stays empty -/
def squeezeRegion (sh : Shape) (r : Subset) : Subset :=
  let keep := (List.zip (List.zip r.start r.shape) sh).filter (fun p => p.2 > 1)
  let st := keep.map (·.1.1)
  let n := keep.map (·.1.2)
  let (st, n) := if st.isEmpty then ([0], [1]) else (st, n)
  if r.isEmpty then Subset.newEmpty st.length else ⟨st, n⟩

def squeezePD (sh : Shape) (h : AHandle) : AHandle := fun rs => h (rs.map (squeezeRegion sh))

/-- `ArrayPartialDecoderCache` / decode-all fallbacks on the array side: decode the whole chunk once, serve regions -/
def arrayCachePD (sh : Shape) (h : AHandle) : AHandle := fun rs =>
  match h [Subset.ofShape sh] with
  | some [xs] => rs.mapM (fun r => if r.wf && r.inboundsShape sh then some (r.extract sh xs) else none)
  | _ => none

/-- bytes-to-bytes stage of a chain, in encode order -/
inductive BStage where
  | stripSuffix (n : Nat) (sum : Bytes → Nat)        -- crc32c / fletcher32
  | decodeAll (enc : Bytes → Bytes) (dec : Bytes → Option Bytes)   -- compressors and other decode-all codecs
  | cache                                            -- an inserted BytesPartialDecoderCache (no effect on encoding)

def BStage.enc : BStage → Bytes → Bytes
  | .stripSuffix _ sum, b => checksumEnc sum b
  | .decodeAll e _, b => e b
  | .cache, b => b

def BStage.pd : BStage → BHandle → BHandle
  | .stripSuffix n _ => stripSuffixPD n
  | .decodeAll _ d => decodeAllPD d
  | .cache => bytesCachePD

/-- array-to-array stage (encode order) -/
inductive AStage where
  | transpose (order : List Nat)
  | squeeze
  | cache

def AStage.encShape : AStage → Shape → Shape
  | .transpose order, sh => permute sh order
  | .squeeze, sh => let s := sh.filter (· > 1); if s.isEmpty then [1] else s
  | .cache, sh => sh

def AStage.enc : AStage → Shape → List Elem → List Elem
  | .transpose order, sh, xs => transposeEnc order sh xs
  | _, _, xs => xs

/-- partial decoder of a stage given the DECODED shape of that stage -/
def AStage.pd : AStage → Shape → AHandle → AHandle
  | .transpose order, _, h => transposePD order h
  | .squeeze, sh, h => squeezePD sh h
  | .cache, sh, h => arrayCachePD sh h

structure Chain where
  a2a : List AStage
  big : Bool
  es : Nat
  unit : Nat
  b2b : List BStage

def shapesOf (stages : List AStage) (sh : Shape) : Shape := stages.foldl (fun s st => st.encShape s) sh

def Chain.encode (c : Chain) (sh : Shape) (xs : List Elem) : Bytes :=
  let (ys, _) := c.a2a.foldl (fun (acc : List Elem × Shape) st => (st.enc acc.2 acc.1, st.encShape acc.2)) (xs, sh)
  c.b2b.foldl (fun b st => st.enc b) (bytesEnc c.big c.unit ys.flatten)

/-- `CodecChain::partial_decoder`: bytes-to-bytes decoders stacked in reverse order on the storage handle, then
the `bytes` partial decoder on the innermost encoded shape, then the array-to-array decoders in reverse order -/
def Chain.partialDecoder (c : Chain) (sh : Shape) (fill : Elem) (input : BHandle) : AHandle :=
  let hb := c.b2b.foldr (fun st h => st.pd h) input
  let shapes := c.a2a.foldl (fun (acc : List Shape) st => acc ++ [st.encShape (acc.getLastD sh)]) [sh]
  let inner := bytesPD c.big c.es c.unit (shapes.getLastD sh) fill hb
  -- stage k decodes from shapes[k+1] to shapes[k]
  (List.zip c.a2a shapes).foldr (fun (st, dsh) h => st.pd dsh h) inner

end Zarrs.Partial
