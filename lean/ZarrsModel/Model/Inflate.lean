import ZarrsModel.Model.Bytes
/-
Layer E: an independent DEFLATE (RFC 1951) decoder, the gzip (RFC 1952) and zlib (RFC 1950) containers with their
checksums, and two deliberately simple encoders (stored blocks; fixed Huffman literals) that real compressors
rarely emit.  Used by the specification-level reader/writer of C12: nothing here shares code with flate2.
-/
namespace Zarrs.Inflate

abbrev Bits := List Bool

def bitsOfByte (b : Nat) : Bits := (List.range 8).map (fun i => b / 2 ^ i % 2 == 1)
def toBits (bs : Bytes) : Bits := bs.flatMap bitsOfByte

/-- `n` bits, least significant first -/
def takeBits : Nat → Bits → Option (Nat × Bits)
  | 0, bs => some (0, bs)
  | n + 1, b :: bs => (takeBits n bs).map (fun (v, r) => ((if b then 1 else 0) + 2 * v, r))
  | _ + 1, [] => none

/-! ### canonical Huffman codes -/

/-- (length, code, symbol) for every symbol with a non-zero length -/
abbrev Huff := List (Nat × Nat × Nat)

/-- number of codes of each length 0..15 -/
def blCount (lens : List Nat) : List Nat := (List.range 16).map (fun l => if l == 0 then 0 else lens.count l)

/-- first code of each length (RFC 1951 §3.2.2) -/
def nextCodes (counts : List Nat) : List Nat :=
  ((List.range 15).foldl (fun (acc : List Nat × Nat) l =>
    let code := (acc.2 + counts.getD l 0) * 2
    (acc.1 ++ [code], code)) ([0], 0)).1

def mkHuff (lens : List Nat) : Huff :=
  let nc := nextCodes (blCount lens)
  (lens.zipIdx.foldl (fun (acc : Huff × List Nat) (ls : Nat × Nat) =>
    let (l, sym) := ls
    if l == 0 then acc else
      let code := acc.2.getD l 0
      (acc.1 ++ [(l, code, sym)], acc.2.set l (code + 1))) ([], nc)).1

/-- read one symbol: codes are packed most significant bit first -/
def decodeSymAux (h : Huff) : Nat → Nat → Nat → Bits → Option (Nat × Bits)
  | 0, _, _, _ => none
  | _ + 1, _, _, [] => none
  | fuel + 1, len, code, b :: bs =>
    let code := code * 2 + (if b then 1 else 0)
    let len := len + 1
    match h.find? (fun e => e.1 == len && e.2.1 == code) with
    | some e => some (e.2.2, bs)
    | none => decodeSymAux h fuel len code bs
def decodeSym (h : Huff) (bs : Bits) : Option (Nat × Bits) := decodeSymAux h 15 0 0 bs

def fixedLitLens : List Nat :=
  List.replicate 144 8 ++ List.replicate 112 9 ++ List.replicate 24 7 ++ List.replicate 8 8
def fixedDistLens : List Nat := List.replicate 30 5

def lenBase : List Nat := [3,4,5,6,7,8,9,10,11,13,15,17,19,23,27,31,35,43,51,59,67,83,99,115,131,163,195,227,258]
def lenExtra : List Nat := [0,0,0,0,0,0,0,0,1,1,1,1,2,2,2,2,3,3,3,3,4,4,4,4,5,5,5,5,0]
def distBase : List Nat := [1,2,3,4,5,7,9,13,17,25,33,49,65,97,129,193,257,385,513,769,1025,1537,2049,3073,4097,6145,8193,12289,16385,24577]
def distExtra : List Nat := [0,0,0,0,1,1,2,2,3,3,4,4,5,5,6,6,7,7,8,8,9,9,10,10,11,11,12,12,13,13]
def clOrder : List Nat := [16,17,18,0,8,7,9,6,10,5,11,4,12,3,13,2,14,1,15]

/-- copy `len` bytes from `dist` back, byte by byte (the copy may overlap its own output) -/
def copyBack : Nat → Nat → Array Nat → Option (Array Nat)
  | 0, _, out => some out
  | n + 1, dist, out =>
    if dist == 0 || dist > out.size then none else copyBack n dist (out.push (out.getD (out.size - dist) 0))

/-- literal/length and distance symbols of one compressed block -/
def blockLoop (lit dist : Huff) : Nat → Bits → Array Nat → Option (Bits × Array Nat)
  | 0, _, _ => none
  | fuel + 1, bs, out =>
    match decodeSym lit bs with
    | none => none
    | some (sym, bs) =>
      if sym < 256 then blockLoop lit dist fuel bs (out.push sym)
      else if sym == 256 then some (bs, out)
      else if sym > 285 then none
      else
        match takeBits (lenExtra.getD (sym - 257) 0) bs with
        | none => none
        | some (le, bs) =>
          let len := lenBase.getD (sym - 257) 0 + le
          match decodeSym dist bs with
          | none => none
          | some (ds, bs) =>
            if ds > 29 then none else
            match takeBits (distExtra.getD ds 0) bs with
            | none => none
            | some (de, bs) =>
              match copyBack len (distBase.getD ds 0 + de) out with
              | none => none
              | some out => blockLoop lit dist fuel bs out

/-- code lengths of a dynamic block (symbols 16/17/18 repeat) -/
def readLens (cl : Huff) : Nat → Nat → Bits → List Nat → Option (List Nat × Bits)
  | 0, _, _, _ => none
  | fuel + 1, total, bs, acc =>
    if acc.length ≥ total then (if acc.length == total then some (acc, bs) else none) else
    match decodeSym cl bs with
    | none => none
    | some (sym, bs) =>
      if sym < 16 then readLens cl fuel total bs (acc ++ [sym])
      else if sym == 16 then
        match acc.getLast?, takeBits 2 bs with
        | some prev, some (r, bs) => readLens cl fuel total bs (acc ++ List.replicate (3 + r) prev)
        | _, _ => none
      else if sym == 17 then
        match takeBits 3 bs with
        | some (r, bs) => readLens cl fuel total bs (acc ++ List.replicate (3 + r) 0)
        | none => none
      else
        match takeBits 7 bs with
        | some (r, bs) => readLens cl fuel total bs (acc ++ List.replicate (11 + r) 0)
        | none => none

def dynamicTables (bs : Bits) : Option (Huff × Huff × Bits) :=
  match takeBits 5 bs with
  | none => none
  | some (hlit, bs) =>
    match takeBits 5 bs with
    | none => none
    | some (hdist, bs) =>
      match takeBits 4 bs with
      | none => none
      | some (hclen, bs) =>
        let rec clLens (n : Nat) (bs : Bits) (acc : List Nat) : Option (List Nat × Bits) :=
          match n with
          | 0 => some (acc, bs)
          | n + 1 => match takeBits 3 bs with
            | some (v, bs) => clLens n bs (acc ++ [v])
            | none => none
        match clLens (hclen + 4) bs [] with
        | none => none
        | some (raw, bs) =>
          let lens := (List.range 19).map (fun sym => match clOrder.idxOf? sym with
            | some i => raw.getD i 0
            | none => 0)
          let cl := mkHuff lens
          match readLens cl (hlit + hdist + 400) (hlit + 257 + hdist + 1) bs [] with
          | none => none
          | some (all, bs) => some (mkHuff (all.take (hlit + 257)), mkHuff (all.drop (hlit + 257)), bs)

/-- `n` whole bytes appended to the output -/
def takeBytes : Nat → Bits → Array Nat → Option (Bits × Array Nat)
  | 0, bs, out => some (bs, out)
  | n + 1, bs, out =>
    match takeBits 8 bs with
    | some (v, bs) => takeBytes n bs (out.push v)
    | none => none

/-- drop to the next byte boundary, given the total number of bits of the stream -/
def alignBits (total : Nat) (bs : Bits) : Bits := bs.drop ((bs.length + 8 - total % 8) % 8)

def blocks (total : Nat) : Nat → Bits → Array Nat → Option (Bits × Array Nat)
  | 0, _, _ => none
  | fuel + 1, bs, out =>
    match takeBits 1 bs with
    | none => none
    | some (final, bs) =>
      match takeBits 2 bs with
      | none => none
      | some (btype, bs) =>
        let res : Option (Bits × Array Nat) :=
          if btype == 0 then
            let bs := alignBits total bs
            match takeBits 16 bs with
            | none => none
            | some (len, bs) =>
              match takeBits 16 bs with
              | none => none
              | some (nlen, bs) =>
                if len + nlen != 65535 then none else
                takeBytes len bs out
          else if btype == 1 then blockLoop (mkHuff fixedLitLens) (mkHuff fixedDistLens) (bs.length + 1) bs out
          else if btype == 2 then
            match dynamicTables bs with
            | none => none
            | some (lit, dist, bs) => blockLoop lit dist (bs.length + 1) bs out
          else none
        match res with
        | none => none
        | some (bs, out) => if final == 1 then some (bs, out) else blocks total fuel bs out

/-- inflate a DEFLATE stream at the start of `bs`: the data and the bytes after the stream -/
def inflate (bs : Bytes) : Option (Bytes × Bytes) :=
  let bits := toBits bs
  match blocks bits.length (bits.length + 1) bits #[] with
  | none => none
  | some (rest, out) =>
    let rest := alignBits bits.length rest
    some (out.toList, bs.drop (bs.length - rest.length / 8))

/-! ### checksums and containers -/

def crcStep (poly r : Nat) : Nat := if r % 2 = 1 then (r / 2) ^^^ poly else r / 2
def crcByte (poly r b : Nat) : Nat := (List.range 8).foldl (fun r _ => crcStep poly r) (r ^^^ b)
/-- CRC-32 (IEEE 802.3, reflected, polynomial 0xEDB88320) -/
def crc32 (bs : Bytes) : Nat := bs.foldl (crcByte 0xEDB88320) 0xFFFFFFFF ^^^ 0xFFFFFFFF

def adler32 (bs : Bytes) : Nat :=
  let (a, b) := bs.foldl (fun (ab : Nat × Nat) x => let a := (ab.1 + x) % 65521; (a, (ab.2 + a) % 65521)) (1, 0)
  b * 65536 + a

def le16 (n : Nat) : Bytes := [n % 256, n / 256 % 256]
def le32 (n : Nat) : Bytes := [n % 256, n / 256 % 256, n / 65536 % 256, n / 16777216 % 256]
def be32 (n : Nat) : Bytes := (le32 n).reverse
def ofLe (bs : Bytes) : Nat := bs.foldr (fun b acc => b + 256 * acc) 0

def dropZ : Bytes → Option Bytes          -- a zero-terminated field
  | [] => none
  | 0 :: rest => some rest
  | _ :: rest => dropZ rest

/-- gunzip one member (RFC 1952): header with optional fields, DEFLATE, CRC-32 and length checked -/
def gunzip (bs : Bytes) : Option Bytes :=
  match bs with
  | 0x1f :: 0x8b :: 8 :: flg :: _ :: _ :: _ :: _ :: _ :: _ :: rest =>
    let r1 : Option Bytes := if flg / 4 % 2 == 1 then
        (match rest with | a :: b :: r => let n := a + 256 * b; if r.length < n then none else some (r.drop n) | _ => none)
      else some rest
    let r2 := r1.bind (fun r => if flg / 8 % 2 == 1 then dropZ r else some r)
    let r3 := r2.bind (fun r => if flg / 16 % 2 == 1 then dropZ r else some r)
    let r4 := r3.bind (fun r => if flg / 2 % 2 == 1 then (if r.length < 2 then none else some (r.drop 2)) else some r)
    match r4.bind inflate with
    | none => none
    | some (data, tail) =>
      if tail.length < 8 then none
      else if ofLe (tail.take 4) != crc32 data then none
      else if ofLe ((tail.drop 4).take 4) != data.length % 4294967296 then none
      else some data
  | _ => none

/-- ONE gzip member at the start of `bs` (RFC 1952 §2.3): exactly the acceptance of `gunzip` (same header fields,
    DEFLATE, CRC-32 and ISIZE checked); returns the member's data and the bytes AFTER its 8-byte trailer.
    `gunzip bs = (gunzipMember bs).map (·.1)` (`Props/C12Gzip.lean`, `gunzip_eq_gunzipMember`). -/
def gunzipMember (bs : Bytes) : Option (Bytes × Bytes) :=
  match bs with
  | 0x1f :: 0x8b :: 8 :: flg :: _ :: _ :: _ :: _ :: _ :: _ :: rest =>
    let r1 : Option Bytes := if flg / 4 % 2 == 1 then
        (match rest with | a :: b :: r => let n := a + 256 * b; if r.length < n then none else some (r.drop n) | _ => none)
      else some rest
    let r2 := r1.bind (fun r => if flg / 8 % 2 == 1 then dropZ r else some r)
    let r3 := r2.bind (fun r => if flg / 16 % 2 == 1 then dropZ r else some r)
    let r4 := r3.bind (fun r => if flg / 2 % 2 == 1 then (if r.length < 2 then none else some (r.drop 2)) else some r)
    match r4.bind inflate with
    | none => none
    | some (data, tail) =>
      if tail.length < 8 then none
      else if ofLe (tail.take 4) != crc32 data then none
      else if ofLe ((tail.drop 4).take 4) != data.length % 4294967296 then none
      else some (data, tail.drop 8)
  | _ => none

/-- members one after another until the input is used up (every member takes at least its 18 bytes of header and
    trailer, so `fuel` = length + 1 is never the reason for `none`: `gunzipAllAux_fuel` in `Lemmas/GzipMulti.lean`) -/
def gunzipAllAux : Nat → Bytes → Option Bytes
  | 0, _ => none
  | fuel + 1, bs =>
    match gunzipMember bs with
    | none => none
    | some (data, rest) =>
      if rest.isEmpty then some data
      else match gunzipAllAux fuel rest with
        | none => none
        | some more => some (data ++ more)

/-- a whole gzip FILE (RFC 1952 §2.2: "A gzip file consists of a series of members (compressed data sets). … The
    members simply appear one after another in the file, with no additional information before, between, or after
    them."): one or more members, each accepted as by `gunzip`, nothing else anywhere; the result is the concatenation
    of the members' data — what the reference readers return (Python's `gzip` module, hence numcodecs' `GZip.decode`;
    gzip(1)).  The empty input is not a gzip file.  (Python additionally skips ZERO bytes after a member, "gzip files
    can be padded with zeroes"; that is outside RFC 1952 and outside this reader: zero padding is rejected here.) -/
def gunzipAll (bs : Bytes) : Option Bytes := gunzipAllAux (bs.length + 1) bs

/-- zlib stream (RFC 1950): no preset dictionary, Adler-32 checked -/
def unzlib (bs : Bytes) : Option Bytes :=
  match bs with
  | cmf :: flg :: rest =>
    if cmf % 16 != 8 || (cmf * 256 + flg) % 31 != 0 || flg / 32 % 2 == 1 then none else
    match inflate rest with
    | none => none
    | some (data, tail) =>
      if tail.length < 4 then none
      else if ofLe (tail.take 4).reverse != adler32 data then none
      else some data
  | _ => none

/-! ### two simple encoders -/

def splitAt65535 : Nat → Bytes → List Bytes
  | 0, _ => []
  | fuel + 1, bs => if bs.length ≤ 65535 then [bs] else bs.take 65535 :: splitAt65535 fuel (bs.drop 65535)

/-- stored (uncompressed) blocks only -/
def deflateStored (bs : Bytes) : Bytes :=
  let parts := splitAt65535 (bs.length + 1) bs
  let n := parts.length
  (parts.zipIdx.map (fun (p, i) =>
    [if i + 1 == n then 1 else 0] ++ le16 p.length ++ le16 (65535 - p.length) ++ p)).flatten

def bitsMsb (len code : Nat) : Bits := (List.range len).map (fun i => code / 2 ^ (len - 1 - i) % 2 == 1)
def fromBitsAux : Nat → Bits → Bytes
  | 0, _ => []
  | _, [] => []
  | fuel + 1, bs => (bs.take 8).zipIdx.foldl (fun acc (b, i) => acc + (if b then 2 ^ i else 0)) 0 :: fromBitsAux fuel (bs.drop 8)
def fromBits (bs : Bits) : Bytes := fromBitsAux (bs.length + 1) bs

/-- one fixed-Huffman block of literals only -/
def deflateFixed (bs : Bytes) : Bytes :=
  let lit (b : Nat) : Bits := if b < 144 then bitsMsb 8 (0x30 + b) else bitsMsb 9 (0x190 + (b - 144))
  fromBits ([true, true, false] ++ bs.flatMap lit ++ bitsMsb 7 0)

def gzipWith (deflate : Bytes → Bytes) (extra : Bool) (bs : Bytes) : Bytes :=
  -- with `extra`: FNAME and FEXTRA fields present
  (if extra then [0x1f, 0x8b, 8, 12, 0, 0, 0, 0, 0, 255, 2, 0, 65, 66, 110, 0] else [0x1f, 0x8b, 8, 0, 0, 0, 0, 0, 0, 255]) ++
    deflate bs ++ le32 (crc32 bs) ++ le32 (bs.length % 4294967296)

def zlibWith (deflate : Bytes → Bytes) (bs : Bytes) : Bytes := [0x78, 0x01] ++ deflate bs ++ be32 (adler32 bs)

end Zarrs.Inflate
