/-
Layer E: a small JSON model with ordered objects (serde_json with `preserve_order`), a compact printer that
mirrors `serde_json::to_string` (string escaping included) and a parser.  Strings are lists of bytes (UTF-8);
escaping only touches ASCII bytes, so multi-byte characters pass through unchanged.  Numbers are kept as their
token text: integers are arbitrary precision here and classified the way `serde_json::Number` does
(u64 / negative i64 / float).
-/
namespace Zarrs.Json

abbrev Str := List Nat    -- UTF-8 bytes

inductive J where
  | null
  | bool (b : Bool)
  | num (tok : List Char)          -- the number token as written
  | str (s : Str)
  | arr (xs : List J)
  | obj (kvs : List (Str × J))
deriving Repr, Inhabited

mutual
def J.beq : J → J → Bool
  | .null, .null => true
  | .bool a, .bool b => a == b
  | .num a, .num b => a == b
  | .str a, .str b => a == b
  | .arr a, .arr b => beqList a b
  | .obj a, .obj b => beqKVs a b
  | _, _ => false
def beqList : List J → List J → Bool
  | [], [] => true
  | x :: xs, y :: ys => J.beq x y && beqList xs ys
  | _, _ => false
def beqKVs : List (Str × J) → List (Str × J) → Bool
  | [], [] => true
  | (k, x) :: xs, (l, y) :: ys => k == l && J.beq x y && beqKVs xs ys
  | _, _ => false
end

def hexDigit (n : Nat) : Char := if n < 10 then Char.ofNat (48 + n) else Char.ofNat (87 + n)

/-- `serde_json` string escaping (compact formatter) -/
def escapeByte (b : Nat) : List Nat :=
  if b == 34 then [92, 34]            -- \"
  else if b == 92 then [92, 92]       -- \\
  else if b == 8 then [92, 98]        -- \b
  else if b == 12 then [92, 102]      -- \f
  else if b == 10 then [92, 110]      -- \n
  else if b == 13 then [92, 114]      -- \r
  else if b == 9 then [92, 116]       -- \t
  else if b < 32 then [92, 117, 48, 48, (hexDigit (b / 16)).toNat, (hexDigit (b % 16)).toNat]   -- \u00XX
  else [b]

def printStr (s : Str) : List Nat := [34] ++ s.flatMap escapeByte ++ [34]

def ascii (s : String) : List Nat := s.toList.map Char.toNat

mutual
def print : J → List Nat
  | .null => ascii "null"
  | .bool true => ascii "true"
  | .bool false => ascii "false"
  | .num t => t.map Char.toNat
  | .str s => printStr s
  | .arr xs => [91] ++ printList xs ++ [93]
  | .obj kvs => [123] ++ printKVs kvs ++ [125]
def printList : List J → List Nat
  | [] => []
  | [x] => print x
  | x :: rest => print x ++ [44] ++ printList rest
def printKVs : List (Str × J) → List Nat
  | [] => []
  | [(k, v)] => printStr k ++ [58] ++ print v
  | (k, v) :: rest => printStr k ++ [58] ++ print v ++ [44] ++ printKVs rest
end

/-! ### parser (fuel-bounded recursive descent over bytes) -/

def isWs (b : Nat) : Bool := b == 32 || b == 9 || b == 10 || b == 13
def skipWs : List Nat → List Nat
  | b :: rest => if isWs b then skipWs rest else b :: rest
  | [] => []

def isDigit (b : Nat) : Bool := 48 ≤ b && b ≤ 57
def hexVal (b : Nat) : Option Nat :=
  if 48 ≤ b && b ≤ 57 then some (b - 48) else if 97 ≤ b && b ≤ 102 then some (b - 87) else if 65 ≤ b && b ≤ 70 then some (b - 55) else none

/-- encode a code point as UTF-8 -/
def utf8 (c : Nat) : List Nat :=
  if c < 0x80 then [c]
  else if c < 0x800 then [0xC0 + c / 64, 0x80 + c % 64]
  else if c < 0x10000 then [0xE0 + c / 4096, 0x80 + c / 64 % 64, 0x80 + c % 64]
  else [0xF0 + c / 262144, 0x80 + c / 4096 % 64, 0x80 + c / 64 % 64, 0x80 + c % 64]

def hex4 : List Nat → Option (Nat × List Nat)
  | a :: b :: c :: d :: rest =>
    match hexVal a, hexVal b, hexVal c, hexVal d with
    | some a, some b, some c, some d => some (a * 4096 + b * 256 + c * 16 + d, rest)
    | _, _, _, _ => none
  | _ => none

/-- UTF-8 validity (RFC 3629: no overlong forms, no surrogates, at most U+10FFFF) -/
def validUtf8 : List Nat → Bool
  | [] => true
  | b0 :: rest =>
    if b0 < 0x80 then validUtf8 rest
    else if 0xC2 ≤ b0 && b0 ≤ 0xDF then
      match rest with
      | b1 :: r => 0x80 ≤ b1 && b1 ≤ 0xBF && validUtf8 r
      | _ => false
    else if 0xE0 ≤ b0 && b0 ≤ 0xEF then
      match rest with
      | b1 :: b2 :: r =>
        (if b0 == 0xE0 then 0xA0 ≤ b1 && b1 ≤ 0xBF else if b0 == 0xED then 0x80 ≤ b1 && b1 ≤ 0x9F else 0x80 ≤ b1 && b1 ≤ 0xBF)
          && 0x80 ≤ b2 && b2 ≤ 0xBF && validUtf8 r
      | _ => false
    else if 0xF0 ≤ b0 && b0 ≤ 0xF4 then
      match rest with
      | b1 :: b2 :: b3 :: r =>
        (if b0 == 0xF0 then 0x90 ≤ b1 && b1 ≤ 0xBF else if b0 == 0xF4 then 0x80 ≤ b1 && b1 ≤ 0x8F else 0x80 ≤ b1 && b1 ≤ 0xBF)
          && 0x80 ≤ b2 && b2 ≤ 0xBF && 0x80 ≤ b3 && b3 ≤ 0xBF && validUtf8 r
      | _ => false
    else false

/-- parse the body of a string after the opening quote -/
def parseStrBody : Nat → List Nat → Str → Option (Str × List Nat)
  | 0, _, _ => none
  | _ + 1, [], _ => none
  | _ + 1, 34 :: rest, acc => some (acc, rest)
  | fuel + 1, 92 :: e :: rest, acc =>
    if e == 34 then parseStrBody fuel rest (acc ++ [34])
    else if e == 92 then parseStrBody fuel rest (acc ++ [92])
    else if e == 47 then parseStrBody fuel rest (acc ++ [47])
    else if e == 98 then parseStrBody fuel rest (acc ++ [8])
    else if e == 102 then parseStrBody fuel rest (acc ++ [12])
    else if e == 110 then parseStrBody fuel rest (acc ++ [10])
    else if e == 114 then parseStrBody fuel rest (acc ++ [13])
    else if e == 116 then parseStrBody fuel rest (acc ++ [9])
    else if e == 117 then
      match hex4 rest with
      | none => none
      | some (n1, r1) =>
        if 0xDC00 ≤ n1 && n1 ≤ 0xDFFF then none             -- lone trailing surrogate
        else if 0xD800 ≤ n1 && n1 ≤ 0xDBFF then
          match r1 with
          | 92 :: 117 :: r2 =>
            match hex4 r2 with
            | none => none
            | some (n2, r3) =>
              if 0xDC00 ≤ n2 && n2 ≤ 0xDFFF then
                parseStrBody fuel r3 (acc ++ utf8 (0x10000 + (n1 - 0xD800) * 1024 + (n2 - 0xDC00)))
              else none
          | _ => none                                        -- lone leading surrogate
        else parseStrBody fuel r1 (acc ++ utf8 n1)
    else none
  | fuel + 1, b :: rest, acc => if b < 32 then none else parseStrBody fuel rest (acc ++ [b])

/-- a string after its opening quote; the result must be valid UTF-8 (`serde_json::from_slice` checks) -/
def parseStr (rest : List Nat) : Option (Str × List Nat) :=
  match parseStrBody (rest.length + 1) rest [] with
  | some (s, r) => if validUtf8 s then some (s, r) else none
  | none => none

def takeWhileB (p : Nat → Bool) : List Nat → List Nat × List Nat
  | b :: rest => if p b then let (a, r) := takeWhileB p rest; (b :: a, r) else ([], b :: rest)
  | [] => ([], [])

/-- JSON number grammar: -? (0 | [1-9][0-9]*) (. [0-9]+)? ([eE] [+-]? [0-9]+)? -/
def parseNum (inp : List Nat) : Option (List Char × List Nat) :=
  let (sign, r0) := match inp with | 45 :: r => ([45], r) | r => ([], r)
  let (ip, r1) := takeWhileB isDigit r0
  if ip.isEmpty || (ip.length > 1 && ip.head? == some 48) then none else
  let (frac, r2) := match r1 with
    | 46 :: r => let (d, r') := takeWhileB isDigit r; if d.isEmpty then ([0], r1) else (46 :: d, r')   -- [0] marks an error
    | r => ([], r)
  if frac == [0] then none else
  let (ex, r3) := match r2 with
    | e :: r => if e == 101 || e == 69 then
        let (sg, r') := match r with | 43 :: x => ([43], x) | 45 :: x => ([45], x) | x => ([], x)
        let (d, r'') := takeWhileB isDigit r'
        if d.isEmpty then ([0], r2) else (e :: sg ++ d, r'')
      else ([], r2)
    | [] => ([], [])
  if ex == [0] then none else
  some ((sign ++ ip ++ frac ++ ex).map Char.ofNat, r3)

mutual
def parseValue : Nat → List Nat → Option (J × List Nat)
  | 0, _ => none
  | fuel + 1, inp =>
    match skipWs inp with
    | 110 :: 117 :: 108 :: 108 :: rest => some (.null, rest)
    | 116 :: 114 :: 117 :: 101 :: rest => some (.bool true, rest)
    | 102 :: 97 :: 108 :: 115 :: 101 :: rest => some (.bool false, rest)
    | 34 :: rest => (parseStr rest).map (fun (s, r) => (.str s, r))
    | 91 :: rest =>
      match skipWs rest with
      | 93 :: r => some (.arr [], r)
      | r => (parseElems fuel r []).map (fun (xs, r') => (.arr xs, r'))
    | 123 :: rest =>
      match skipWs rest with
      | 125 :: r => some (.obj [], r)
      | r => (parseMembers fuel r []).map (fun (kvs, r') => (.obj kvs, r'))
    | inp' => (parseNum inp').map (fun (t, r) => (.num t, r))
def parseElems : Nat → List Nat → List J → Option (List J × List Nat)
  | 0, _, _ => none
  | fuel + 1, inp, acc =>
    match parseValue fuel inp with
    | none => none
    | some (v, rest) =>
      match skipWs rest with
      | 44 :: r => parseElems fuel r (acc ++ [v])
      | 93 :: r => some (acc ++ [v], r)
      | _ => none
def parseMembers : Nat → List Nat → List (Str × J) → Option (List (Str × J) × List Nat)
  | 0, _, _ => none
  | fuel + 1, inp, acc =>
    match skipWs inp with
    | 34 :: rest =>
      match parseStr rest with
      | none => none
      | some (k, r1) =>
        match skipWs r1 with
        | 58 :: r2 =>
          match parseValue fuel r2 with
          | none => none
          | some (v, r3) =>
            -- serde_json with preserve_order: a repeated key keeps its first position and takes the last value
            let acc' := if acc.any (·.1 == k) then acc.map (fun kv => if kv.1 == k then (k, v) else kv) else acc ++ [(k, v)]
            match skipWs r3 with
            | 44 :: r4 => parseMembers fuel r4 acc'
            | 125 :: r4 => some (acc', r4)
            | _ => none
        | _ => none
    | _ => none
end

/-- parse a complete document (trailing whitespace allowed, nothing else) -/
def parse (inp : List Nat) : Option J :=
  match parseValue (inp.length + 1) inp with
  | some (v, rest) => if (skipWs rest).isEmpty then some v else none
  | none => none

/-! ### `serde_json::Number` classification of a token -/

def tokIsInt (t : List Char) : Bool := !(t.any (fun c => c == '.' || c == 'e' || c == 'E'))

def natOfDigits (ds : List Char) : Nat := ds.foldl (fun acc c => acc * 10 + (c.toNat - 48)) 0

/-- `Number::as_u64`: a non-negative integer token that fits u64 -/
def asU64 (t : List Char) : Option Nat :=
  if tokIsInt t && t.head? != some '-' then
    let n := natOfDigits t
    if n < 18446744073709551616 then some n else none
  else none

/-- `Number::as_i64` as an integer value (negative results as `Int`): fits i64; `-0` is a float in serde_json -/
def asI64 (t : List Char) : Option Int :=
  if !tokIsInt t then none else
  match t with
  | '-' :: ds => let n := natOfDigits ds; if n == 0 then none else if n ≤ 9223372036854775808 then some (-(n : Int)) else none
  | ds => let n := natOfDigits ds; if n < 9223372036854775808 then some (n : Int) else none

end Zarrs.Json

namespace Zarrs.Json

/-- bytes that can continue a number token; a token must not be followed by one of these -/
def numCont (b : Nat) : Bool := isDigit b || b == 46 || b == 101 || b == 69 || b == 43 || b == 45

/-- the token is a JSON number exactly as the grammar reads it: followed by anything that cannot extend it,
    the tokenizer returns the token and the rest -/
def tokOk (t : List Char) : Prop :=
  ∀ rest : List Nat, (∀ b, rest.head? = some b → numCont b = false) →
    parseNum (t.map Char.toNat ++ rest) = some (t, rest)

def strOk (s : Str) : Prop := (∀ b ∈ s, b < 256) ∧ validUtf8 s = true

def keysDistinct (kvs : List (Str × J)) : Prop := (kvs.map (·.1)).Nodup

mutual
/-- documents the printer/parser pair is faithful on: number tokens match the grammar, strings are UTF-8,
    object keys are distinct (a `serde_json` map cannot hold a key twice) -/
def J.wf : J → Prop
  | .null => True
  | .bool _ => True
  | .num t => tokOk t
  | .str s => strOk s
  | .arr xs => wfList xs
  | .obj kvs => wfKVs kvs ∧ keysDistinct kvs
def wfList : List J → Prop
  | [] => True
  | x :: rest => J.wf x ∧ wfList rest
def wfKVs : List (Str × J) → Prop
  | [] => True
  | (k, v) :: rest => strOk k ∧ J.wf v ∧ wfKVs rest
end

mutual
/-- every number token of the document satisfies `p` -/
def J.allNums (p : List Char → Bool) : J → Bool
  | .num t => p t
  | .arr xs => allNumsList p xs
  | .obj kvs => allNumsKVs p kvs
  | _ => true
def allNumsList (p : List Char → Bool) : List J → Bool
  | [] => true
  | x :: rest => J.allNums p x && allNumsList p rest
def allNumsKVs (p : List Char → Bool) : List (Str × J) → Bool
  | [] => true
  | (_, v) :: rest => J.allNums p v && allNumsKVs p rest
end

end Zarrs.Json
