import ZarrsModel.Model.Meta
import ZarrsModel.Model.MetaV2
import ZarrsModel.Model.Hier
/-
Layer E: consolidated metadata of Zarr V3 groups (`consolidated_metadata` member of `GroupMetadataV3`,
`zarrs_metadata/src/v3/group.rs`), node documents as `NodeMetadata` reads them (`zarrs_metadata/src/lib.rs`) and
`Node::consolidate_metadata` (`zarrs/src/node.rs`) over the hierarchy model of `Model/Hier.lean`.

`Model/Meta.lean` treats a group document carrying `consolidated_metadata` as outside the model (`GroupDoc.ofJ`
returns `none` when the key is present).  This file extends it by composition: `GroupDocC` is a `GroupDoc` together
with the parsed consolidated map; nothing of `Meta.lean` changes.

Conventions inherited from the V3/V2 document models: number tokens are opaque, an object is what `Json.parse`
returns (a repeated key of a typed field - here also `metadata`, `kind`, `must_understand` inside
`consolidated_metadata` - is not modelled: `serde` rejects it, the JSON model merges it).
-/
namespace Zarrs.Cons
open Zarrs Zarrs.Json Zarrs.Meta Zarrs.MetaV2

def kCons : Str := ascii "consolidated_metadata"
def kMetadata : Str := ascii "metadata"
def kKind : Str := ascii "kind"
def kInline : Str := ascii "inline"

/-! ### a map keyed by strings, in the order it is written -/

/-- one `HashMap::insert` seen through the sorted view the serialiser takes
    (`serialize_consolidated_metadata_sorted` collects the entries into a `BTreeMap<&String, _>`): a key that is
    present is replaced, a new key goes to its place in byte order (`String`'s `Ord`) -/
def insertKV {β : Type} (k : Str) (v : β) : List (Str × β) → List (Str × β)
  | [] => [(k, v)]
  | (k', v') :: rest =>
    if k == k' then (k, v) :: rest
    else if strLt k k' then (k, v) :: (k', v') :: rest
    else (k', v') :: insertKV k v rest

/-- the entries of a map inserted one after the other (a later entry with the same key wins), in key order -/
def sortKVs {β : Type} (l : List (Str × β)) : List (Str × β) :=
  l.foldl (fun acc kv => insertKV kv.1 kv.2 acc) []

/-! ### node documents -/

/-- `NodeMetadata` (`zarrs_metadata/src/lib.rs`): `#[serde(untagged)] enum { Array(ArrayMetadata), Group(GroupMetadata) }`
    with `ArrayMetadata = V3 | V2` and `GroupMetadata = V3 | V2` (both untagged).  A V3 group document may itself
    carry consolidated metadata: `none` when the member is absent or `null`, else the entries in key order. -/
inductive NodeDoc where
  | a3 (d : ArrayDoc)
  | a2 (d : ArrayDocV2)
  | g3 (d : GroupDoc) (cons : Option (List (Str × NodeDoc)))
  | g2 (d : GroupDocV2)
deriving Inhabited

/-- the parsed `ConsolidatedMetadataMetadata = HashMap<String, NodeMetadata>` as a list in key order -/
abbrev CMap := List (Str × NodeDoc)

def NodeDoc.kind : NodeDoc → Hier.Kind
  | .a3 _ => .array3
  | .a2 _ => .array2
  | .g3 _ _ => .group3
  | .g2 _ => .group2

/-- `ConsolidatedMetadataKind` (`#[derive(Deserialize)] enum { #[serde(rename = "inline")] Inline }`): the string
    `"inline"`, or the externally tagged map form `{"inline": null}`; any other name is an unknown variant -/
def kindOk (j : Option J) : Bool :=
  match j with
  | some v => enumName v == some kInline
  | none => false

/-- `must_understand: monostate::MustBe!(false)`: the boolean `false` and nothing else (no default) -/
def muFalse (j : Option J) : Bool :=
  match j with
  | some (.bool false) => true
  | _ => false

mutual
/-- `impl Deserialize for NodeMetadata` (derived, untagged, through the two inner untagged enums): the variants are
    tried in declaration order on the buffered value - V3 array, V2 array, V3 group, V2 group - and the first that
    reads wins; all four are structs with a flattened field, read from a JSON object only. -/
def nodeOfJ : J → Option NodeDoc
  | .obj o =>
    match ArrayDoc.ofJ (.obj o) with
    | some d => some (.a3 d)
    | none =>
      match ArrayDocV2.ofJ (.obj o) with
      | some d => some (.a2 d)
      | none =>
        match consOfKVs o, GroupDoc.ofJ (.obj (without o kCons)) with
        | some cm, some d => some (.g3 d cm)
        | _, _ => (GroupDocV2.ofJ (.obj o)).map .g2
  | _ => none
/-- the `consolidated_metadata` member of a group object (`#[serde(default)] Option<ConsolidatedMetadata>`):
    `some none` when the key is absent, otherwise what its value reads as (`none` = an error) -/
def consOfKVs : List (Str × J) → Option (Option CMap)
  | [] => some none
  | (k, v) :: rest => if k == kCons then consOfJ v else consOfKVs rest
/-- `Option<ConsolidatedMetadata>`: `null` is `None`; `#[derive(Deserialize)] struct ConsolidatedMetadata { metadata,
    kind, must_understand }` (no `deny_unknown_fields`, no defaults) is read from an object - all three keys
    required, unknown keys ignored - or from a sequence of exactly its three fields in order -/
def consOfJ : J → Option (Option CMap)
  | .null => some none
  | .obj o =>
    match metaOfKVs o with
    | some (some c) => if kindOk (lookup o kKind) && muFalse (lookup o kMustUnderstand) then some (some c) else none
    | _ => none
  | .arr [m, k, mu] =>
    match membersOfJ m with
    | some c => if kindOk (some k) && muFalse (some mu) then some (some c) else none
    | none => none
  | _ => none
/-- the `metadata` member of the `consolidated_metadata` object: `some none` when absent -/
def metaOfKVs : List (Str × J) → Option (Option CMap)
  | [] => some none
  | (k, v) :: rest => if k == kMetadata then (membersOfJ v).map some else metaOfKVs rest
/-- `HashMap<String, NodeMetadata>`: a JSON object whose every value reads as a node document; held in key order -/
def membersOfJ : J → Option CMap
  | .obj kvs => (membersOfKVs kvs).map sortKVs
  | _ => none
def membersOfKVs : List (Str × J) → Option (List (Str × NodeDoc))
  | [] => some []
  | (k, v) :: rest =>
    match nodeOfJ v, membersOfKVs rest with
    | some d, some ds => some ((k, d) :: ds)
    | _, _ => none
end

/-- `#[derive(Serialize)] struct ConsolidatedMetadata`: `metadata` (its entries in the order given), `kind`,
    `must_understand`, always all three -/
def consJ (members : List (Str × J)) : J :=
  .obj [(kMetadata, .obj members), (kKind, .str kInline), (kMustUnderstand, .bool false)]

mutual
/-- `impl Serialize for NodeMetadata` (untagged: the inner document is written).  A V3 group
    (`#[derive(Serialize)] GroupMetadataV3`): `zarr_format`, `node_type`, `attributes` unless empty,
    `consolidated_metadata` unless `None` (its map written by `serialize_consolidated_metadata_sorted`: in key order
    whatever order the map holds its entries in), then the additional fields in key order -/
def NodeDoc.toJ : NodeDoc → J
  | .a3 d => d.toJ
  | .a2 d => d.toJ
  | .g2 d => d.toJ
  | .g3 d none => d.toJ
  | .g3 d (some c) =>
    .obj ([(ascii "zarr_format", .num ['3']), (ascii "node_type", .str (ascii "group"))] ++
          (if d.attrs.isEmpty then [] else [(ascii "attributes", .obj d.attrs)]) ++
          [(kCons, consJ (sortKVs (membersToKVs c)))] ++
          d.extra.map (fun kv => (kv.1, kv.2.toJ)))
def membersToKVs : List (Str × NodeDoc) → List (Str × J)
  | [] => []
  | (k, d) :: rest => (k, d.toJ) :: membersToKVs rest
end

mutual
/-- the serialisation BEFORE the repair (`metadata` was a plain `HashMap` field: its entries were written in the
    map's iteration order, here the order of the list) - kept for the counterexample of the order theorem -/
def NodeDoc.toJUnsorted : NodeDoc → J
  | .a3 d => d.toJ
  | .a2 d => d.toJ
  | .g2 d => d.toJ
  | .g3 d none => d.toJ
  | .g3 d (some c) =>
    .obj ([(ascii "zarr_format", .num ['3']), (ascii "node_type", .str (ascii "group"))] ++
          (if d.attrs.isEmpty then [] else [(ascii "attributes", .obj d.attrs)]) ++
          [(kCons, consJ (membersToKVsU c))] ++
          d.extra.map (fun kv => (kv.1, kv.2.toJ)))
def membersToKVsU : List (Str × NodeDoc) → List (Str × J)
  | [] => []
  | (k, d) :: rest => (k, d.toJUnsorted) :: membersToKVsU rest
end

/-! ### `GroupMetadataV3` with its consolidated metadata -/

/-- `GroupMetadataV3` in full: the document of `Meta.lean` and the `consolidated_metadata` member -/
structure GroupDocC where
  base : GroupDoc
  cons : Option CMap
deriving Inhabited

/-- `#[derive(Deserialize)]` of `GroupMetadataV3` as `Group::open` reads `zarr.json` (directly, not through
    `NodeMetadata`): the typed fields as in `GroupDoc.ofJ`, and `consolidated_metadata` through `consOfKVs`.
    (`consolidated_metadata` is one of `groupKeys`: it is never an additional field.) -/
def GroupDocC.ofJ : J → Option GroupDocC
  | .obj o =>
    match consOfKVs o, GroupDoc.ofJ (.obj (without o kCons)) with
    | some cm, some d => some ⟨d, cm⟩
    | _, _ => none
  | _ => none

def GroupDocC.toJ (g : GroupDocC) : J := NodeDoc.toJ (.g3 g.base g.cons)
def GroupDocC.toJUnsorted (g : GroupDocC) : J := NodeDoc.toJUnsorted (.g3 g.base g.cons)

/-- `Group::validate_metadata`: only additional fields can stand in the way; consolidated metadata (whose
    `must_understand` can only be `false`) never does -/
def groupOkC (g : GroupDocC) : Bool := groupOk g.base

def GroupDocC.toText (g : GroupDocC) : List Nat := print g.toJ
def GroupDocC.ofText (t : List Nat) : Option GroupDocC := (parse t).bind GroupDocC.ofJ

/-- `Group::consolidated_metadata` -/
def GroupDocC.consolidated (g : GroupDocC) : Option CMap := g.cons
/-- `Group::set_consolidated_metadata` on a V3 group: the map replaces the member (held here in key order: a
    `HashMap` has no order of its own and the serialiser sorts) -/
def GroupDocC.setCons (g : GroupDocC) (c : Option (List (Str × NodeDoc))) : GroupDocC :=
  { g with cons := c.map sortKVs }

/-! ### `Node::get_metadata` and `Node::consolidate_metadata` over the store model -/

open Zarrs.Hier

inductive DocMeta where
  | node (d : NodeDoc)
  | missing
  | invalid
deriving Inhabited

/-- `.zattrs`: `serde_json::from_slice::<serde_json::Map<..>>` - a JSON object -/
def attrsOfText (t : Bytes) : Option Obj :=
  match parse t with
  | some (.obj a) => some a
  | _ => none

/-- the `.zattrs` of a V2 node: `some none` absent, `none` unreadable -/
def zattrsAt (m : KV) (pre : Key) : Option (Option Obj) :=
  match m.get (pre ++ kZattrs) with
  | none => some none
  | some a => (attrsOfText a).map some

/-- `Node::get_metadata` with `MetadataRetrieveVersion::Default` (zarrs/src/node.rs): `zarr.json` is read as
    `NodeMetadata` and must be a V3 document (a V2 document under the V3 key is `MetadataVersionMismatch`); else
    `.zarray` as `ArrayMetadataV2`, else `.zgroup` as `GroupMetadataV2`, in both cases with the attributes replaced by
    the object under `.zattrs` when that key exists -/
def getDoc (m : KV) (pre : Key) : DocMeta :=
  match m.get (pre ++ kZarrJson) with
  | some v =>
    match (parse v).bind nodeOfJ with
    | some (.a3 d) => .node (.a3 d)
    | some (.g3 d c) => .node (.g3 d c)
    | _ => .invalid
  | none =>
    match m.get (pre ++ kZarray) with
    | some v =>
      match ArrayDocV2.ofText v, zattrsAt m pre with
      | some d, some za => .node (.a2 (d.withZattrs za))
      | _, _ => .invalid
    | none =>
      match m.get (pre ++ kZgroup) with
      | some v =>
        match GroupDocV2.ofText v, zattrsAt m pre with
        | some d, some za => .node (.g2 (match za with | some a => { d with attrs := a } | none => d))
        | _, _ => .invalid
      | none => .missing

/-- the `Hier.Reader` that reads real documents -/
def docReader : Reader :=
  { cls := fun v => match (parse v).bind nodeOfJ with
      | some (.a3 _) => some false
      | some (.g3 _ _) => some true
      | _ => none,
    okA := fun v => (ArrayDocV2.ofText v).isSome,
    okG := fun v => (GroupDocV2.ofText v).isSome,
    okAttrs := fun a => (attrsOfText a).isSome }

/-- a code point as UTF-8 (store keys are Rust `String`s) -/
def keyBytes (k : Key) : Str := k.flatMap (fun c => utf8 c.toNat)

/-- `update_consolidated_metadata`: the child's path with the node's path stripped (`strip_prefix(node_path)`, then
    one leading `/`): for store prefixes, the part of `q` after `pre` without its trailing `/` -/
def relKey (pre q : Key) : Str := keyBytes ((q.drop pre.length).dropLast)

/-- the entry of one listed node: its relative path and the document `get_metadata` returned for it -/
def entryOf (m : KV) (pre : Key) (n : Key × Kind) : Option (Str × NodeDoc) :=
  match getDoc m n.1 with
  | .node d => some (relKey pre n.1, d)
  | _ => none

/-- `Node::open(.., pre)` followed by `consolidate_metadata()`: `none` when the node does not open (no metadata,
    unreadable metadata here or below), `some none` for an array (`None`: arrays have no consolidated metadata),
    else every node of the recursive listing with its document, keyed by relative path, in key order -/
def consolidate (m : KV) (pre : Key) : Option (Option CMap) :=
  match getDoc m pre with
  | .node d =>
    if d.kind.isGroup then
      match children docReader m true pre with
      | some ns => (ns.mapM (entryOf m pre)).map (fun es => some (sortKVs es))
      | none => none
    else some none
  | _ => none

end Zarrs.Cons
