import ZarrsModel.Model.Codec
/-
The `sharding_indexed` binary layout (Zarr V3 specification, and zarrs/src/array/codec/array_to_bytes/sharding*):
a shard is a byte string holding the encoded inner chunks at arbitrary offsets plus an index of
`(offset, nbytes)` pairs of 64-bit unsigned integers, one per inner chunk in C order, located at the start or the
end of the shard and encoded by the index codecs (`bytes` with either endianness, optionally followed by `crc32c`).
An inner chunk that is not stored has `offset = nbytes = 2^64 - 1`.
-/
namespace Zarrs.Shard
open Zarrs Zarrs.Codec

structure Cfg where
  nChunks : Nat
  indexAtEnd : Bool
  indexBig : Bool
  indexCrc : Bool
deriving DecidableEq, Repr

def sentinel : Nat := 18446744073709551615

def indexSize (c : Cfg) : Nat := 16 * c.nChunks + (if c.indexCrc then 4 else 0)

def w64 (big : Bool) (n : Nat) : Bytes := if big then be64 n else le64 n
def r64 (big : Bool) (b : Bytes) : Nat := if big then ofLe b.reverse else ofLe b

/-- encode the index entries with the index codecs -/
def encodeIndex (c : Cfg) (entries : List (Nat × Nat)) : Bytes :=
  let raw := entries.flatMap (fun e => w64 c.indexBig e.1 ++ w64 c.indexBig e.2)
  if c.indexCrc then crc32cEnc raw else raw

def readEntries (big : Bool) : Nat → Bytes → List (Nat × Nat)
  | 0, _ => []
  | n + 1, b => (r64 big (b.take 8), r64 big ((b.drop 8).take 8)) :: readEntries big n (b.drop 16)

/-- decode the index bytes (exactly `indexSize` bytes) -/
def decodeIndex (c : Cfg) (validate : Bool) (ib : Bytes) : Except DecErr (List (Nat × Nat)) :=
  if ib.length != indexSize c then .error .tooShort else
  if c.indexCrc then
    match crc32cDec validate ib with
    | .ok raw => .ok (readEntries c.indexBig c.nChunks raw)
    | .error e => .error e
  else .ok (readEntries c.indexBig c.nChunks ib)

/-- the bytes holding the index inside a shard value -/
def indexBytes (c : Cfg) (v : Bytes) : Option Bytes :=
  if v.length < indexSize c then none
  else if c.indexAtEnd then some (v.drop (v.length - indexSize c)) else some (v.take (indexSize c))

/-- full decode of a shard: every inner chunk, `none` for a missing one; errors for a value shorter than its
index, an undecodable index, or a live entry reaching outside the value (also when `offset + nbytes` exceeds 2^64) -/
def decode (c : Cfg) (validate : Bool) (v : Bytes) : Except DecErr (List (Option Bytes)) :=
  match indexBytes c v with
  | none => .error .tooShort
  | some ib =>
    match decodeIndex c validate ib with
    | .error e => .error e
    | .ok entries =>
      entries.mapM (fun e =>
        if e.1 == sentinel && e.2 == sentinel then .ok none
        else if e.1 + e.2 > v.length then .error .other
        else .ok (some (slice v e.1 (e.1 + e.2))))

/-- the layout zarrs' encoder produces (inner chunks in C order, back to back); any other legal layout decodes
equally (`Legal`) -/
def layout (c : Cfg) (chunks : List (Option Bytes)) : Bytes × List (Nat × Nat) :=
  let base := if c.indexAtEnd then 0 else indexSize c
  let (data, entries, _) := chunks.foldl (fun (acc : Bytes × List (Nat × Nat) × Nat) ch =>
    match ch with
    | none => (acc.1, acc.2.1 ++ [(sentinel, sentinel)], acc.2.2)
    | some b => (acc.1 ++ b, acc.2.1 ++ [(acc.2.2, b.length)], acc.2.2 + b.length)) ([], [], base)
  (data, entries)

def encode (c : Cfg) (chunks : List (Option Bytes)) : Bytes :=
  let (data, entries) := layout c chunks
  if c.indexAtEnd then data ++ encodeIndex c entries else encodeIndex c entries ++ data

/-- the index region of a value of length `len` -/
def indexRegion (c : Cfg) (len : Nat) : Nat × Nat :=
  if c.indexAtEnd then (len - indexSize c, len) else (0, indexSize c)

def isLive (e : Nat × Nat) : Bool := !(e.1 == sentinel && e.2 == sentinel)

/-- format legality of a shard value w.r.t. the chunks it is meant to hold: the index at its declared location
decodes to entries such that every live entry lies inside the value, outside the index region, holds exactly its
chunk's bytes, live entries do not overlap, and missing chunks carry the sentinel -/
def Legal (c : Cfg) (v : Bytes) (chunks : List (Option Bytes)) : Prop :=
  chunks.length = c.nChunks ∧
  ∃ ib entries, indexBytes c v = some ib ∧ decodeIndex c true ib = .ok entries ∧ entries.length = c.nChunks ∧
    (∀ i (h : i < entries.length) (hc : i < chunks.length),
      match chunks[i] with
      | none => isLive entries[i] = false
      | some b => isLive entries[i] = true ∧ entries[i].2 = b.length ∧ entries[i].1 + entries[i].2 ≤ v.length ∧
          slice v entries[i].1 (entries[i].1 + entries[i].2) = b ∧
          (entries[i].1 + entries[i].2 ≤ (indexRegion c v.length).1 ∨ (indexRegion c v.length).2 ≤ entries[i].1)) ∧
    (∀ i j (hi : i < entries.length) (hj : j < entries.length), i ≠ j → isLive entries[i] = true → isLive entries[j] = true →
      entries[i].1 + entries[i].2 ≤ entries[j].1 ∨ entries[j].1 + entries[j].2 ≤ entries[i].1)

/-- executable well-formedness of a stored shard value (used by the driver on the raw bytes zarrs wrote):
index decodes; live entries inside the value, outside the index region, pairwise non-overlapping -/
def wellFormed (c : Cfg) (v : Bytes) : Bool :=
  match indexBytes c v with
  | none => false
  | some ib =>
    match decodeIndex c true ib with
    | .error _ => false
    | .ok entries =>
      let live := entries.filter isLive
      let reg := indexRegion c v.length
      live.all (fun e => decide (e.1 + e.2 ≤ v.length) && (decide (e.1 + e.2 ≤ reg.1) || decide (reg.2 ≤ e.1))) &&
      (List.range live.length).all (fun i => (List.range live.length).all (fun j =>
        i == j || (let a := live.getD i (0, 0); let b := live.getD j (0, 0); decide (a.1 + a.2 ≤ b.1) || decide (b.1 + b.2 ≤ a.1) || a.2 == 0 || b.2 == 0)))

end Zarrs.Shard
