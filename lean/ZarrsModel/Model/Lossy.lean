import ZarrsModel.Model.Float
/-
Layer C: lossy array-to-array codecs.  `bitround` (zarrs/src/array/codec/array_to_array/bitround.rs): keep the
`keep` most significant of the `maxbits` low bits of the pattern (the mantissa of a float; the bits up to the
leading one of an integer), rounding to nearest with ties to even by integer arithmetic on the bit pattern.
-/
namespace Zarrs.Lossy

def bitLen (x : Nat) : Nat := if x == 0 then 0 else Nat.log2 x + 1

/-- `round_bits{8,16,32,64}` on a `width`-bit pattern -/
def roundBits (width keep maxbits x : Nat) : Nat :=
  if keep < maxbits then
    let mb := maxbits - keep
    let hq1 := 2 ^ (mb - 1) - 1
    -- saturating add, then clear the low `mb` bits
    (min (x + (x / 2 ^ mb % 2) + hq1) (2 ^ width - 1)) / 2 ^ mb * 2 ^ mb
  else x

/-- `mant` = mantissa bits of a float type, 0 for an integer type (the bit length of the value is used) -/
def bitround (width mant keep x : Nat) : Nat :=
  roundBits width keep (if mant == 0 then bitLen x else mant) x

end Zarrs.Lossy
