import ZarrsModel.Model.Store
/-
The multi-key ranged get of the default store implementation: `ReadableStorageTraits::get_partial_values` =
`get_partial_values_batched_by_key` (zarrs_storage/src/storage_sync.rs; the async copy in storage_async.rs is the same loop):
consecutive requests for one key are batched into one `get_partial_values_key` call.
-/
namespace Zarrs.MultiGet
open Zarrs

abbrev Req := Key × ByteRange

/-- one batched `get_partial_values_key` of the loop and its conversion (`map_or_else`): an absent key gives one `None`
per range of the batch; `none` = the store's error (`?`) -/
def flush (m : KV) (k : Key) (rs : List ByteRange) : Option (List (Option Bytes)) :=
  match m.get k with
  | none => some (List.replicate rs.length none)
  | some b => (extractByteRanges b rs).map (·.map some)

/-- the seeded variant (`C08_m9`): the batch is moved out (`mem::take`) before the absent-key branch counts it -/
def flushTaken (m : KV) (k : Key) (rs : List ByteRange) : Option (List (Option Bytes)) :=
  match m.get k with
  | none => some []
  | some b => (extractByteRanges b rs).map (·.map some)

/-- the loop of `get_partial_values_batched_by_key` as written: `last_key`, `byte_ranges_key`, `out` -/
def loop (fl : KV → Key → List ByteRange → Option (List (Option Bytes))) (m : KV) :
    List Req → Option Key → List ByteRange → List (Option Bytes) → Option (List (Option Bytes))
  | [], last, rs, out =>
    if rs.isEmpty then some out else
      match last with
      | some k => (fl m k rs).map (out ++ ·)
      | none => some out
  | (k, r) :: rest, last, rs, out =>
    let lk := last.getD k
    if k != lk then
      match fl m lk rs with
      | none => none
      | some bs => loop fl m rest (some k) [r] (out ++ bs)
    else loop fl m rest (some lk) (rs ++ [r]) out

def batched (m : KV) (reqs : List Req) : Option (List (Option Bytes)) := loop flush m reqs none [] []
def batchedSeeded (m : KV) (reqs : List Req) : Option (List (Option Bytes)) := loop flushTaken m reqs none [] []

/-- the specification, request by request: an absent key answers `None`, a present key the slice, a range reaching
outside the value is an error of the whole call -/
def one (m : KV) : Req → Option (Option Bytes)
  | (k, r) => match m.get k with
    | none => some none
    | some b => if r.valid b.length then some (some (r.extract b)) else none

def reqwise (m : KV) : List Req → Option (List (Option Bytes))
  | [] => some []
  | q :: rest => match one m q, reqwise m rest with
    | some x, some xs => some (x :: xs)
    | _, _ => none

end Zarrs.MultiGet
