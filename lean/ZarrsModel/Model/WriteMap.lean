import ZarrsModel.Model.Array
/-
Write maps (C17): which output bytes each leaf view writes.
`ArrayBytesFixedDisjointView::{copy_from_slice, fill}` write, for a view on region `v` of an output of shape `sh`
with element size `es`, exactly the byte ranges `v.byteRanges sh es` (one per contiguous run).
`retrieve_array_subset_opt` (multi-chunk, fixed size) creates one view per chunk on
`(chunk ∩ region) relative to region.start`.
-/
namespace Zarrs

/-- byte ranges `(offset, length)` written by the multi-chunk path of `retrieve_array_subset_opt(region)` -/
def ArrCfg.writeMap {α} (cfg : ArrCfg α) (region : Subset) (es : Nat) : Option (List (Nat × Nat)) :=
  match cfg.grid.chunksInArraySubset region cfg.shape with
  | none => none
  | some chunks =>
    ArrCfg.foldOpt (fun acc c =>
      match cfg.grid.subset c with
      | some cs => some (acc ++ ((cs.overlap region).relativeTo region.start).byteRanges region.shape es)
      | none => none) [] chunks.indices

def insertRange (r : Nat × Nat) : List (Nat × Nat) → List (Nat × Nat)
  | [] => [r]
  | x :: xs => if r.1 < x.1 || (r.1 == x.1 && r.2 ≤ x.2) then r :: x :: xs else x :: insertRange r xs

def sortRanges (rs : List (Nat × Nat)) : List (Nat × Nat) := rs.foldl (fun acc r => insertRange r acc) []

/-- do the sorted non-empty ranges, laid end to end from `pos`, reach exactly `len`? -/
def tilesFrom : Nat → Nat → List (Nat × Nat) → Bool
  | pos, len, [] => pos == len
  | pos, len, (o, l) :: rest => o == pos && tilesFrom (pos + l) len rest

/-- executable verdict of hook H4's recorded map at a publish site: every byte of `[0, len)` written exactly once
(zero-length writes are ignored) -/
def tiles (len : Nat) (rs : List (Nat × Nat)) : Bool :=
  tilesFrom 0 len (sortRanges (rs.filter (fun r => r.2 != 0)))

end Zarrs
