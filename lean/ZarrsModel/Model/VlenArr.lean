import ZarrsModel.Model.Vlen
import ZarrsModel.Model.ChainSDec
import ZarrsModel.Model.Array
/-
Variable-length arrays end to end (C01 / C02 / C04 for `string` / `bytes` data):

(a) the byte-level helpers of zarrs/src/array/array_bytes.rs on `ArrayBytes::Variable(bytes, offsets)` (`VArr`):
    `ArrayBytes::is_fill_value` (variable branch, the repaired element-wise test), `ArrayBytes::extract_array_subset`
    (variable branch) = `extract_decoded_regions_vlen` for one region, `update_bytes_vlen`, `merge_chunks_vlen`,
    `ArrayBytes::new_fill_value` (variable branch), and `transpose_vlen` of
    zarrs/src/array/codec/array_to_array/transpose.rs;
(b) codec chains whose array-to-bytes codec is a vlen codec (`ChainV`): `CodecChain::{encode, decode, partial_decoder}`
    (array_to_bytes/codec_chain.rs) over `TransposeCodec::{encode, decode}` / `TransposePartialDecoder` on variable data
    (array_to_array/transpose/{transpose_codec, transpose_partial_decoder}.rs), `SqueezeCodec`, `ArrayPartialDecoderCache`
    (array_partial_decoder_cache.rs), `VlenV2PartialDecoder` / `VlenPartialDecoder`
    (array_to_bytes/{vlen_v2/vlen_v2_partial_decoder, vlen/vlen_partial_decoder}.rs) and the bytes-to-bytes stages of
    Model/Partial.lean.

`none` = the real code returns an error OR panics (index out of bounds, `slice index starts at … but ends at …`,
`copy_from_slice` length mismatch, `checked_sub(..).unwrap()`); each source is named at its definition.  `usize`
subtraction that can underflow is modelled as `none` where the value is used to index, and is outside the model
(debug panic / release wrap) where it only feeds `Vec::with_capacity`.
-/
namespace Zarrs.VlenArr
open Zarrs Zarrs.Codec Zarrs.Vlen Zarrs.Partial

/-! ### (a) byte-level helpers -/

/-- `bytes.get(a..e)`: `None` when `a > e` or `e > len`; `&bytes[a..e]` panics in exactly these cases -/
def getRange (b : Bytes) (a e : Nat) : Option Bytes :=
  if a ≤ e ∧ e ≤ b.length then some (slice b a e) else none

/-- `&bytes[offsets[i]..offsets[i + 1]]` (the expression all helpers share): `none` = index or slice panic -/
def elemAt? (v : VArr) (i : Nat) : Option Bytes :=
  match v.offsets[i]?, v.offsets[i + 1]? with
  | some a, some e => getRange v.data a e
  | _, _ => none

/-- `(offsets[k], offsets[k + 1])`: `none` = index panic -/
def offPair? (v : VArr) (k : Nat) : Option (Nat × Nat) :=
  match v.offsets[k]?, v.offsets[k + 1]? with
  | some a, some e => some (a, e)
  | _, _ => none

/-- the output loop all helpers share: for each element `offsets_new.push(bytes_new.len());
bytes_new.extend_from_slice(x)`, then one more `offsets_new.push(bytes_new.len())`; `acc` = `bytes_new` so far -/
def pushAll : Bytes → List Bytes → Bytes × List Nat
  | acc, [] => (acc, [acc.length])
  | acc, x :: xs => let r := pushAll (acc ++ x) xs; (r.1, acc.length :: r.2)

/-- `ArrayBytes::new_vlen_unchecked(bytes_new, RawBytesOffsets::new_unchecked(offsets_new))` on the loop's output -/
def build (xs : List Bytes) : VArr := let r := pushAll [] xs; ⟨r.1, r.2⟩

/-- gather the elements at the linear indices `idxs` (in this order) into a new value -/
def gatherVlen (v : VArr) (idxs : List Nat) : Option VArr := (idxs.mapM (elemAt? v)).map build

/-- `ArrayBytes::is_fill_value`, variable branch (array_bytes.rs; REPAIRED: the pinned upstream compared the
concatenated bytes with a repetition of the fill value):
`offsets.windows(2).all(|w| bytes.get(w[0]..w[1]) == Some(fill_value.as_ne_bytes()))` -/
def isFillVlen (v : VArr) (fill : Bytes) : Bool :=
  (windows v.offsets).all (fun w => getRange v.data w.1 w.2 == some fill)

/-- `ArrayBytes::new_fill_value(ArraySize::Variable { num_elements }, fill_value)`: offsets `i * fill.size()` for
`i in 0..=n`, bytes `fill.repeat(n)` -/
def fillVArr (n : Nat) (fill : Bytes) : VArr :=
  ⟨(List.replicate n fill).flatten, (List.range (n + 1)).map (· * fill.length)⟩

/-- `ArrayBytes::extract_array_subset`, variable branch = the body of `extract_decoded_regions_vlen` for one region
(array_bytes.rs): `subset.linearised_indices(array_shape)` is an error (`IncompatibleArraySubsetAndShapeError`) unless
the subset has the rank of the shape and ends inside it; then the elements at the linearised indices are gathered
(`offsets[index]`, `offsets[index + 1]`, `bytes[curr..next]`: panics = `none`) -/
def extractVlen (r : Subset) (sh : Shape) (v : VArr) : Option VArr :=
  if !r.inboundsShape sh then none else gatherVlen v (r.linearised sh)

/-- `extract_decoded_regions_vlen(bytes, offsets, decoded_regions, array_shape)`: one value per region, the first
error ends it -/
def extractRegionsVlen (rs : List Subset) (sh : Shape) (v : VArr) : Option (List VArr) :=
  rs.mapM (fun r => extractVlen r sh v)

/-- `Σ (next - curr)` over pairs; `none` = `usize` underflow (debug panic; in release the wrapped sum reaches
`checked_sub(..).unwrap()` / `Vec::with_capacity` — outside the model) -/
def sumDiffs : List (Nat × Nat) → Option Nat
  | [] => some 0
  | w :: ws => if w.1 ≤ w.2 then (sumDiffs ws).map (· + (w.2 - w.1)) else none

/-- `update_bytes_vlen(input_bytes, input_offsets, input_shape, update_bytes, update_offsets, update_subset)`
(array_bytes.rs; reached from `update_array_bytes`, i.e. `Array::store_chunk_subset_opt`):
* `!update_subset.inbounds_shape(input_shape)` ⇒ `IncompatibleArraySubsetAndShapeError`;
* `size_subset_new` = Σ over the windows of the update offsets, `size_subset_old` = Σ over the linearised indices of
  the subset of `input_offsets[index + 1] - input_offsets[index]` (index panic = `none`),
  `(input_bytes.len() + size_subset_new).checked_sub(size_subset_old).unwrap()` (panic = `none`);
* for `(chunk_index, indices)` in `ArraySubset::new_with_shape(input_shape).indices().enumerate()`: the element comes
  from the update (`update_offsets[ravel(indices - start, subset.shape())]` …) when `update_subset.contains(indices)`
  (`izip!(..).all`, `Subset.containsZip`), else from the input at `chunk_index`. -/
def updateBytesVlen (v : VArr) (sh : Shape) (u : VArr) (r : Subset) : Option VArr :=
  if !r.inboundsShape sh then none else
  match sumDiffs (windows u.offsets),
        ((r.linearised sh).mapM (offPair? v)).bind sumDiffs with
  | some sizeNew, some sizeOld =>
    if v.data.length + sizeNew < sizeOld then none else
    ((boxIndices sh).zipIdx.mapM (fun (p : Idx × Nat) =>
      if Subset.containsZip p.1 r.start r.shape then elemAt? u (ravel (Subset.zipSub p.1 r.start) r.shape)
      else elemAt? v p.2)).map build
  | _, _ => none

/-- `transpose_vlen(bytes, offsets, shape, order)` (transpose.rs; REPAIRED callers pass the shape the elements are
laid out in): `ArrayD::from_shape_vec(shape, (0..product).collect())` then `.permuted_axes(order)` (panics unless
`order` is a permutation of the axes: `none`); iterating the permuted view in logical order visits, at the permuted
index `j`, the linear index of the `i` with `i[order[k]] = j[k]`; the elements are gathered in that order -/
def transposeVlen (v : VArr) (sh : Shape) (order : List Nat) : Option VArr :=
  if !validOrder order sh.length then none else
  gatherVlen v ((boxIndices (permute sh order)).map (fun j => ravel (permute j (inverseOrder order)) sh))

/-- `order_decode` as computed in `TransposeCodec::decode` / `do_transpose`:
`let mut order_decode = vec![0; n]; for (i, val) in order.iter().enumerate() { order_decode[*val] = i; }`
(an out-of-range `val` panics there; `TransposeOrder` is a permutation by construction —
zarrs_metadata `validate_permutation`).  `orderDecode_eq` (Lemmas/VlenArr): = `inverseOrder` for a permutation. -/
def orderDecode (order : List Nat) : List Nat :=
  order.zipIdx.foldl (fun acc (p : Nat × Nat) => acc.set p.1 p.2) (List.replicate order.length 0)

/-! #### `merge_chunks_vlen` -/

/-- the pairs `(subset_idx, (curr, next))` both loops of `merge_chunks_vlen` run over for one chunk:
`indices.iter().zip(chunk_offsets.iter().tuple_windows())` (a truncating zip; the length equality is a
`debug_assert`), together with the chunk's bytes -/
def partItems (sh : Shape) (p : VArr × Subset) : List (Nat × Bytes × Nat × Nat) :=
  ((p.2.linearised sh).zip (windows p.1.offsets)).map (fun q => (q.1, p.1.data, q.2.1, q.2.2))

/-- cumulative sum with a leading 0: `offsets.push(0); offsets.extend(element_sizes.iter().scan(0, …))` -/
def cumOffsets : Nat → List Nat → List Nat
  | acc, [] => [acc]
  | acc, s :: ss => acc :: cumOffsets (acc + s) ss

/-- `bytes[a..e].copy_from_slice(src)`: panics unless `a ≤ e ≤ len` and `src.len() == e - a` -/
def writeSlice (bytes : Bytes) (a e : Nat) (src : Bytes) : Option Bytes :=
  if a ≤ e ∧ e ≤ bytes.length ∧ src.length = e - a then some (bytes.take a ++ src ++ bytes.drop e) else none

/-- one iteration of the "Write bytes" loop -/
def writeItem (offsets : List Nat) (bytes : Bytes) (it : Nat × Bytes × Nat × Nat) : Option Bytes :=
  match getRange it.2.1 it.2.2.1 it.2.2.2, offsets[it.1]?, offsets[it.1 + 1]? with
  | some src, some a, some e => writeSlice bytes a e src
  | _, _, _ => none

def foldOptB {σ β} (f : σ → β → Option σ) : σ → List β → Option σ
  | s, [] => some s
  | s, b :: bs => match f s b with
    | some s' => foldOptB f s' bs
    | none => none

/-- `merge_chunks_vlen(chunk_bytes_and_subsets, array_shape)` (array_bytes.rs; the multi-chunk route of
`Array::retrieve_array_subset_opt` and of the sharding codec / partial decoder on variable data):
* every `chunk_subset.linearised_indices(array_shape).unwrap()` must succeed (panic = `none`);
* `element_sizes = vec![0; num_elements]`, then `element_sizes[subset_idx] = next - curr` for every item (a
  decreasing pair is a `debug_assert`; here the saturated 0 is written and the SAME pair makes the write loop's
  `chunk_bytes[curr..next]` panic, so the outcome is `none` either way);
* offsets = cumulative sum; `bytes = vec![0; offsets.last()]`;
* every item copies `chunk_bytes[curr..next]` to `bytes[offsets[idx]..offsets[idx + 1]]` (`copy_from_slice`).
The coverage test (`every element exactly once`) only exists under `debug_assertions`; the release code leaves
elements no chunk covers empty. -/
def mergeChunksVlen (parts : List (VArr × Subset)) (sh : Shape) : Option VArr :=
  if !parts.all (fun p => p.2.inboundsShape sh) then none else
  let items := parts.flatMap (partItems sh)
  let sizes := items.foldl (fun (acc : List Nat) it => acc.set it.1 (it.2.2.2 - it.2.2.1)) (List.replicate (prod sh) 0)
  let offsets := cumOffsets 0 sizes
  (foldOptB (writeItem offsets) (List.replicate (offsets.getLastD 0) 0) items).map (fun bytes => ⟨bytes, offsets⟩)

/-! ### (b) chains with a vlen array-to-bytes codec -/

/-- the array-to-bytes codec: `vlen_v2` (also registered as `vlen-utf8`, `vlen-bytes`, `vlen-array`:
`vlen_v2_macros.rs` forwards everything to `VlenV2Codec`) or `zarrs.vlen` with its configuration -/
inductive VCodec where
  | v2
  | vlen (cfg : Vlen.Cfg)

/-- `ArrayToBytesCodecTraits::encode` (`n` = `decoded_representation.num_elements()`) -/
def VCodec.enc : VCodec → Nat → VArr → Option Bytes
  | .v2, n, v => (vlenV2Enc n v).toOption
  | .vlen c, n, v => (vlenEnc c n v).toOption

/-- `ArrayToBytesCodecTraits::decode` -/
def VCodec.dec : VCodec → Nat → Bytes → Option VArr
  | .v2, n, b => (vlenV2Dec n b).toOption
  | .vlen c, n, b => (vlenDec c n b).toOption

/-- an array handle on variable data: one `ArrayBytes::Variable` per region -/
abbrev VHandle := List Subset → Option (List VArr)

/-- `ArrayToArrayCodecTraits::encode` of one stage on variable data, `sh` = the decoded shape of the stage.
`TransposeCodec::encode`: `bytes.validate(num_elements, size)`, an order of another length than the rank is an error,
`transpose_vlen(bytes, offsets, shape, order)`; `SqueezeCodec::encode` returns its input; a cache is no codec -/
def _root_.Zarrs.Partial.AStage.encV : AStage → Shape → VArr → Option VArr
  | .transpose order, sh, v =>
    if !v.valid (prod sh) then none else if order.length != sh.length then none else transposeVlen v sh order
  | .squeeze, _, v => some v
  | .cache, _, v => some v

/-- `ArrayToArrayCodecTraits::decode` of one stage on variable data.  `TransposeCodec::decode`: validate (the
transposed array has as many elements), the order length test, then
`transpose_vlen(bytes, offsets, permute(shape, order), order_decode)` -/
def _root_.Zarrs.Partial.AStage.decV : AStage → Shape → VArr → Option VArr
  | .transpose order, sh, v =>
    if !v.valid (prod sh) then none else if order.length != sh.length then none
    else transposeVlen v (permute sh order) (orderDecode order)
  | .squeeze, _, v => some v
  | .cache, _, v => some v

/-- `TransposePartialDecoder::partial_decode` on variable data: `validate_regions` (a region of another rank than the
chunk is an error), the permuted regions go to the inner handle, `do_transpose`: each answer is validated against its
region's element count and un-transposed with `transpose_vlen(.., permute(subset.shape, order), order_decode)` -/
def transposePDV (order : List Nat) (rank : Nat) (h : VHandle) : VHandle := fun rs =>
  if rs.any (fun r => r.rank != rank) then none else
  match h (rs.map (fun r => ⟨permute r.start order, permute r.shape order⟩)) with
  | none => none
  | some parts => (rs.zip parts).mapM (fun (x : Subset × VArr) =>
      if !x.2.valid x.1.numElements then none
      else transposeVlen x.2 (permute x.1.shape order) (orderDecode order))

/-- `SqueezePartialDecoder::partial_decode`: the squeezed regions go to the inner handle, the answers are returned -/
def squeezePDV (sh : Shape) (h : VHandle) : VHandle := fun rs => h (rs.map (squeezeRegion sh))

/-- `ArrayPartialDecoderCache` on variable data: `new` decodes the whole chunk once
(`partial_decode(&[ArraySubset::new_with_shape(shape)]).remove(0)`), `partial_decode` answers every region with
`self.cache.extract_array_subset(region, shape, data_type)` (the variable branch).  `CodecChain::new` puts one right
above the vlen codec (`partial_decoder_decodes_all() == true` ⇒ `cache_index_must`). -/
def arrayCachePDV (sh : Shape) (h : VHandle) : VHandle := fun rs =>
  match h [Subset.ofShape sh] with
  | some (v :: _) => extractRegionsVlen rs sh v
  | _ => none

/-- partial decoder of an array-to-array stage given the DECODED shape of that stage -/
def _root_.Zarrs.Partial.AStage.pdV : AStage → Shape → VHandle → VHandle
  | .transpose order, sh, h => transposePDV order sh.length h
  | .squeeze, sh, h => squeezePDV sh h
  | .cache, sh, h => arrayCachePDV sh h

/-- `VlenV2PartialDecoder::partial_decode` / `VlenPartialDecoder::partial_decode` (`decode_vlen_bytes`):
`input_handle.decode()` = the whole encoded value; absent ⇒ every region (NOT bounds-checked) reads as
`ArrayBytes::new_fill_value(Variable { region.num_elements() }, fill)`; present ⇒ the codec's full decoder
(`get_interleaved_bytes_and_offsets` / `get_vlen_bytes_and_offsets`), then `extract_decoded_regions_vlen` -/
def vlenPD (codec : VCodec) (sh : Shape) (fill : Bytes) (h : BHandle) : VHandle := fun rs =>
  match h [ByteRange.fromStart 0 none] with
  | none => none
  | some none => some (rs.map (fun r => fillVArr r.numElements fill))
  | some (some [b]) => (codec.dec (prod sh) b).bind (extractRegionsVlen rs sh)
  | some (some _) => none

structure ChainV where
  a2a : List AStage
  codec : VCodec
  b2b : List BStage

/-- array-to-array part of `CodecChain::encode` -/
def encodeA2AV : List AStage → Shape → VArr → Option VArr
  | [], _, v => some v
  | st :: rest, sh, v => (st.encV sh v).bind (encodeA2AV rest (st.encShape sh))

/-- array-to-array part of `CodecChain::decode`: `self.array_to_array.iter().rev()`, stage `k` from `shapes[k+1]` to
`shapes[k]` -/
def decodeA2AV : List AStage → Shape → VArr → Option VArr
  | [], _, v => some v
  | st :: rest, sh, v => (decodeA2AV rest (st.encShape sh) v).bind (st.decV sh)

/-- `CodecChain::encode`: `bytes.validate(num_elements, Variable)`, the array-to-array codecs, the vlen codec on the
innermost shape, the bytes-to-bytes codecs (`BStage.enc` is total: a stage stands for a codec that does not reject) -/
def ChainV.encode (c : ChainV) (sh : Shape) (v : VArr) : Option Bytes :=
  if !v.valid (prod sh) then none else
  ((encodeA2AV c.a2a sh v).bind (c.codec.enc (prod (shapesOf c.a2a sh)))).map
    (fun e => c.b2b.foldl (fun b st => st.enc b) e)

/-- `CodecChain::decode`: bytes-to-bytes codecs in reverse order, the vlen codec, the array-to-array codecs in reverse
order, final `bytes.validate(num_elements, size)` -/
def ChainV.decode (c : ChainV) (sh : Shape) (b : Bytes) : Option VArr :=
  (((decodeB2B c.b2b b).bind (c.codec.dec (prod (shapesOf c.a2a sh)))).bind (decodeA2AV c.a2a sh)).bind
    (fun v => if v.valid (prod sh) then some v else none)

def aPDV : List AStage → Shape → VHandle → VHandle
  | [], _, h => h
  | st :: rest, sh, h => st.pdV sh (aPDV rest (st.encShape sh) h)

/-- `CodecChain::partial_decoder`: the bytes-to-bytes partial decoders stacked in reverse order on the storage handle,
the vlen partial decoder on the innermost encoded shape (decode everything, then extract), the array-to-array partial
decoders in reverse order.  Caches appear where the chain lists them (`BStage.cache` / `AStage.cache`); the real
`CodecChain::new` inserts an `ArrayPartialDecoderCache` directly above the vlen codec, i.e. `.cache` as the LAST
array-to-array stage. -/
def ChainV.partialDecoder (c : ChainV) (sh : Shape) (fill : Bytes) (input : BHandle) : VHandle :=
  aPDV c.a2a sh (vlenPD c.codec (shapesOf c.a2a sh) fill (c.b2b.foldr (fun st h => st.pd h) input))

/-- the element view of a handle's answer -/
def VHandle.elems (h : VHandle) : AHandle := fun rs => (h rs).map (fun vs => vs.map VArr.elems)

end Zarrs.VlenArr
