/-
Byte ranges: zarrs_storage/src/byte_range.rs (`ByteRange::{start,end,length}`, `validate_byte_ranges`,
`extract_byte_ranges`).  Bytes are `List Nat` (each < 256 by convention of the driver; the theorems do not need it).
-/
namespace Zarrs

abbrev Bytes := List Nat

inductive ByteRange where
  | fromStart (off : Nat) (len : Option Nat)
  | suffix (len : Nat)
deriving Repr, DecidableEq

namespace ByteRange

/-- is the range inside a value of `size` bytes?  (`validate_byte_ranges`) -/
def valid (r : ByteRange) (size : Nat) : Bool :=
  match r with
  | .fromStart o l => decide (o + l.getD 0 ≤ size)
  | .suffix l => decide (l ≤ size)

/-- `start(size)`; meaningful only for valid ranges (Rust subtracts without check) -/
def start (r : ByteRange) (size : Nat) : Nat :=
  match r with
  | .fromStart o _ => o
  | .suffix l => size - l

def stop (r : ByteRange) (size : Nat) : Nat :=
  match r with
  | .fromStart o (some l) => o + l
  | .fromStart _ none => size
  | .suffix _ => size

def length (r : ByteRange) (size : Nat) : Nat :=
  match r with
  | .fromStart o none => size - o
  | .fromStart _ (some l) => l
  | .suffix l => l

end ByteRange

/-- `bytes[a..b]` -/
def slice (b : Bytes) (a e : Nat) : Bytes := (b.drop a).take (e - a)

/-- the slice a valid range denotes -/
def ByteRange.extract (r : ByteRange) (b : Bytes) : Bytes := slice b (r.start b.length) (r.stop b.length)

/-- `extract_byte_ranges`: all-or-nothing validation, then slices -/
def extractByteRanges (b : Bytes) (rs : List ByteRange) : Option (List Bytes) :=
  if rs.all (·.valid b.length) then some (rs.map (·.extract b)) else none

/-- `extract_byte_ranges_concat` -/
def extractByteRangesConcat (b : Bytes) (rs : List ByteRange) : Option Bytes :=
  (extractByteRanges b rs).map List.flatten

end Zarrs

namespace Zarrs
/-- the truncated slice a store may return for a range reaching outside the value (C08 tolerance) -/
def ByteRange.extractTrunc (r : ByteRange) (b : Bytes) : Bytes :=
  match r with
  | .fromStart o (some l) => slice b o (min (o + l) b.length)
  | .fromStart o none => slice b o b.length
  | .suffix l => slice b (b.length - l) b.length
end Zarrs
