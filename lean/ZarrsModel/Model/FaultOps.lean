import ZarrsModel.Model.Array
import ZarrsModel.Model.Cache
import ZarrsModel.Model.Hier
/-
Store failures at the level of single store OPERATIONS (C20).

`Model/Fault.lean` lets a per-chunk step fail as a whole.  Here the store counts its operations and fails the
operations whose ordinal is in a given set (exactly what the harness wrapper `FaultStore` of harness/src/c20.rs
does with one ordinal): `FStore = (m, n, fails)`.  A failed operation leaves `m` unchanged (a single store operation
is atomic) but is counted.  Every array / group / node method is written as a *program* `Prog β`: the tree of the
store operations it issues, in the order in which the Rust code issues them, with the pure computation between
them (validation, decode, update, encode) in the continuations.  `Prog.run` interprets a program over an `FStore`,
`Prog.pure` over a plain `KV` (no faults, no counter), `Prog.ops` counts the operations of the fault-free run and
`Prog.mAfter` gives the store after the first `j` operations of the fault-free run.

`fails = []` is the task's `failAt = none`, `fails = [k]` is `failAt = some k`; a longer list is a failing SUBSET of
the store calls of a multi-chunk method.
-/
namespace Zarrs

/-- a store with an operation counter and the ordinals (1-based) of the operations that fail -/
structure FStore where
  m : KV
  n : Nat
  fails : List Nat
deriving Repr, DecidableEq

namespace FStore
/-- the initial store of a run that fails its `k`-th operation (`none`: no fault) -/
def failAt (m : KV) (k : Option Nat) : FStore := ⟨m, 0, k.toList⟩
/-- `FaultStore::tick`: the next operation is the one that fails -/
def faultNow (s : FStore) : Bool := s.fails.contains (s.n + 1)
def tick (s : FStore) : FStore := { s with n := s.n + 1 }
end FStore

/-- result of an operation-level method: the value or an error, and in both cases the store it leaves -/
inductive FR (β : Type) where
  | ok (v : β) (s : FStore)
  | err (s : FStore)
deriving Repr, DecidableEq

namespace FR
variable {β : Type}
def st : FR β → FStore
  | .ok _ s => s
  | .err s => s
def isOk : FR β → Bool
  | .ok _ _ => true
  | .err _ => false
def val? : FR β → Option β
  | .ok v _ => some v
  | .err _ => none
end FR

/-! ### the single store operations (`FaultStore` of harness/src/c20.rs over the ordered-map store `Spec.step`) -/

/-- `ReadableStorageTraits::get` (and `get_partial_values_key`: the byte ranges are taken out of the value by the
caller) -/
def fget (s : FStore) (k : Key) : FR (Option Bytes) :=
  if s.faultNow then .err s.tick else .ok (s.m.get k) s.tick
/-- `WritableStorageTraits::set` -/
def fset (s : FStore) (k : Key) (v : Bytes) : FR Unit :=
  if s.faultNow then .err s.tick else .ok () { s.tick with m := s.m.put k v }
/-- `WritableStorageTraits::erase` -/
def ferase (s : FStore) (k : Key) : FR Unit :=
  if s.faultNow then .err s.tick else .ok () { s.tick with m := s.m.erase k }
/-- `ListableStorageTraits::list_dir` -/
def flistDir (s : FStore) (p : Key) : FR (List Key × List Key) :=
  if s.faultNow then .err s.tick else .ok (Spec.listDir s.m p) s.tick

/-- a method as the tree of its store operations -/
inductive Prog (β : Type) where
  | ret (v : β)
  /-- an error that is not a store failure (validation, codec, metadata that does not parse) -/
  | fail
  | get (k : Key) (cont : Option Bytes → Prog β)
  | set (k : Key) (v : Bytes) (cont : Prog β)
  | erase (k : Key) (cont : Prog β)
  | listDir (p : Key) (cont : List Key × List Key → Prog β)

namespace Prog
variable {β γ : Type}

/-- run over a counting / failing store: the first failing operation ends the method with an error (`?`) -/
def run : Prog β → FStore → FR β
  | .ret v, s => .ok v s
  | .fail, s => .err s
  | .get k cont, s => match fget s k with
    | .ok v s' => (cont v).run s'
    | .err s' => .err s'
  | .set k v cont, s => match fset s k v with
    | .ok _ s' => cont.run s'
    | .err s' => .err s'
  | .erase k cont, s => match ferase s k with
    | .ok _ s' => cont.run s'
    | .err s' => .err s'
  | .listDir p cont, s => match flistDir s p with
    | .ok v s' => (cont v).run s'
    | .err s' => .err s'

/-- the DEFECTIVE interpreter of the seeded changes: the error of a failed read is swallowed
(`storage.get(..).ok().flatten()`), the key reads as absent and the method goes on -/
def runSwallow : Prog β → FStore → FR β
  | .ret v, s => .ok v s
  | .fail, s => .err s
  | .get k cont, s => match fget s k with
    | .ok v s' => (cont v).runSwallow s'
    | .err s' => (cont none).runSwallow s'
  | .set k v cont, s => match fset s k v with
    | .ok _ s' => cont.runSwallow s'
    | .err s' => .err s'
  | .erase k cont, s => match ferase s k with
    | .ok _ s' => cont.runSwallow s'
    | .err s' => .err s'
  | .listDir p cont, s => match flistDir s p with
    | .ok v s' => (cont v).runSwallow s'
    | .err s' => .err s'

/-- the method over a store that never fails: value and final store, `none` = error -/
def pure : Prog β → KV → Option (β × KV)
  | .ret v, m => some (v, m)
  | .fail, _ => none
  | .get k cont, m => (cont (m.get k)).pure m
  | .set k v cont, m => cont.pure (m.put k v)
  | .erase k cont, m => cont.pure (m.erase k)
  | .listDir p cont, m => (cont (Spec.listDir m p)).pure m

/-- number of store operations of the fault-free run from `m` -/
def ops : Prog β → KV → Nat
  | .ret _, _ => 0
  | .fail, _ => 0
  | .get k cont, m => (cont (m.get k)).ops m + 1
  | .set k v cont, m => cont.ops (m.put k v) + 1
  | .erase k cont, m => cont.ops (m.erase k) + 1
  | .listDir p cont, m => (cont (Spec.listDir m p)).ops m + 1

/-- the store operations of the fault-free run from `m`, in order: kind (`g` get / partial get, `s` set, `e` erase,
`l` list_dir) and key — what the recording store of the harness (`FaultStore::take_trace`) prints -/
def trace : Prog β → KV → List (Char × Key)
  | .ret _, _ => []
  | .fail, _ => []
  | .get k cont, m => ('g', k) :: (cont (m.get k)).trace m
  | .set k v cont, m => ('s', k) :: cont.trace (m.put k v)
  | .erase k cont, m => ('e', k) :: cont.trace (m.erase k)
  | .listDir p cont, m => ('l', p) :: (cont (Spec.listDir m p)).trace m

/-- the store after (at most) the first `j` operations of the fault-free run from `m` -/
def mAfter : Prog β → KV → Nat → KV
  | .ret _, m, _ => m
  | .fail, m, _ => m
  | _, m, 0 => m
  | .get k cont, m, j + 1 => (cont (m.get k)).mAfter m j
  | .set k v cont, m, j + 1 => cont.mAfter (m.put k v) j
  | .erase k cont, m, j + 1 => cont.mAfter (m.erase k) j
  | .listDir p cont, m, j + 1 => (cont (Spec.listDir m p)).mAfter m j

/-- sequencing (`?` then continue) -/
def bind : Prog β → (β → Prog γ) → Prog γ
  | .ret v, f => f v
  | .fail, _ => .fail
  | .get k cont, f => .get k (fun v => (cont v).bind f)
  | .set k v cont, f => .set k v (cont.bind f)
  | .erase k cont, f => .erase k (cont.bind f)
  | .listDir p cont, f => .listDir p (fun v => (cont v).bind f)

/-- the steps of a list one after the other, stopping at the first error (`try_for_each` on one thread) -/
def seq : List (Prog Unit) → Prog Unit
  | [] => .ret ()
  | p :: ps => p.bind (fun _ => seq ps)

/-- the steps of a list, ALL of them started whatever the others return (`try_for_each` of rayon: the steps already
in flight when one fails run to completion); the result is an error iff some step failed -/
def runAll : List (Prog Unit) → FStore → FR Unit
  | [], s => .ok () s
  | p :: ps, s => match p.run s with
    | .ok _ s' => runAll ps s'
    | .err s' => .err (runAll ps s').st

/-- no write operation -/
def readOnly : Prog β → Prop
  | .ret _ => True
  | .fail => True
  | .get _ cont => ∀ v, (cont v).readOnly
  | .set _ _ _ => False
  | .erase _ _ => False
  | .listDir _ cont => ∀ v, (cont v).readOnly

/-- at most one write operation, and it is the last operation (every single-chunk array method) -/
def writeLast : Prog β → Prop
  | .ret _ => True
  | .fail => True
  | .get _ cont => ∀ v, (cont v).writeLast
  | .set _ _ cont => ∃ v, cont = .ret v
  | .erase _ cont => ∃ v, cont = .ret v
  | .listDir _ cont => ∀ v, (cont v).writeLast

end Prog

/-- the ordinal (0-based, relative to `n`) of the first failing operation among the next `N` -/
def firstFail (F : List Nat) : Nat → Nat → Option Nat
  | _, 0 => none
  | n, N + 1 => if F.contains (n + 1) then some 0 else (firstFail F (n + 1) N).map (· + 1)

/-! ### the array methods as programs -/

/-- a multi-chunk method after its validation: rejected before any store operation, a single sequential program (the
0- and 1-chunk paths), or the chunks handed to `iter_concurrent_limit!` / `into_par_iter` with the per-chunk closure -/
inductive Plan where
  | reject
  | single (p : Prog Unit)
  | par (chunks : List Idx) (step : Idx → Prog Unit)

namespace Plan
/-- the steps of the plan when the per-chunk closures are started in the order `order` (a permutation of `chunks`
for a run that reaches every chunk; any list of chunks in general) -/
def steps : Plan → List Idx → List (Prog Unit)
  | .reject, _ => [.fail]
  | .single p, _ => [p]
  | .par _ step, order => order.map step
/-- the chunks of the plan in the order of `chunks.indices()` -/
def chunks : Plan → List Idx
  | .par cs _ => cs
  | _ => []
/-- the method on one thread, per-chunk closures in the order `order`, stopping at the first error -/
def exec (pl : Plan) (order : List Idx) : Prog Unit := Prog.seq (pl.steps order)
/-- the method with the closures in the canonical order -/
def prog (pl : Plan) : Prog Unit := pl.exec pl.chunks
end Plan

namespace ArrCfg
variable {α : Type} [BEq α]

/-- `Array::store_chunk_opt` (array_sync_writable.rs): validate; an all-fill chunk is ERASED (`erase_chunk`) unless
`store_empty_chunks`, otherwise encoded and SET (`store_encoded_chunk`): one store operation -/
def storeChunkP (cfg : ArrCfg α) (c : Idx) (data : List α) : Prog Unit :=
  match cfg.chunkShape c with
  | none => .fail
  | some s =>
    if data.length != prod s then .fail
    else if !cfg.storeEmpty && cfg.isFill data then .erase (cfg.keyOf c) (.ret ())
    else .set (cfg.keyOf c) (cfg.enc data) (.ret ())

/-- `Array::erase_chunk` (array_sync_writable.rs): one erase -/
def eraseChunkP (cfg : ArrCfg α) (c : Idx) : Prog Unit := .erase (cfg.keyOf c) (.ret ())

/-- `Array::erase_chunks` (array_sync_writable.rs): `chunks.indices().into_par_iter().try_for_each(erase_chunk)` -/
def eraseChunksPlan (cfg : ArrCfg α) (box : Subset) : Plan := .par box.indices cfg.eraseChunkP

/-- decode a stored value or produce the fill chunk (`retrieve_chunk_opt` after its `get`) -/
def decodeOrFill (cfg : ArrCfg α) (s : Shape) : Option Bytes → Option (List α)
  | none => some (List.replicate (prod s) cfg.fill)
  | some b => match cfg.dec b with
    | some xs => if xs.length == prod s then some xs else none
    | none => none

/-- `Array::retrieve_chunk_if_exists_opt` (array_sync_readable.rs): dimensionality check, ONE `get`, then (only for a
stored value) `chunk_array_representation` and decode -/
def retrieveChunkIfExistsP (cfg : ArrCfg α) (c : Idx) : Prog (Option (List α)) :=
  if c.length != cfg.grid.length then .fail else
  .get (cfg.keyOf c) (fun
    | none => .ret none
    | some b => match cfg.chunkShape c with
      | none => .fail
      | some s => match cfg.dec b with
        | some xs => if xs.length == prod s then .ret (some xs) else .fail
        | none => .fail)

/-- `Array::retrieve_chunk_opt` (array_sync_readable.rs): `retrieve_chunk_if_exists_opt`, a missing chunk reads as
fill (`chunk_shape` is evaluated after the `get`) -/
def retrieveChunkP (cfg : ArrCfg α) (c : Idx) : Prog (List α) :=
  (cfg.retrieveChunkIfExistsP c).bind (fun
    | some xs => .ret xs
    | none => match cfg.chunkShape c with
      | some s => .ret (List.replicate (prod s) cfg.fill)
      | none => .fail)

/-- `extra` further reads of the key `k` (their values are parts of the value already seen), then `p` -/
def readsThen {β} (k : Key) : Nat → Prog β → Prog β
  | 0, p => p
  | j + 1, p => .get k (fun _ => readsThen k j p)

/-- `Array::retrieve_chunk_subset_opt` (array_sync_readable.rs): `chunk_array_representation`, bounds check; a subset
that is the whole chunk goes through `retrieve_chunk_opt` (one `get`); any other subset goes through the partial
decoder of the codec chain over a `StoragePartialDecoder` on the chunk key: a first read (`get_partial_values_key`; the
shard index for a sharded chunk) and, depending on the chain and on what the first read returned, `extra old r`
further reads of the same key (none for an unsharded chain, the inner chunks for a sharded one).  What the partial
route returns is what decoding the whole value and extracting returns (C02) -/
def retrieveChunkSubsetP (cfg : ArrCfg α) (extra : Option Bytes → Subset → Nat) (c : Idx) (r : Subset) :
    Prog (List α) :=
  match cfg.chunkShape c with
  | none => .fail
  | some s =>
    if !r.inboundsShape s then .fail
    else if r.start.all (· == 0) && r.shape == s then
      (cfg.retrieveChunkP c).bind (fun xs => .ret (r.extract s xs))
    else
      .get (cfg.keyOf c) (fun old =>
        readsThen (cfg.keyOf c) (extra old r)
          (match cfg.decodeOrFill s old with
           | some xs => .ret (r.extract s xs)
           | none => .fail))

/-- an unsharded chain: the partial decoder reads the key once -/
def noExtra : Option Bytes → Subset → Nat := fun _ _ => 0

/-- `Array::store_chunk_subset_opt` (array_sync_readable_writable.rs) without partial encoding: `chunk_shape`, bounds
check; a subset spanning the chunk is `store_chunk_opt`; otherwise validate the data, `retrieve_chunk_opt` (GET),
`update_array_bytes`, `store_chunk_opt` (ERASE or SET): read-modify-write of one key -/
def storeChunkSubsetP (cfg : ArrCfg α) (c : Idx) (r : Subset) (data : List α) : Prog Unit :=
  match cfg.chunkShape c with
  | none => .fail
  | some s =>
    if !(r.rank == s.length && Subset.allLe r.endExc s) then .fail
    else if r.shape == s && r.start.all (· == 0) then cfg.storeChunkP c data
    else if data.length != r.numElements then .fail
    else (cfg.retrieveChunkP c).bind (fun old => cfg.storeChunkP c (updateRuns s r old data))

/-- the per-chunk closure `store_chunk` of `store_chunks_opt` -/
def storeChunksStepP (cfg : ArrCfg α) (region : Subset) (data : List α) (c : Idx) : Prog Unit :=
  match cfg.chunkSubset c with
  | none => .fail
  | some cs => cfg.storeChunkP c ((cs.relativeTo region.start).extract region.shape data)

/-- `Array::store_chunks_opt` (array_sync_writable.rs): 0 chunks: validate only; 1 chunk: `store_chunk_opt`; else
validate and run the closure over `chunks.indices()` with `iter_concurrent_limit!(.., try_for_each, ..)` -/
def storeChunksPlan (cfg : ArrCfg α) (box : Subset) (data : List α) : Plan :=
  match box.numElements with
  | 0 => if data.isEmpty then .single (.ret ()) else .reject
  | 1 => .single (cfg.storeChunkP box.start data)
  | _ =>
    match cfg.grid.chunksSubset box with
    | none => .reject
    | some region =>
      if data.length != region.numElements then .reject
      else .par box.indices (cfg.storeChunksStepP region data)

/-- the per-chunk closure `store_chunk` of `store_array_subset_opt` -/
def storeArraySubsetStepP (cfg : ArrCfg α) (region : Subset) (data : List α) (c : Idx) : Prog Unit :=
  match cfg.chunkSubset c with
  | none => .fail
  | some cs =>
    let ov := region.overlap cs
    cfg.storeChunkSubsetP c (ov.relativeTo cs.start) ((ov.relativeTo region.start).extract region.shape data)

/-- `Array::store_array_subset_opt` (array_sync_readable_writable.rs): one chunk: `store_chunk_opt` when the region is
the chunk, else `store_chunk_subset_opt`; otherwise validate and run the closure over the overlapped chunks with
`iter_concurrent_limit!(.., try_for_each, ..)` -/
def storeArraySubsetPlan (cfg : ArrCfg α) (region : Subset) (data : List α) : Plan :=
  if region.rank != cfg.shape.length then .reject else
  match cfg.grid.chunksInArraySubset region cfg.shape with
  | none => .reject
  | some chunks =>
    if chunks.numElements == 1 then
      match cfg.chunkSubset chunks.start with
      | none => .reject
      | some cs =>
        if region == cs then .single (cfg.storeChunkP chunks.start data)
        else .single (cfg.storeChunkSubsetP chunks.start (region.relativeTo cs.start) data)
    else
      if data.length != region.numElements then .reject
      else .par chunks.indices (cfg.storeArraySubsetStepP region data)

/-- the per-chunk reads of the multi-chunk branch of `retrieve_array_subset_opt`, closures in the order of the list:
`retrieve_chunk_subset_into` (fixed size) / `retrieve_chunk_subset_opt` (variable size) of the overlap, copied into the
output -/
def readStepsP (cfg : ArrCfg α) (extra : Option Bytes → Subset → Nat) (region : Subset) :
    List Idx → List α → Prog (List α)
  | [], out => .ret out
  | c :: rest, out =>
    match cfg.chunkSubset c with
    | none => .fail
    | some cs =>
      let ov := cs.overlap region
      (cfg.retrieveChunkSubsetP extra c (ov.relativeTo cs.start)).bind (fun part =>
        readStepsP cfg extra region rest (updateRuns region.shape (ov.relativeTo region.start) out part))

/-- `Array::retrieve_array_subset_opt` (array_sync_readable.rs) with the closures of the multi-chunk branch started in
the order `order chunks.indices`: 0 chunks: no store operation; 1 chunk: `retrieve_chunk_opt` /
`retrieve_chunk_subset_opt`; else one `retrieve_chunk_subset_*` per overlapped chunk -/
def retrieveArraySubsetP (cfg : ArrCfg α) (extra : Option Bytes → Subset → Nat) (order : List Idx → List Idx)
    (region : Subset) : Prog (List α) :=
  if region.rank != cfg.shape.length then .fail else
  match cfg.grid.chunksInArraySubset region cfg.shape with
  | none => .fail
  | some chunks =>
    match chunks.numElements with
    | 0 => .ret (List.replicate region.numElements cfg.fill)
    | 1 =>
      match cfg.chunkSubset chunks.start with
      | none => .fail
      | some cs =>
        if cs == region then cfg.retrieveChunkP chunks.start
        else cfg.retrieveChunkSubsetP extra chunks.start (region.relativeTo cs.start)
    | _ => cfg.readStepsP extra region (order chunks.indices) (List.replicate region.numElements cfg.fill)

/-- `Array::retrieve_chunks_opt` (array_sync_readable.rs): dimensionality check, `chunks_subset`, then
`retrieve_array_subset_opt` of the region the box of chunks covers -/
def retrieveChunksP (cfg : ArrCfg α) (extra : Option Bytes → Subset → Nat) (order : List Idx → List Idx)
    (box : Subset) : Prog (List α) :=
  if box.rank != cfg.shape.length then .fail else
  match cfg.grid.chunksSubset box with
  | none => .fail
  | some region => cfg.retrieveArraySubsetP extra order region

/-- the write methods of a history as plans -/
def planOf (cfg : ArrCfg α) : WriteOp α → Plan
  | .storeChunk c d => .single (cfg.storeChunkP c d)
  | .storeChunks b d => cfg.storeChunksPlan b d
  | .storeChunkSubset c r d => .single (cfg.storeChunkSubsetP c r d)
  | .storeArraySubset r d => cfg.storeArraySubsetPlan r d
  | .eraseChunk c => .single (cfg.eraseChunkP c)
  | .eraseChunks b => cfg.eraseChunksPlan b

/-! ### cached retrieval (chunk_cache.rs `try_get_or_insert_with`, chunk_cache/chunk_cache_lru.rs) -/

/-- the closure of `try_get_or_insert_with`: a decoded cache runs `retrieve_chunk_opt`, an encoded cache
`retrieve_encoded_chunk` (one `get`, no check of the indices) -/
def cacheFillP (cfg : ArrCfg α) (kind : CacheKind) (c : Idx) : Prog (CacheEntry α) :=
  match kind with
  | .decoded => (cfg.retrieveChunkP c).bind (fun xs => .ret (.decoded xs))
  | .encoded => .get (cfg.keyOf c) (fun b => .ret (.encoded b))

/-- `ChunkCache::retrieve_chunk` over the failing store: a hit performs no store operation; on a miss the closure
runs and its value is inserted ONLY when it returned `Ok` (`let chunk = f()?; self.insert(..)`) -/
def cachedRetrieveChunkF (cfg : ArrCfg α) (kind : CacheKind) (evict : Cache α → Cache α) (cache : Cache α) (c : Idx)
    (s : FStore) : FR (List α) × Cache α :=
  match cache.lookup c with
  | some e => (match cfg.cacheDecode c e with | some xs => .ok xs s | none => .err s, cache.touch c)
  | none =>
    match (cfg.cacheFillP kind c).run s with
    | .err s' => (.err s', cache)
    | .ok e s' => (match cfg.cacheDecode c e with | some xs => .ok xs s' | none => .err s', evict ((c, e) :: cache))

end ArrCfg

/-! ### metadata documents and opening nodes -/

namespace Hier

/-- the documents a handle writes: V3 one `zarr.json`; V2 `.zarray`/`.zgroup` and, unless its attributes are empty,
`.zattrs` -/
inductive MetaDoc where
  | v3 (json : Bytes)
  | v2 (doc : Bytes) (attrs : Option Bytes)
deriving Repr, DecidableEq

/-- `Array::store_metadata_opt` (array_sync_writable.rs; `k2 = .zarray`) and `Group::store_metadata_opt` (group.rs;
`k2 = .zgroup`): V3 one SET; V2 `.zattrs` SET (attributes) or ERASE (no attributes), then the V2 document SET -/
def storeMetadataP (pre k2 : Key) : MetaDoc → Prog Unit
  | .v3 j => .set (pre ++ kZarrJson) j (.ret ())
  | .v2 d (some a) => .set (pre ++ kZattrs) a (.set (pre ++ k2) d (.ret ()))
  | .v2 d none => .erase (pre ++ kZattrs) (.set (pre ++ k2) d (.ret ()))

/-- `MetadataEraseVersion` (with `Default` resolved against the handle's own version) -/
inductive EraseVersion where
  | v3 | v2 | all
deriving Repr, DecidableEq

/-- `Array::erase_metadata_opt` / `Group::erase_metadata_opt` -/
def eraseMetadataP (pre k2 : Key) : EraseVersion → Prog Unit
  | .v3 => .erase (pre ++ kZarrJson) (.ret ())
  | .v2 => .erase (pre ++ k2) (.erase (pre ++ kZattrs) (.ret ()))
  | .all => .erase (pre ++ kZarrJson) (.erase (pre ++ k2) (.erase (pre ++ kZattrs) (.ret ())))

/-- what `open_metadata` found -/
inductive Opened where
  | v3 (doc : Bytes)
  | v2 (doc : Bytes) (attrs : Option Bytes)
deriving Repr, DecidableEq

/-- `Array::open_metadata` (array_sync_readable.rs; `k2 = .zarray`) and `Group::open_metadata` (group.rs;
`k2 = .zgroup`) with `MetadataRetrieveVersion::Default`: GET `zarr.json`; when absent GET the V2 document, parse it,
GET `.zattrs` (parsed when present); no document: `MissingMetadata` -/
def openMetaP (pre k2 : Key) (ok3 ok2 okAttrs : Bytes → Bool) : Prog Opened :=
  .get (pre ++ kZarrJson) (fun
    | some d => if ok3 d then .ret (.v3 d) else .fail
    | none => .get (pre ++ k2) (fun
      | some d =>
        if ok2 d then
          .get (pre ++ kZattrs) (fun
            | some a => if okAttrs a then .ret (.v2 d (some a)) else .fail
            | none => .ret (.v2 d none))
        else .fail
      | none => .fail))

/-- the same without faults -/
def openMeta (m : KV) (pre k2 : Key) (ok3 ok2 okAttrs : Bytes → Bool) : Option Opened :=
  match m.get (pre ++ kZarrJson) with
  | some d => if ok3 d then some (.v3 d) else none
  | none => match m.get (pre ++ k2) with
    | some d =>
      if ok2 d then
        match m.get (pre ++ kZattrs) with
        | some a => if okAttrs a then some (.v2 d (some a)) else none
        | none => some (.v2 d none)
      else none
    | none => none

/-- the `.zattrs` read that follows a V2 document -/
def attrsThenP (r : Reader) (pre : Key) (k : Kind) : Prog Meta :=
  .get (pre ++ kZattrs) (fun
    | some a => if r.okAttrs a then .ret (.node k) else .ret .invalid
    | none => .ret (.node k))

/-- `Node::get_metadata` (node.rs) with `MetadataRetrieveVersion::Default`: GET `zarr.json`; GET `.zarray` (then
`.zattrs`); GET `.zgroup` (then `.zattrs`) -/
def getMetaP (r : Reader) (pre : Key) : Prog Meta :=
  .get (pre ++ kZarrJson) (fun
    | some v => match r.cls v with
      | some true => .ret (.node .group3)
      | some false => .ret (.node .array3)
      | none => .ret .invalid
    | none => .get (pre ++ kZarray) (fun
      | some v => if r.okA v then attrsThenP r pre .array2 else .ret .invalid
      | none => .get (pre ++ kZgroup) (fun
        | some v => if r.okG v then attrsThenP r pre .group2 else .ret .invalid
        | none => .ret .missing)))

/-- `get_child_nodes(.., recursive = false)` (node/node_sync.rs): ONE `list_dir` (`discover_children`), then
`Node::get_metadata` of every child prefix in order; a prefix without metadata is skipped, unreadable metadata is an
error -/
def childListP (r : Reader) : List Key → Prog (List (Key × Kind))
  | [] => .ret []
  | q :: rest => (getMetaP r q).bind (fun
    | .invalid => .fail
    | .missing => childListP r rest
    | .node k => (childListP r rest).bind (fun ts => .ret ((q, k) :: ts)))

/-- `Group::children(false)` -/
def childrenP (r : Reader) (pre : Key) : Prog (List (Key × Kind)) :=
  .listDir pre (fun d => childListP r (d.2.filter (fun q => !("__".toList.isPrefixOf q))))

/-- the same without faults -/
def childListPure (r : Reader) (m : KV) : List Key → Option (List (Key × Kind))
  | [] => some []
  | q :: rest => match getMeta r m q with
    | .invalid => none
    | .missing => childListPure r m rest
    | .node k => (childListPure r m rest).map ((q, k) :: ·)

/-- the child prefixes `discover_children` keeps -/
def keepChild (q : Key) : Bool := !("__".toList.isPrefixOf q)

/-- the loop of `get_child_nodes(.., recursive = true)` (node/node_sync.rs) over the child prefixes, in order:
`Node::get_metadata` and — for a group — its own `get_child_nodes` (`sub`) BEFORE the next sibling -/
def childTreesWith (r : Reader) (sub : Key → Prog (List Tree)) : List Key → Prog (List Tree)
  | [] => .ret []
  | q :: rest => (getMetaP r q).bind (fun
    | .invalid => .fail
    | .missing => childTreesWith r sub rest
    | .node k =>
      (if k.isGroup then sub q else Prog.ret []).bind (fun cs =>
        (childTreesWith r sub rest).bind (fun ts => .ret (Tree.mk q k cs :: ts))))

/-- `get_child_nodes(.., recursive = true)` with a recursion bound (as `Hier.childNodes`): ONE `list_dir`, then the loop -/
def childNodesP (r : Reader) : Nat → Key → Prog (List Tree)
  | 0, _ => .ret []
  | fuel + 1, pre => .listDir pre (fun d => childTreesWith r (childNodesP r fuel) (d.2.filter keepChild))

/-- `Node::open_opt` (node.rs): `get_metadata`, then for a group `get_child_nodes(.., true)`; flattened -/
def openNodeP (r : Reader) (fuel : Nat) (pre : Key) : Prog (List (Key × Kind)) :=
  (getMetaP r pre).bind (fun
    | .node k =>
      if k.isGroup then (childNodesP r fuel pre).bind (fun ts => .ret ((pre, k) :: flattenList ts))
      else .ret [(pre, k)]
    | _ => .fail)

end Hier
end Zarrs
