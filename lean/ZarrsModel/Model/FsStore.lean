import ZarrsModel.Model.Store
/-
Layer B (C08): the algorithm of `FilesystemStore` (zarrs_filesystem/src/lib.rs) over a directory tree, with the
`std::fs` calls it makes modelled as tree operations:

* `create_dir_all` creates every missing ancestor and fails when an ancestor is a file,
* `OpenOptions::open(write, create, truncate)` fails on a directory (EISDIR) / below a file (ENOTDIR),
* `remove_file` fails on a directory, `NotFound` when the entry is missing,
* `remove_dir_all` removes a whole subtree (the base directory itself for the empty prefix),
* `read_dir` lists the immediate entries, `WalkDir` (with `sort_by_file_name`) walks depth first in name order.

Representation.  A directory's content is a `Tree`: a name-ordered list of entries, each a file with its bytes or a
sub-directory with its own content (the "first child / next sibling" form of
`inductive Node | file (b) | dir (children : List (Name × Node))`; it is a plain inductive type, so structural
recursion and induction work directly).  Empty directories (`.dir n .nil rest`) are representable: `erase` leaves
them behind.  The store state is `Option Tree`: `none` = the base directory does not exist (`erase_prefix("")`
removes it, the next `set` re-creates it).
Entries are kept in name order: the order of `read_dir` is OS dependent and every consumer sorts
(`WalkDir::sort_by_file_name`, `FilesystemStore::sorted()` as used by the harness).

Not modelled (the step function answers `FsOut.outside`): keys with a path component `.` / `..` or a NUL (the OS
resolves those specially: `a/./b` names the same file as `a/b`), prefixes that are accepted by
`StorePrefix::validate` but are not `validPrefixB` (`a//`), `size_key` and empty ranged reads (other than
`FromStart(0, Some(0))`) of a key that is a directory (the answer is the OS's).  The `readonly` flag (base directory without write permission) is not modelled.
-/
namespace Zarrs.Fs
open Zarrs

abbrev Name := List Char

/-- the content of a directory -/
inductive Tree where
  | nil
  | file (n : Name) (b : Bytes) (rest : Tree)
  | dir (n : Name) (c : Tree) (rest : Tree)
deriving Repr, DecidableEq

/-- one directory entry -/
inductive Ent where
  | file (b : Bytes)
  | dir (c : Tree)
deriving Repr, DecidableEq

namespace Tree

def cons (n : Name) (e : Ent) (rest : Tree) : Tree :=
  match e with
  | .file b => .file n b rest
  | .dir c => .dir n c rest

/-- entry named `m` of this directory -/
def lookup1 : Tree → Name → Option Ent
  | .nil, _ => none
  | .file n b rest, m => if m = n then some (.file b) else rest.lookup1 m
  | .dir n c rest, m => if m = n then some (.dir c) else rest.lookup1 m

/-- create or replace the entry named `m`, keeping name order -/
def put1 : Tree → Name → Ent → Tree
  | .nil, m, e => cons m e .nil
  | .file n b rest, m, e =>
    if m = n then cons m e rest else if keyLt m n then cons m e (.file n b rest) else .file n b (rest.put1 m e)
  | .dir n c rest, m, e =>
    if m = n then cons m e rest else if keyLt m n then cons m e (.dir n c rest) else .dir n c (rest.put1 m e)

/-- unlink the entry named `m` -/
def del1 : Tree → Name → Tree
  | .nil, _ => .nil
  | .file n b rest, m => if m = n then rest.del1 m else .file n b (rest.del1 m)
  | .dir n c rest, m => if m = n then rest.del1 m else .dir n c (rest.del1 m)

/-- names of the immediate entries -/
def names : Tree → List Name
  | .nil => []
  | .file n _ rest => n :: rest.names
  | .dir n _ rest => n :: rest.names

end Tree

/-- what resolving a path finds: nothing (ENOENT), a file on the way (ENOTDIR), a file, a directory -/
inductive Stat where
  | noent
  | notdir
  | file (b : Bytes)
  | dir (c : Tree)
deriving Repr, DecidableEq

inductive IoErr where
  | notFound
  | other
deriving Repr, DecidableEq

namespace Tree

/-- path resolution from this directory -/
def stat : Tree → List Name → Stat
  | t, [] => .dir t
  | t, n :: rest =>
    match t.lookup1 n with
    | none => .noent
    | some (.file b) => (match rest with | [] => .file b | _ :: _ => .notdir)
    | some (.dir c) => c.stat rest

/-- the bytes of the file at `path`, if it is one -/
def fileAt (t : Tree) (path : List Name) : Option Bytes :=
  match t.stat path with
  | .file b => some b
  | _ => none

/-- run `f` on the content of the directory at `dirs` (which must exist) and store the result back -/
def atDir : Tree → List Name → (Tree → Except IoErr Tree) → Except IoErr Tree
  | t, [], f => f t
  | t, n :: rest, f =>
    match t.lookup1 n with
    | none => .error .notFound
    | some (.file _) => .error .other
    | some (.dir c) =>
      match c.atDir rest f with
      | .ok c' => .ok (t.put1 n (.dir c'))
      | .error e => .error e

/-- `std::fs::create_dir_all(path)` below this directory -/
def mkdirAll : Tree → List Name → Except IoErr Tree
  | t, [] => .ok t
  | t, n :: rest =>
    match t.lookup1 n with
    | some (.file _) => .error .other
    | some (.dir c) =>
      (match c.mkdirAll rest with
       | .ok c' => .ok (t.put1 n (.dir c'))
       | .error e => .error e)
    | none =>
      (match Tree.nil.mkdirAll rest with
       | .ok c' => .ok (t.put1 n (.dir c'))
       | .error e => .error e)

/-- `OpenOptions::new().write(true).create(true).truncate(..).open(path)` followed by the write: the new
content is `f old` (`old = none`: the file is created) -/
def openWrite (t : Tree) (dirs : List Name) (name : Name) (f : Option Bytes → Bytes) : Except IoErr Tree :=
  t.atDir dirs (fun d =>
    match d.lookup1 name with
    | some (.dir _) => .error .other
    | some (.file b) => .ok (d.put1 name (.file (f (some b))))
    | none => .ok (d.put1 name (.file (f none))))

/-- `unlink` of the entry `name` of one directory: a directory there is EISDIR -/
def unlinkFile (name : Name) (d : Tree) : Except IoErr Tree :=
  match d.lookup1 name with
  | some (.file _) => .ok (d.del1 name)
  | some (.dir _) => .error .other
  | none => .error .notFound

/-- `std::fs::remove_file(path)` -/
def removeFile (t : Tree) (dirs : List Name) (name : Name) : Except IoErr Tree :=
  t.atDir dirs (unlinkFile name)

/-- removal of the sub-directory `name` of one directory with everything beneath; the path handed to
`remove_dir_all` ends in `/`, so a file there is ENOTDIR -/
def unlinkDirAll (name : Name) (d : Tree) : Except IoErr Tree :=
  match d.lookup1 name with
  | some (.dir _) => .ok (d.del1 name)
  | some (.file _) => .error .other
  | none => .error .notFound

/-- `std::fs::remove_dir_all(path/)` of a directory below the base -/
def removeDirAll (t : Tree) (dirs : List Name) (name : Name) : Except IoErr Tree :=
  t.atDir dirs (unlinkDirAll name)

/-- `WalkDir::new(dir).sort_by_file_name()` filtered to files, mapped through `fspath_to_key`;
`pre` is the key prefix of this directory (empty or ending in `/`) -/
def walk (pre : Key) : Tree → List (Key × Bytes)
  | .nil => []
  | .file n b rest => (pre ++ n, b) :: rest.walk pre
  | .dir n c rest => c.walk (pre ++ n ++ ['/']) ++ rest.walk pre

/-- `WalkDir::new(dir).into_iter().any(|v| v.path().is_file())` -/
def hasFile : Tree → Bool
  | .nil => false
  | .file _ _ _ => true
  | .dir _ c rest => c.hasFile || rest.hasFile

/-- the loop of `list_dir` over `read_dir`: files are keys, a directory is a prefix only if a file lies beneath -/
def dirEntries (p : Key) : Tree → List Key × List Key
  | .nil => ([], [])
  | .file n _ rest => let (ks, ps) := rest.dirEntries p; ((p ++ n) :: ks, ps)
  | .dir n c rest =>
    let (ks, ps) := rest.dirEntries p
    if c.hasFile then (ks, (p ++ n ++ ['/']) :: ps) else (ks, ps)

/-- the loop of `list_dir` before the repair F-C08-2: every directory is reported as a prefix -/
def dirEntriesUnrepaired (p : Key) : Tree → List Key × List Key
  | .nil => ([], [])
  | .file n _ rest => let (ks, ps) := rest.dirEntriesUnrepaired p; ((p ++ n) :: ks, ps)
  | .dir n _ rest => let (ks, ps) := rest.dirEntriesUnrepaired p; (ks, (p ++ n ++ ['/']) :: ps)

end Tree

/-! ### keys and paths -/

/-- `str::split('/')`: the path components of a key (never empty; components contain no '/') -/
def splitPath : Key → List Name
  | [] => [[]]
  | c :: rest =>
    if c = '/' then [] :: splitPath rest
    else match splitPath rest with
      | [] => [[c]]
      | x :: xs => (c :: x) :: xs

/-- components joined with '/' (`PathBuf` to key, `fspath_to_key`) -/
def joinPath : List Name → Key
  | [] => []
  | [n] => n
  | n :: m :: rest => n ++ '/' :: joinPath (m :: rest)

/-- a path component the OS treats as an ordinary name -/
def plainName (n : Name) : Bool :=
  !n.isEmpty && !n.contains '/' && n != ['.'] && n != ['.', '.'] && !n.contains (Char.ofNat 0)

/-- `key_to_fspath`: the components below the base directory; `none` when `StoreKey::validate` rejects the key
or a component is not a plain name -/
def keyPath (k : Key) : Option (List Name) :=
  if (splitPath k).all plainName then some (splitPath k) else none

/-- `prefix_to_fs_path`: the components of a prefix (`[]` for the root prefix); `none` outside the model -/
def prefixPath (p : Key) : Option (List Name) :=
  if p.isEmpty then some []
  else if p.getLast? == some '/' then keyPath p.dropLast else none

/-- the store: `none` = the base directory does not exist -/
abbrev FsState := Option Tree

inductive FsOut where
  | res (r : StoreRes)
  | outside
deriving Repr, DecidableEq

namespace FsState

def stat (s : FsState) (path : List Name) : Stat :=
  match s with
  | none => .noent
  | some t => t.stat path

def pathExists (s : FsState) (path : List Name) : Bool :=
  match s.stat path with
  | .file _ | .dir _ => true
  | _ => false

/-- `create_dir_all(base/path)` -/
def createDirAll (s : FsState) (path : List Name) : Except IoErr FsState :=
  match (s.getD .nil).mkdirAll path with
  | .ok t => .ok (some t)
  | .error e => .error e

/-- `FilesystemStore::set_impl(key, value, offset, truncate)`: create the parent directories when the parent
does not exist, open (create, maybe truncate), seek, write.  With direct I/O (offset 0) the padded write followed by
`set_len(value.len())` leaves the same content. -/
def setImpl (s : FsState) (path : List Name) (v : Bytes) (off : Nat) (truncate : Bool) : Except IoErr FsState :=
  let dirs := path.dropLast
  match path.getLast? with
  | none => .error .other
  | some name =>
    match (if s.pathExists dirs then .ok s else s.createDirAll dirs : Except IoErr FsState) with
    | .error e => .error e
    | .ok none => .error .notFound
    | .ok (some t) =>
      match t.openWrite dirs name (fun old => specSetPartial (if truncate then [] else old.getD []) off v) with
      | .ok t' => .ok (some t')
      | .error e => .error e

/-- `erase`: `remove_file`, `NotFound` is ignored -/
def eraseKey (s : FsState) (path : List Name) : Except IoErr FsState :=
  match s, path.getLast? with
  | _, none => .error .other
  | none, some _ => .ok none
  | some t, some name =>
    match t.removeFile path.dropLast name with
    | .ok t' => .ok (some t')
    | .error .notFound => .ok (some t)
    | .error e => .error e

/-- `erase_prefix` (repaired, F-C08-9): `remove_dir_all(prefix_path)`; `NotFound` is ignored, and so is any failure
when `prefix_path.is_dir()` is false (the prefix names a key or lies below one: nothing to erase); the root prefix
removes the base directory -/
def erasePrefix (s : FsState) (path : List Name) : Except IoErr FsState :=
  match s, path.getLast? with
  | none, _ => .ok none
  | some _, none => .ok none
  | some t, some name =>
    match t.removeDirAll path.dropLast name with
    | .ok t' => .ok (some t')
    | .error .notFound => .ok (some t)
    | .error e => (match t.stat path with | .dir _ => .error e | _ => .ok (some t))

/-- `erase_prefix` before the repair: every failure other than `NotFound` is an error -/
def erasePrefixUnrepaired (s : FsState) (path : List Name) : Except IoErr FsState :=
  match s, path.getLast? with
  | none, _ => .ok none
  | some _, none => .ok none
  | some t, some name =>
    match t.removeDirAll path.dropLast name with
    | .ok t' => .ok (some t')
    | .error .notFound => .ok (some t)
    | .error e => .error e

/-- `list_prefix`: `WalkDir` over the prefix directory (an error of the walk root is filtered out: no keys) -/
def listPrefix (s : FsState) (p : Key) (path : List Name) : List (Key × Bytes) :=
  match s.stat path with
  | .dir c => c.walk p
  | _ => []

/-- `insertion sort` by key order: `keys.sort()` / the harness's sort of a listing -/
def sortKeys (ks : List Key) : List Key := ks.foldr insertSorted []

/-- `list_dir` of the `sorted()` store: `read_dir` (an error: nothing), classify, sort -/
def listDir (s : FsState) (p : Key) (path : List Name) : List Key × List Key :=
  match s.stat path with
  | .dir c => let (ks, ps) := c.dirEntries p; (sortKeys ks, sortKeys ps)
  | _ => ([], [])

def listDirUnrepaired (s : FsState) (p : Key) (path : List Name) : List Key × List Key :=
  match s.stat path with
  | .dir c => let (ks, ps) := c.dirEntriesUnrepaired p; (sortKeys ks, sortKeys ps)
  | _ => ([], [])

end FsState

/-- one range of `get_partial_values_key` on an open file, after the validation pass: seek, then `read_to_end` /
`read_exact`.  (Repaired code, F-C08-10: `ByteRange::is_valid(file_size)` is checked for every range before any seek;
a range beyond the end is an error - `FromStart(o > len, None)` and `FromStart(o > len, Some(0))` used to read
nothing.)  The checks below are those of the seek/read themselves; after the validation pass they cannot fail. -/
def readRange (b : Bytes) : ByteRange → Option Bytes
  | .fromStart o none => if o ≤ b.length then some (b.drop o) else none
  | .fromStart o (some l) => if o + l ≤ b.length then some (slice b o (o + l)) else none
  | .suffix l => if l ≤ b.length then some (b.drop (b.length - l)) else none

def readRanges (b : Bytes) : List ByteRange → Option (List Bytes)
  | [] => some []
  | r :: rest =>
    match readRange b r with
    | none => none
    | some x => (match readRanges b rest with | none => none | some xs => some (x :: xs))

/-- ranges that read nothing wherever they are served from: only those can succeed on a directory -/
def isZeroAtStart : ByteRange → Bool
  | .fromStart 0 (some 0) => true
  | _ => false
/-- ranges that read at least one byte or to the end: on a directory they fail (invalid for the directory's size,
or EISDIR from the read) -/
def isReading : ByteRange → Bool
  | .fromStart _ none => true
  | .fromStart _ (some l) => l != 0
  | .suffix l => l != 0

/-- `get_partial_values_key`: `File::open` (NotFound: `None`), `file.metadata()?.len()`, ALL ranges validated
against that length (any invalid one: `InvalidByteRangeError`, nothing is read), then the ranges in order.
A directory opens and has an OS-dependent length: a reading range fails one way or the other (invalid, or the
read gives EISDIR), `FromStart(0, Some(0))` succeeds with nothing; `FromStart(o > 0, Some(0))` (valid or not,
depending on the directory's length) and `Suffix(0)` (seeking from a directory's end) are OS dependent. -/
def getPartial (s : FsState) (path : List Name) (rs : List ByteRange) : FsOut :=
  match s.stat path with
  | .noent => .res (.parts none)
  | .notdir => .res .err
  | .file b =>
    if rs.all (·.valid b.length) then
      (match readRanges b rs with | some xs => .res (.parts (some xs)) | none => .res .err)
    else .res .err
  | .dir _ =>
    if rs.any isReading then .res .err
    else if rs.all isZeroAtStart then .res (.parts (some (rs.map (fun _ => []))))
    else .outside

/-- `ReadableStorageTraits::get`: the range `FromStart(0, None)` -/
def getKey (s : FsState) (path : List Name) : Except Unit (Option Bytes) :=
  match s.stat path with
  | .noent => .ok none
  | .file b => .ok (some b)
  | _ => .error ()

/-- `store_set_partial_values` over this store's `get` and `set`: per group of consecutive equal keys read,
extend, overwrite, write back; the first failure aborts (earlier groups stay written) -/
def setPartialGroups (s : FsState) : List (Key × List (Nat × Bytes)) → FsState × FsOut
  | [] => (s, .res .unit)
  | (k, g) :: rest =>
    match keyPath k with
    | none => (s, .outside)
    | some path =>
      match getKey s path with
      | .error _ => (s, .res .err)
      | .ok old =>
        match s.setImpl path (rmwGroup (old.getD []) g) 0 true with
        | .error _ => (s, .res .err)
        | .ok s' => setPartialGroups s' rest

/-- default `erase_values`: `try_for_each(erase)` -/
def eraseValues (s : FsState) : List Key → FsState × FsOut
  | [] => (s, .res .unit)
  | k :: rest =>
    match keyPath k with
    | none => (s, .outside)
    | some path =>
      match s.eraseKey path with
      | .error _ => (s, .res .err)
      | .ok s' => eraseValues s' rest

/-- every operation of the storage traits as `FilesystemStore` performs it -/
def fsStep (s : FsState) : StoreOp → FsState × FsOut
  | .set k v =>
    match keyPath k with
    | none => (s, .outside)
    | some path =>
      (match s.setImpl path v 0 true with
       | .ok s' => (s', .res .unit)
       | .error _ => (s, .res .err))
  | .setPartial kovs =>
    if kovs.all (fun x => (keyPath x.1).isSome) then setPartialGroups s (groupConsecutive kovs) else (s, .outside)
  | .erase k =>
    match keyPath k with
    | none => (s, .outside)
    | some path =>
      (match s.eraseKey path with
       | .ok s' => (s', .res .unit)
       | .error _ => (s, .res .err))
  | .eraseValues ks =>
    if ks.all (fun k => (keyPath k).isSome) then eraseValues s ks else (s, .outside)
  | .erasePrefix p =>
    match prefixPath p with
    | none => (s, .outside)
    | some path =>
      (match s.erasePrefix path with
       | .ok s' => (s', .res .unit)
       | .error _ => (s, .res .err))
  | .get k =>
    match keyPath k with
    | none => (s, .outside)
    | some path =>
      (match getKey s path with
       | .ok b => (s, .res (.bytes b))
       | .error _ => (s, .res .err))
  | .getPartial k rs =>
    match keyPath k with
    | none => (s, .outside)
    | some path => (s, getPartial s path rs)
  | .sizeKey k =>
    -- `size_key`: `std::fs::metadata`, any error is `None`
    match keyPath k with
    | none => (s, .outside)
    | some path =>
      (match s.stat path with
       | .file b => (s, .res (.size (some b.length)))
       | .dir _ => (s, .outside)
       | _ => (s, .res (.size none)))
  | .sizePrefix p =>
    -- `size_prefix`: `list_prefix`, then `size_key` of every key
    match prefixPath p with
    | none => (s, .outside)
    | some path => (s, .res (.total ((s.listPrefix p path).foldl (fun acc kv => acc + kv.2.length) 0)))
  | .list => (s, .res (.keys ((s.listPrefix [] []).map (·.1))))
  | .listPrefix p =>
    match prefixPath p with
    | none => (s, .outside)
    | some path => (s, .res (.keys ((s.listPrefix p path).map (·.1))))
  | .listDir p =>
    match prefixPath p with
    | none => (s, .outside)
    | some path => (s, let (ks, ps) := s.listDir p path; .res (.dir ks ps))

/-- `fsStep` with the unrepaired `erase_prefix` (before F-C08-9) -/
def fsStepErasePrefixUnrepaired (s : FsState) : StoreOp → FsState × FsOut
  | .erasePrefix p =>
    match prefixPath p with
    | none => (s, .outside)
    | some path =>
      (match s.erasePrefixUnrepaired path with
       | .ok s' => (s', .res .unit)
       | .error _ => (s, .res .err))
  | op => fsStep s op

/-- `fsStep` with the unrepaired `list_dir` (before F-C08-2) -/
def fsStepUnrepaired (s : FsState) : StoreOp → FsState × FsOut
  | .listDir p =>
    match prefixPath p with
    | none => (s, .outside)
    | some path => (s, let (ks, ps) := s.listDirUnrepaired p path; .res (.dir ks ps))
  | op => fsStep s op

/-- the files of the store as the ordered key-value map -/
def KV.ofList (l : List (Key × Bytes)) : KV := l.foldr (fun kv m => m.put kv.1 kv.2) []

def absFs (s : FsState) : KV := KV.ofList ((s.getD .nil).walk [])

/-- run a history from a state -/
def fsRun (s : FsState) (ops : List StoreOp) : FsState := ops.foldl (fun s op => (fsStep s op).1) s

/-! ### invariant, hypotheses and the comparison of outcomes used by `Props/C08Fs.lean` -/

/-- a well-formed directory: plain names in strictly increasing order (so no name twice), recursively -/
def Tree.Inv : Tree → Prop
  | .nil => True
  | .file n _ rest => plainName n = true ∧ (∀ m ∈ rest.names, keyLt n m = true) ∧ rest.Inv
  | .dir n c rest => plainName n = true ∧ (∀ m ∈ rest.names, keyLt n m = true) ∧ c.Inv ∧ rest.Inv

def FsInv : FsState → Prop
  | none => True
  | some t => t.Inv

/-- the path of a key is free for a file: nothing there or a file (not a directory - possibly an emptied one left
behind by `erase` -, and no file on the way) -/
def statFree (s : FsState) (path : List Name) : Bool :=
  match s.stat path with
  | .noent | .file _ => true
  | _ => false

/-- the path of a prefix is free for a directory: nothing there or a directory -/
def dirFree (s : FsState) (path : List Name) : Bool :=
  match s.stat path with
  | .noent | .dir _ => true
  | _ => false

def keyOk (s : FsState) (k : Key) : Bool :=
  match keyPath k with
  | some path => statFree s path
  | none => false

/-- `a` is a directory prefix of `b` -/
def dirPrefixOf (a b : Key) : Bool := (a ++ ['/']).isPrefixOf b

def compatKeys (ks : List Key) : Bool := ks.all (fun a => ks.all (fun b => !dirPrefixOf a b))

/-- the operation fits the hierarchy held by the directory tree: its keys are plain, none of them names a
directory or lies below a file; prefixes are any modelled prefix (since the repair of `erase_prefix`) -/
def opOk (s : FsState) : StoreOp → Bool
  | .set k _ | .erase k | .get k | .getPartial k _ | .sizeKey k => keyOk s k
  | .setPartial kovs => kovs.all (fun x => keyOk s x.1) && compatKeys (kovs.map (·.1))
  | .eraseValues ks => ks.all (keyOk s)
  | .erasePrefix p | .sizePrefix p | .listPrefix p | .listDir p => (prefixPath p).isSome
  | .list => true

/-- the filesystem store's outcome is one the property accepts, given the ordered map's state and outcome:
equal, except that key listings come in walk order (compared sorted) and that a ranged read reaching outside the
value may also give the truncated slices -/
def acceptable (m : KV) (op : StoreOp) (spec : StoreRes) (out : FsOut) : Bool :=
  match out with
  | .outside => false
  | .res r =>
    match op, spec, r with
    | .getPartial k rs, .err, r =>
      r == .err || (match m.get k with
        | some b => r == .parts (some (rs.map (fun x => x.extractTrunc b)))
        | none => false)
    | .list, .keys ks, .keys ks' => FsState.sortKeys ks' == ks
    | .listPrefix _, .keys ks, .keys ks' => FsState.sortKeys ks' == ks
    | _, sp, r => r == sp

/-- run a history through the specification -/
def specRun (m : KV) (ops : List StoreOp) : KV := ops.foldl (fun m op => (Spec.step m op).1) m

/-- the keys and prefixes an operation names -/
def opKeys : StoreOp → List Key
  | .set k _ | .erase k | .get k | .getPartial k _ | .sizeKey k => [k]
  | .setPartial kovs => kovs.map (·.1)
  | .eraseValues ks => ks
  | _ => []
def opPrefixes : StoreOp → List Key
  | .erasePrefix p | .sizePrefix p | .listPrefix p | .listDir p => [p]
  | _ => []

/-- a key universe the directory tree can hold: plain keys, none a directory prefix of another -/
def univOk (U : List Key) : Bool := U.all (fun k => (keyPath k).isSome) && compatKeys U

/-- the operation stays inside the universe: its keys are in `U`; prefixes are any modelled prefix -/
def opIn (U : List Key) : StoreOp → Bool
  | .erasePrefix p | .sizePrefix p | .listPrefix p | .listDir p => (prefixPath p).isSome
  | op => (opKeys op).all (fun k => U.contains k)

end Zarrs.Fs
