import ZarrsModel.Model.Json
import ZarrsModel.Model.Meta
import ZarrsModel.Model.FillMeta
/-
Layer E: Zarr V2 metadata documents as `serde` reads and writes them (`MetadataV2`, `DataTypeMetadataV2`,
`FillValueMetadataV2`, `ArrayMetadataV2Order`, `ChunkKeySeparator`, `ArrayMetadataV2`, `GroupMetadataV2` in
`zarrs_metadata/src/v2/*.rs`) and the pure data part of the V2 -> V3 conversion
(`zarrs_metadata/src/v2_to_v3.rs` with the default alias tables of `zarrs_metadata/src/extension/*.rs`),
on the ordered JSON model of `Model/Json.lean`, in the style of `Model/Meta.lean`.

Conventions inherited from the V3 model: number tokens are opaque (the checks only use numbers whose
`serde_json` text is the token itself); an object is what `Json.parse` returns, so a repeated key of a typed
field is not modelled (`serde` rejects it, the JSON model merges it).  `serde_json` is built with
`preserve_order`: maps keep insertion order.
-/
namespace Zarrs.MetaV2
open Zarrs.Json Zarrs.Meta

def kId : Str := ascii "id"
def kNodeType : Str := ascii "node_type"

/-! ### `MetadataV2` (v2/metadata.rs) -/

structure MetaV2 where
  id : Str
  config : Obj
deriving Inhabited

/-- `#[derive(Deserialize)] struct MetadataV2 { id: String, #[serde(flatten)] configuration: Map }`
    (v2/metadata.rs): a JSON object (a struct with a flattened field is only read from a map) with a string
    `id`; every other key, in order, is the configuration -/
def MetaV2.ofJ : J → Option MetaV2
  | .obj o =>
    match lookup o kId with
    | some (.str s) => some ⟨s, without o kId⟩
    | _ => none
  | _ => none

/-- `#[derive(Serialize)]` of `MetadataV2`: `id` first, then the configuration entries -/
def MetaV2.toJ (m : MetaV2) : J := .obj ((kId, .str m.id) :: m.config)

/-! ### `DataTypeMetadataV2` (v2/array.rs) -/

/-- `DataTypeMetadataV2Structured` -/
structure DField where
  name : Str
  dt : Str
  shape : Option (List (List Char))     -- u64 tokens
deriving Inhabited

inductive DType where
  | simple (s : Str)
  | structured (fs : List DField)
deriving Inhabited

def u64Tok (x : J) : Option (List Char) :=
  match x with | J.num t => if isU64Tok t then some t else none | _ => none

/-- `#[derive(Deserialize)] struct DataTypeMetadataV2StructuredTuple(String, String, Option<Vec<u64>>)` read through
    the untagged enum's buffered content: a sequence of exactly three elements (the derived `visit_seq` of a tuple
    struct asks for every element, also an `Option` one, so the usual two-element form `["a","<i4"]` is rejected);
    the third is `null` or a list of `u64` -/
def DField.ofJ : J → Option DField
  | .arr [.str a, .str b, .null] => some ⟨a, b, none⟩
  | .arr [.str a, .str b, .arr sh] => (sh.mapM u64Tok).map (fun s => ⟨a, b, some s⟩)
  | _ => none

/-- `#[derive(Serialize)]` of the tuple struct with `skip_serializing_if = "Option::is_none"` on the third element -/
def DField.toJ (f : DField) : J :=
  .arr ([.str f.name, .str f.dt] ++ (match f.shape with | some s => [.arr (s.map .num)] | none => []))

/-- `#[serde(untagged)] enum DataTypeMetadataV2 { Simple(String), Structured(Vec<..>) }` -/
def DType.ofJ : J → Option DType
  | .str s => some (.simple s)
  | .arr xs => (xs.mapM DField.ofJ).map .structured
  | _ => none

def DType.toJ : DType → J
  | .simple s => .str s
  | .structured fs => .arr (fs.map DField.toJ)

/-! ### `FillValueMetadataV2` (v2/array.rs) -/

inductive FillV2 where
  | null | nan | inf | ninf
  | num (t : List Char)
  | str (s : Str)
deriving Inhabited

/-- `impl Deserialize for FillValueMetadataV2`: an untagged `String | Number | Null`; the three non-finite names
    are recognised; booleans, arrays and objects are rejected -/
def FillV2.ofJ : J → Option FillV2
  | .null => some .null
  | .num t => some (.num t)
  | .str s =>
    if s == ascii "NaN" then some .nan
    else if s == ascii "Infinity" then some .inf
    else if s == ascii "-Infinity" then some .ninf
    else some (.str s)
  | _ => none

/-- `impl Serialize for FillValueMetadataV2` -/
def FillV2.toJ : FillV2 → J
  | .null => .null
  | .nan => .str (ascii "NaN")
  | .inf => .str (ascii "Infinity")
  | .ninf => .str (ascii "-Infinity")
  | .num t => .num t
  | .str s => .str s

/-! ### `ArrayMetadataV2Order`, `ChunkKeySeparator` -/

inductive Order where
  | C | F
deriving Inhabited, DecidableEq

/-- `#[derive(Deserialize)] enum ArrayMetadataV2Order { C, F }` read by `serde_json`'s `deserialize_enum`: the
    variant name as a string, or a single-key object `{"C": null}` -/
def Order.ofJ : J → Option Order
  | .str s => if s == ascii "C" then some .C else if s == ascii "F" then some .F else none
  | .obj [(s, .null)] => if s == ascii "C" then some .C else if s == ascii "F" then some .F else none
  | _ => none

def Order.toJ : Order → J
  | .C => .str (ascii "C")
  | .F => .str (ascii "F")

inductive Sep where
  | dot | slash
deriving Inhabited, DecidableEq

/-- `impl Deserialize for ChunkKeySeparator` (array/chunk_key_separator.rs): the string `"/"` or `"."` -/
def Sep.ofJ : J → Option Sep
  | .str s => if s == ascii "/" then some .slash else if s == ascii "." then some .dot else none
  | _ => none

def Sep.toJ : Sep → J
  | .dot => .str (ascii ".")
  | .slash => .str (ascii "/")

/-! ### `ArrayMetadataV2` (v2/array.rs) -/

structure ArrayDocV2 where
  shape : List (List Char)              -- u64 tokens
  chunks : List (List Char)             -- non-zero u64 tokens
  dtype : DType
  compressor : Option MetaV2
  fill : FillV2
  order : Order
  filters : Option (List MetaV2)
  sep : Sep
  attrs : Obj
  extra : List (Str × AField)           -- sorted by key (a `BTreeMap`)
deriving Inhabited

/-- the named fields of the struct; `node_type` is not one of them (the tag is only written) -/
def arrayKeysV2 : List Str :=
  ["zarr_format", "shape", "chunks", "dtype", "compressor", "fill_value", "order", "filters", "dimension_separator",
   "attributes"].map ascii

def isNzU64Tok (t : List Char) : Bool := match asU64 t with | some n => n != 0 | none => false
def nzTok (x : J) : Option (List Char) :=
  match x with | J.num t => if isNzU64Tok t then some t else none | _ => none

def metaV2List (xs : List J) : Option (List MetaV2) := xs.mapM MetaV2.ofJ

/-- `deserialize_v2_additional_fields` (v2/array.rs, as repaired): the `"node_type": "array"` tag written by
    `Serialize` is not an additional field when it is read back; any other `node_type` stays one -/
def isArrayTag (kv : Str × AField) : Bool :=
  kv.1 == kNodeType && (match kv.2.field with | .str s => s == ascii "array" | _ => false)
def dropArrayTag (e : List (Str × AField)) : List (Str × AField) := e.filter (fun kv => !isArrayTag kv)

/-- the unknown keys collected by `#[serde(flatten)]` into the `BTreeMap` (a later key replaces an earlier one) -/
def extrasV2 (known : List Str) (o : Obj) : List (Str × AField) :=
  (o.filter (fun kv => !known.contains kv.1)).foldl (fun acc kv => insertExtra kv.1 (AField.ofJ kv.2) acc) []

/-- `compressor: Option<MetadataV2>` (no `default`, but a missing `Option` field is `None`): absent, `null` or an object -/
def compOfJ : Option J → Option (Option MetaV2)
  | none => some none
  | some .null => some none
  | some j => (MetaV2.ofJ j).map some

/-- `#[serde(default)] filters: Option<Vec<MetadataV2>>`: absent, `null` or a list -/
def filtersOfJ : Option J → Option (Option (List MetaV2))
  | none => some none
  | some .null => some none
  | some (.arr xs) => (metaV2List xs).map some
  | some _ => none

/-- `#[serde(default = "chunk_key_separator_default_zarr_v2")] dimension_separator`: `.` when absent (`null` is an error) -/
def sepOfJ : Option J → Option Sep
  | none => some .dot
  | some j => Sep.ofJ j

/-- `#[serde(default)] attributes: serde_json::Map`: empty when absent (`null` is an error) -/
def attrsOfJ : Option J → Option Obj
  | none => some []
  | some (.obj a) => some a
  | some _ => none

def numList (f : J → Option (List Char)) : Option J → Option (List (List Char))
  | some (.arr xs) => xs.mapM f
  | _ => none

/-- `#[derive(Deserialize)]` of `ArrayMetadataV2` (`#[serde(tag = "node_type", rename = "array")]` has no effect on
    reading a struct):
    * `zarr_format` must be the integer `2`; `shape` a list of `u64`; `chunks` a list of non-zero `u64`;
      `dtype`, `fill_value`, `order` are required;
    * `compressor` may be absent or `null`; `filters` may be absent, `null` or a list; `dimension_separator`
      defaults to `"."`; `attributes` defaults to empty;
    * every other key is an additional field. -/
def ArrayDocV2.ofJ : J → Option ArrayDocV2
  | .obj o =>
    match lookup o (ascii "zarr_format") with
    | some (.num ['2']) =>
      match numList u64Tok (lookup o (ascii "shape")), numList nzTok (lookup o (ascii "chunks")),
            (lookup o (ascii "dtype")).bind DType.ofJ, compOfJ (lookup o (ascii "compressor")),
            (lookup o (ascii "fill_value")).bind FillV2.ofJ, (lookup o (ascii "order")).bind Order.ofJ,
            filtersOfJ (lookup o (ascii "filters")), sepOfJ (lookup o (ascii "dimension_separator")),
            attrsOfJ (lookup o (ascii "attributes")) with
      | some shape, some chunks, some dt, some comp, some fill, some ord, some filters, some sep, some attrs =>
        some ⟨shape, chunks, dt, comp, fill, ord, filters, sep, attrs, dropArrayTag (extrasV2 arrayKeysV2 o)⟩
      | _, _, _, _, _, _, _, _, _ => none
    | _ => none
  | _ => none

/-- `serialize_v2_filters`: no filters and an empty list are both written as `null` -/
def filtersToJ : Option (List MetaV2) → J
  | some (f :: fs) => .arr ((f :: fs).map MetaV2.toJ)
  | _ => .null

def compressorToJ : Option MetaV2 → J
  | some m => m.toJ
  | none => .null

/-- `#[derive(Serialize)]` with `#[serde(tag = "node_type", rename = "array")]`: the tag first, the fields in
    declaration order (`attributes` skipped when empty), then the additional fields in key order.  An additional
    field called `node_type` is written as well (a repeated key in the text). -/
def ArrayDocV2.toJ (d : ArrayDocV2) : J :=
  .obj ([(kNodeType, .str (ascii "array")), (ascii "zarr_format", .num ['2']),
         (ascii "shape", .arr (d.shape.map .num)), (ascii "chunks", .arr (d.chunks.map .num)),
         (ascii "dtype", d.dtype.toJ), (ascii "compressor", compressorToJ d.compressor),
         (ascii "fill_value", d.fill.toJ), (ascii "order", d.order.toJ),
         (ascii "filters", filtersToJ d.filters), (ascii "dimension_separator", d.sep.toJ)] ++
        (if d.attrs.isEmpty then [] else [(ascii "attributes", .obj d.attrs)]) ++
        d.extra.map (fun kv => (kv.1, kv.2.toJ)))

/-! ### `GroupMetadataV2` (v2/group.rs) -/

structure GroupDocV2 where
  attrs : Obj
  extra : List (Str × AField)
deriving Inhabited

def groupKeysV2 : List Str := ["zarr_format", "attributes"].map ascii

/-- `#[derive(Deserialize)]` of `GroupMetadataV2`: `zarr_format` must be `2`, `attributes` defaults to empty, every
    other key (`node_type` included) is an additional field -/
def GroupDocV2.ofJ : J → Option GroupDocV2
  | .obj o =>
    match lookup o (ascii "zarr_format") with
    | some (.num ['2']) =>
      match attrsOfJ (lookup o (ascii "attributes")) with
      | some attrs => some ⟨attrs, extrasV2 groupKeysV2 o⟩
      | none => none
    | _ => none
  | _ => none

def GroupDocV2.toJ (d : GroupDocV2) : J :=
  .obj ([(ascii "zarr_format", .num ['2'])] ++
        (if d.attrs.isEmpty then [] else [(ascii "attributes", .obj d.attrs)]) ++
        d.extra.map (fun kv => (kv.1, kv.2.toJ)))

/-- text level: what is stored and what opening reads -/
def ArrayDocV2.toText (d : ArrayDocV2) : List Nat := print d.toJ
def ArrayDocV2.ofText (t : List Nat) : Option ArrayDocV2 := (parse t).bind ArrayDocV2.ofJ
def GroupDocV2.toText (d : GroupDocV2) : List Nat := print d.toJ
def GroupDocV2.ofText (t : List Nat) : Option GroupDocV2 := (parse t).bind GroupDocV2.ofJ

/-- `Array::open_metadata` (zarrs/src/array/array_sync_readable.rs): when `.zattrs` exists its object REPLACES the
    attributes read from `.zarray` -/
def ArrayDocV2.withZattrs (d : ArrayDocV2) (zattrs : Option Obj) : ArrayDocV2 :=
  match zattrs with | some a => { d with attrs := a } | none => d

/-- `Array::store_metadata_opt` for V2 (array_sync_writable.rs): non-empty attributes go to `.zattrs`, and `.zarray` is
    written without them; empty attributes write no `.zattrs` -/
def ArrayDocV2.stored (d : ArrayDocV2) : J × Option J :=
  ({ d with attrs := [] }.toJ, if d.attrs.isEmpty then none else some (.obj d.attrs))

/-- the texts stored under `.zarray` and `.zattrs` -/
def ArrayDocV2.storeTexts (d : ArrayDocV2) : List Nat × Option (List Nat) :=
  (print d.stored.1, d.stored.2.map print)

/-- `Array::open_metadata` on the two texts: `.zarray` is read as `ArrayMetadataV2`; a present `.zattrs` must be a
    JSON object (`serde_json::Map`) and replaces the attributes -/
def ArrayDocV2.openTexts (zarray : List Nat) (zattrs : Option (List Nat)) : Option ArrayDocV2 :=
  match ArrayDocV2.ofText zarray with
  | none => none
  | some d =>
    match zattrs with
    | none => some d
    | some t =>
      match parse t with
      | some (.obj a) => some (d.withZattrs (some a))
      | _ => none

/-! ### V2 -> V3 (v2_to_v3.rs) -/

/-- `ArrayMetadataV2ToV3ConversionError` (class only); `undefined` marks the one input on which the code's behaviour
    is not defined (see `v2ToV3`) -/
inductive Err where
  | unsupportedDataType | invalidEndianness | unsupportedCodec | unsupportedFillValue | serde | other | undefined
deriving Inhabited, DecidableEq, Repr

inductive Endian where
  | little | big
deriving Inhabited, DecidableEq

def tbl (xs : List (String × String)) : List (Str × Str) := xs.map (fun p => (ascii p.1, ascii p.2))
def tblGet (t : List (Str × Str)) (k : Str) : Option Str := (t.find? (·.1 == k)).map (·.2)

/-- `ExtensionAliasesDataTypeV2::default()` string aliases (extension_aliases_data_type.rs) -/
def dtypeAliasesV2 : List (Str × Str) := tbl
  [("|b1", "bool"), ("|i1", "int8"), ("<i2", "int16"), (">i2", "int16"), ("<i4", "int32"), (">i4", "int32"),
   ("<i8", "int64"), (">i8", "int64"), ("|u1", "uint8"), ("<u2", "uint16"), (">u2", "uint16"), ("<u4", "uint32"),
   (">u4", "uint32"), ("<u8", "uint64"), (">u8", "uint64"), ("<f2", "float16"), (">f2", "float16"),
   ("<f4", "float32"), (">f4", "float32"), ("<f8", "float64"), (">f8", "float64"), ("<c8", "complex64"),
   (">c8", "complex64"), ("<c16", "complex128"), (">c16", "complex128"), ("|O", "string"), ("|VX", "bytes")]

/-- the regex alias `^\|V\d+$` (ASCII digits only: `\d` also matches other Unicode decimal digits, which the
    model leaves out) -/
def isVoidName (s : Str) : Bool :=
  match s with
  | 124 :: 86 :: ds => !ds.isEmpty && ds.all isDigit
  | _ => false

/-- `data_type_metadata_v2_to_v3` for `Simple(name)`: `ExtensionAliases::identifier` with the V2 data type aliases
    (string match, then regex match, else the name itself), then `default_name` with the V3 table, which is empty.
    Never fails: an unknown name is passed through. -/
def dtypeNameV3 (s : Str) : Str :=
  match tblGet dtypeAliasesV2 s with
  | some x => x
  | none => if isVoidName s then ascii "bytes" else s

/-- `data_type_metadata_v2_to_endianness` for `Simple(name)`: `|` none, `<` little, `>` big, anything else an error -/
def endianOf (s : Str) : Option (Option Endian) :=
  match s with
  | 124 :: _ => some none
  | 60 :: _ => some (some .little)
  | 62 :: _ => some (some .big)
  | _ => none

/-- `fill_value_metadata_v2_to_v3`: `None` for `Null`; `f32::NAN`/`INFINITY`/`NEG_INFINITY` become the strings
    `"NaN"`, `"Infinity"`, `"-Infinity"` (`From<f32> for FillValueMetadataV3`; `f32::NAN` has the bits of `ZARR_NAN_F32`) -/
def fillV2ToV3 : FillV2 → Option J
  | .null => none
  | .nan => some (.str (ascii "NaN"))
  | .inf => some (.str (ascii "Infinity"))
  | .ninf => some (.str (ascii "-Infinity"))
  | .num t => some (.num t)
  | .str s => some (.str s)

/-- `FillValueMetadataV3::as_u64` -/
def fillAsU64 : J → Option Nat
  | .num t => asU64 t
  | _ => none

/-- the fill value part of `array_metadata_v2_to_v3`: `null` is only supported for `string` (the empty string);
    for `bool` the integers 0/1 become `false`/`true` and any other unsigned integer is an error; for `string` the
    integer 0 becomes the empty string -/
def fillConv (dtName : Str) (f : FillV2) : Option J :=
  match (match fillV2ToV3 f with
    | some v => some v
    | none => if dtName == ascii "string" then some (.str []) else none) with
  | none => none
  | some v =>
    if dtName == ascii "bool" then
      match fillAsU64 v with
      | some 0 => some (.bool false)
      | some 1 => some (.bool true)
      | some _ => none
      | none => some v
    else if dtName == ascii "string" then
      (if fillAsU64 v == some 0 then some (.str []) else some v)
    else some v

/-- `ExtensionAliasesCodecV2::default()` string aliases (extension_aliases_codec.rs); no regex aliases -/
def codecAliasesV2 : List (Str × Str) := tbl
  [("zarrs.squeeze", "squeeze"), ("zarrs.vlen", "vlen"), ("zarrs.vlen_v2", "vlen_v2"), ("zarrs.zfp", "zfp"),
   ("zarrs.gdeflate", "gdeflate"),
   ("https://codec.zarrs.dev/array_to_bytes/bitround", "bitround"),
   ("https://codec.zarrs.dev/array_to_bytes/pcodec", "pcodec"),
   ("https://codec.zarrs.dev/array_to_bytes/vlen", "vlen"),
   ("https://codec.zarrs.dev/array_to_bytes/vlen_v2", "vlen_v2"),
   ("https://codec.zarrs.dev/array_to_bytes/zfp", "zfp"),
   ("https://codec.zarrs.dev/bytes_to_bytes/bz2", "bz2"),
   ("https://codec.zarrs.dev/bytes_to_bytes/fletcher32", "fletcher32"),
   ("https://codec.zarrs.dev/bytes_to_bytes/gdeflate", "gdeflate")]

/-- `ExtensionAliasesCodecV3::default()` default names -/
def codecNamesV3 : List (Str × Str) := tbl
  [("bitround", "numcodecs.bitround"), ("fixedscaleoffset", "numcodecs.fixedscaleoffset"), ("squeeze", "zarrs.squeeze"),
   ("pcodec", "numcodecs.pcodec"), ("zfpy", "numcodecs.zfpy"), ("vlen", "zarrs.vlen"), ("vlen_v2", "zarrs.vlen_v2"),
   ("zfp", "zarrs.zfp"), ("bz2", "numcodecs.bz2"), ("gdeflate", "zarrs.gdeflate"), ("fletcher32", "numcodecs.fletcher32"),
   ("shuffle", "numcodecs.shuffle"), ("zlib", "numcodecs.zlib")]

/-- `codec_aliases_v2.identifier(id)` -/
def codecIdent (id : Str) : Str := (tblGet codecAliasesV2 id).getD id
/-- `codec_aliases_v3.default_name(identifier)` -/
def codecName (ident : Str) : Str := (tblGet codecNamesV3 ident).getD ident

def natNum (n : Nat) : J := .num (FillMeta.natTok n)

/-- `TransposeCodecConfigurationV1 { order: (0..dimensionality).rev() }` as metadata -/
def transposeMeta (rank : Nat) : MetaV3 :=
  ⟨ascii "transpose", some [(ascii "order", .arr ((List.range rank).reverse.map natNum))], true⟩

/-- `BytesCodecConfigurationV1 { endian: Some(..) }` as metadata -/
def bytesMeta (e : Endian) : MetaV3 :=
  ⟨ascii "bytes", some [(ascii "endian", .str (match e with | .little => ascii "little" | .big => ascii "big"))], true⟩

def isVlenIdent (ident : Str) : Bool :=
  ident == ascii "vlen-array" || ident == ascii "vlen-bytes" || ident == ascii "vlen-utf8"

/-- one filter of `codec_metadata_v2_to_v3`: the `vlen-*` codecs are array-to-bytes codecs written with an empty
    configuration; every other filter keeps its configuration.  The flag says "is array to bytes". -/
def filterToV3 (f : MetaV2) : MetaV3 × Bool :=
  let ident := codecIdent f.id
  if isVlenIdent ident then (⟨codecName ident, some [], true⟩, true)
  else (⟨codecName ident, some f.config, true⟩, false)

def isA2BCompressor (ident : Str) : Bool := ident == ascii "zfpy" || ident == ascii "pcodec"

/-- a unit-variant enum read from a `serde_json::Value`: its name, or a single-key object `{"name": null}` -/
def enumName : J → Option Str
  | .str s => some s
  | .obj [(s, .null)] => some s
  | _ => none

def bloscCnames : List Str := ["blosclz", "lz4", "lz4hc", "snappy", "zlib", "zstd"].map ascii

/-- `usize` / `Option<usize>` fields -/
def optUsize (o : Obj) (k : Str) (nullOk : Bool) : Option (Option Nat) :=
  match lookup o k with
  | none => some none
  | some .null => if nullOk then some none else none
  | some (.num t) => (asU64 t).map some
  | some _ => none

structure BloscNum where
  cname : Str
  clevel : Nat
  shuffle : Int
  blocksize : Nat

/-- `serde_json::from_value::<BloscCodecConfigurationNumcodecs>` (`from = BloscCodecConfigurationNumcodecs16_0`,
    `deny_unknown_fields`): `cname` one of six names, `clevel` an integer 0..9, `shuffle` an `i8` in {-1,0,1,2},
    `blocksize` a `usize` (default 0), `typesize` an optional `usize` that is ignored -/
def bloscOfObj (c : Obj) : Option BloscNum :=
  if !(c.all (fun kv => (["cname", "clevel", "shuffle", "blocksize", "typesize"].map ascii).contains kv.1)) then none else
  match lookup c (ascii "cname"), lookup c (ascii "clevel"), lookup c (ascii "shuffle") with
  | some cn, some (.num cl), some (.num sh) =>
    match enumName cn, asU64 cl, asI64 sh, optUsize c (ascii "blocksize") false, optUsize c (ascii "typesize") true with
    | some cn, some cl, some sh, some bs, some _ =>
      if bloscCnames.contains cn && cl ≤ 9 && (sh == -1 || sh == 0 || sh == 1 || sh == 2) then
        some ⟨cn, cl, sh, bs.getD 0⟩
      else none
    | _, _, _, _, _ => none
  | _, _, _ => none

/-- `str::parse::<usize>` / `i64`: an optional sign (`+`, and `-` when signed) and at least one ASCII digit -/
def parseDigits (s : Str) : Option Nat :=
  if !s.isEmpty && s.all isDigit then some (s.foldl (fun acc b => acc * 10 + (b - 48)) 0) else none

def parseInt (s : Str) : Option Int :=
  match s with
  | 43 :: r => (parseDigits r).map (fun n => (n : Int))
  | 45 :: r => (parseDigits r).map (fun n => -(n : Int))
  | r => (parseDigits r).map (fun n => (n : Int))

/-- the data type size table inside `codec_metadata_v2_to_v3` (blosc branch): `none` unknown, `some none` variable,
    `some (some n)` fixed; `.error` for a raw-bits name whose size is not a multiple of 8 -/
def dtypeSize (name : Str) : Except Err (Option (Option Nat)) :=
  if name == ascii "bool" || name == ascii "int8" || name == ascii "uint8" then .ok (some (some 1))
  else if name == ascii "int16" || name == ascii "uint16" || name == ascii "float16" || name == ascii "bfloat16" then .ok (some (some 2))
  else if name == ascii "int32" || name == ascii "uint32" || name == ascii "float32" then .ok (some (some 4))
  else if name == ascii "int64" || name == ascii "uint64" || name == ascii "float64" || name == ascii "complex64" then .ok (some (some 8))
  else if name == ascii "complex128" then .ok (some (some 16))
  else if name == ascii "string" || name == ascii "bytes" then .ok (some none)
  else match name with
    | 114 :: rest =>
      if rest.isEmpty then .ok none else
      match (match rest with | 43 :: r => parseDigits r | r => parseDigits r) with
      | some bits => if bits ≥ 2 ^ 64 then .ok none else if bits % 8 == 0 then .ok (some (some (bits / 8))) else .error .unsupportedDataType
      | none => .ok none
    | _ => .ok none

/-- `codec_blosc_v2_numcodecs_to_v3` (codec/core/blosc.rs): the V3 shuffle name and type size -/
def bloscShuffle (shuffle : Int) (size : Option (Option Nat)) : Str × Option Nat :=
  if shuffle == 0 then (ascii "noshuffle", none) else
  match size with
  | none => (ascii "noshuffle", none)
  | some none => (ascii "noshuffle", none)
  | some (some n) =>
    if shuffle == 1 then (ascii "shuffle", some n)
    else if shuffle == 2 then (ascii "bitshuffle", some n)
    else if n == 1 then (ascii "bitshuffle", some n) else (ascii "shuffle", some n)

/-- `BloscCodecConfigurationV1` serialised (`typesize` skipped when `None`) -/
def bloscV1Obj (b : BloscNum) (sh : Str × Option Nat) : Obj :=
  [(ascii "cname", .str b.cname), (ascii "clevel", natNum b.clevel), (ascii "shuffle", .str sh.1)] ++
  (match sh.2 with | some n => [(ascii "typesize", natNum n)] | none => []) ++
  [(ascii "blocksize", natNum b.blocksize)]

/-- `impl Deserialize for ZstdCompressionLevel`: an integer, or a string holding one, in -131072..=22 -/
def zstdLevel : J → Option Int
  | .num t => (asI64 t).bind (fun i => if -131072 ≤ i && i ≤ 22 then some i else none)
  | .str s => (parseInt s).bind (fun i => if -131072 ≤ i && i ≤ 22 then some i else none)
  | _ => none

/-- `serde_json::from_value::<ZstdCodecConfiguration>` (untagged: `V1 {level, checksum}` then `Numcodecs {level}`,
    both `deny_unknown_fields`) followed by `codec_zstd_v2_numcodecs_to_v3` -/
def zstdOfObj (c : Obj) : Option (Int × Bool) :=
  let v1 : Option (Int × Bool) :=
    if !(c.all (fun kv => kv.1 == ascii "level" || kv.1 == ascii "checksum")) then none else
    match lookup c (ascii "level"), lookup c (ascii "checksum") with
    | some l, some (.bool b) => (zstdLevel l).map (fun i => (i, b))
    | _, _ => none
  match v1 with
  | some r => some r
  | none =>
    if !(c.all (fun kv => kv.1 == ascii "level")) then none else
    match lookup c (ascii "level") with
    | some l => (zstdLevel l).map (fun i => (i, false))
    | none => none

/-- the bytes-to-bytes part of the compressor in `codec_metadata_v2_to_v3`: nothing for `zfpy`/`pcodec` (already
    placed as the array-to-bytes codec), a converted configuration for `blosc` and `zstd` (a configuration that does
    not parse is a `SerdeError`), the configuration as it is for everything else (known or not) -/
def compressorB2B (dtName : Str) (c : MetaV2) : Except Err (Option MetaV3) :=
  let ident := codecIdent c.id
  let name := codecName ident
  if isA2BCompressor ident then .ok none
  else if ident == ascii "blosc" then
    match bloscOfObj c.config with
    | none => .error .serde
    | some b =>
      if b.shuffle == 0 then .ok (some ⟨name, some (bloscV1Obj b (bloscShuffle b.shuffle none)), true⟩) else
      match dtypeSize dtName with
      | .error e => .error e
      | .ok size => .ok (some ⟨name, some (bloscV1Obj b (bloscShuffle b.shuffle size)), true⟩)
  else if ident == ascii "zstd" then
    match zstdOfObj c.config with
    | none => .error .serde
    | some (lvl, chk) => .ok (some ⟨name, some [(ascii "level", .num (FillMeta.intTok lvl)), (ascii "checksum", .bool chk)], true⟩)
  else .ok (some ⟨name, some c.config, true⟩)

/-- the array-to-bytes part of the compressor: `zfpy` and `pcodec` -/
def compressorA2B (c : MetaV2) : Option MetaV3 :=
  let ident := codecIdent c.id
  if isA2BCompressor ident then some ⟨codecName ident, some c.config, true⟩ else none

/-- the codecs before the bytes-to-bytes compressor: transpose for F order, the filters in order, the array-to-bytes
    compressor, and the `bytes` codec (endianness of the data type, native = little when it has none) unless a filter
    or the compressor already is an array-to-bytes codec -/
def codecsHead (order : Order) (rank : Nat) (endian : Option Endian) (filters : Option (List MetaV2))
    (compressor : Option MetaV2) : List MetaV3 :=
  let fs := (filters.getD []).map filterToV3
  let a2b := compressor.bind compressorA2B
  (if order == .F then [transposeMeta rank] else []) ++ fs.map (·.1) ++ a2b.toList ++
  (if fs.any (·.2) || a2b.isSome then [] else [bytesMeta (endian.getD .little)])

/-- `codec_metadata_v2_to_v3` -/
def codecsV2ToV3 (order : Order) (rank : Nat) (dtName : Str) (endian : Option Endian)
    (filters : Option (List MetaV2)) (compressor : Option MetaV2) : Except Err (List MetaV3) :=
  match compressor with
  | none => .ok (codecsHead order rank endian filters compressor)
  | some c =>
    match compressorB2B dtName c with
    | .error e => .error e
    | .ok b => .ok (codecsHead order rank endian filters compressor ++ b.toList)

/-- `RegularChunkGridConfiguration { chunk_shape }` as metadata -/
def regularMeta (chunks : List (List Char)) : MetaV3 :=
  ⟨ascii "regular", some [(ascii "chunk_shape", .arr (chunks.map .num))], true⟩

/-- `V2ChunkKeyEncodingConfiguration { separator }` as metadata -/
def v2KeyMeta (s : Sep) : MetaV3 := ⟨ascii "v2", some [(ascii "separator", s.toJ)], true⟩

/-- `array_metadata_v2_to_v3` with the default alias tables.  Order of the checks as in the code: data type and
    endianness (a structured data type fails the endianness test first), fill value, codecs.
    For F order and rank 0 the code calls `unwrap_unchecked` on the `Err` of `TransposeOrder::new(&[])`: undefined
    behaviour (observed: a transpose codec with the empty order, which `Array::open` then rejects); the model
    returns `Err.undefined`. -/
def v2ToV3 (d : ArrayDocV2) : Except Err ArrayDoc :=
  match d.dtype with
  | .structured _ => .error .invalidEndianness
  | .simple s =>
    match endianOf s with
    | none => .error .invalidEndianness
    | some endian =>
      let dtName := dtypeNameV3 s
      match fillConv dtName d.fill with
      | none => .error .unsupportedFillValue
      | some fill =>
        if d.order == .F && d.shape.isEmpty then .error .undefined else
        match codecsV2ToV3 d.order d.shape.length dtName endian d.filters d.compressor with
        | .error e => .error e
        | .ok cs =>
          .ok { shape := d.shape, dataType := ⟨dtName, none, true⟩, chunkGrid := regularMeta d.chunks,
                cke := v2KeyMeta d.sep, fill := fill, codecs := cs, attrs := d.attrs, st := [], dimNames := none,
                extra := d.extra }

/-- `group_metadata_v2_to_v3`: attributes and additional fields carried over -/
def groupV2ToV3 (d : GroupDocV2) : GroupDoc := ⟨d.attrs, d.extra⟩

/-- the structural part of opening a V2 array (`Array::open_opt`: `validate_metadata`, then `new_with_metadata`):
    no additional field that must be understood, the conversion succeeds, and the chunk grid has the rank of the
    shape (`InvalidChunkGridDimensionality` otherwise) -/
def openOkV2 (d : ArrayDocV2) : Bool :=
  d.extra.all (fun kv => !kv.2.mu) &&
  (match v2ToV3 d with
   | .ok v3 => structOk v3 d.chunks.length
   | .error _ => false)

end Zarrs.MetaV2
