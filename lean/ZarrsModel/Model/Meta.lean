import ZarrsModel.Model.Json
/-
Layer E: Zarr V3 metadata documents as `serde` reads and writes them (`MetadataV3`, `AdditionalField`,
`ArrayMetadataV3`, `GroupMetadataV3`), on the ordered JSON model.  Number tokens are opaque (the harness only
generates numbers whose `serde_json` text is the token itself).  An object is what `Json.parse` returns: keys
are distinct (a repeated key of a typed field is not modelled: `serde` rejects it, the JSON model merges it).
-/
namespace Zarrs.Meta
open Zarrs.Json

abbrev Obj := List (Str × J)

def lookup (o : Obj) (k : Str) : Option J := (o.find? (·.1 == k)).map (·.2)
def without (o : Obj) (k : Str) : Obj := o.filter (·.1 != k)

def kName : Str := ascii "name"
def kConfiguration : Str := ascii "configuration"
def kMustUnderstand : Str := ascii "must_understand"

/-! ### `MetadataV3` -/

structure MetaV3 where
  name : Str
  config : Option Obj
  mu : Bool
deriving Inhabited

/-- `impl Deserialize for MetadataV3`: a string, or an object with `name` and optional `configuration`
    (an object or `null`) and `must_understand` (a boolean); any other key is an error -/
def MetaV3.ofJ : J → Option MetaV3
  | .str s => some ⟨s, none, true⟩
  | .obj o =>
    if !(o.all (fun kv => kv.1 == kName || kv.1 == kConfiguration || kv.1 == kMustUnderstand)) then none else
    match lookup o kName with
    | some (.str n) =>
      let cfg : Option (Option Obj) := match lookup o kConfiguration with
        | none => some none
        | some .null => some none
        | some (.obj c) => some (some c)
        | some _ => none
      let mu : Option Bool := match lookup o kMustUnderstand with
        | none => some true
        | some (.bool b) => some b
        | some _ => none
      match cfg, mu with
      | some c, some m => some ⟨n, c, m⟩
      | _, _ => none
    | _ => none
  -- `serde` also reads a derived struct from a sequence of its fields in order (name, configuration,
  -- must_understand; trailing ones optional): `["bytes"]` or `["bytes", null, true]` are accepted as written
  | .arr [.str n] => some ⟨n, none, true⟩
  | .arr [.str n, .null] => some ⟨n, none, true⟩
  | .arr [.str n, .obj c] => some ⟨n, some c, true⟩
  | .arr [.str n, .null, .bool b] => some ⟨n, none, b⟩
  | .arr [.str n, .obj c, .bool b] => some ⟨n, some c, b⟩
  | _ => none

/-- `impl Serialize for MetadataV3` (as repaired: what is written reads back as the same value) -/
def MetaV3.toJ (m : MetaV3) : J :=
  if m.config.isNone && m.mu then .str m.name else
  .obj ([(kName, .str m.name)] ++
    (match m.config with | some c => [(kConfiguration, .obj c)] | none => []) ++
    (if m.mu then [] else [(kMustUnderstand, .bool false)]))

/-! ### additional fields -/

structure AField where
  field : J
  mu : Bool
deriving Inhabited

/-- `impl From<Value> for AdditionalField`: an object loses its `must_understand` key (whatever its value), which
    decides `mu` when it is a boolean; everything else must be understood -/
def AField.ofJ : J → AField
  | .obj o =>
    let mu := match lookup o kMustUnderstand with | some (.bool b) => b | _ => true
    ⟨.obj (without o kMustUnderstand), mu⟩
  | j => ⟨j, true⟩

def AField.toJ (a : AField) : J :=
  match a.field with
  | .obj o => .obj ((kMustUnderstand, .bool a.mu) :: o)
  | j => j

/-! ### `ArrayMetadataV3` -/

structure ArrayDoc where
  shape : List (List Char)            -- u64 tokens
  dataType : MetaV3
  chunkGrid : MetaV3
  cke : MetaV3
  fill : J
  codecs : List MetaV3
  attrs : Obj
  st : List MetaV3
  dimNames : Option (List (Option Str))
  extra : List (Str × AField)         -- sorted by key (a `BTreeMap`)
deriving Inhabited

def arrayKeys : List Str :=
  ["zarr_format", "node_type", "shape", "data_type", "chunk_grid", "chunk_key_encoding", "fill_value", "codecs",
   "attributes", "storage_transformers", "dimension_names"].map ascii

/-- byte-wise lexicographic order of keys (`String`'s `Ord`) -/
def strLt : Str → Str → Bool
  | [], [] => false
  | [], _ :: _ => true
  | _ :: _, [] => false
  | a :: as, b :: bs => a < b || (a == b && strLt as bs)

def insertExtra (k : Str) (v : AField) : List (Str × AField) → List (Str × AField)
  | [] => [(k, v)]
  | (k', v') :: rest =>
    if k == k' then (k, v) :: rest
    else if strLt k k' then (k, v) :: (k', v') :: rest
    else (k', v') :: insertExtra k v rest

def isU64Tok (t : List Char) : Bool := (asU64 t).isSome

def metaList : J → Option (List MetaV3)
  | .arr xs => xs.mapM MetaV3.ofJ
  | _ => none

def dimNamesOfJ : J → Option (Option (List (Option Str)))
  | .null => some none
  | .arr xs => (xs.mapM (fun (x : J) => match x with | J.null => some (none : Option Str) | J.str s => some (some s) | _ => none)).map some
  | _ => none

/-- the fill value is any JSON value except that objects lose their key order (a `HashMap`): not modelled -/
def fillOk : J → Bool
  | .obj _ => false
  | _ => true

/-- `#[derive(Deserialize)]` of `ArrayMetadataV3` with the flattened additional fields -/
def ArrayDoc.ofJ : J → Option ArrayDoc
  | .obj o =>
    match lookup o (ascii "zarr_format"), lookup o (ascii "node_type") with
    | some (.num ['3']), some (.str nt) =>
      if nt != ascii "array" then none else
      match lookup o (ascii "shape"), lookup o (ascii "data_type"), lookup o (ascii "chunk_grid"),
            lookup o (ascii "chunk_key_encoding"), lookup o (ascii "fill_value"), lookup o (ascii "codecs") with
      | some (.arr sh), some dt, some cg, some ck, some fv, some cs =>
        let shape := sh.mapM (fun (x : J) => match x with | J.num t => if isU64Tok t then some t else none | _ => none)
        let attrs : Option Obj := match lookup o (ascii "attributes") with
          | none => some [] | some (.obj a) => some a | some _ => none
        let st : Option (List MetaV3) := match lookup o (ascii "storage_transformers") with
          | none => some [] | some j => metaList j
        let dn := match lookup o (ascii "dimension_names") with
          | none => some none | some j => dimNamesOfJ j
        match shape, MetaV3.ofJ dt, MetaV3.ofJ cg, MetaV3.ofJ ck, metaList cs, attrs, st, dn with
        | some shape, some dt, some cg, some ck, some cs, some attrs, some st, some dn =>
          let extra := (o.filter (fun kv => !arrayKeys.contains kv.1)).foldl
            (fun acc kv => insertExtra kv.1 (AField.ofJ kv.2) acc) []
          some ⟨shape, dt, cg, ck, fv, cs, attrs, st, dn, extra⟩
        | _, _, _, _, _, _, _, _ => none
      | _, _, _, _, _, _ => none
    | _, _ => none
  | _ => none

def dimNamesToJ (ns : List (Option Str)) : J :=
  .arr (ns.map (fun n => match n with | some s => .str s | none => .null))

/-- `#[derive(Serialize)]`: fields in declaration order, empty/absent optional fields skipped, then the additional
    fields in key order -/
def ArrayDoc.toJ (d : ArrayDoc) : J :=
  .obj ([(ascii "zarr_format", .num ['3']), (ascii "node_type", .str (ascii "array")),
         (ascii "shape", .arr (d.shape.map .num)), (ascii "data_type", d.dataType.toJ),
         (ascii "chunk_grid", d.chunkGrid.toJ), (ascii "chunk_key_encoding", d.cke.toJ),
         (ascii "fill_value", d.fill), (ascii "codecs", .arr (d.codecs.map MetaV3.toJ))] ++
        (if d.attrs.isEmpty then [] else [(ascii "attributes", .obj d.attrs)]) ++
        (if d.st.isEmpty then [] else [(ascii "storage_transformers", .arr (d.st.map MetaV3.toJ))]) ++
        (match d.dimNames with | some ns => [(ascii "dimension_names", dimNamesToJ ns)] | none => []) ++
        d.extra.map (fun kv => (kv.1, kv.2.toJ)))

/-! ### `GroupMetadataV3` (without consolidated metadata) -/

structure GroupDoc where
  attrs : Obj
  extra : List (Str × AField)
deriving Inhabited

def groupKeys : List Str := ["zarr_format", "node_type", "attributes", "consolidated_metadata"].map ascii

def GroupDoc.ofJ : J → Option GroupDoc
  | .obj o =>
    match lookup o (ascii "zarr_format"), lookup o (ascii "node_type"), lookup o (ascii "consolidated_metadata") with
    | some (.num ['3']), some (.str nt), none =>
      if nt != ascii "group" then none else
      match (match lookup o (ascii "attributes") with | none => some [] | some (.obj a) => some a | some _ => none) with
      | some attrs =>
        some ⟨attrs, (o.filter (fun kv => !groupKeys.contains kv.1)).foldl
          (fun acc kv => insertExtra kv.1 (AField.ofJ kv.2) acc) []⟩
      | none => none
    | _, _, _ => none
  | _ => none

def GroupDoc.toJ (d : GroupDoc) : J :=
  .obj ([(ascii "zarr_format", .num ['3']), (ascii "node_type", .str (ascii "group"))] ++
        (if d.attrs.isEmpty then [] else [(ascii "attributes", .obj d.attrs)]) ++
        d.extra.map (fun kv => (kv.1, kv.2.toJ)))

/-! ### what `Array::open` demands beyond the document shape -/

/-- rank of a `regular` chunk grid configuration (`chunk_shape`), if it is one -/
def regularRank (m : MetaV3) : Option Nat :=
  match m.config with
  | some c => match lookup c (ascii "chunk_shape") with
    | some (.arr xs) => some xs.length
    | _ => none
  | none => none

/-- the structural part of `Array::open`'s checks: no additional field that must be understood; the chunk grid,
    the shape and the dimension names agree in rank.  (`gridRank` is the dimensionality of the created grid.) -/
def structOk (d : ArrayDoc) (gridRank : Nat) : Bool :=
  d.extra.all (fun kv => !kv.2.mu) && gridRank == d.shape.length &&
  (match d.dimNames with | some ns => ns.length == d.shape.length | none => true)

/-- storage transformers (`StorageTransformerChain::from_metadata`): zarrs registers none, so every named transformer
    is unknown: one that must be understood (the default) makes `Array::open` fail, one marked
    `must_understand: false` is skipped -/
def transformersOk (d : ArrayDoc) : Bool := d.st.all (fun m => !m.mu)

/-- what `Array::open` demands of a parsed document beyond the plugins' acceptance of its data type, grid, key
    encoding and codecs -/
def openOk (d : ArrayDoc) (gridRank : Nat) : Bool := structOk d gridRank && transformersOk d

def groupOk (d : GroupDoc) : Bool := d.extra.all (fun kv => !kv.2.mu)

/-- text level: what is stored and what opening reads -/
def ArrayDoc.toText (d : ArrayDoc) : List Nat := print d.toJ
def ArrayDoc.ofText (t : List Nat) : Option ArrayDoc := (parse t).bind ArrayDoc.ofJ
def GroupDoc.toText (d : GroupDoc) : List Nat := print d.toJ
def GroupDoc.ofText (t : List Nat) : Option GroupDoc := (parse t).bind GroupDoc.ofJ

end Zarrs.Meta
