import ZarrsModel.Model.Codec
/-
Layer C, continued: byte-exact models of the variable-length array→bytes codecs
(zarrs/src/array/codec/array_to_bytes/{vlen_v2.rs, vlen_v2/vlen_v2_codec.rs, vlen.rs, vlen/vlen_codec.rs}; the
`vlen-utf8`, `vlen-bytes`, `vlen-array` codecs are thin wrappers — `vlen_v2_macros.rs::vlen_v2_codec!` forwards
`encode`/`decode` to the inner `VlenV2Codec`, and `vlen_v2.rs` registers all four names on `create_codec_vlen_v2`),
and of the decoded representation `ArrayBytes::Variable(bytes, offsets)` (zarrs/src/array/array_bytes.rs).

Bytes are `List Nat`, `usize`/`u64` are `Nat` (arithmetic overflow is outside the model; the places where the real
code converts to a narrower integer are modelled and commented: error or panic).
-/
namespace Zarrs.Vlen
open Zarrs Zarrs.Codec

/-! ### the decoded chunk: `ArrayBytes::Variable(bytes, offsets)` -/

/-- `ArrayBytes::Variable(RawBytes, RawBytesOffsets)` -/
structure VArr where
  data : Bytes
  offsets : List Nat
deriving DecidableEq, Repr

/-- `offsets.iter().tuple_windows()` / `offsets.windows(2)`: the consecutive pairs -/
def windows : List Nat → List (Nat × Nat)
  | a :: b :: rest => (a, b) :: windows (b :: rest)
  | _ => []

/-- the loop of `array_bytes.rs::validate_bytes_vlen`: every offset is at least its predecessor (the first one at
least 0, i.e. NOT necessarily 0) and at most `len`; returns the last offset seen -/
def validLoop (len : Nat) : Nat → List Nat → Option Nat
  | last, [] => some last
  | last, o :: os => if o < last || o > len then none else validLoop len o os

/-- `ArrayBytes::validate` on a variable-length value (`validate_bytes_vlen`): `n + 1` offsets, monotone, inside the
bytes, the last one EQUAL to the length of the bytes.  (`RawBytesOffsets::new` only checks non-empty + monotone and
`ArrayBytes::new_vlen` only `last ≤ len`; every encoder calls `validate` first, and `CodecChain::decode` calls it
on the result.)  The first offset need not be 0: bytes before it belong to no element. -/
def VArr.valid (n : Nat) (v : VArr) : Bool :=
  v.offsets.length == n + 1 &&
  (match validLoop v.data.length 0 v.offsets with
   | some last => last == v.data.length
   | none => false)

/-- element view: element `j` is `bytes[offsets[j]..offsets[j+1]]` (what both encoders iterate over) -/
def VArr.elems (v : VArr) : List Bytes := (windows v.offsets).map (fun p => slice v.data p.1 p.2)

/-- offsets of the concatenation of `xs`, starting at `start` -/
def offsetsFrom (start : Nat) : List Bytes → List Nat
  | [] => [start]
  | x :: xs => start :: offsetsFrom (start + x.length) xs

/-- the canonical value holding the elements `xs` (what `get_interleaved_bytes_and_offsets` builds by pushing
`bytes_out.len()` before every element and once at the end; also how every caller of the public API builds one) -/
def VArr.ofElems (xs : List Bytes) : VArr := ⟨xs.flatten, offsetsFrom 0 xs⟩

inductive EncErr where
  /-- `bytes.validate(num_elements, size)` failed -/
  | invalidInput
  /-- vlen_v2: `u32::try_from(num_elements)` failed: `CodecError::Other("num_elements exceeds u32::MAX …")` -/
  | tooManyElements
  /-- vlen_v2: `u32::try_from(element_bytes.len()).unwrap()` — the real code PANICS here (an element of 4 GiB or more) -/
  | elementTooLongPanic
  /-- vlen with `index_data_type: uint32`: `CodecError::Other("index offsets are too large for a uint32 …")` -/
  | offsetTooLarge
  /-- a codec of the index/data chain rejected its input -/
  | codecRejected
deriving DecidableEq, Repr

inductive DecErr where
  /-- shorter than the fixed part (`InvalidBytesLengthError`) -/
  | tooShort
  /-- vlen_v2: the element count in the header differs from the chunk's number of elements -/
  | headerCount
  /-- vlen_v2: a length field or an element reaches past the end of the value (the repaired check) -/
  | lengthPastEnd
  /-- vlen: the index length in the first 8 bytes reaches past the end of the value.
  PINNED TREE: `&bytes[size_of::<u64>()..data_start]` is an unchecked slice — the real code PANICS here. -/
  | indexLenPastEnd
  /-- vlen: the index codecs failed (e.g. checksum) -/
  | indexChain
  /-- vlen: the decoded index is not `(n + 1) * width` bytes (`bytes` codec length check) -/
  | indexLength
  /-- vlen: "Index is empty?" (unreachable: `n + 1 ≥ 1`) -/
  | emptyIndex
  /-- vlen: the data codecs failed -/
  | dataChain
  /-- vlen: the decoded data is not `last offset` bytes long -/
  | dataLength
  /-- vlen: an offset is smaller than its predecessor or larger than the data length -/
  | badOffsets
deriving DecidableEq, Repr

/-! ### `vlen_v2` (numcodecs layout): u32 LE element count, then per element u32 LE length + bytes -/

/-- the layout written by `VlenV2Codec::encode`: header, then interleaved lengths and elements -/
def vlenV2Body (xs : List Bytes) : Bytes := xs.flatMap (fun x => le32 x.length ++ x)
def vlenV2EncRaw (xs : List Bytes) : Bytes := le32 xs.length ++ vlenV2Body xs

/-- the guard under which the real encoder succeeds: fewer than 2^32 elements (beyond: an error) and every element
shorter than 2^32 bytes (beyond: a PANIC, `u32::try_from(..).unwrap()`) -/
def v2Guard (xs : List Bytes) : Prop := xs.length < 2 ^ 32 ∧ ∀ x ∈ xs, x.length < 2 ^ 32

instance (xs : List Bytes) : Decidable (v2Guard xs) := by unfold v2Guard; exact inferInstance

/-- `VlenV2Codec::encode` (vlen_v2_codec.rs): validate, header `num_elements` as u32, then for each window of the
offsets the u32 length and the bytes `bytes[curr..next]` -/
def vlenV2Enc (n : Nat) (v : VArr) : Except EncErr Bytes :=
  if !v.valid n then .error .invalidInput
  else if n ≥ 2 ^ 32 then .error .tooManyElements
  else if v.elems.any (fun x => decide (x.length ≥ 2 ^ 32)) then .error .elementTooLongPanic
  else .ok (vlenV2EncRaw v.elems)

/-- the loop of `vlen_v2.rs::get_interleaved_bytes_and_offsets` over the bytes after the cursor: `k` elements to go.
`bytes.get(offset..offset + 4)` is `None` iff fewer than 4 bytes remain; `bytes.get(offset..offset + length)` is
`None` iff fewer than `length` remain (`checked_add` cannot fail on `Nat`); bytes after the last element are ignored. -/
def vlenV2DecLoop : Nat → Bytes → Except DecErr (List Bytes)
  | 0, _ => .ok []
  | k + 1, rest =>
    if rest.length < 4 then .error .lengthPastEnd else
    let len := ofLe (rest.take 4)
    let rest' := rest.drop 4
    if rest'.length < len then .error .lengthPastEnd else
    match vlenV2DecLoop k (rest'.drop len) with
    | .ok xs => .ok (rest'.take len :: xs)
    | .error e => .error e

/-- `VlenV2Codec::decode` = `get_interleaved_bytes_and_offsets(num_elements, bytes)` + `RawBytesOffsets::new` +
`ArrayBytes::new_vlen` (both always succeed on what the loop builds): the value must hold the header and `n` length
fields, the header must equal `n` (`u32::try_from(n).unwrap()`: a panic for `n ≥ 2^32` is only reachable with a
value of 16 GiB or more, because of the length check before it), then the loop. -/
def vlenV2Dec (n : Nat) (b : Bytes) : Except DecErr VArr :=
  if b.length < 4 * (1 + n) then .error .tooShort
  else if ofLe (b.take 4) ≠ n then .error .headerCount
  else match vlenV2DecLoop n (b.drop 4) with
    | .ok xs => .ok (VArr.ofElems xs)
    | .error e => .error e

/-! ### `vlen` (zarrs' own layout): u64 LE length of the encoded index, encoded index, encoded data -/

/-- configuration: `index_data_type`, and the two codec chains as `bytes` (array→bytes) followed by
bytes→bytes codecs.  For the data (`uint8`) the endianness of `bytes` is irrelevant. -/
structure Cfg where
  /-- `index_data_type`: `uint64` (true) or `uint32` (false) -/
  idx64 : Bool
  /-- endianness of the `bytes` codec of `index_codecs` (it must have one: `None` is an error for 4/8-byte types) -/
  idxBig : Bool
  idxChain : List B2B
  dataChain : List B2B

def Cfg.w (c : Cfg) : Nat := if c.idx64 then 8 else 4
def Cfg.leW (c : Cfg) (n : Nat) : Bytes := if c.idx64 then le64 n else le32 n

/-- `transmute_to_bytes_vec(offsets)`: native (little-endian) bytes of the `u32`/`u64` offsets -/
def rawIndex (c : Cfg) (offs : List Nat) : Bytes := offs.flatMap c.leW

/-- `convert_from_bytes_slice::<u32/u64>` + `offsets_u32/u64_to_usize` -/
def readOffsets (c : Cfg) (raw : Bytes) : List Nat := (groups c.w raw).map ofLe

/-- the packing half of `VlenCodec::encode`: the index through `index_codecs`, the data through `data_codecs`
UNLESS it is empty (`NonZeroU64::try_from(data.len())` fails ⇒ `vec![]`, the data codecs are skipped), then
`u64 LE (index length) ++ index ++ data` -/
def vlenPack (c : Cfg) (offs : List Nat) (data : Bytes) : Option Bytes :=
  match chainEnc c.idxChain (bytesEnc c.idxBig c.w (rawIndex c offs)) with
  | none => none
  | some idx =>
    match (if data.length = 0 then some [] else chainEnc c.dataChain data) with
    | none => none
    | some d => some (le64 idx.length ++ idx ++ d)

/-- `VlenCodec::encode` (vlen_codec.rs): validate; with a `uint32` index every offset must fit (error otherwise;
`u64::try_from(usize).unwrap()` cannot fail); pack -/
def vlenEnc (c : Cfg) (n : Nat) (v : VArr) : Except EncErr Bytes :=
  if !v.valid n then .error .invalidInput
  else if !c.idx64 && v.offsets.any (fun o => decide (o ≥ 2 ^ 32)) then .error .offsetTooLarge
  else match vlenPack c v.offsets v.data with
    | none => .error .codecRejected
    | some e => .ok e

/-- the validation loop at the end of `get_vlen_bytes_and_offsets`:
`for (curr, next) in index.iter().tuple_windows() { if next < curr || *next > data_len { error } }` -/
def offsetsOk (len : Nat) (offs : List Nat) : Bool := (windows offs).all (fun p => decide (p.1 ≤ p.2) && decide (p.2 ≤ len))

/-- the second half of `get_vlen_bytes_and_offsets`, once the index `offs` is known: `rest` = the bytes after the
index.  The expected data length is the LAST offset; if it is 0 the data codecs are not run and `rest` is ignored
(whatever it holds); otherwise the data chain must produce exactly that many bytes (the `bytes` codec of the chain
checks it; the explicit comparison after it repeats the check); then the offsets are validated. -/
def vlenDecTail (c : Cfg) (offs : List Nat) (rest : Bytes) : Except DecErr VArr :=
  match offs.getLast? with
  | none => .error .emptyIndex
  | some expected =>
    let dataR : Except DecErr Bytes :=
      if expected = 0 then .ok [] else
      match chainDec c.dataChain rest with
      | none => .error .dataChain
      | some d => if d.length ≠ expected then .error .dataLength else .ok d
    match dataR with
    | .error e => .error e
    | .ok data => if offsetsOk data.length offs then .ok ⟨data, offs⟩ else .error .badOffsets

/-- `VlenCodec::decode` = `vlen.rs::get_vlen_bytes_and_offsets` + `RawBytesOffsets::new` + `ArrayBytes::new_vlen`
(both implied by the validation loop).  At least 8 bytes; `index_len` from the first 8; the index is
`bytes[8..8 + index_len]` — MODEL: an error when that reaches past the end; PINNED TREE: an unchecked slice, i.e. a
panic (reported as a defect) —; the index codecs (bytes→bytes in reverse, then `bytes`, which demands exactly
`(n + 1) * width` bytes and undoes the byte order); then `vlenDecTail`. -/
def vlenDec (c : Cfg) (n : Nat) (b : Bytes) : Except DecErr VArr :=
  if b.length < 8 then .error .tooShort else
  let indexLen := ofLe (b.take 8)
  if b.length < 8 + indexLen then .error .indexLenPastEnd else
  match chainDec c.idxChain (slice b 8 (8 + indexLen)) with
  | none => .error .indexChain
  | some raw =>
    if raw.length ≠ (n + 1) * c.w then .error .indexLength else
    vlenDecTail c (readOffsets c (bytesDec c.idxBig c.w raw)) (b.drop (8 + indexLen))

end Zarrs.Vlen
