import ZarrsModel.Model.Array
/-
Layer F: interleavings of tasks made of per-key store operations (C16).
An array operation on a region is, at the store level, a sequence of operations on the keys of the chunks meeting
the region (one `get`/`set`/`erase` per chunk on the whole-chunk paths); rayon runs the per-chunk tasks of one
operation, and client threads run whole operations, in some interleaving of these store-level operations.
-/
namespace Zarrs

/-- the keys a key-addressed store operation touches (listings and prefix operations touch every key and are not
part of array data operations) -/
def StoreOp.keys : StoreOp → Option (List Key)
  | .set k _ => some [k]
  | .setPartial kovs => some (kovs.map (·.1))
  | .erase k => some [k]
  | .eraseValues ks => some ks
  | .get k => some [k]
  | .getPartial k _ => some [k]
  | .sizeKey k => some [k]
  | _ => none

abbrev Task := List StoreOp

def Task.keys (t : Task) : List Key := t.flatMap (fun op => (op.keys).getD [])
def Task.keyAddressed (t : Task) : Bool := t.all (fun op => op.keys.isSome)

def disjointKeys (a b : List Key) : Bool := a.all (fun k => !b.contains k)

/-- pairwise key-disjoint tasks -/
def pairwiseDisjoint : List Task → Bool
  | [] => true
  | t :: ts => ts.all (fun u => disjointKeys t.keys u.keys) && pairwiseDisjoint ts

/-- run a list of operations from a store: final store and the results in order -/
def runOps (m : KV) : List StoreOp → KV × List StoreRes
  | [] => (m, [])
  | op :: rest =>
    let (m1, r) := Spec.step m op
    let (m2, rs) := runOps m1 rest
    (m2, r :: rs)

/-- a merge (interleaving) of tasks: a list of task numbers, task `i` occurring exactly `tasks[i].length` times;
executing it pops the next operation of the named task -/
def runMerge (m : KV) (tasks : List Task) : List Nat → KV × List (Nat × StoreRes)
  | [] => (m, [])
  | i :: rest =>
    match tasks[i]? with
    | some (op :: more) =>
      let (m1, r) := Spec.step m op
      let (m2, rs) := runMerge m1 (tasks.set i more) rest
      (m2, (i, r) :: rs)
    | _ => runMerge m tasks rest

def isMergeOf (tasks : List Task) (sched : List Nat) : Bool :=
  (List.range tasks.length).all (fun i => (sched.filter (· == i)).length == (tasks.getD i []).length) &&
  sched.all (fun i => decide (i < tasks.length))

/-- the results task `i` obtained inside a merged run, in its own order -/
def resultsOf (i : Nat) (rs : List (Nat × StoreRes)) : List StoreRes := (rs.filter (·.1 == i)).map (·.2)

end Zarrs
