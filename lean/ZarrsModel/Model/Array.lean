import ZarrsModel.Model.Grid
import ZarrsModel.Model.Store
/-
Layer D (element level): the array read/write algorithms of
zarrs/src/array/array_sync_writable.rs, array_sync_readable_writable.rs, array_sync_readable.rs and the
subset extract / update helpers of array_bytes.rs and array_bytes_fixed_disjoint_view.rs.

A chunk is a `List α` of its elements in C order (for fixed-size types an element is its byte string, for
variable-size types the string/bytes value; the byte-level layout of a decoded chunk is handled by the codec
layer).  The codec chain is a parameter `enc/dec` with the law `Lossless` (C03).  `none` = the method returns
an error.
-/
namespace Zarrs

/-- `ArrayBytesFixedDisjointView::copy_from_slice` / `update_bytes_*`: write `ys` into the region `r` of the
array `xs` of shape `sh`, one contiguous run at a time (runs of `r` in `sh`, in order) -/
def updateRuns {α} (sh : Shape) (r : Subset) (xs ys : List α) : List α :=
  let run := (r.contiguous sh).run
  ((r.contiguousLinearised sh).zipIdx).foldl
    (fun acc (p : Nat × Nat) => acc.take p.1 ++ (ys.drop (p.2 * run)).take run ++ acc.drop (p.1 + run)) xs

/-- specification of an update: element `j` of the result comes from `ys` iff `j ∈ r` -/
def scatter {α} (sh : Shape) (r : Subset) (xs ys : List α) : List (Option α) :=
  (boxIndices sh).map (fun j =>
    if r.contains j then ys[ravel (Subset.zipSub j r.start) r.shape]? else xs[ravel j sh]?)

structure ArrCfg (α : Type) where
  shape : Shape
  grid : Grid
  fill : α
  keyOf : Idx → Key
  enc : List α → Bytes
  dec : Bytes → Option (List α)
  storeEmpty : Bool

namespace ArrCfg
variable {α : Type} [BEq α]

/-- the chain decodes what it encoded (C03) -/
def Lossless (cfg : ArrCfg α) : Prop := ∀ x, cfg.dec (cfg.enc x) = some x
/-- distinct chunks have distinct keys (C11) -/
def KeysInjective (cfg : ArrCfg α) : Prop := ∀ a b, cfg.keyOf a = cfg.keyOf b → a = b

def chunkShape (cfg : ArrCfg α) (c : Idx) : Option Shape :=
  if c.length == cfg.grid.length then cfg.grid.chunkShape c else none
def chunkSubset (cfg : ArrCfg α) (c : Idx) : Option Subset :=
  if c.length == cfg.grid.length then cfg.grid.subset c else none

def isFill (cfg : ArrCfg α) (xs : List α) : Bool := xs.all (· == cfg.fill)

/-- `store_chunk_opt`: validate, elide an all-fill chunk (erase) unless `store_empty_chunks`, else encode+set -/
def storeChunk (cfg : ArrCfg α) (st : KV) (c : Idx) (data : List α) : Option KV :=
  match cfg.chunkShape c with
  | none => none
  | some s =>
    if data.length != prod s then none
    else if !cfg.storeEmpty && cfg.isFill data then some (st.erase (cfg.keyOf c))
    else some (st.put (cfg.keyOf c) (cfg.enc data))

def eraseChunk (cfg : ArrCfg α) (st : KV) (c : Idx) : KV := st.erase (cfg.keyOf c)
def eraseChunks (cfg : ArrCfg α) (st : KV) (box : Subset) : KV :=
  box.indices.foldl (fun st c => cfg.eraseChunk st c) st

/-- `retrieve_chunk_if_exists_opt` -/
def retrieveChunkIfExists (cfg : ArrCfg α) (st : KV) (c : Idx) : Option (Option (List α)) :=
  match cfg.chunkShape c with
  | none => none
  | some s =>
    match st.get (cfg.keyOf c) with
    | none => some none
    | some b => match cfg.dec b with
      | some xs => if xs.length == prod s then some (some xs) else none
      | none => none

/-- `retrieve_chunk_opt`: a missing chunk reads as fill -/
def retrieveChunk (cfg : ArrCfg α) (st : KV) (c : Idx) : Option (List α) :=
  match cfg.chunkShape c, cfg.retrieveChunkIfExists st c with
  | some s, some none => some (List.replicate (prod s) cfg.fill)
  | some _, some (some xs) => some xs
  | _, _ => none

/-- `retrieve_chunk_subset_opt` (the partial-decoding route is proved equal to this in C02) -/
def retrieveChunkSubset (cfg : ArrCfg α) (st : KV) (c : Idx) (r : Subset) : Option (List α) :=
  match cfg.chunkShape c with
  | none => none
  | some s =>
    if !r.inboundsShape s then none else
    (cfg.retrieveChunk st c).map (fun xs => r.extract s xs)

/-- `store_chunk_subset_opt` without partial encoding: whole-chunk fast path, else decode–update–store -/
def storeChunkSubset (cfg : ArrCfg α) (st : KV) (c : Idx) (r : Subset) (data : List α) : Option KV :=
  match cfg.chunkShape c with
  | none => none
  | some s =>
    if !(r.rank == s.length && Subset.allLe r.endExc s) then none
    else if r.shape == s && r.start.all (· == 0) then cfg.storeChunk st c data
    else if data.length != r.numElements then none
    else match cfg.retrieveChunk st c with
      | none => none
      | some old => cfg.storeChunk st c (updateRuns s r old data)

def foldOpt {σ β} (f : σ → β → Option σ) : σ → List β → Option σ
  | s, [] => some s
  | s, b :: bs => match f s b with
    | some s' => foldOpt f s' bs
    | none => none

/-- `store_chunks_opt(chunks, bytes)` -/
def storeChunks (cfg : ArrCfg α) (st : KV) (box : Subset) (data : List α) : Option KV :=
  match box.numElements with
  | 0 => if data.isEmpty then some st else none
  | 1 => cfg.storeChunk st box.start data
  | _ =>
    match cfg.grid.chunksSubset box with
    | none => none
    | some region =>
      if data.length != region.numElements then none else
      foldOpt (fun st c =>
        match cfg.chunkSubset c with
        | none => none
        | some cs => cfg.storeChunk st c ((cs.relativeTo region.start).extract region.shape data)) st box.indices

/-- `store_array_subset_opt(region, bytes)` -/
def storeArraySubset (cfg : ArrCfg α) (st : KV) (region : Subset) (data : List α) : Option KV :=
  if region.rank != cfg.shape.length then none else
  match cfg.grid.chunksInArraySubset region cfg.shape with
  | none => none
  | some chunks =>
    if chunks.numElements == 1 then
      match cfg.chunkSubset chunks.start with
      | none => none
      | some cs =>
        if region == cs then cfg.storeChunk st chunks.start data
        else cfg.storeChunkSubset st chunks.start (region.relativeTo cs.start) data
    else
      if data.length != region.numElements then none else
      foldOpt (fun st c =>
        match cfg.chunkSubset c with
        | none => none
        | some cs =>
          let ov := region.overlap cs
          cfg.storeChunkSubset st c (ov.relativeTo cs.start)
            ((ov.relativeTo region.start).extract region.shape data)) st chunks.indices

/-- `retrieve_array_subset_opt(region)`: 0 / 1 / n chunks -/
def retrieveArraySubset (cfg : ArrCfg α) (st : KV) (region : Subset) : Option (List α) :=
  if region.rank != cfg.shape.length then none else
  match cfg.grid.chunksInArraySubset region cfg.shape with
  | none => none
  | some chunks =>
    match chunks.numElements with
    | 0 => some (List.replicate region.numElements cfg.fill)
    | 1 =>
      match cfg.chunkSubset chunks.start with
      | none => none
      | some cs =>
        if cs == region then cfg.retrieveChunk st chunks.start
        else cfg.retrieveChunkSubset st chunks.start (region.relativeTo cs.start)
    | _ =>
      foldOpt (fun out c =>
        match cfg.chunkSubset c with
        | none => none
        | some cs =>
          let ov := cs.overlap region
          match cfg.retrieveChunkSubset st c (ov.relativeTo cs.start) with
          | none => none
          | some part => some (updateRuns region.shape (ov.relativeTo region.start) out part))
        (List.replicate region.numElements cfg.fill) chunks.indices

/-- `retrieve_chunks_opt(box)` -/
def retrieveChunks (cfg : ArrCfg α) (st : KV) (box : Subset) : Option (List α) :=
  if box.rank != cfg.shape.length then none else
  match cfg.grid.chunksSubset box with
  | none => none
  | some region =>
    match box.numElements with
    | 0 => some []
    | 1 => cfg.retrieveChunk st box.start
    | _ =>
      foldOpt (fun out c =>
        match cfg.chunkSubset c, cfg.retrieveChunk st c with
        | some cs, some part => some (updateRuns region.shape (cs.relativeTo region.start) out part)
        | _, _ => none)
        (List.replicate region.numElements cfg.fill) box.indices

end ArrCfg

/-- write/erase operations of a history -/
inductive WriteOp (α : Type) where
  | storeChunk (c : Idx) (data : List α)
  | storeChunks (box : Subset) (data : List α)
  | storeChunkSubset (c : Idx) (r : Subset) (data : List α)
  | storeArraySubset (region : Subset) (data : List α)
  | eraseChunk (c : Idx)
  | eraseChunks (box : Subset)

namespace ArrCfg
variable {α : Type} [BEq α]

def applyOp (cfg : ArrCfg α) (st : KV) : WriteOp α → Option KV
  | .storeChunk c d => cfg.storeChunk st c d
  | .storeChunks b d => cfg.storeChunks st b d
  | .storeChunkSubset c r d => cfg.storeChunkSubset st c r d
  | .storeArraySubset r d => cfg.storeArraySubset st r d
  | .eraseChunk c => some (cfg.eraseChunk st c)
  | .eraseChunks b => some (cfg.eraseChunks st b)

def run (cfg : ArrCfg α) (st : KV) (ops : List (WriteOp α)) : Option KV := foldOpt cfg.applyOp st ops

end ArrCfg

/-! ### abstract array: one element per index of the grid-covered extent -/

/-- the abstract array is a function from indices to elements -/
abbrev AArr (α : Type) := Idx → α

namespace AArr
variable {α : Type}

def write (a : AArr α) (r : Subset) (data : List α) (dflt : α) : AArr α :=
  fun i => if r.contains i then data.getD (ravel (Subset.zipSub i r.start) r.shape) dflt else a i

def fillRegion (a : AArr α) (r : Subset) (fill : α) : AArr α :=
  fun i => if r.contains i then fill else a i

def read (a : AArr α) (r : Subset) : List α := r.indices.map a

end AArr

namespace ArrCfg
variable {α : Type} [BEq α]

/-- the abstract effect of each write operation -/
def absOp (cfg : ArrCfg α) (a : AArr α) : WriteOp α → AArr α
  | .storeChunk c d => match cfg.chunkSubset c with
    | some cs => a.write cs d cfg.fill
    | none => a
  | .storeChunks b d => match cfg.grid.chunksSubset b with
    | some region => a.write region d cfg.fill
    | none => a
  | .storeChunkSubset c r d => match cfg.chunkSubset c with
    | some cs => a.write ⟨addIdx r.start cs.start, r.shape⟩ d cfg.fill
    | none => a
  | .storeArraySubset r d => a.write r d cfg.fill
  | .eraseChunk c => match cfg.chunkSubset c with
    | some cs => a.fillRegion cs cfg.fill
    | none => a
  | .eraseChunks b => match cfg.grid.chunksSubset b with
    | some region => a.fillRegion region cfg.fill
    | none => a

def absRun (cfg : ArrCfg α) (ops : List (WriteOp α)) : AArr α :=
  ops.foldl cfg.absOp (fun _ => cfg.fill)

end ArrCfg
end Zarrs
