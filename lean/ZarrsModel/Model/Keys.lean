/-
Chunk key encodings and node keys: zarrs/src/array/chunk_key_encoding/{default,v2}.rs, zarrs/src/node/key.rs,
`StoreKey::validate` (zarrs_storage/src/store_key.rs) and `NodePath::validate` (zarrs/src/node/node_path.rs).
Strings are `List Char`; `u64::to_string` is `Nat.toDigits 10`.
-/
namespace Zarrs.Keys

def decimal (n : Nat) : List Char := Nat.toDigits 10 n

/-- `Vec<String>::join(sep)` -/
def joinSep (sep : Char) : List (List Char) → List Char
  | [] => []
  | [x] => x
  | x :: y :: rest => x ++ sep :: joinSep sep (y :: rest)

inductive Enc where
  | default | v2
deriving Repr, DecidableEq

def encode (e : Enc) (sep : Char) (idx : List Nat) : List Char :=
  match e with
  | .default => if idx.isEmpty then ['c'] else 'c' :: sep :: joinSep sep (idx.map decimal)
  | .v2 => if idx.isEmpty then ['0'] else joinSep sep (idx.map decimal)

/-- `path.strip_prefix('/').unwrap_or(path)` -/
def stripSlash : List Char → List Char
  | '/' :: rest => rest
  | p => p

/-- `data_key(path, chunk_key)` -/
def dataKey (path : List Char) (k : List Char) : List Char :=
  let p := stripSlash path
  if p.isEmpty then k else p ++ '/' :: k

/-- `meta_key_any(path, name)` -/
def metaKey (path : List Char) (name : List Char) : List Char :=
  if path == ['/'] then name else stripSlash path ++ '/' :: name

def hasDoubleSlash : List Char → Bool
  | '/' :: '/' :: _ => true
  | _ :: rest => hasDoubleSlash rest
  | [] => false

/-- `StoreKey::validate` -/
def validKey (k : List Char) : Bool :=
  k.head? != some '/' && k.getLast? != some '/' && !k.isEmpty && !hasDoubleSlash k

/-- `NodePath::validate` -/
def validPath (p : List Char) : Bool :=
  p == ['/'] || (p.head? == some '/' && p.getLast? != some '/' && !hasDoubleSlash p)

/-- the store prefix of a node: "" for the root, `path-without-leading-slash + "/"` otherwise -/
def nodePrefix (path : List Char) : List Char :=
  if path == ['/'] then [] else stripSlash path ++ ['/']

def metaNames : List (List Char) := ["zarr.json".toList, ".zarray".toList, ".zgroup".toList, ".zattrs".toList]

/-- separators the library offers (`ChunkKeySeparator::{Slash, Dot}`) -/
def isSep (c : Char) : Bool := c == '/' || c == '.'

end Zarrs.Keys
