import ZarrsModel.Model.Store
/-
The asynchronous generic read-modify-write partial write,
`async_store_set_partial_values` (zarrs_storage/src/storage_async.rs), used by `AsyncObjectStore::set_partial_values`
(zarrs_object_store/src/lib.rs) and `AsyncOpendalStore::set_partial_values` (zarrs_opendal/src/async.rs).

The function first groups the entries of the call by key, then runs one future per group CONCURRENTLY
(`try_for_each_concurrent(None, …)`).  Each future is: `get(key)` (await) – zero-extend – apply the group's writes in
order – `set(key, bytes)` (await).  A single `get` / `set` of the store is atomic; what is not fixed is the ORDER in
which the gets and sets of different futures take effect.  That order is modelled by a schedule: a list of events
`read i` / `write i` (the future of group `i` performs its `get` / its `set`).  Nothing is assumed about the schedule
except that a future reads once, and writes once, after its read (events that do not fit are ignored), so every
interleaving the executor can produce is some schedule.

`Model/Store.lean: rmwPartial` is the SEQUENTIAL synchronous `store_set_partial_values`; there the grouping does not
matter (`Props/C08.lean: rmw_refines`).  Under concurrency it does: two groups with the same key race.
-/
namespace Zarrs.AsyncRmw
open Zarrs

abbrev Entry := Nat × Bytes
abbrev Group := Key × List Entry

/-- the grouping loop of `async_store_set_partial_values`:
`if let Some((_, group)) = groups.iter_mut().find(|(key, _)| *key == kov.key()) { group.push(kov) } else { groups.push((key, vec![kov])) }` -/
def addEntry : List Group → Key × Nat × Bytes → List Group
  | [], (k, o, v) => [(k, [(o, v)])]
  | (k', g) :: gs, (k, o, v) =>
    if k == k' then (k', g ++ [(o, v)]) :: gs else (k', g) :: addEntry gs (k, o, v)

/-- all groups of a call: by key over the WHOLE call, groups in order of first occurrence, entries in call order -/
def groupByKey (kovs : List (Key × Nat × Bytes)) : List Group := kovs.foldl addEntry []

/-- the variant that looks only at the most recent group (`groups.last_mut().filter(|(key, _)| …)`): entries of one key
that are not adjacent end up in different groups.  (= `groupConsecutive` of Model/Store.lean, built from the left.) -/
def addEntryLast (gs : List Group) (x : Key × Nat × Bytes) : List Group :=
  match gs.getLast? with
  | some (k', g) => if x.1 == k' then gs.dropLast ++ [(k', g ++ [(x.2.1, x.2.2)])] else gs ++ [(x.1, [(x.2.1, x.2.2)])]
  | none => [(x.1, [(x.2.1, x.2.2)])]
def groupLast (kovs : List (Key × Nat × Bytes)) : List Group := kovs.foldl addEntryLast []

/-- an event of the concurrent execution: the future of group `i` performs its `get` / its `set` -/
inductive Ev where
  | read (i : Nat)
  | write (i : Nat)
deriving Repr, DecidableEq

/-- the store, what each future has read so far (`snap`), and which futures have written (`done`) -/
structure AState where
  m : KV
  snap : List (Nat × Bytes) := []
  done : List Nat := []

def snapOf (s : AState) (i : Nat) : Option Bytes := (s.snap.find? (·.1 == i)).map (·.2)

/-- one event.  `read i`: `store.get(key).await?.unwrap_or_default()`, once per future.  `write i`: zero-extend the bytes
read, apply the group's writes, `store.set(key, bytes).await`, once per future and only after its read. -/
def stepEv (tasks : List Group) (s : AState) : Ev → AState
  | .read i =>
    if (snapOf s i).isSome then s else
    match tasks[i]? with
    | some (k, _) => { s with snap := (i, (s.m.get k).getD []) :: s.snap }
    | none => s
  | .write i =>
    if s.done.contains i then s else
    match tasks[i]?, snapOf s i with
    | some (k, g), some old => { s with m := s.m.put k (rmwGroup old g), done := i :: s.done }
    | _, _ => s

def run (tasks : List Group) (m : KV) (evs : List Ev) : AState := evs.foldl (stepEv tasks) { m := m }

/-- every future has completed -/
def allDone (tasks : List Group) (s : AState) : Bool := (List.range tasks.length).all (fun i => s.done.contains i)

/-- group lookup by key -/
def glookup (gs : List Group) (k : Key) : Option (List Entry) := (gs.find? (·.1 == k)).map (·.2)

/-- the entries of key `k` in a call, in call order -/
def entriesOf (k : Key) (kovs : List (Key × Nat × Bytes)) : List Entry :=
  (kovs.filter (·.1 == k)).map (·.2)

end Zarrs.AsyncRmw
