import ZarrsModel.Model.Partial
import ZarrsModel.Model.Array
/-
The sharding partial decoder (C02): zarrs/src/array/codec/array_to_bytes/sharding/sharding_partial_decoder.rs
(`ShardingPartialDecoder::{new, partial_decode}`, the `DataTypeSize::Fixed` branch) with the helpers of
zarrs/src/array/codec/array_to_bytes/sharding.rs (`calculate_chunks_per_shard`, `get_index_array_representation`,
`get_index_byte_range`, `decode_shard_index_partial_decoder`, `decode_shard_index`), `Chunks::new_unchecked`
(array_subset/iterators/chunks_iterator.rs), `ArraySubset::{overlap_unchecked, relative_to}` and
`ArrayBytesFixedDisjointView::{new_unchecked, copy_from_slice}`.

Handles are those of Model/Partial.lean.  An element is its byte string (`es` bytes for the data type); the output
buffer of a region is a list of elements (the Rust code keeps the same elements as one byte vector; the byte-length
test of `copy_from_slice` is kept as a test on the total byte length of the decoded piece).  Variable-length data types
(`merge_chunks_vlen` branch) are not modelled.  `Nat` models `u64`: the `checked_add` of `ByteIntervalPartialDecoder`
cannot fail here, but a range that would overflow reaches beyond any stored value and is rejected by the input handle
just the same (both are errors).
-/
namespace Zarrs.Partial
open Zarrs Zarrs.Codec

/-- `calculate_chunks_per_shard(shard_shape, chunk_shape)`: `zip` (truncating on a rank mismatch), every extent must
be a multiple of the inner extent (`is_multiple_of`; extents are `NonZeroU64`) -/
def chunksPerShard : Shape → Shape → Option Shape
  | s :: ss, c :: cs =>
    if c == 0 then none   -- unrepresentable (`NonZeroU64`)
    else if s % c == 0 then (chunksPerShard ss cs).map (s / c :: ·) else none
  | _, _ => some []

/-- `get_index_byte_range`: `FromStart(0, size)` or `Suffix(size)` -/
def indexRange (cfg : Shard.Cfg) : ByteRange :=
  if cfg.indexAtEnd then .suffix (Shard.indexSize cfg) else .fromStart 0 (some (Shard.indexSize cfg))

/-- `ShardingPartialDecoder::new` = `decode_shard_index_partial_decoder`: `none` = the constructor fails,
`some none` = there is no shard, `some (some entries)` = the decoded `(offset, nbytes)` pairs.
The number of index entries comes from the shapes (`get_index_array_representation`). -/
def shardIndexPD (cfg : Shard.Cfg) (validate : Bool) (shardShape innerShape : Shape) (h : BHandle) :
    Option (Option (List (Nat × Nat))) :=
  match chunksPerShard shardShape innerShape with
  | none => none
  | some cps =>
    let cfg' : Shard.Cfg := { cfg with nChunks := prod cps }
    match h [indexRange cfg'] with
    | none => none
    | some none => some none
    | some (some []) => none                      -- `v.remove(0)` on an empty vector
    | some (some (ib :: _)) =>
      match Shard.decodeIndex cfg' validate ib with
      | .ok entries => some (some entries)
      | .error _ => none

/-- `validate_inner_chunk_size(inner_chunk_encoded_size, size)`: when the inner codecs declare a fixed encoded size,
a stored inner chunk can only have that size -/
def sizeOk (fixed : Option Nat) (size : Nat) : Bool :=
  match fixed with
  | some n => size == n
  | none => true

/-- the decoded piece of one inner chunk inside the closure `decode_inner_chunk_subset_into_slice`: fill for a
sentinel entry (`offset == u64::MAX && size == u64::MAX`); else the entry's size is checked against the fixed encoded
size of the inner codecs (`fixed`, `none` = bounded/unbounded: not checked), an unexpected size is an error before the
inner decoder is built; else the inner chain's partial decoder on a `ByteIntervalPartialDecoder(offset, size)` of the
input handle, asked for the overlap `ov` relative to the chunk subset `cs` (`.remove(0)`: the first answer; a failure
to build the inner decoder or to decode is an error) -/
def shardPart (fixed : Option Nat) (fill : Elem) (innerShape : Shape) (innerPD : Shape → Elem → BHandle → AHandle)
    (h : BHandle) (e : Nat × Nat) (ov cs : Subset) : Option (List Elem) :=
  if e.1 == Shard.sentinel && e.2 == Shard.sentinel then some (List.replicate ov.numElements fill)
  else if !sizeOk fixed e.2 then none
  else match innerPD innerShape fill (byteIntervalPD e.1 e.2 h) [ov.relativeTo cs.start] with
    | some (part :: _) => some part
    | _ => none

/-- the closure `decode_inner_chunk_subset_into_slice` of `partial_decode`, for the item `p = (chunk indices, chunk
subset)` of the chunk iterator, writing into the output buffer `out` of the region `r`:
index entry `ravel(c, chunks_per_shard)` (an index outside the decoded index panics: possible only for regions
outside the shard), overlap of the region and the chunk, the decoded piece (`shardPart`), then `copy_from_slice`
into the view `overlap relative to the region` -/
def shardStep (fixed : Option Nat) (es : Nat) (fill : Elem) (innerShape cps : Shape) (entries : List (Nat × Nat))
    (innerPD : Shape → Elem → BHandle → AHandle) (h : BHandle) (r : Subset)
    (out : List Elem) (p : Idx × Subset) : Option (List Elem) :=
  match entries[ravel p.1 cps]? with
  | none => none
  | some e =>
    let ov := r.overlap p.2
    match shardPart fixed fill innerShape innerPD h e ov p.2 with
    | none => none
    | some part =>
      if part.flatten.length != ov.numElements * es then none     -- `copy_from_slice`: InvalidBytesLengthError
      else some (updateRuns r.shape (ov.relativeTo r.start) out part)

/-- one region of `partial_decode`: zero-initialised buffer, all inner chunks of `chunks_unchecked(chunk_shape)` in
C order (rayon `try_for_each`: the result is that of the sequential loop, an error if any closure fails) -/
def shardRegion (fixed : Option Nat) (es : Nat) (fill : Elem) (innerShape cps : Shape) (entries : List (Nat × Nat))
    (innerPD : Shape → Elem → BHandle → AHandle) (h : BHandle) (r : Subset) : Option (List Elem) :=
  ArrCfg.foldOpt (shardStep fixed es fill innerShape cps entries innerPD h r)
    (List.replicate r.numElements (List.replicate es 0)) (r.chunks innerShape)

/-- `ShardingPartialDecoder` (sync): construction reads and decodes the index (a failure makes every request an
error); `partial_decode` checks the rank of every region first, answers fill for an absent shard, else decodes
region by region.  `fixed` is `inner_chunk_fixed_encoded_size(inner_codecs, chunk_representation)`: the size the inner
codecs declare if it is `BytesRepresentation::FixedSize`.  There is NO test that a region lies inside the shard: see
`shardStep`. -/
def shardPD (cfg : Shard.Cfg) (validate : Bool) (shardShape innerShape : Shape) (es : Nat) (fill : Elem)
    (fixed : Option Nat)
    (innerPD : Shape → Elem → BHandle → AHandle) (h : BHandle) : AHandle :=
  match shardIndexPD cfg validate shardShape innerShape h with
  | none => fun _ => none
  | some index => fun rs =>
    -- (a Rust `ArraySubset` always has `start.len() == shape.len()`)
    if rs.any (fun r => !r.wf || r.rank != shardShape.length) then none else
    match index with
    | none => some (rs.map (fun r => List.replicate r.numElements fill))
    | some entries =>
      match chunksPerShard shardShape innerShape with
      | none => none
      | some cps => rs.mapM (shardRegion fixed es fill innerShape cps entries innerPD h)

/-! ### the decoded shard as one element list -/

def zipMod : List Nat → List Nat → List Nat
  | a :: as, b :: bs => (a % b) :: zipMod as bs
  | _, _ => []

/-- the element of the shard at index `i`, looked up in the inner chunk that holds it (regular inner grid) -/
def shardElem (innerShape cps : Shape) (xss : List (List Elem)) (i : Idx) : Elem :=
  (xss.getD (ravel (zipDiv i innerShape) cps) []).getD (ravel (zipMod i innerShape) innerShape) []

/-- the whole shard in C order, gathered from the decoded inner chunks `xss` (C order of the inner grid) -/
def assemble (shardShape innerShape : Shape) (xss : List (List Elem)) : List Elem :=
  (boxIndices shardShape).map (shardElem innerShape (zipDiv shardShape innerShape) xss)

/-- what the full decoder builds (`ShardingCodec::decode`): every inner chunk pasted into a buffer at its place -/
def assembleScatter (shardShape innerShape : Shape) (xss : List (List Elem)) (init : List Elem) : List Elem :=
  ((boxIndices (zipDiv shardShape innerShape)).zip xss).foldl
    (fun out (p : Idx × List Elem) => updateRuns shardShape ⟨zipMul p.1 innerShape, innerShape⟩ out p.2) init

/-- the pieces an encoder cuts a shard into: the inner chunks in C order of the inner grid -/
def splitShard (shardShape innerShape : Shape) (ys : List Elem) : List (List Elem) :=
  (boxIndices (zipDiv shardShape innerShape)).map (fun c =>
    (Subset.mk (zipMul c innerShape) innerShape).extract shardShape ys)

/-! ### codec chains whose array-to-bytes codec may be `sharding_indexed` (arbitrary nesting) -/

/-- `BytesToBytesCodecTraits::encoded_representation` on a fixed size, for the stages of Model/Partial.lean: the
checksum codecs add their 4 bytes, an inserted cache is no codec; a decode-all stage stands for a codec that either
keeps a fixed size (`keeps`: `shuffle`) or declares a bounded/unbounded size (compressors) -/
def BStage.fixedSize (keeps : Bool) : BStage → Option Nat → Option Nat
  | .stripSuffix _ _, s => s.map (· + 4)
  | .cache, s => s
  | .decodeAll _ _, s => if keeps then s else none

/-- the bytes-to-bytes part of `CodecChain::encoded_representation`; `keep[k]` says whether stage `k`, if decode-all,
keeps a fixed size (missing = no) -/
def bFixed : List BStage → List Bool → Option Nat → Option Nat
  | [], _, s => s
  | st :: rest, ks, s => bFixed rest ks.tail (st.fixedSize (ks.headD false) s)

/-- `CodecChain::encoded_representation` of a `bytes` chain when it is `FixedSize`: the array-to-array codecs map
the shape, `bytes` declares `num_elements * data_type_size`, then the bytes-to-bytes codecs -/
def Chain.fixedSize (c : Chain) (keep : List Bool) (sh : Shape) : Option Nat :=
  bFixed c.b2b keep (some (prod (shapesOf c.a2a sh) * c.es))

inductive ChainS where
  | leaf (c : Chain) (keep : List Bool)
  | shard (a2a : List AStage) (cfg : Shard.Cfg) (innerShape : Shape) (es : Nat) (inner : ChainS) (b2b : List BStage)

/-- the `a2a` part of `CodecChain::encode`: encoded elements and shape -/
def encodeA2A (a2a : List AStage) (sh : Shape) (xs : List Elem) : List Elem × Shape :=
  a2a.foldl (fun (acc : List Elem × Shape) st => (st.enc acc.2 acc.1, st.encShape acc.2)) (xs, sh)

/-- `ShardingCodec::encode`, the inner chunks: a chunk equal to the fill value is not stored, the others are encoded
by the inner chain `enc` -/
def shardChunks (enc : List Elem → Bytes) (fill : Elem) (shardShape innerShape : Shape) (ys : List Elem) :
    List (Option Bytes) :=
  (splitShard shardShape innerShape ys).map (fun xs => if xs.all (· == fill) then none else some (enc xs))

/-- `CodecChain::encode` with `ShardingCodec::encode`: the stored inner chunks laid out back to back with the index
(`Shard.encode`) -/
def ChainS.encode : ChainS → Shape → Elem → List Elem → Bytes
  | .leaf c _, sh, _, xs => c.encode sh xs
  | .shard a2a cfg innerShape _ inner b2b, sh, fill, xs =>
    let ys := (encodeA2A a2a sh xs).1
    let sh' := (encodeA2A a2a sh xs).2
    b2b.foldl (fun b st => st.enc b)
      (Shard.encode { cfg with nChunks := prod (zipDiv sh' innerShape) }
        (shardChunks (inner.encode innerShape fill) fill sh' innerShape ys))

/-- stack the array-to-array partial decoders of a chain (reverse order) on the array-to-bytes partial decoder -/
def stackA2A (a2a : List AStage) (sh : Shape) (inner : AHandle) : AHandle :=
  let shapes := a2a.foldl (fun (acc : List Shape) st => acc ++ [st.encShape (acc.getLastD sh)]) [sh]
  (List.zip a2a shapes).foldr (fun (st, dsh) h => st.pd dsh h) inner

/-- `CodecChain::encoded_representation` when it is `FixedSize`; `ShardingCodec::encoded_representation` declares a
bounded (or unbounded) size, never a fixed one -/
def ChainS.fixedSize : ChainS → Shape → Option Nat
  | .leaf c keep, sh => c.fixedSize keep sh
  | .shard .., _ => none

/-- `CodecChain::partial_decoder` where the array-to-bytes codec is `bytes` (leaf) or `sharding_indexed`
(`ShardingCodec::partial_decoder` = `ShardingPartialDecoder::new` on the shape after the array-to-array codecs) -/
def ChainS.partialDecoder : ChainS → Shape → Elem → BHandle → AHandle
  | .leaf c _, sh, fill, input => c.partialDecoder sh fill input
  | .shard a2a cfg innerShape es inner b2b, sh, fill, input =>
    let hb := b2b.foldr (fun st h => st.pd h) input
    stackA2A a2a sh (shardPD cfg true (shapesOf a2a sh) innerShape es fill (inner.fixedSize innerShape)
      (fun ish f g => inner.partialDecoder ish f g) hb)

end Zarrs.Partial
