/-
The concurrency split of the multi-chunk array methods and the options handed down to the per-chunk calls
(zarrs/src/array/concurrency.rs, zarrs/src/array/codec/options.rs, zarrs/src/config.rs).

Every multi-chunk array method (`store_chunks_opt`, `retrieve_chunks_opt`, `retrieve_array_subset_opt`,
`store_array_subset_opt`, `retrieve_array_subset_sharded_opt`, the chunk-cache `retrieve_*_opt_cached` methods; sync
and async) computes

    let codec_concurrency = self.codecs().recommended_concurrency(&chunk_representation)?;
    let (chunk_concurrent_limit, options) =
        concurrency_chunks_and_codec(options.concurrent_target(), num_chunks, options, &codec_concurrency);

and then runs `iter_concurrent_limit!(chunk_concurrent_limit, indices, .., |chunk| self.<per-chunk>_opt(.., &options))`:
the FIRST component bounds the number of chunks in flight, the SECOND component is the `CodecOptions` every per-chunk
call sees.  This file models, import-free and executable:

* `RecConc` / `RecConc.ofBounds` = `RecommendedConcurrency` / `RecommendedConcurrency::new` (+ `new_minimum`,
  `new_maximum`, `min`, `max`),
* `calcOuterInner` = `calc_concurrency_outer_inner`,
* `Opts` / `OptsBuilder` / `GlobalCfg` = `CodecOptions` / `CodecOptionsBuilder` / the fields of the global `Config`
  they default to,
* `chunksAndCodec` = `concurrency_chunks_and_codec`; `chunksAndCodecSeeded` = the seeded defect (options rebuilt from
  the global defaults unless the codec limit equals the caller's target),
* `subdivideChunkSize` / `subdivideGroups` = `rayon_iter_concurrent_limit::iter_subdivide` (how `iter_concurrent_limit!`
  uses the first component),
* `chainRec` / `shardRec` = `CodecChain::recommended_concurrency` / `ShardingCodec::recommended_concurrency` as pure
  functions of the recommendations of the codecs / of the number of inner chunks.

`usize`: values are `Nat` (overflow of `concurrency_inner * concurrency_outer` is outside the model).  `usize::MAX`,
which `RecommendedConcurrency::new` stores as the end of an unbounded range, is modelled as `none : Option Nat`
("unbounded") and NOT as a large constant: the code only ever uses a maximum as the second argument of
`std::cmp::min(x, max())` / `std::cmp::max(acc, max())`, where `usize::MAX` is exactly the neutral / absorbing element
for every `x : usize`; a constant would put an arbitrary number into the theorems (`calcOuterInner_within` would be false
for targets above it) without describing anything the code can observe.
-/
namespace Zarrs.Concurrency

/-! ### `RecommendedConcurrency` -/

/-- `std::ops::Bound<usize>` as seen by `RecommendedConcurrency::new` through `RangeBounds::{start_bound, end_bound}` -/
inductive Bound where
  | included (n : Nat)
  | excluded (n : Nat)
  | unbounded
deriving DecidableEq, Repr

/-- `RecommendedConcurrency` (concurrency.rs): the private field `range: Range<usize>`, read only through `min()` =
    `range.start` and `max()` = `range.end`; `max = none` is `usize::MAX` -/
structure RecConc where
  min : Nat
  max : Option Nat
deriving DecidableEq, Repr, Inhabited

/-- `n ≤ b` for an upper bound `b` (`none` = `usize::MAX`) -/
def LeB (n : Nat) (b : Option Nat) : Prop := ∀ m, b = some m → n ≤ m

instance (n : Nat) (b : Option Nat) : Decidable (LeB n b) :=
  match b with
  | none => isTrue (fun _ h => nomatch h)
  | some m => if h : n ≤ m then isTrue (fun _ e => by cases e; exact h) else isFalse (fun f => h (f m rfl))

/-- `std::cmp::min(n, rc.max())` -/
def capMax (n : Nat) : Option Nat → Nat
  | none => n
  | some m => Nat.min n m

/-- `std::cmp::max(a, rc.max())` on upper bounds -/
def maxB : Option Nat → Option Nat → Option Nat
  | some a, some b => some (Nat.max a b)
  | _, _ => none

/-- `RecommendedConcurrency::new(range)`: start = included s ↦ s, excluded s ↦ s+1 (`saturating_add`), unbounded ↦ 0;
    end = excluded e ↦ e, included e ↦ e+1 (`saturating_add`), unbounded ↦ `usize::MAX`; stored as
    `start.max(1)..end.max(1)`.  NOTE `max()` returns the EXCLUSIVE end: `new(4..8).max() == 8`,
    `new(4..=8).max() == 9`; an empty or inverted range is stored as is (`new(5..5)` has min = max = 5,
    `new(5..3)` has min 5 > max 3) because only the two bounds are read. -/
def RecConc.ofBounds (s e : Bound) : RecConc :=
  let start : Nat := match s with
    | .included a => a
    | .excluded a => a + 1
    | .unbounded => 0
  let stop : Option Nat := match e with
    | .excluded b => some b
    | .included b => some (b + 1)
    | .unbounded => none
  ⟨Nat.max start 1, stop.map (fun b => Nat.max b 1)⟩

/-- `RecommendedConcurrency::new(lo..hi)` (the half-open form every caller in zarrs uses) -/
def RecConc.new (lo hi : Nat) : RecConc := RecConc.ofBounds (.included lo) (.excluded hi)

/-- `RecommendedConcurrency::new_minimum(m)` = `new(m..)` -/
def RecConc.newMinimum (m : Nat) : RecConc := RecConc.ofBounds (.included m) .unbounded

/-- `RecommendedConcurrency::new_maximum(m)` = `new(..m)` -/
def RecConc.newMaximum (m : Nat) : RecConc := RecConc.ofBounds .unbounded (.excluded m)

/-- the invariant of every `RecommendedConcurrency` value (the field is private and `new` is the only constructor):
    both ends are at least one -/
def RecConc.WF (r : RecConc) : Prop := 1 ≤ r.min ∧ LeB 1 r.max

instance (r : RecConc) : Decidable r.WF := inferInstanceAs (Decidable (_ ∧ _))

/-- `min() ≤ max()`: NOT an invariant (`new(5..3)`), but true of every recommendation zarrs itself builds -/
def RecConc.Ordered (r : RecConc) : Prop := LeB r.min r.max

instance (r : RecConc) : Decidable r.Ordered := inferInstanceAs (Decidable (LeB _ _))

/-! ### `calc_concurrency_outer_inner` -/

/-- `usize::div_ceil` on a non-zero divisor: `d = a / b; r = a % b; if r > 0 { d + 1 } else { d }` -/
def divCeil (a b : Nat) : Nat := a / b + (if a % b > 0 then 1 else 0)

/-- `usize::div_ceil`: division by zero panics -/
def divCeil? (a b : Nat) : Option Nat := if b = 0 then none else some (divCeil a b)

/-- `calc_concurrency_outer_inner(concurrency_target, &outer, &inner) -> (outer, inner)` (concurrency.rs); `none` = the
    division-by-zero panic of `div_ceil`, which no `RecConc.WF` pair reaches (`Props/C16Conc.calcOuterInner_total`) -/
def calcOuterInner (target : Nat) (outer inner : RecConc) : Option (Nat × Nat) :=
  let i0 := inner.min
  let o0 := outer.min
  -- if concurrency_inner * concurrency_outer < concurrency_target { inner = min(target.div_ceil(outer), inner.max()) }
  let i1? : Option Nat :=
    if i0 * o0 < target then (divCeil? target o0).map (fun c => capMax c inner.max) else some i0
  match i1? with
  | none => none
  | some i1 =>
    -- if concurrency_inner * concurrency_outer < concurrency_target { outer = min(target.div_ceil(inner), outer.max()) }
    let o1? : Option Nat :=
      if i1 * o0 < target then (divCeil? target i1).map (fun c => capMax c outer.max) else some o0
    match o1? with
    | none => none
    | some o1 => some (o1, i1)

/-! ### `CodecOptions`, `CodecOptionsBuilder`, the global `Config` -/

/-- the fields of the global `Config` (config.rs) read here: the four defaults of `CodecOptions` / `CodecOptionsBuilder::new`
    and `chunk_concurrent_minimum` -/
structure GlobalCfg where
  validateChecksums : Bool := true
  storeEmptyChunks : Bool := false
  codecConcurrentTarget : Nat
  experimentalPartialEncoding : Bool := false
  chunkConcurrentMinimum : Nat := 4
deriving DecidableEq, Repr

/-- `CodecOptions` (codec/options.rs): EVERY field -/
structure Opts where
  validateChecksums : Bool
  storeEmptyChunks : Bool
  concurrentTarget : Nat
  experimentalPartialEncoding : Bool
deriving DecidableEq, Repr, Inhabited

/-- `CodecOptionsBuilder` (codec/options.rs): the same four fields -/
structure OptsBuilder where
  validateChecksums : Bool
  storeEmptyChunks : Bool
  concurrentTarget : Nat
  experimentalPartialEncoding : Bool
deriving DecidableEq, Repr

/-- `CodecOptionsBuilder::new()` = `CodecOptions::builder()`: every field from the global config -/
def OptsBuilder.new (cfg : GlobalCfg) : OptsBuilder :=
  ⟨cfg.validateChecksums, cfg.storeEmptyChunks, cfg.codecConcurrentTarget, cfg.experimentalPartialEncoding⟩

/-- `CodecOptions::default()` -/
def Opts.default (cfg : GlobalCfg) : Opts :=
  ⟨cfg.validateChecksums, cfg.storeEmptyChunks, cfg.codecConcurrentTarget, cfg.experimentalPartialEncoding⟩

/-- `CodecOptions::into_builder(&self)`: field by field -/
def Opts.intoBuilder (o : Opts) : OptsBuilder :=
  ⟨o.validateChecksums, o.storeEmptyChunks, o.concurrentTarget, o.experimentalPartialEncoding⟩

/-- `CodecOptionsBuilder::concurrent_target(self, n)` -/
def OptsBuilder.setConcurrentTarget (b : OptsBuilder) (n : Nat) : OptsBuilder := { b with concurrentTarget := n }

/-- `CodecOptionsBuilder::validate_checksums(self, v)` -/
def OptsBuilder.setValidateChecksums (b : OptsBuilder) (v : Bool) : OptsBuilder := { b with validateChecksums := v }

/-- `CodecOptionsBuilder::store_empty_chunks(self, v)` -/
def OptsBuilder.setStoreEmptyChunks (b : OptsBuilder) (v : Bool) : OptsBuilder := { b with storeEmptyChunks := v }

/-- `CodecOptionsBuilder::experimental_partial_encoding(self, v)` -/
def OptsBuilder.setExperimentalPartialEncoding (b : OptsBuilder) (v : Bool) : OptsBuilder :=
  { b with experimentalPartialEncoding := v }

/-- `CodecOptionsBuilder::build(&self)`: field by field -/
def OptsBuilder.build (b : OptsBuilder) : Opts :=
  ⟨b.validateChecksums, b.storeEmptyChunks, b.concurrentTarget, b.experimentalPartialEncoding⟩

/-! ### `concurrency_chunks_and_codec` -/

/-- the recommendation for the chunk loop built inside `concurrency_chunks_and_codec`:
    `RecommendedConcurrency::new(min(ccm, num_chunks)..max(ccm, num_chunks))`; for `num_chunks == ccm` this is the
    "empty" range `k..k`, stored as min = max = k -/
def chunksRec (ccm numChunks : Nat) : RecConc := RecConc.new (Nat.min ccm numChunks) (Nat.max ccm numChunks)

/-- `concurrency_chunks_and_codec(concurrency_target, num_chunks, &codec_options, &codec_concurrency)
      -> (self_concurrent_limit, codec_options)` (concurrency.rs) under the global config `cfg` (only
    `chunk_concurrent_minimum` is read); the options are `codec_options.into_builder().concurrent_target(inner).build()` -/
def chunksAndCodec (cfg : GlobalCfg) (target numChunks : Nat) (opts : Opts) (codec : RecConc) : Option (Nat × Opts) :=
  match calcOuterInner target (chunksRec cfg.chunkConcurrentMinimum numChunks) codec with
  | none => none
  | some (selfLimit, codecLimit) => some (selfLimit, (opts.intoBuilder.setConcurrentTarget codecLimit).build)

/-- the SEEDED defect: the options are rebuilt from the global defaults (`CodecOptions::builder()`) unless the codec limit
    equals the caller's target — so `store_empty_chunks`, `validate_checksums` and `experimental_partial_encoding` of the
    caller are lost for some targets -/
def chunksAndCodecSeeded (cfg : GlobalCfg) (target numChunks : Nat) (opts : Opts) (codec : RecConc) :
    Option (Nat × Opts) :=
  match calcOuterInner target (chunksRec cfg.chunkConcurrentMinimum numChunks) codec with
  | none => none
  | some (selfLimit, codecLimit) =>
    let b := if codecLimit = target then opts.intoBuilder else OptsBuilder.new cfg
    some (selfLimit, (b.setConcurrentTarget codecLimit).build)

/-! ### how the first component is used: `iter_concurrent_limit!` -/

/-- `rayon_iter_concurrent_limit::iter_subdivide(num_chunks = limit, iterator)` (rayon_iter_concurrent_limit-0.2.0,
    src/lib.rs): the size of the groups the indexed parallel iterator of length `len` is cut into; a limit of ZERO means
    groups of one item, i.e. NO limit -/
def subdivideChunkSize (limit len : Nat) : Nat :=
  if limit = 0 then 1 else Nat.max ((len + limit - 1) / limit) 1

/-- the number of groups (`rayon::iter::Chunks::len` = `len.div_ceil(size)`): at most this many items are in flight,
    each group being processed sequentially (`chunk.into_iter()`) -/
def subdivideGroups (limit len : Nat) : Nat := divCeil len (subdivideChunkSize limit len)

/-! ### where `codec_concurrency` comes from -/

/-- `ShardingCodec::recommended_concurrency` (sharding_codec.rs): `new_maximum(chunks_per_shard.num_elements())` -/
def shardRec (innerChunksPerShard : Nat) : RecConc := RecConc.newMaximum innerChunksPerShard

/-- every other codec of zarrs: `RecommendedConcurrency::new_maximum(1)` -/
def leafRec : RecConc := RecConc.newMaximum 1

/-- `CodecChain::recommended_concurrency` (codec_chain.rs) as a function of the recommendations of its codecs:
    `concurrency_min` = the minimum of the `min()`s (starting from `usize::MAX`), `concurrency_max` = the maximum of the
    `max()`s (starting from 0), result `new(min(concurrency_min, concurrency_max)..max(concurrency_max, concurrency_max))`.
    A chain has exactly one array-to-bytes codec (`a2b`), so the fold for the minimum starts from it here instead of
    `usize::MAX` (min and max are commutative and associative: the order bytes-to-bytes reversed, array-to-bytes,
    array-to-array reversed does not matter). -/
def chainRec (a2b : RecConc) (others : List RecConc) : RecConc :=
  let cmin : Nat := others.foldl (fun a r => Nat.min a r.min) a2b.min
  let cmax : Option Nat := others.foldl (fun a r => maxB a r.max) (maxB (some 0) a2b.max)
  match cmax with
  | none => RecConc.ofBounds (.included cmin) .unbounded   -- `lo..usize::MAX`
  | some m => RecConc.new (Nat.min cmin m) (Nat.max m m)

end Zarrs.Concurrency
