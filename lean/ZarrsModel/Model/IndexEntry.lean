/-
The bounds test of one shard index entry, on 64-bit machine integers (C15).

zarrs/src/array/codec/array_to_bytes/sharding/sharding_codec.rs, `ShardingCodec::decode` (both branches: the
variable-size branch `decode_inner_chunk` closure and the fixed-size branch writing into the output view) and
`ShardingCodec::decode_into` read an entry `(offset, size)` of the decoded shard index (two `u64`) and do

    if offset == u64::MAX && size == u64::MAX { /* fill value */ }
    else if offset.checked_add(size).is_none_or(|end| end > encoded_shard.len() as u64) { return Err(..) }
    else { let offset: usize = ..; let size: usize = ..; &encoded_shard[offset..offset + size] }

i.e. the `(MAX, MAX)` sentinel is tested FIRST, the bounds test only sees live entries, and the slicing follows a
passed bounds test.  These three sites are the only `checked_add` bounds tests.  (The sharding partial decoders,
sharding_partial_decoder.rs, test the sentinel the same way, first; they do NOT know the length of the stored value,
so there is no such bounds test there: they compare `size` with the fixed encoded size of the inner codecs
(`validate_inner_chunk_size`) and hand the live `(offset, size)` as a `ByteRange::FromStart(offset, Some(size))` /
`ByteIntervalPartialDecoder` to the input handle, whose ranged read validates the range against the value — see the
known finding F-C15-K3 for what that leaves open.)

The rest of the model (`Model/Shard.lean`, `Driver/C15.lean`) computes on unbounded `Nat`; here the test is modelled on
`UInt64` exactly as written, together with the seeded variant that adds with wrap-around.
-/
namespace Zarrs.IndexEntry

/-- `u64::MAX` -/
def u64Max : UInt64 := 18446744073709551615

/-- `offset == u64::MAX && size == u64::MAX`: the entry of an inner chunk that is not stored -/
def isSentinel (off size : UInt64) : Bool := off == u64Max && size == u64Max

/-- `u64::checked_add` (core: `let (a, b) = self.overflowing_add(rhs); if b { None } else { Some(a) }`); the carry of
an unsigned addition is "the wrapped sum is smaller than an operand" -/
def checkedAdd (a b : UInt64) : Option UInt64 :=
  let s := a + b
  if s < a then none else some s

/-- `Option::is_none_or` -/
def isNoneOr {α : Type} (p : α → Bool) : Option α → Bool
  | none => true
  | some x => p x

/-- the test of the code: `offset.checked_add(size).is_none_or(|end| end > len)` -/
def entryBadChecked (off size len : UInt64) : Bool :=
  isNoneOr (fun e => decide (e > len)) (checkedAdd off size)

/-- the SEEDED variant: `offset + size > len` with wrapping addition (`wrapping_add`, or `+` in a release build) -/
def entryBadWrapping (off size len : UInt64) : Bool := decide (off + size > len)

/-- what the code does with an entry of a value of `len` bytes -/
inductive Verdict where
  /-- the sentinel: the inner chunk reads as fill value -/
  | fill
  /-- "The shard index references out-of-bounds bytes" -/
  | err
  /-- `&encoded_shard[offset..offset + size]` -/
  | slice (off size : Nat)
deriving Repr, DecidableEq

/-- the three-way branch of `decode` / `decode_into`, sentinel first -/
def classify (off size len : UInt64) : Verdict :=
  if isSentinel off size then .fill
  else if entryBadChecked off size len then .err
  else .slice off.toNat size.toNat

/-- the same branch with the seeded bounds test -/
def classifyWrapping (off size len : UInt64) : Verdict :=
  if isSentinel off size then .fill
  else if entryBadWrapping off size len then .err
  else .slice off.toNat size.toNat

/-- the executable form on unbounded naturals used by the driver (`DriverC15.entryOutOfBounds`): a live entry (not the
sentinel) whose end lies beyond the value — also when `off + size ≥ 2^64` -/
def entryOutOfBoundsNat (off size len : Nat) : Bool :=
  !(off == 18446744073709551615 && size == 18446744073709551615) && off + size > len

end Zarrs.IndexEntry
