import ZarrsModel.Model.Store
/-
Layer E: hierarchy discovery (`Node::get_metadata`, `get_child_nodes`, `Group::children`, `Node::open`,
`node_exists`) over the ordered-map store model.  A node is addressed by its store prefix ("" for the root,
"a/b/" for `/a/b`).  How a stored metadata value reads is a parameter: `cls` classifies a `zarr.json` value
(group, array, or not a V3 node document), `okA`/`okG` say whether a `.zarray`/`.zgroup` value parses.
-/
namespace Zarrs.Hier
open Zarrs

inductive Kind where
  | group3 | array3 | group2 | array2
deriving Repr, DecidableEq

def Kind.isGroup : Kind → Bool
  | .group3 => true
  | .group2 => true
  | _ => false

structure Reader where
  /-- a `zarr.json` value: `some true` a V3 group, `some false` a V3 array, `none` anything else (an error) -/
  cls : Bytes → Option Bool
  okA : Bytes → Bool
  okG : Bytes → Bool
  /-- `.zattrs` beside V2 metadata must parse when present -/
  okAttrs : Bytes → Bool

inductive Meta where
  | node (k : Kind)
  | missing
  | invalid
deriving Repr, DecidableEq

def kZarrJson : Key := "zarr.json".toList
def kZarray : Key := ".zarray".toList
def kZgroup : Key := ".zgroup".toList
def kZattrs : Key := ".zattrs".toList

/-- `Node::get_metadata` with `MetadataRetrieveVersion::Default`: V3 first, then a V2 array, then a V2 group -/
def getMeta (r : Reader) (m : KV) (pre : Key) : Meta :=
  match m.get (pre ++ kZarrJson) with
  | some v => match r.cls v with
    | some true => .node .group3
    | some false => .node .array3
    | none => .invalid
  | none =>
    let attrsOk := match m.get (pre ++ kZattrs) with | some a => r.okAttrs a | none => true
    match m.get (pre ++ kZarray) with
    | some v => if r.okA v && attrsOk then .node .array2 else .invalid
    | none => match m.get (pre ++ kZgroup) with
      | some v => if r.okG v && attrsOk then .node .group2 else .invalid
      | none => .missing

/-- `discover_children`: the child prefixes of `list_dir`, without those whose store prefix starts with `__`
    (the test is on the whole prefix, as written: it hides `__x` at the root and everything beneath it) -/
def discover (m : KV) (pre : Key) : List Key :=
  (Spec.listDir m pre).2.filter (fun q => !("__".toList.isPrefixOf q))

/-- a discovered tree: prefix, kind, children -/
inductive Tree where
  | mk (pre : Key) (kind : Kind) (children : List Tree)
deriving Repr

mutual
/-- `get_child_nodes(.., recursive)`: `none` is an error (metadata that does not parse) -/
def childNodes (r : Reader) (m : KV) (recursive : Bool) : Nat → Key → Option (List Tree)
  | 0, _ => some []
  | fuel + 1, pre => childList r m recursive fuel (discover m pre)
def childList (r : Reader) (m : KV) (recursive : Bool) : Nat → List Key → Option (List Tree)
  | _, [] => some []
  | fuel, q :: rest =>
    match getMeta r m q with
    | .invalid => none
    | .missing => childList r m recursive fuel rest          -- not a node: skipped
    | .node k =>
      let sub : Option (List Tree) :=
        if recursive && k.isGroup then (match fuel with | 0 => some [] | f + 1 => childNodes r m true (f + 1) q) else some []
      match sub, childList r m recursive fuel rest with
      | some cs, some ts => some (Tree.mk q k cs :: ts)
      | _, _ => none
end

mutual
def Tree.flatten : Tree → List (Key × Kind)
  | .mk p k cs => (p, k) :: flattenList cs
def flattenList : List Tree → List (Key × Kind)
  | [] => []
  | t :: ts => t.flatten ++ flattenList ts
end

/-- enough fuel for any store: no prefix is longer than the longest key -/
def depthBound (m : KV) : Nat := (m.keys.map List.length).foldl max 0 + 1

/-- `Group::children(recursive)` flattened -/
def children (r : Reader) (m : KV) (recursive : Bool) (pre : Key) : Option (List (Key × Kind)) :=
  (childNodes r m recursive (depthBound m) pre).map flattenList

/-- `Node::open` flattened: the node itself and, for a group, everything below -/
def openNode (r : Reader) (m : KV) (pre : Key) : Option (List (Key × Kind)) :=
  match getMeta r m pre with
  | .node k => if k.isGroup then (children r m true pre).map ((pre, k) :: ·) else some [(pre, k)]
  | _ => none

/-- `node_exists`: any of the three metadata keys is stored -/
def nodeExists (m : KV) (pre : Key) : Bool :=
  (m.get (pre ++ kZarrJson)).isSome || (m.get (pre ++ kZarray)).isSome || (m.get (pre ++ kZgroup)).isSome

/-- the specification: the nodes directly beneath `pre` — one more path component, metadata stored and readable -/
def isChildPrefix (pre q : Key) : Bool :=
  pre.isPrefixOf q && (let c := q.drop pre.length; c.length ≥ 2 && c.getLast? == some '/' && !(c.dropLast.contains '/'))

end Zarrs.Hier
