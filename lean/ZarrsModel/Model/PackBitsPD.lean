import ZarrsModel.Model.PackBits
import ZarrsModel.Model.Partial
/-
The `packbits` PARTIAL decoder (C02):
zarrs/src/array/codec/array_to_bytes/packbits/packbits_partial_decoder.rs (`partial_decode`, shared by the synchronous
`PackBitsPartialDecoder` and the asynchronous `AsyncPackBitsPartialDecoder`) and the decoder selection of
packbits_codec.rs (`PackBitsCodec::partial_decoder` / `async_partial_decoder`: the `bytes` partial decoder on the
fast path).

A data type is `nc` components (`num_components`) of `c.w` bits (`component_size_bits`), decoded into `c.cb` bytes
each (little-endian); an element is `nc * c.cb` bytes.  The decoder works on BIT ranges of the packed stream:
`array_subset.byte_ranges(chunk_shape, element_size_bits)` are the contiguous runs of the region with the element
size given in bits.  Exactly as in `Model/PackBits.lean` the innermost per-bit loop
(`bytes_dec[byte_dec] |= ((packed[byte_enc] >> bit_enc) & 1) << bit_dec`) is modelled on whole components: the
`c.n` bits read are a number, OR-ed into the component slot `component_idx_outer + component_idx` of the output at bit
`first`, followed by the sign extension.  The output buffer is a list of component slots (`bytes_dec` is
`num_elements * data_type_size` zero bytes = `num_elements * nc` zero components) and is converted to bytes at the end.
-/
namespace Zarrs.PackBitsPD
open Zarrs Zarrs.Codec Zarrs.Partial Zarrs.PackBits

/-- `element_size_bits = component_size_bits_extracted * num_components` -/
def ebits (c : Cfg) (nc : Nat) : Nat := c.n * nc

/-- `offset`: the packed elements start after the padding byte of `first_byte` -/
def offset (c : Cfg) : Nat :=
  match c.pad with
  | .firstByte => 1
  | _ => 0

/-- the bit ranges of a region: `array_subset.byte_ranges(&chunk_shape, element_size_bits)` as `(bit_start, bit_length)`
(every item is `FromStart(start, Some(length))`, so `start(encoded_length_bits)` / `end(encoded_length_bits)` do not
depend on `encoded_length_bits`) -/
def bitRanges (c : Cfg) (nc : Nat) (sh : Shape) (r : Subset) : List (Nat × Nat) := r.byteRanges sh (ebits c nc)

/-- the byte range asked of the input handle for one bit range:
`byte_start = offset + bit_start / 8`, `byte_end = offset + bit_end.div_ceil(8)`, `ByteRange::new(byte_start..byte_end)` -/
def byteRangeOf (c : Cfg) (p : Nat × Nat) : ByteRange :=
  let byteStart := offset c + p.1 / 8
  let byteEnd := offset c + (p.1 + p.2 + 7) / 8
  ByteRange.fromStart byteStart (some (byteEnd - byteStart))

/-- everything the decoder requests for a region -/
def requests (c : Cfg) (nc : Nat) (sh : Shape) (r : Subset) : List ByteRange :=
  (bitRanges c nc sh r).map (byteRangeOf c)

/-- `n` bits of `packed` from bit `s` (least significant bit of byte 0 is bit 0).  Rust indexes
`packed_elements[byte_enc]` for every bit: reading past the end of the bytes handed back is a panic (`none`).
(`n = 0` never occurs: a component has at least one extracted bit.) -/
def readBits (packed : Bytes) (s n : Nat) : Option (List Bool) :=
  if s + n ≤ 8 * packed.length then some (((allBits packed).drop s).take n) else none

/-- one component: OR the extracted value into slot `j` at bit `first`, then the sign extension, which tests bit
`last` OF THE OUTPUT BUFFER and sets the bits `last+1 .. w`.  A slot outside the buffer is an index panic (`none`). -/
def writeComp (c : Cfg) (out : List Nat) (j v : Nat) : Option (List Nat) :=
  match out[j]? with
  | none => none
  | some old =>
    let x := old ||| (v * 2 ^ c.first)
    let x := if c.sign && x / 2 ^ c.last % 2 == 1 then x ||| (2 ^ c.w - 2 ^ (c.last + 1)) else x
    some (out.set j x)

/-- `for component_idx in 0..num_elements * num_components`: component `k` of the run is read at bit
`k * component_size_bits_extracted + bit_offset_from_contiguous_byte_range` of the bytes of the run and written to slot
`component_idx_outer + k` -/
def runLoop (c : Cfg) (packed : Bytes) (bitOff outer : Nat) : List Nat → List Nat → Option (List Nat)
  | [], out => some out
  | k :: ks, out =>
    match readBits packed (k * c.n + bitOff) c.n with
    | none => none
    | some bs =>
      match writeComp c out (outer + k) (natOfBits bs) with
      | none => none
      | some out' => runLoop c packed bitOff outer ks out'

/-- `for (packed_elements, bit_range) in encoded_bytes.into_iter().zip(bit_ranges)` with the running
`component_idx_outer`.  `acc` is the factor of the accumulator `component_idx_outer += num_elements * acc`:
the code has `acc = num_components` (the seeded defect had `acc = 1`). -/
def runsLoop (c : Cfg) (nc acc : Nat) : List (Bytes × (Nat × Nat)) → Nat → List Nat → Option (List Nat)
  | [], _, out => some out
  | (packed, (bitStart, bitLen)) :: rest, outer, out =>
    -- `num_elements = (bit_end - bit_start) / element_size_bits` (a division by zero panics)
    if ebits c nc == 0 then none else
    let numEl := bitLen / ebits c nc
    -- `bit_offset_from_contiguous_byte_range = bit_start - 8 * (bit_start / 8)`
    match runLoop c packed (bitStart - 8 * (bitStart / 8)) outer (List.range (numEl * nc)) out with
    | none => none
    | some out' => runsLoop c nc acc rest (outer + numEl * acc) out'

/-- one region of `partial_decode`; `acc` as in `runsLoop` -/
def regionPD (c : Cfg) (nc acc : Nat) (sh : Shape) (fill : Elem) (h : BHandle) (r : Subset) : Option (List Elem) :=
  -- `byte_ranges` fails (`IncompatibleArraySubsetAndShapeError`) for a region that is not inside the chunk
  if !(r.wf && r.inboundsShape sh) then none else
  match h (requests c nc sh r) with
  | none => none
  | some none => some (List.replicate r.numElements fill)      -- `ArrayBytes::new_fill_value`
  | some (some parts) =>
    match runsLoop c nc acc (parts.zip (bitRanges c nc sh r)) 0 (List.replicate (r.numElements * nc) 0) with
    | none => none
    | some out => some (groups (nc * c.cb) (out.flatMap (toLE c.cb)))

/-- `PackBitsPartialDecoder::partial_decode` / `AsyncPackBitsPartialDecoder::partial_decode` with an explicit
accumulator factor -/
def packbitsPDWith (acc : Nat) (c : Cfg) (nc : Nat) (sh : Shape) (fill : Elem) (h : BHandle) : AHandle := fun rs =>
  rs.mapM (regionPD c nc acc sh fill h)

/-- the partial decoder as written: `component_idx_outer += num_elements * num_components` -/
def packbitsPD (c : Cfg) (nc : Nat) (sh : Shape) (fill : Elem) (h : BHandle) : AHandle := packbitsPDWith nc c nc sh fill h

/-- `PackBitsCodec::partial_decoder` / `async_partial_decoder` with the selection condition as a parameter: when it
holds, `BytesPartialDecoder::new(input_handle, decoded_representation, Some(Endianness::Little))` -/
def partialDecoderSel (sel : Cfg → Bool) (c : Cfg) (nc : Nat) (sh : Shape) (fill : Elem) (h : BHandle) : AHandle :=
  if sel c then bytesPD false (nc * c.cb) c.cb sh fill h else packbitsPD c nc sh fill h

/-- the selection as written (both decoders):
`component_size_bits % 8 == 0 && first_bit == 0 && last_bit == component_size_bits - 1` (= `PackBits.fast`) -/
def partialDecoder (c : Cfg) (nc : Nat) (sh : Shape) (fill : Elem) (h : BHandle) : AHandle :=
  partialDecoderSel fast c nc sh fill h

/-- the seeded selection of `async_partial_decoder`: `first_bit == 0` lost -/
def fastSeeded (c : Cfg) : Bool := c.w % 8 == 0 && c.last == c.w - 1

/-- full decode, then the regions (the right-hand side of C02): `count = num_elements * num_components` -/
def decodeSlice (c : Cfg) (nc : Nat) (sh : Shape) (v : Bytes) (rs : List Subset) : Option (List (List Elem)) :=
  match PackBits.decode c (prod sh * nc) v with
  | none => none
  | some d => rs.mapM (fun r => if r.wf && r.inboundsShape sh then some (r.extract sh (groups (nc * c.cb) d)) else none)

/-! ### chains `array-to-array* ; packbits ; bytes-to-bytes*` -/

structure ChainP where
  a2a : List AStage
  cfg : Cfg
  nc : Nat
  b2b : List BStage

/-- `CodecChain::encode` -/
def ChainP.encode (c : ChainP) (sh : Shape) (xs : List Elem) : Bytes :=
  let (ys, _) := c.a2a.foldl (fun (acc : List Elem × Shape) st => (st.enc acc.2 acc.1, st.encShape acc.2)) (xs, sh)
  c.b2b.foldl (fun b st => st.enc b) (PackBits.encode c.cfg ys.flatten)

/-- `CodecChain::partial_decoder` (as `Chain.partialDecoder`, with `packbits` as the array-to-bytes codec) -/
def ChainP.partialDecoder (c : ChainP) (sh : Shape) (fill : Elem) (input : BHandle) : AHandle :=
  let hb := c.b2b.foldr (fun st h => st.pd h) input
  let shapes := c.a2a.foldl (fun (acc : List Shape) st => acc ++ [st.encShape (acc.getLastD sh)]) [sh]
  let inner := PackBitsPD.partialDecoder c.cfg c.nc (shapes.getLastD sh) fill hb
  (List.zip c.a2a shapes).foldr (fun (st, dsh) h => st.pd dsh h) inner

end Zarrs.PackBitsPD
