import ZarrsModel.Model.Float
/-
Layer C: the `numcodecs.fixedscaleoffset` array-to-array codec
(zarrs/src/array/codec/array_to_array/fixedscaleoffset/fixedscaleoffset_codec.rs).

Values are exact rationals (core `Rat`); an element of an integer type is an integer-valued rational inside the range
of the type, an element of `float32`/`float64` is the rational its (finite) bit pattern denotes (`ofBits`, built on
`Model/Float.lean`).  Two levels:

* the SPECIFICATION `encodeQ x = round((x - offset) * scale)` (ties away from zero, Rust `f32::round`), `decodeQ n = n / scale + offset`;
* the CODE `encodeElem` / `decodeElem`: every arithmetic step of the macros `scale_data_type!` / `unscale_data_type!` /
  `cast_to_float!` / `cast_from_float!` with the intermediate float type each element type uses, every float operation
  being the exact operation followed by `rnd p` (round to nearest, ties to even, `p` significant bits: 24 for `f32`,
  53 for `f64`), every `as <integer type>` truncating toward zero and saturating.

`rnd` has no exponent range: overflow to infinity, subnormal results, NaN and infinite inputs are OUTSIDE the model
(for integer element types none of them can occur: every magnitude is below 2^89 and every nonzero one above 2^-50).
The rational model does not distinguish -0.0 from +0.0.
-/
namespace Zarrs.Fso

/-! ### data types -/

/-- the element types the arithmetic macros list (`scale_array`, `unscale_array`, `cast_array`); everything else
(`float16`, `bfloat16`, complex types: "FIXME" in the source; all other data types) is `unsupported` -/
inductive Ty where
  | int (signed : Bool) (bits : Nat)
  | flt (bits : Nat)
  | unsupported
deriving DecidableEq, Repr

/-- smallest / largest value of an integer type -/
def Ty.lo : Ty → Int
  | .int true b => -(2 ^ (b - 1))
  | _ => 0
def Ty.hi : Ty → Int
  | .int true b => 2 ^ (b - 1) - 1
  | .int false b => 2 ^ b - 1
  | _ => 0

/-- significant bits of the float type the macros compute in: the table in `scale_array` / `unscale_array`
(`Int8 => i8, f32`, `Int16 => i16, f32`, `Int32 => i32, f64`, `Int64 => i64, f64`, same for unsigned,
`Float32 => f32, f32`, `Float64 => f64, f64`) -/
def Ty.prec : Ty → Nat
  | .int _ b => if b ≤ 16 then 24 else 53
  | .flt b => if b ≤ 32 then 24 else 53
  | .unsupported => 0

def Ty.size : Ty → Nat
  | .int _ b => b / 8
  | .flt b => b / 8
  | .unsupported => 0

def Ty.supported : Ty → Bool
  | .unsupported => false
  | _ => true

/-! ### rounding -/

/-- Rust `f32::round` / `f64::round`: nearest integer, ties AWAY from zero -/
def roundHalfAway (q : Rat) : Int :=
  if 0 ≤ q then (q + 1 / 2).floor else -((-q + 1 / 2).floor)

/-- truncation toward zero -/
def trunc (q : Rat) : Int := if 0 ≤ q then q.floor else -((-q).floor)

def clamp (lo hi v : Int) : Int := if v < lo then lo else if hi < v then hi else v

/-- Rust `<float> as <integer type>`: truncate toward zero, saturate at the bounds of the type -/
def truncSat (lo hi : Int) (q : Rat) : Int := clamp lo hi (trunc q)

/-- saturation into the range of an integer type -/
def satT (T : Ty) (v : Int) : Int := clamp T.lo T.hi v

/-- nearest integer, ties to the even one -/
def roundHalfEven (q : Rat) : Int :=
  let f := q.floor
  let r := q - f
  if r < 1 / 2 then f else if 1 / 2 < r then f + 1 else if f % 2 = 0 then f else f + 1

/-- `floor(log2 |q|)` for `q ≠ 0` -/
def ilog2 (q : Rat) : Int :=
  let n := q.num.natAbs
  let d := q.den
  let e0 : Int := (Nat.log2 n : Int) - (Nat.log2 d : Int)
  -- 2^(e0-1) < n/d < 2^(e0+1)
  if (2 : Rat) ^ e0 ≤ (n : Rat) / d then e0 else e0 - 1

/-- round to nearest with `p` significant bits, ties to even, unbounded exponent: the value of `q as f32` (p = 24) /
`q as f64` (p = 53) and of every float operation whose exact result is `q`, inside the normal range -/
def rnd (p : Nat) (q : Rat) : Rat :=
  if q = 0 then 0 else
  let u : Rat := (2 : Rat) ^ (ilog2 q - ((p : Int) - 1))
  (roundHalfEven (q / u) : Rat) * u

/-- `q` is exactly representable with `p` significant bits (the EXPLICIT exactness predicate of this file) -/
def Rep (p : Nat) (q : Rat) : Prop := rnd p q = q
instance (p : Nat) (q : Rat) : Decidable (Rep p q) := inferInstanceAs (Decidable (rnd p q = q))

/-! ### configuration -/

/-- `FixedScaleOffsetCodec`: `offset`, `scale` are the `f32` fields (as the rationals they denote), `dtype`,
`astype` the converted data types -/
structure Cfg where
  off : Rat
  sc : Rat
  dtype : Ty
  astype : Option Ty
deriving DecidableEq

/-- `FixedScaleOffsetCodecConfigurationNumcodecs { offset: f32, scale: f32 }`
(zarrs_metadata/src/v3/array/codec/numcodecs/fixedscaleoffset.rs), deserialised from a `serde_json::Value`
(`MetadataV3::to_configuration`): an integer token is held as `u64` / `i64` and cast `as f32` -/
def cfgOfIntToken (n : Int) : Rat := rnd 24 n
/-- a token with fraction or exponent is held as the nearest `f64` and cast `as f32` (two roundings) -/
def cfgOfFloatToken (q : Rat) : Rat := rnd 24 (rnd 53 q)

/-! ### the specification -/

/-- `(x - offset) * scale`, rounded (ties away from zero) -/
def encodeQ (off sc : Rat) (x : Rat) : Int := roundHalfAway ((x - off) * sc)
/-- `n / scale + offset` -/
def decodeQ (off sc : Rat) (n : Int) : Rat := (n : Rat) / sc + off

/-! ### the code -/

/-- `element as $float` in the scaling macros: an integer element is rounded to the float type, a float element is
already of that type -/
def toF (T : Ty) (x : Rat) : Rat :=
  match T with
  | .int _ _ => rnd T.prec x
  | _ => x

/-- `… as $ty` at the end of the scaling macros: float to integer truncates and saturates; float to the same float type
is the identity -/
def fromF (T : Ty) (q : Rat) : Rat :=
  match T with
  | .int _ _ => (truncSat T.lo T.hi q : Int)
  | _ => q

/-- `scale_data_type!`: `((element as $float - $offset as $float) * $scale as $float).round() as $ty` -/
def scaleElem (T : Ty) (off sc x : Rat) : Rat :=
  let p := T.prec
  fromF T (roundHalfAway (rnd p (rnd p (toF T x - off) * sc)) : Int)

/-- `unscale_data_type!`: `((element as $float / $scale as $float) + $offset as $float) as $ty` (no rounding: an integer
element type truncates toward zero) -/
def unscaleElem (T : Ty) (off sc y : Rat) : Rat :=
  let p := T.prec
  fromF T (rnd p (rnd p (toF T y / sc) + off))

/-- `cast_to_float!`: `element as f64` -/
def toF64 (S : Ty) (x : Rat) : Rat :=
  match S with
  | .int _ _ => rnd 53 x
  | _ => x

/-- `cast_from_float!`: `element as $ty` from `f64` -/
def fromF64 (D : Ty) (q : Rat) : Rat :=
  match D with
  | .int _ _ => (truncSat D.lo D.hi q : Int)
  | .flt b => if b ≤ 32 then rnd 24 q else q
  | .unsupported => q

/-- `cast_array(bytes, data_type, as_type)`: through `f64` -/
def castElem (S D : Ty) (x : Rat) : Rat := fromF64 D (toF64 S x)

/-- `do_encode` on one element: scale in the element type, then cast to `astype` if there is one -/
def encodeElem (c : Cfg) (x : Rat) : Rat :=
  let e := scaleElem c.dtype c.off c.sc x
  match c.astype with
  | some A => castElem c.dtype A e
  | none => e

/-- `decode` on one element: cast back from `astype`, then unscale -/
def decodeElem (c : Cfg) (e : Rat) : Rat :=
  let y := match c.astype with
    | some A => castElem A c.dtype e
    | none => e
  unscaleElem c.dtype c.off c.sc y

/-- `encode` / `decode` of a chunk: the representation's data type must be the configured `dtype`
("fixedscaleoffset got … as input, but metadata expects …"), the element type (and `astype`) must be one the macros
list (`CodecError::UnsupportedDataType`) -/
def usable (c : Cfg) (dt : Ty) : Bool :=
  c.dtype == dt && dt.supported && (match c.astype with | some A => A.supported | none => true)

def encodeChunk (c : Cfg) (dt : Ty) (xs : List Rat) : Option (List Rat) :=
  if usable c dt then some (xs.map (encodeElem c)) else none

def decodeChunk (c : Cfg) (dt : Ty) (es : List Rat) : Option (List Rat) :=
  if usable c dt then some (es.map (decodeElem c)) else none

/-! ### what the codec advertises -/

/-- a chunk representation: shape, data type, fill value -/
structure ChunkRep where
  shape : List Nat
  dtype : Ty
  fill : Rat
deriving DecidableEq

/-- `encoded_data_type`: `astype` if configured, else the decoded data type (the match arm also lets `float16`,
`bfloat16` and the complex types through; they fail in `encoded_fill_value`) -/
def encodedDataType (c : Cfg) (dt : Ty) : Ty := c.astype.getD dt

/-- `ArrayToArrayCodecTraits::encoded_fill_value` (default, zarrs/src/array/codec.rs): ENCODE a one-element chunk
holding the fill value -/
def encodedFill (c : Cfg) (dt : Ty) (fill : Rat) : Option Rat :=
  match encodeChunk c dt [fill] with
  | some [e] => some e
  | _ => none

/-- `encoded_shape` / `decoded_shape` (defaults): unchanged -/
def encodedShape (s : List Nat) : List Nat := s
def decodedShape (s : List Nat) : Option (List Nat) := some s

/-- `ArrayToArrayCodecTraits::encoded_representation` (default): shape, data type and fill value mapped one by one -/
def encodedRep (c : Cfg) (r : ChunkRep) : Option ChunkRep :=
  match encodedFill c r.dtype r.fill with
  | some f => some ⟨encodedShape r.shape, encodedDataType c r.dtype, f⟩
  | none => none

/-- `ArrayBytes::is_fill_value`: every element equals the fill value -/
def allFill (fill : Rat) (xs : List Rat) : Bool := xs.all (· == fill)

/-! ### exactness predicate: the code path coincides with the specification (decidable, executable) -/

/-- the integer `n` is carried unchanged by `as f64` from `S` and by `as D` from `f64` -/
def castExact (S D : Ty) (n : Int) : Bool :=
  (match S with | .int _ _ => decide (Rep 53 n) | _ => true) &&
  (match D with
   | .int _ _ => decide (D.lo ≤ n) && decide (n ≤ D.hi)
   | .flt b => if b ≤ 32 then decide (Rep 24 n) else true
   | .unsupported => true)

/-- ENCODING `x` is exact: every float intermediate of `scale_data_type!` is exactly representable, the rounded value
fits the element type and survives the cast to `astype` -/
def encExact (c : Cfg) (x : Rat) : Bool :=
  let p := c.dtype.prec
  let n : Int := encodeQ c.off c.sc x
  (match c.dtype with | .int _ _ => decide (Rep p x) | _ => true) &&
  decide (Rep p (x - c.off)) && decide (Rep p ((x - c.off) * c.sc)) &&
  (match c.dtype with | .int _ _ => decide (c.dtype.lo ≤ n) && decide (n ≤ c.dtype.hi) | _ => true) &&
  (match c.astype with | some A => castExact c.dtype A n | none => true)

/-- DECODING the integer `n` is exact up to the final cast: the cast back from `astype` carries `n`, the quotient and the
sum are exactly representable -/
def decExact (c : Cfg) (n : Int) : Bool :=
  let p := c.dtype.prec
  (match c.astype with | some A => castExact A c.dtype n | none => true) &&
  (match c.dtype with | .int _ _ => decide (Rep p n) | _ => true) &&
  decide (Rep p ((n : Rat) / c.sc)) && decide (Rep p ((n : Rat) / c.sc + c.off))

/-! ### vocabulary of the theorems (Props/C03Fso.lean) -/

/-- a tie: the fractional part is exactly one half -/
def isTie (y : Rat) : Prop := y - (y.floor : Rat) = 1 / 2
instance (y : Rat) : Decidable (isTie y) := inferInstanceAs (Decidable (_ = _))

/-- an integer-typed configuration with scale 1: element type `(s, b)`, optional integer `astype`, integer offset -/
def intCfg (s : Bool) (b : Nat) (A : Option (Bool × Nat)) (o : Int) : Cfg :=
  ⟨(o : Rat), 1, .int s b, A.map (fun a => .int a.1 a.2)⟩

/-- saturation into `astype` (nothing without one) -/
def satA (A : Option (Bool × Nat)) (v : Int) : Int :=
  match A with
  | some a => satT (.int a.1 a.2) v
  | none => v

/-- `x - offset` fits `astype` (vacuous without one) -/
def fitsA (A : Option (Bool × Nat)) (v : Int) : Prop :=
  match A with
  | some a => (Ty.int a.1 a.2).lo ≤ v ∧ v ≤ (Ty.int a.1 a.2).hi
  | none => True

/-- `y` is a value of the data type (integer types: an integer inside the range) -/
def inTy (T : Ty) (y : Rat) : Prop :=
  match T with
  | .int _ _ => ∃ k : Int, y = k ∧ T.lo ≤ k ∧ k ≤ T.hi
  | _ => True

/-! ### bit patterns -/

def fmtOf (bits : Nat) : Float.Fmt := if bits ≤ 32 then Float.f32 else Float.f64

/-- the value of a little-endian-assembled bit pattern `b < 2^bits`: two's complement for signed integers, the exact
rational of a FINITE float pattern (`none` for NaN and the infinities: outside the model) -/
def ofBits (T : Ty) (b : Nat) : Option Rat :=
  match T with
  | .int s w => some (if s && b ≥ 2 ^ (w - 1) then ((b : Int) - 2 ^ w : Int) else (b : Int))
  | .flt w =>
    let f := fmtOf w
    if f.isFinite b then
      let (n, d) := f.value (f.mag b)
      some (if f.neg b then -((n : Rat) / d) else (n : Rat) / d)
    else none
  | .unsupported => none

/-- the bit pattern of a value of the type (`none` if it is not one; a zero is given the sign `+`) -/
def toBits (T : Ty) (q : Rat) : Option Nat :=
  match T with
  | .int _ w =>
    if q.den == 1 && decide (T.lo ≤ q.num) && decide (q.num ≤ T.hi) then some (q.num % 2 ^ w).toNat else none
  | .flt w =>
    let f := fmtOf w
    let a := q.num.natAbs
    let m := f.round a q.den
    if m < f.inf && (let (x, y) := f.value m; x * q.den == a * y) then
      some ((if q < 0 then f.signBit else 0) + m)
    else none
  | .unsupported => none

end Zarrs.Fso
