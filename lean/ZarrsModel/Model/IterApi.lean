import ZarrsModel.Model.Iter
/-
API-coverage additions to the C09 model: the public entry points of zarrs/src/array_subset.rs and
zarrs/src/array_subset/iterators/*.rs that had no counterpart in Model/Iter.lean — the explicit index range of
`Indices::new_with_start_end`, the checked / `_unchecked` pairs as separate functions (so that their agreement is a
theorem, Props/C09Api.lean, and not an identification made by the model), and the small constructors / accessors.
`Nat` models `usize`/`u64`; overflow is outside the model (`saturating_add(1)` on `usize::MAX` is observationally the
same as `+ 1` here because every end is clamped to the length, which is a `usize`).
-/
namespace Zarrs

/-- `std::ops::Bound<usize>` as handed to `Indices::new_with_start_end` through `RangeBounds::start_bound` /
`end_bound` (`a..b` = incl a, excl b; `a..=b` = incl a, incl b; `..` = unb, unb; `a..`; `..b`; `..=b`;
`(Bound, Bound)` pairs give an excluded start) -/
inductive Bnd where
  | incl (n : Nat)
  | excl (n : Nat)
  | unb
deriving Repr, DecidableEq

/-- `Indices::new_with_start_end` (indices_iterator.rs), `start`: `Included(s) => s`,
`Excluded(s) => s.saturating_add(1)`, `Unbounded => 0` — NOT clamped to the length -/
def Bnd.lo : Bnd → Nat
  | .incl a => a
  | .excl a => a + 1
  | .unb => 0

/-- `Indices::new_with_start_end`, `end`: `Excluded(e) => e.min(length)`,
`Included(e) => e.saturating_add(1).min(length)`, `Unbounded => length` -/
def Bnd.hi (length : Nat) : Bnd → Nat
  | .excl b => min b length
  | .incl b => min (b + 1) length
  | .unb => length

/-- `Indices::new_with_start_end(subset, range)`: `range: start..end` with the two conversions above;
`len()` is `end.saturating_sub(start)` (`Iter.len`) -/
def Iter.newBounds (s : Subset) (lo hi : Bnd) : Iter := ⟨s, lo.lo, hi.hi s.numElements⟩

/-- specification of a ranged iterator: the slice `[lo, hi)` of the C-order enumeration of the subset -/
def Subset.indicesRange (s : Subset) (lo hi : Nat) : List Idx := (s.indices.drop lo).take (hi - lo)

/-- `ArraySubset::byte_ranges_unchecked(array_shape, element_size)` (array_subset.rs): the same loop as `byte_ranges`
over `contiguous_linearised_indices_unchecked`, no encapsulation test -/
def Subset.byteRangesUnchecked (s : Subset) (arr : Shape) (es : Nat) : List (Nat × Nat) :=
  let c := s.contiguous arr
  ((Iter.new c.starts).items.map (fun i => ravel i arr)).map (fun i => (i * es, c.run * es))

/-- `ArraySubset::byte_ranges`: `contiguous_linearised_indices(array_shape)?` rejects a shape of another rank or one
that does not encapsulate the subset (`ContiguousIndices::new`) -/
def Subset.byteRangesChecked (s : Subset) (arr : Shape) (es : Nat) : Option (List (Nat × Nat)) :=
  if s.inboundsShape arr then some (s.byteRanges arr es) else none

/-- `ArraySubset::extract_elements`: length, rank and bounds test, then `extract_elements_unchecked` -/
def Subset.extractChecked {α} (s : Subset) (arr : Shape) (xs : List α) : Option (List α) :=
  if xs.length == prod arr && s.inboundsShape arr then some (s.extract arr xs) else none

/-- `ArraySubset::new_with_start_end_inc_unchecked`: `end.saturating_sub(start) + 1` -/
def Subset.ofStartEndInc (start e : Idx) : Subset := ⟨start, (Subset.zipSub e start).map (· + 1)⟩

/-- the shared guard of `new_with_start_end_inc` / `new_with_start_end_exc`: equal lengths, no `end < start` -/
def Subset.startEndOk (start e : Idx) : Bool := start.length == e.length && !Subset.zipUnderflow e start

/-- `ArraySubset::to_ranges`: `start..start + size` per dimension -/
def Subset.toRanges (s : Subset) : List (Nat × Nat) := (s.start.zip s.shape).map (fun p => (p.1, p.1 + p.2))

/-- `ArraySubset::new_with_ranges`: `range.end - range.start` (an underflow panics; outside the model: saturating) -/
def Subset.ofRanges (rs : List (Nat × Nat)) : Subset := ⟨rs.map (·.1), rs.map (fun p => p.2 - p.1)⟩

/-- `ArraySubset::new_with_shape` -/
def Subset.withShape (sh : Shape) : Subset := Subset.ofShape sh

end Zarrs
