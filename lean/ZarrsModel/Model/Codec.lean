import ZarrsModel.Model.Bytes
import ZarrsModel.Model.Iter
/-
Layer C: byte-exact models of the codecs whose output is specified (zarrs/src/array/codec/**):
`bytes` (endianness), `crc32c`, `fletcher32` (HDF5 variant, repaired odd-length handling), `shuffle`,
`transpose`, `squeeze` (identity on data), and the generic chain composition with its size representation.
External compressors (gzip, zlib, zstd, blosc, bz2, gdeflate, pcodec, zfp) are *parameters*: a `B2B` value whose
laws are hypotheses (tested by the harness, never proved).
-/
namespace Zarrs.Codec

/-! ### CRC-32C (Castagnoli), reflected, as the `crc32c` crate computes it -/

def crcPoly : Nat := 0x82F63B78

/-- one bit of the reflected shift register -/
def shiftStep (r : Nat) : Nat := if r % 2 = 1 then (r / 2) ^^^ crcPoly else r / 2

def shift8 (r : Nat) : Nat :=
  shiftStep (shiftStep (shiftStep (shiftStep (shiftStep (shiftStep (shiftStep (shiftStep r)))))))

/-- absorb one byte -/
def crcUpd (r b : Nat) : Nat := shift8 (r ^^^ b)

def crcReg (init : Nat) (bs : Bytes) : Nat := bs.foldl crcUpd init

def crc32c (bs : Bytes) : Nat := crcReg 0xFFFFFFFF bs ^^^ 0xFFFFFFFF

/-- little-endian bytes of a 32-bit value -/
def le32 (n : Nat) : Bytes := [n % 256, n / 256 % 256, n / 65536 % 256, n / 16777216 % 256]
def le64 (n : Nat) : Bytes := (List.range 8).map (fun i => n / 256 ^ i % 256)
def be64 (n : Nat) : Bytes := (le64 n).reverse
def ofLe (bs : Bytes) : Nat := bs.foldr (fun b acc => b + 256 * acc) 0

inductive DecErr where
  | tooShort | invalidChecksum | other
deriving DecidableEq, Repr

/-! ### checksum codecs: payload ++ 4-byte little-endian checksum -/

def checksumEnc (sum : Bytes → Nat) (b : Bytes) : Bytes := b ++ le32 (sum b)

/-- `decode`: fewer than 4 bytes is an error; with validation the stored checksum must match; the payload is the
value without its last 4 bytes -/
def checksumDec (sum : Bytes → Nat) (validate : Bool) (b : Bytes) : Except DecErr Bytes :=
  if b.length < 4 then .error .tooShort else
  let payload := b.take (b.length - 4)
  if validate && le32 (sum payload) != b.drop (b.length - 4) then .error .invalidChecksum
  else .ok payload

def crc32cEnc := checksumEnc crc32c
def crc32cDec := checksumDec crc32c

/-! ### Fletcher-32 (HDF5 `H5_checksum_fletcher32`): 16-bit big-endian words, blocks of 360 words -/

def fold16 (x : Nat) : Nat := x % 65536 + x / 65536

/-- process the words of one block -/
def fletcherBlock : Nat × Nat → List Nat → Nat × Nat
  | (s1, s2), [] => (s1, s2)
  | (s1, s2), w :: ws => fletcherBlock (s1 + w, s2 + (s1 + w)) ws

/-- words: pairs of bytes, high byte first; a trailing odd byte is `b << 8` -/
def words : Bytes → List Nat
  | a :: b :: rest => (a * 256 + b) :: words rest
  | _ => []

def chunksOf {α} (n : Nat) : Nat → List α → List (List α)
  | 0, _ => []
  | fuel + 1, l => if l.isEmpty then [] else l.take n :: chunksOf n fuel (l.drop n)

def fletcher32 (data : Bytes) : Nat :=
  let ws := words data
  let (s1, s2) := (chunksOf 360 (ws.length + 1) ws).foldl
    (fun (acc : Nat × Nat) blk => let (a, b) := fletcherBlock acc blk; (fold16 a, fold16 b)) (0, 0)
  let (s1, s2) := if data.length % 2 = 1 then
      let a := s1 + (data.getLastD 0) * 256
      let b := s2 + a
      (fold16 a, fold16 b)
    else (s1, s2)
  let s1 := fold16 s1
  let s2 := fold16 s2
  ((s2 * 65536) % 4294967296) ||| s1     -- `(sum2 << 16) | sum1` in u32

def fletcher32Enc := checksumEnc fletcher32
def fletcher32Dec := checksumDec fletcher32

/-! ### `bytes` codec: elements are `es`-byte strings in native (little-endian) order -/

def groups (es : Nat) (b : Bytes) : List Bytes := chunksOf es (b.length + 1) b

/-- big-endian encoding reverses the bytes of every element; little-endian (and single-byte types) is identity -/
def bytesEnc (big : Bool) (es : Nat) (b : Bytes) : Bytes :=
  if big && es > 1 then (groups es b).flatMap List.reverse else b
def bytesDec (big : Bool) (es : Nat) (b : Bytes) : Bytes := bytesEnc big es b

/-! ### `shuffle` codec: byte transposition with element size `es` (length must be a multiple of `es`) -/

def shuffleEnc (es : Nat) (b : Bytes) : Option Bytes :=
  if es = 0 || b.length % es != 0 then none else
  let count := b.length / es
  some ((List.range es).flatMap (fun j => (List.range count).map (fun i => b.getD (i * es + j) 0)))

def shuffleDec (es : Nat) (b : Bytes) : Option Bytes :=
  if es = 0 || b.length % es != 0 then none else
  let count := b.length / es
  some ((List.range count).flatMap (fun i => (List.range es).map (fun j => b.getD (j * count + i) 0)))

/-! ### `transpose` codec on element lists: `order[k]` = the decoded axis that becomes encoded axis `k` -/

def permute {α} [Inhabited α] (v : List α) (order : List Nat) : List α := order.map (fun a => v.getD a default)

def validOrder (order : List Nat) (rank : Nat) : Bool :=
  order.length == rank && (List.range rank).all (fun a => order.contains a)

/-- inverse permutation: `inv[order[k]] = k` -/
def inverseOrder (order : List Nat) : List Nat :=
  (List.range order.length).map (fun a => (order.findIdx? (· == a)).getD 0)

/-- encode: element at encoded index `j` (in the transposed shape) is the decoded element at the index `i` with
`i[order[k]] = j[k]` -/
def transposeEnc {α} [Inhabited α] (order : List Nat) (shape : Shape) (xs : List α) : List α :=
  let tshape := permute shape order
  (boxIndices tshape).map (fun j => xs.getD (ravel (permute j (inverseOrder order)) shape) default)

def transposeDec {α} [Inhabited α] (order : List Nat) (shape : Shape) (ys : List α) : List α :=
  let tshape := permute shape order
  (boxIndices shape).map (fun i => ys.getD (ravel (permute i order) tshape) default)

/-! ### bytes-to-bytes codecs as values, and chains -/

structure B2B where
  enc : Bytes → Option Bytes               -- `none`: the codec rejects this input (e.g. shuffle length)
  dec : Bytes → Option Bytes
  /-- declared size of the encoding of `n` bytes: `(bound, exact?)` — `BoundedSize` / `FixedSize` -/
  size : Nat → Nat × Bool

structure B2B.Lawful (c : B2B) : Prop where
  dec_enc : ∀ b e, c.enc b = some e → c.dec e = some b
  size_ok : ∀ b e, c.enc b = some e → e.length ≤ (c.size b.length).1 ∧ ((c.size b.length).2 = true → e.length = (c.size b.length).1)

def crc32cCodec : B2B :=
  { enc := fun b => some (crc32cEnc b), dec := fun b => (crc32cDec true b).toOption, size := fun n => (n + 4, true) }
def fletcher32Codec : B2B :=
  { enc := fun b => some (fletcher32Enc b), dec := fun b => (fletcher32Dec true b).toOption, size := fun n => (n + 4, true) }
def shuffleCodec (es : Nat) : B2B :=
  { enc := shuffleEnc es, dec := shuffleDec es, size := fun n => (n, true) }

def chainEnc (cs : List B2B) (b : Bytes) : Option Bytes := cs.foldl (fun acc c => acc.bind c.enc) (some b)
/-- decoding applies the codecs in reverse order (`self.bytes_to_bytes.iter().rev()` in `CodecChain::decode`) -/
def chainDec (cs : List B2B) (b : Bytes) : Option Bytes := cs.foldl (fun acc c => fun x => (c.dec x).bind acc) some b
def chainSize (cs : List B2B) (n : Nat) : Nat × Bool :=
  cs.foldl (fun (acc : Nat × Bool) c => let (m, ex) := c.size acc.1; (m, acc.2 && ex)) (n, true)

end Zarrs.Codec
