import ZarrsModel.Props.C12
import ZarrsModel.Lemmas.InflateFixed
set_option Elab.async false
/-
C12, second DEFLATE flavour — the hypothesis `DeflateOk` of the layout theorems of `Props/C12.lean` also holds when
the specification writer emits one fixed-Huffman block of literals (`Layout.deflate ≠ 0`), so every round-trip
theorem there applies to both flavours the writer can choose.
-/
namespace Zarrs.C12
open Zarrs Zarrs.Codec Zarrs.Inflate Zarrs.Conform

/-- **a fixed-Huffman literal block inflates to the data**, whatever follows the stream -/
theorem inflate_fixed (bs rest : Bytes) (hb : wfBytes bs) (hr : wfBytes rest) :
    inflate (deflateFixed bs ++ rest) = some (bs, rest) :=
  inflate_deflateFixed bs rest hb hr

theorem deflateOk_fixed (l : Layout) (h : l.deflate ≠ 0) : DeflateOk l := by
  have hd : deflateOf l = deflateFixed := by simp [deflateOf, h]
  refine ⟨?_, ?_⟩
  · intro bs rest hb hr
    rw [hd]
    exact inflate_deflateFixed bs rest hb hr
  · intro bs _
    rw [hd]
    exact deflateFixed_wf bs

/-- both flavours: the hypothesis of the layout theorems holds for every layout -/
theorem deflateOk_all (l : Layout) : DeflateOk l := by
  by_cases h : l.deflate = 0
  · exact deflateOk_stored l h
  · exact deflateOk_fixed l h

theorem gunzip_gzip_fixed (l : Layout) (h : l.deflate ≠ 0) (bs : Bytes) (hb : wfBytes bs) :
    gunzip (gzipWith (deflateOf l) l.gzipExtra bs) = some bs :=
  gunzip_gzip l (deflateOk_fixed l h) bs hb
theorem unzlib_zlib_fixed (l : Layout) (h : l.deflate ≠ 0) (bs : Bytes) (hb : wfBytes bs) :
    unzlib (zlibWith (deflateOf l) bs) = some bs :=
  unzlib_zlib l (deflateOk_fixed l h) bs hb

example : DeflateOk { deflate := 1 } := deflateOk_fixed _ (by decide)
example : DeflateOk { deflate := 1, gzipExtra := true, reverseInner := true, pad := 2 } :=
  deflateOk_fixed _ (by decide)

end Zarrs.C12
