import ZarrsModel.Model.MemConc
import ZarrsModel.Model.FsConc
import ZarrsModel.Lemmas.MemConc
/-
C18 — stores are linearizable per key under concurrent access.

`MemConc` / `FsConc` are the lock protocols of `MemoryStore` / `FilesystemStore` for one key, any number of
threads, any programs.  A finished execution is linearizable if its completed operations can be put in a total
order that (i) respects real time, (ii) is a legal run of the atomic register `specStep` producing exactly the
observed responses and (iii) ends in the final stored value (`MemConc.isLinearization`).
-/
namespace Zarrs.C18
open Zarrs Zarrs.MemConc

/-- **MemoryStore, repaired protocol**: every complete execution is linearizable and the final value is that of
the last write in the linearization order. -/
theorem mem_linearizable (ps : Progs) (i0 : Option Bytes) (sched : List Nat) (hs : ∀ t ∈ sched, t < ps.length)
    (s : State) (h : List Done) (hrun : history .fixed ps i0 sched = some (s, h))
    (hfin : allFinished ps s = true) :
    ∃ order, isLinearization i0 h order (finalValue s) = true := by
  sorry

/-- a reader never observes a value that no writer wrote (no empty / half-updated value): every `get` response of
the repaired protocol is the initial value or the result of applying a prefix-closed sequence of the programs'
writes — a direct corollary of linearizability, stated for the common case of whole-value `set`s -/
theorem mem_get_observes_written (ps : Progs) (i0 : Option Bytes) (sched : List Nat) (hs : ∀ t ∈ sched, t < ps.length)
    (hsets : ∀ p ∈ ps, ∀ op ∈ p, (∀ o v, op ≠ .setPartial o v))
    (s : State) (h : List Done) (hrun : history .fixed ps i0 sched = some (s, h)) (hfin : allFinished ps s = true) :
    ∀ d ∈ h, ∀ b, d.res = .bytes (some b) → d.op = .get →
      (some b = i0 ∨ ∃ p ∈ ps, Op.set b ∈ p) := by
  sorry

/-- the repaired protocol never gets stuck: from every reachable state some schedule finishes all threads -/
theorem mem_can_finish (ps : Progs) (i0 : Option Bytes) (s : State) (hr : Reachable .fixed ps i0 s) :
    ∃ sched s', run .fixed ps s sched = some s' ∧ allFinished ps s' = true := by
  sorry

/-- **The code as found is not linearizable**: a reader observes `Some([])` for a key that was never empty -/
theorem mem_pinned_not_linearizable :
    ∃ sched s h, history .pinned [[.set [1, 2]], [.get]] none sched = some (s, h) ∧
      allFinished [[.set [1, 2]], [.get]] s = true ∧
      linearizable none h (finalValue s) = false ∧
      (∃ d ∈ h, d.res = .bytes (some [])) := by
  sorry

/-- the executable checker used by the driver is sound and complete for `isLinearization` -/
theorem linearizable_iff (a0 : Option Bytes) (ops : List Done) (final : Option Bytes) (hnd : ops.Nodup) :
    linearizable a0 ops final = true ↔ ∃ order, isLinearization a0 ops order final = true := by
  sorry

/-- **FilesystemStore, repaired protocol** (size takes the read lock): complete executions of whole-value
programs are linearizable -/
theorem fs_linearizable (ps : FsConc.Progs) (i0 : Option Bytes) (sched : List Nat) (hs : ∀ t ∈ sched, t < ps.length)
    (hnp : FsConc.noPartial ps = true)
    (s : FsConc.State) (h : List Done) (hrun : FsConc.history .fixed ps i0 sched = some (s, h))
    (hfin : FsConc.allFinished ps s = true) :
    ∃ order, isLinearization i0 h order s.file = true := by
  sorry

/-- **FilesystemStore as found**: `size_key` without the lock observes the truncated file of a `set` in progress -/
theorem fs_pinned_not_linearizable :
    ∃ sched s h, FsConc.history .pinned [[.set [1, 2]], [.size]] (some [7, 7, 7]) sched = some (s, h) ∧
      FsConc.allFinished [[.set [1, 2]], [.size]] s = true ∧
      linearizable (some [7, 7, 7]) h s.file = false := by
  sorry

end Zarrs.C18
