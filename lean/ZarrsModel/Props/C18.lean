import ZarrsModel.Model.MemConc
import ZarrsModel.Model.FsConc
import ZarrsModel.Lemmas.MemConc
/-
C18 — stores are linearizable per key under concurrent access.

`MemConc` / `FsConc` are the lock protocols of `MemoryStore` / `FilesystemStore` for one key, any number of
threads, any programs.  A finished execution is linearizable if its completed operations can be put in a total
order that (i) respects real time, (ii) is a legal run of the atomic register `specStep` producing exactly the
observed responses and (iii) ends in the final stored value (`MemConc.isLinearization`).

Proof method (`Lemmas/MemConc*.lean`): linearization points with ghost state.  `set`/`set_partial` linearize when
they take the cell's write lock (the *logical* value of a write-locked cell already accounts for the pending
write), `erase` linearizes at its map update and first linearizes ("helps") every reader that already holds the
Arc of the cell it orphans, a read hit linearizes at its read unless it was helped, a miss at the map lookup,
`size` at its single step.
-/
namespace Zarrs.C18
open Zarrs Zarrs.MemConc

/-- programs / schedule used to document that the hypotheses below are satisfiable: the `get` of thread 1 takes the
Arc of the cell while thread 0's `set` holds its write lock, the cell is then orphaned by thread 0's `erase`, and
the `get` completes on the orphan; thread 1's `set_partial` re-creates the key while thread 2 reads it -/
def exPs : Progs := [[.set [1, 2], .erase], [.get, .setPartial 1 [9]], [.size, .get]]
def exSched : List Nat := [0, 1, 0, 2, 0, 1, 1, 2, 1, 2]
/-- the same with whole-value writes only -/
def exPsW : Progs := [[.set [1, 2], .erase], [.get, .set [9]], [.size, .get]]

/-- **MemoryStore, repaired protocol**: every complete execution is linearizable and the final value is that of
the last write in the linearization order. -/
theorem mem_linearizable (ps : Progs) (i0 : Option Bytes) (sched : List Nat) (hs : ∀ t ∈ sched, t < ps.length)
    (s : State) (h : List Done) (hrun : history .fixed ps i0 sched = some (s, h))
    (hfin : allFinished ps s = true) :
    ∃ order, isLinearization i0 h order (finalValue s) = true :=
  linearizable_fixed ps i0 sched hs s h hrun hfin

/-- non-vacuity of `mem_linearizable`: a complete execution with 3 threads and 6 overlapping operations -/
example : ∃ s h, history .fixed exPs none exSched = some (s, h) ∧ allFinished exPs s = true ∧
    (∀ t ∈ exSched, t < exPs.length) ∧ h.length = 6 ∧ finalValue s = some [0, 9] := by
  have key : (history .fixed exPs none exSched).map (fun x => (allFinished exPs x.1, x.2.length, finalValue x.1)) =
      some (true, 6, some [0, 9]) := by decide
  cases hh : history .fixed exPs none exSched with
  | none => rw [hh] at key; cases key
  | some x =>
    rw [hh] at key
    simp only [Option.map_some, Option.some.injEq, Prod.mk.injEq] at key
    exact ⟨x.1, x.2, rfl, key.1, by decide, key.2.1, key.2.2⟩

/-- a reader never observes a value that no writer wrote (no empty / half-updated value): every `get` response of
the repaired protocol is the initial value or the result of applying a prefix-closed sequence of the programs'
writes — a direct corollary of linearizability, stated for the common case of whole-value `set`s -/
theorem mem_get_observes_written (ps : Progs) (i0 : Option Bytes) (sched : List Nat) (hs : ∀ t ∈ sched, t < ps.length)
    (hsets : ∀ p ∈ ps, ∀ op ∈ p, (∀ o v, op ≠ .setPartial o v))
    (s : State) (h : List Done) (hrun : history .fixed ps i0 sched = some (s, h)) (hfin : allFinished ps s = true) :
    ∀ d ∈ h, ∀ b, d.res = .bytes (some b) → d.op = .get →
      (some b = i0 ∨ ∃ p ∈ ps, Op.set b ∈ p) :=
  get_observes_written ps i0 sched hs hsets s h hrun hfin

/-- non-vacuity of `mem_get_observes_written`: whole-value programs, a complete execution in which a `get`
returns `some [1, 2]` -/
example : (∀ p ∈ exPsW, ∀ op ∈ p, (∀ o v, op ≠ .setPartial o v)) ∧
    ∃ s h, history .fixed exPsW none exSched = some (s, h) ∧ allFinished exPsW s = true ∧
      (∀ t ∈ exSched, t < exPsW.length) ∧ ∃ d ∈ h, d.res = .bytes (some [1, 2]) ∧ d.op = .get := by
  constructor
  · intro p hp op hop o v
    simp only [exPsW, List.mem_cons, List.not_mem_nil, or_false] at hp
    rcases hp with rfl | rfl | rfl <;>
      (simp only [List.mem_cons, List.not_mem_nil, or_false] at hop; rcases hop with rfl | rfl <;> simp)
  · have key : (history .fixed exPsW none exSched).map (fun x => (allFinished exPsW x.1,
        x.2.any (fun d => d.res == .bytes (some [1, 2]) && d.op == .get))) = some (true, true) := by decide
    cases hh : history .fixed exPsW none exSched with
    | none => rw [hh] at key; cases key
    | some x =>
      rw [hh] at key
      simp only [Option.map_some, Option.some.injEq, Prod.mk.injEq, List.any_eq_true, Bool.and_eq_true,
        beq_iff_eq] at key
      exact ⟨x.1, x.2, rfl, key.1, by decide, key.2⟩

/-- the repaired protocol never gets stuck: from every reachable state some schedule finishes all threads -/
theorem mem_can_finish (ps : Progs) (i0 : Option Bytes) (s : State) (hr : Reachable .fixed ps i0 s) :
    ∃ sched s', run .fixed ps s sched = some s' ∧ allFinished ps s' = true :=
  can_finish ps i0 s hr

/-- non-vacuity of `mem_can_finish`: a reachable state in which thread 0 holds the write lock of a fresh cell and
thread 1 holds its Arc -/
example : Reachable .fixed exPs none (step .fixed exPs (step .fixed exPs (init exPs none) 0) 1) :=
  .step _ 1 (.step _ 0 .init (by decide) (by decide)) (by decide) (by decide)

/-- **The code as found is not linearizable**: a reader observes `Some([])` for a key that was never empty -/
theorem mem_pinned_not_linearizable :
    ∃ sched s h, history .pinned [[.set [1, 2]], [.get]] none sched = some (s, h) ∧
      allFinished [[.set [1, 2]], [.get]] s = true ∧
      linearizable none h (finalValue s) = false ∧
      (∃ d ∈ h, d.res = .bytes (some [])) := by
  refine ⟨[0, 1, 1, 0], _, _, (by decide +kernel : history .pinned [[.set [1, 2]], [.get]] none [0, 1, 1, 0] = some (
    { cells := [[1, 2]], wlock := [none], cur := some 0, pc := [1, 1], ts := [.idle, .idle],
      out := [[.unit], [.bytes (some [])]] },
    [⟨1, 0, .get, .bytes (some []), 1, 2⟩, ⟨0, 0, .set [1, 2], .unit, 0, 3⟩])), ?_, ?_, ?_⟩
  · decide +kernel
  · decide +kernel
  · exact ⟨_, List.mem_cons_self, rfl⟩

/-- the executable checker used by the driver is sound and complete for `isLinearization` -/
theorem linearizable_iff (a0 : Option Bytes) (ops : List Done) (final : Option Bytes) (hnd : ops.Nodup) :
    linearizable a0 ops final = true ↔ ∃ order, isLinearization a0 ops order final = true :=
  linearizable_iff_exists a0 ops final hnd

/-- non-vacuity of `linearizable_iff`: histories are duplicate-free (here: the history of the example execution) -/
example : ∀ x ∈ history .fixed exPs none exSched, x.2.Nodup ∧ x.2.length = 6 := by decide

/-- **FilesystemStore, repaired protocol** (size takes the read lock): complete executions of whole-value
programs are linearizable -/
theorem fs_linearizable (ps : FsConc.Progs) (i0 : Option Bytes) (sched : List Nat) (hs : ∀ t ∈ sched, t < ps.length)
    (hnp : FsConc.noPartial ps = true)
    (s : FsConc.State) (h : List Done) (hrun : FsConc.history .fixed ps i0 sched = some (s, h))
    (hfin : FsConc.allFinished ps s = true) :
    ∃ order, isLinearization i0 h order s.file = true :=
  FsConc.fs_linearizable_aux ps i0 sched hs hnp s h hrun hfin

/-- non-vacuity of `fs_linearizable`: threads 1 and 2 fetch the lock object while thread 0's `set` holds the write
lock; a second `set` overlaps an `erase` and a `get` -/
example : ∃ s h, FsConc.history .fixed FsConc.exPs none FsConc.exSched = some (s, h) ∧
    FsConc.allFinished FsConc.exPs s = true ∧ FsConc.noPartial FsConc.exPs = true ∧
    (∀ t ∈ FsConc.exSched, t < FsConc.exPs.length) ∧ h.length = 6 := by
  have key : (FsConc.history .fixed FsConc.exPs none FsConc.exSched).map
      (fun x => (FsConc.allFinished FsConc.exPs x.1, x.2.length)) = some (true, 6) := by decide
  cases hh : FsConc.history .fixed FsConc.exPs none FsConc.exSched with
  | none => rw [hh] at key; cases key
  | some x =>
    rw [hh] at key
    simp only [Option.map_some, Option.some.injEq, Prod.mk.injEq] at key
    exact ⟨x.1, x.2, rfl, key.1, by decide, by decide, key.2⟩

/-- **FilesystemStore as found**: `size_key` without the lock observes the truncated file of a `set` in progress -/
theorem fs_pinned_not_linearizable :
    ∃ sched s h, FsConc.history .pinned [[.set [1, 2]], [.size]] (some [7, 7, 7]) sched = some (s, h) ∧
      FsConc.allFinished [[.set [1, 2]], [.size]] s = true ∧
      linearizable (some [7, 7, 7]) h s.file = false := by
  refine ⟨[0, 0, 1, 0], _, _, (by decide +kernel :
    FsConc.history .pinned [[.set [1, 2]], [.size]] (some [7, 7, 7]) [0, 0, 1, 0] = some (
      { file := some [1, 2], writer := none, pc := [1, 1], ts := [.idle, .idle], out := [[.unit], [.size (some 0)]] },
      [⟨1, 0, .size, .size (some 0), 2, 2⟩, ⟨0, 0, .set [1, 2], .unit, 0, 3⟩])), ?_, ?_⟩
  · decide +kernel
  · decide +kernel

end Zarrs.C18
