import ZarrsModel.Model.Meta
import ZarrsModel.Model.Hier
import ZarrsModel.Lemmas.Json
import ZarrsModel.Lemmas.Meta
import ZarrsModel.Lemmas.Hier
/-
C13 — metadata and hierarchy persist faithfully.

Documents: `MetaV3`, `AField`, `ArrayDoc`, `GroupDoc` model what `serde` reads and writes; storing is `toText`
(print of `toJ`), opening is `ofText` (parse, then `ofJ`).  Hierarchy: `Hier.children` / `Hier.openNode` model
`Group::children` / `Node::open` over the ordered-map store model of C08.
-/
namespace Zarrs.C13
open Zarrs Zarrs.Json Zarrs.Meta Zarrs.Hier

/-! ### well-formed values (what parsing produces and what the builders create) -/

def objOk (o : Obj) : Prop := wfKVs o ∧ keysDistinct o

def MetaV3.ok (m : MetaV3) : Prop :=
  strOk m.name ∧ (match m.config with | some c => objOk c | none => True)

/-- an additional field as parsing leaves it: an object no longer has a `must_understand` key; anything that is
    not an object must be understood -/
def AField.ok (a : AField) : Prop :=
  a.field.wf ∧ (match a.field with
    | .obj o => lookup o kMustUnderstand = none
    | _ => a.mu = true)

def extraSorted (e : List (Str × AField)) : Prop := (e.map (·.1)).Pairwise (fun a b => strLt a b = true)

def ArrayDoc.ok (d : ArrayDoc) : Prop :=
  (∀ t ∈ d.shape, isU64Tok t = true ∧ tokOk t) ∧ MetaV3.ok d.dataType ∧ MetaV3.ok d.chunkGrid ∧ MetaV3.ok d.cke ∧
  d.fill.wf ∧ (∀ c ∈ d.codecs, MetaV3.ok c) ∧ objOk d.attrs ∧ (∀ c ∈ d.st, MetaV3.ok c) ∧
  (match d.dimNames with | some ns => ∀ n ∈ ns, ∀ s, n = some s → strOk s | none => True) ∧
  (∀ kv ∈ d.extra, strOk kv.1 ∧ AField.ok kv.2 ∧ kv.1 ∉ arrayKeys) ∧ extraSorted d.extra

def GroupDoc.ok (d : GroupDoc) : Prop :=
  objOk d.attrs ∧ (∀ kv ∈ d.extra, strOk kv.1 ∧ AField.ok kv.2 ∧ kv.1 ∉ groupKeys) ∧ extraSorted d.extra

/-! ### extension metadata -/

/-- **what is written for a `MetadataV3` reads back as the same value** — name as given, configuration (absent,
empty or not) and `must_understand` included -/
theorem metaV3_roundtrip (m : MetaV3) (h : MetaV3.ok m) : MetaV3.ofJ m.toJ = some m := by
  sorry
/-- **re-serialising a parsed `MetadataV3` is a fixed point** -/
theorem metaV3_fixed (j : J) (m : MetaV3) (h : MetaV3.ofJ j = some m) (hj : j.wf) :
    MetaV3.ofJ m.toJ = some m := by
  sorry
/-- the three forms of a name are read as written: string, object, object with `must_understand: false` -/
theorem metaV3_mu_survives (n : Str) (c : Option Obj) :
    MetaV3.ofJ (MetaV3.toJ ⟨n, c, false⟩) = some ⟨n, c, false⟩ := by
  sorry

/-- **an additional field reads back as written**, with its keys in the same order -/
theorem afield_roundtrip (a : AField) (h : AField.ok a) : AField.ofJ a.toJ = a := by
  sorry
/-- parsing leaves additional fields in that form, so re-serialising is a fixed point -/
theorem afield_ofJ_ok (j : J) (h : j.wf) : AField.ok (AField.ofJ j) := by
  sorry
/-- a field is exempt from understanding exactly when it is an object carrying `"must_understand": false` -/
theorem afield_mu_false_iff (j : J) :
    (AField.ofJ j).mu = false ↔ ∃ o, j = .obj o ∧ lookup o kMustUnderstand = some (.bool false) := by
  sorry

/-! ### array and group documents -/

/-- **storing then opening gives the same array metadata** (at the JSON level): shape, data type / chunk grid /
chunk key encoding / codec / storage transformer names and configurations as given, fill value, attributes in
order, dimension names, additional fields -/
theorem arrayDoc_roundtrip (d : ArrayDoc) (h : ArrayDoc.ok d) : ArrayDoc.ofJ d.toJ = some d := by
  sorry
/-- **the same through the stored bytes** -/
theorem arrayDoc_text_roundtrip (d : ArrayDoc) (h : ArrayDoc.ok d) : ArrayDoc.ofText d.toText = some d := by
  sorry
/-- **parsing yields a well-formed document**, hence **re-serialising a parsed document is a fixed point** -/
theorem arrayDoc_ofJ_ok (j : J) (hj : j.wf) (d : ArrayDoc) (h : ArrayDoc.ofJ j = some d) : ArrayDoc.ok d := by
  sorry
theorem arrayDoc_fixed (j : J) (hj : j.wf) (d : ArrayDoc) (h : ArrayDoc.ofJ j = some d) :
    ArrayDoc.ofJ d.toJ = some d ∧ (∀ d', ArrayDoc.ofJ d.toJ = some d' → d'.toJ = d.toJ) := by
  sorry

theorem groupDoc_roundtrip (d : GroupDoc) (h : GroupDoc.ok d) : GroupDoc.ofJ d.toJ = some d := by
  sorry
theorem groupDoc_text_roundtrip (d : GroupDoc) (h : GroupDoc.ok d) : GroupDoc.ofText d.toText = some d := by
  sorry
theorem groupDoc_ofJ_ok (j : J) (hj : j.wf) (d : GroupDoc) (h : GroupDoc.ofJ j = some d) : GroupDoc.ok d := by
  sorry

/-- **what a parsed array document holds is what the text said**: every known field is the value under its key,
and every other key is an additional field -/
theorem arrayDoc_fields (o : Obj) (d : ArrayDoc) (h : ArrayDoc.ofJ (.obj o) = some d) :
    lookup o (ascii "shape") = some (.arr (d.shape.map .num)) ∧
    lookup o (ascii "fill_value") = some d.fill ∧
    (lookup o (ascii "attributes") = some (.obj d.attrs) ∨ (lookup o (ascii "attributes") = none ∧ d.attrs = [])) ∧
    (∀ k v, (k, v) ∈ o → k ∉ arrayKeys → keysDistinct o → (k, AField.ofJ v) ∈ d.extra) ∧
    (∀ k a, (k, a) ∈ d.extra → ∃ v, (k, v) ∈ o ∧ k ∉ arrayKeys ∧ a = AField.ofJ v) := by
  sorry

/-- **rejection**: a document is opened only if no additional field must be understood, and shape, chunk grid and
dimension names agree in rank -/
theorem open_demands (d : ArrayDoc) (gridRank : Nat) (h : structOk d gridRank = true) :
    (∀ kv ∈ d.extra, kv.2.mu = false) ∧ gridRank = d.shape.length ∧
    (∀ ns, d.dimNames = some ns → ns.length = d.shape.length) := by
  sorry
/-- an unknown top-level field without `"must_understand": false` makes the document unopenable -/
theorem unknown_field_rejected (o : Obj) (d : ArrayDoc) (gridRank : Nat) (h : ArrayDoc.ofJ (.obj o) = some d)
    (hd : keysDistinct o) (k : Str) (v : J) (hk : (k, v) ∈ o) (hu : k ∉ arrayKeys)
    (hv : ¬ ∃ o', v = .obj o' ∧ lookup o' kMustUnderstand = some (.bool false)) :
    structOk d gridRank = false := by
  sorry
theorem group_unknown_field_rejected (o : Obj) (d : GroupDoc) (h : GroupDoc.ofJ (.obj o) = some d)
    (hd : keysDistinct o) (k : Str) (v : J) (hk : (k, v) ∈ o) (hu : k ∉ groupKeys)
    (hv : ¬ ∃ o', v = .obj o' ∧ lookup o' kMustUnderstand = some (.bool false)) :
    groupOk d = false := by
  sorry

/-! ### hierarchy -/

/-- stores the theorems are about: sorted, hierarchy-shaped keys, no unreadable metadata anywhere -/
def readable (r : Reader) (m : KV) : Prop := ∀ pre, getMeta r m pre ≠ .invalid

/-- **children**: the direct children reported for a prefix are exactly the child prefixes (whose store prefix does not start with the reserved `__`) at
which metadata is stored, each with the kind its metadata has -/
theorem children_exact (r : Reader) (m : KV) (hs : m.sorted) (hh : hierarchyShaped m.keys) (hr : readable r m)
    (pre : Key) (hp : validPrefixB pre = true) :
    ∃ ns, children r m false pre = some ns ∧
      ∀ q k, (q, k) ∈ ns ↔ (isChildPrefix pre q = true ∧ ¬ ("__".toList.isPrefixOf q = true) ∧
        getMeta r m q = .node k) := by
  sorry

/-- every prefix strictly between `pre` and `q` holds group metadata -/
def groupsBetween (r : Reader) (m : KV) (pre q : Key) : Prop :=
  ∀ mid : Key, pre.isPrefixOf mid = true → mid.isPrefixOf q = true → mid ≠ q → mid.length > pre.length →
    mid.getLast? = some '/' → ∃ k, getMeta r m mid = .node k ∧ k.isGroup = true

/-- the store prefix does not start with the reserved `__` (the code tests the whole prefix) -/
def noReserved (_pre q : Key) : Prop := ¬ ("__".toList.isPrefixOf q = true)

/-- **the whole tree**: the recursive listing beneath a prefix is exactly the set of prefixes with stored metadata
that are reachable through groups, each with its kind and its full prefix -/
theorem tree_exact (r : Reader) (m : KV) (hs : m.sorted) (hh : hierarchyShaped m.keys) (hr : readable r m)
    (pre : Key) (hp : validPrefixB pre = true) :
    ∃ ns, children r m true pre = some ns ∧
      ∀ q k, (q, k) ∈ ns ↔ (pre.isPrefixOf q = true ∧ q ≠ pre ∧ validPrefixB q = true ∧ getMeta r m q = .node k ∧
        groupsBetween r m pre q ∧ noReserved pre q) := by
  sorry

/-- **`Node::open`** returns the node and, for a group, its whole tree; it fails exactly when there is no metadata -/
theorem openNode_exact (r : Reader) (m : KV) (hs : m.sorted) (hh : hierarchyShaped m.keys) (hr : readable r m)
    (pre : Key) (hp : validPrefixB pre = true) :
    (getMeta r m pre = .missing → openNode r m pre = none) ∧
    (∀ k, getMeta r m pre = .node k → ∃ ns, openNode r m pre = some ns ∧ (pre, k) ∈ ns ∧
      (k.isGroup = false → ns = [(pre, k)])) := by
  sorry

/-- **existence** is the presence of one of the three metadata keys -/
theorem nodeExists_iff (r : Reader) (m : KV) (pre : Key) (hr : readable r m) :
    nodeExists m pre = true ↔ ∃ k, getMeta r m pre = .node k := by
  sorry

/-- erasing a node's prefix removes it and everything beneath from every listing, and nothing else -/
theorem erase_prefix_exact (r : Reader) (m : KV) (p q : Key) (hp : p.getLast? = some '/') (hq : ¬ (p.isPrefixOf q = true)) :
    getMeta r (Spec.step m (.erasePrefix p)).1 q = getMeta r m q := by
  sorry
theorem erase_prefix_gone (r : Reader) (m : KV) (p q : Key) (hq : p.isPrefixOf q = true) :
    getMeta r (Spec.step m (.erasePrefix p)).1 q = .missing := by
  sorry

end Zarrs.C13
