import ZarrsModel.Model.Meta
import ZarrsModel.Model.Hier
import ZarrsModel.Lemmas.Json
import ZarrsModel.Lemmas.Meta
import ZarrsModel.Lemmas.MetaWf
import ZarrsModel.Lemmas.Hier
/-
C13 — metadata and hierarchy persist faithfully.

Documents: `MetaV3`, `AField`, `ArrayDoc`, `GroupDoc` model what `serde` reads and writes; storing is `toText`
(print of `toJ`), opening is `ofText` (parse, then `ofJ`).  Hierarchy: `Hier.children` / `Hier.openNode` model
`Group::children` / `Node::open` over the ordered-map store model of C08.
-/
namespace Zarrs.C13
open Zarrs Zarrs.Json Zarrs.Meta Zarrs.Hier

/-! ### well-formed values (what parsing produces and what the builders create) -/

def objOk (o : Obj) : Prop := wfKVs o ∧ keysDistinct o

def MetaV3.ok (m : MetaV3) : Prop :=
  strOk m.name ∧ (match m.config with | some c => objOk c | none => True)

/-- an additional field as parsing leaves it: an object no longer has a `must_understand` key; anything that is
    not an object must be understood -/
def AField.ok (a : AField) : Prop :=
  a.field.wf ∧ (match a.field with
    | .obj o => lookup o kMustUnderstand = none
    | _ => a.mu = true)

def extraSorted (e : List (Str × AField)) : Prop := (e.map (·.1)).Pairwise (fun a b => strLt a b = true)

def ArrayDoc.ok (d : ArrayDoc) : Prop :=
  (∀ t ∈ d.shape, isU64Tok t = true ∧ tokOk t) ∧ MetaV3.ok d.dataType ∧ MetaV3.ok d.chunkGrid ∧ MetaV3.ok d.cke ∧
  d.fill.wf ∧ (∀ c ∈ d.codecs, MetaV3.ok c) ∧ objOk d.attrs ∧ (∀ c ∈ d.st, MetaV3.ok c) ∧
  (match d.dimNames with | some ns => ∀ n ∈ ns, ∀ s, n = some s → strOk s | none => True) ∧
  (∀ kv ∈ d.extra, strOk kv.1 ∧ AField.ok kv.2 ∧ kv.1 ∉ arrayKeys) ∧ extraSorted d.extra

def GroupDoc.ok (d : GroupDoc) : Prop :=
  objOk d.attrs ∧ (∀ kv ∈ d.extra, strOk kv.1 ∧ AField.ok kv.2 ∧ kv.1 ∉ groupKeys) ∧ extraSorted d.extra

/-! bridges to the lemma library's formulations -/

theorem metaV3_ok_iff (m : MetaV3) : MetaV3.ok m ↔ MetaV3.good m := by
  obtain ⟨n, c, mu⟩ := m
  cases c with
  | none => simp [MetaV3.ok, MetaV3.good]
  | some c => simp [MetaV3.ok, MetaV3.good, objOk]

theorem afield_ok_iff (a : AField) : AField.ok a ↔ AField.good a := by
  obtain ⟨f, mu⟩ := a
  cases f <;> exact Iff.rfl

theorem arrayDoc_ok_iff (d : ArrayDoc) : ArrayDoc.ok d ↔ ArrayDoc.good d := by
  constructor
  · rintro ⟨h1, h2, h3, h4, h5, h6, h7, h8, h9, h10, h11⟩
    refine ⟨h1, (metaV3_ok_iff _).1 h2, (metaV3_ok_iff _).1 h3, (metaV3_ok_iff _).1 h4, h5,
      fun c hc => (metaV3_ok_iff _).1 (h6 c hc), h7, fun c hc => (metaV3_ok_iff _).1 (h8 c hc), ?_,
      fun kv hkv => ⟨(h10 kv hkv).1, (afield_ok_iff _).1 (h10 kv hkv).2.1, (h10 kv hkv).2.2⟩, h11⟩
    intro ns hns
    rw [hns] at h9
    exact h9
  · intro h
    refine ⟨h.shape, (metaV3_ok_iff _).2 h.dt, (metaV3_ok_iff _).2 h.cg, (metaV3_ok_iff _).2 h.ck, h.fill,
      fun c hc => (metaV3_ok_iff _).2 (h.codecs c hc), h.attrs, fun c hc => (metaV3_ok_iff _).2 (h.st c hc), ?_,
      fun kv hkv => ⟨(h.extra kv hkv).1, (afield_ok_iff _).2 (h.extra kv hkv).2.1, (h.extra kv hkv).2.2⟩, h.sorted⟩
    cases hdn : d.dimNames with
    | none => trivial
    | some ns => exact h.dn ns hdn

theorem groupDoc_ok_iff (d : GroupDoc) : GroupDoc.ok d ↔ GroupDoc.good d := by
  constructor
  · rintro ⟨h1, h2, h3⟩
    exact ⟨h1, fun kv hkv => ⟨(h2 kv hkv).1, (afield_ok_iff _).1 (h2 kv hkv).2.1, (h2 kv hkv).2.2⟩, h3⟩
  · intro h
    exact ⟨h.attrs, fun kv hkv => ⟨(h.extra kv hkv).1, (afield_ok_iff _).2 (h.extra kv hkv).2.1, (h.extra kv hkv).2.2⟩,
      h.sorted⟩

/-! ### concrete values documenting that the hypotheses below are satisfiable -/

/-- `{"name":"regular","configuration":{"chunk_shape":[2,3]},"must_understand":false}` -/
def exMeta : MetaV3 := ⟨ascii "regular", some [(ascii "chunk_shape", .arr [.num ['2'], .num ['3']])], false⟩
theorem exMeta_ok : MetaV3.ok exMeta := by
  refine ⟨strOk_ascii _ (by decide), ?_⟩
  show objOk _
  refine ⟨?_, by unfold keysDistinct; decide⟩
  simp only [wfKVs, J.wf, wfList, and_true]
  exact ⟨strOk_ascii _ (by decide), tokOk_of_natTok 2 _ (by decide), tokOk_of_natTok 3 _ (by decide)⟩

/-- an additional field `{"a":1}` that need not be understood -/
def exField : AField := ⟨.obj [(ascii "a", .num ['1'])], false⟩
theorem exField_ok : AField.ok exField := by
  refine ⟨?_, (lookup_eq_none_iff _ _).2 (by decide)⟩
  show (J.obj _).wf
  simp only [J.wf, wfKVs, and_true]
  exact ⟨⟨strOk_ascii _ (by decide), tokOk_of_natTok 1 _ (by decide)⟩, by unfold keysDistinct; decide⟩

/-- a 4x6 `uint8` array with attributes, dimension names and two additional fields (one exempt from
understanding, one not) -/
def exDoc : ArrayDoc :=
  { shape := [['4'], ['6']], dataType := ⟨ascii "uint8", none, true⟩, chunkGrid := exMeta,
    cke := ⟨ascii "default", none, true⟩, fill := .num ['0'], codecs := [⟨ascii "bytes", none, false⟩],
    attrs := [(ascii "title", .str (ascii "demo"))], st := [],
    dimNames := some [some (ascii "y"), none],
    extra := [(ascii "my_ext", exField), (ascii "zz", ⟨.str (ascii "v"), true⟩)] }

theorem exDoc_ok : ArrayDoc.ok exDoc := by
  refine ⟨?_, ⟨strOk_ascii _ (by decide), trivial⟩, exMeta_ok, ⟨strOk_ascii _ (by decide), trivial⟩,
    tokOk_of_natTok 0 _ (by decide), ?_, ?_, ?_, ?_, ?_, ?_⟩
  · intro t ht
    simp only [exDoc, List.mem_cons, List.not_mem_nil, or_false] at ht
    rcases ht with rfl | rfl
    · exact ⟨by decide, tokOk_of_natTok 4 _ (by decide)⟩
    · exact ⟨by decide, tokOk_of_natTok 6 _ (by decide)⟩
  · intro c hc
    simp only [exDoc, List.mem_cons, List.not_mem_nil, or_false] at hc
    subst hc; exact ⟨strOk_ascii _ (by decide), trivial⟩
  · refine ⟨?_, by unfold keysDistinct; decide⟩
    simp only [exDoc, wfKVs, J.wf, and_true]
    exact ⟨strOk_ascii _ (by decide), strOk_ascii _ (by decide)⟩
  · intro c hc; cases hc
  · show ∀ n ∈ [some (ascii "y"), none], ∀ s, n = some s → strOk s
    intro n hn s hs
    simp only [List.mem_cons, List.not_mem_nil, or_false] at hn
    rcases hn with rfl | rfl
    · cases hs; exact strOk_ascii _ (by decide)
    · cases hs
  · intro kv hkv
    simp only [exDoc, List.mem_cons, List.not_mem_nil, or_false] at hkv
    rcases hkv with rfl | rfl
    · exact ⟨strOk_ascii _ (by decide), exField_ok, by decide⟩
    · exact ⟨strOk_ascii _ (by decide), ⟨strOk_ascii _ (by decide), rfl⟩, by decide⟩
  · unfold extraSorted; decide

/-- a group with attributes and an additional field -/
def exGroup : GroupDoc := ⟨[(ascii "title", .str (ascii "demo"))], [(ascii "my_ext", exField), (ascii "zz", ⟨.str (ascii "v"), true⟩)]⟩

theorem exGroup_ok : GroupDoc.ok exGroup := by
  refine ⟨⟨?_, by unfold keysDistinct; decide⟩, ?_, by unfold extraSorted; decide⟩
  · simp only [exGroup, wfKVs, J.wf, and_true]
    exact ⟨strOk_ascii _ (by decide), strOk_ascii _ (by decide)⟩
  · intro kv hkv
    simp only [exGroup, List.mem_cons, List.not_mem_nil, or_false] at hkv
    rcases hkv with rfl | rfl
    · exact ⟨strOk_ascii _ (by decide), exField_ok, by decide⟩
    · exact ⟨strOk_ascii _ (by decide), ⟨strOk_ascii _ (by decide), rfl⟩, by decide⟩

/-! ### extension metadata -/

-- (`h` is kept from the stated property; the proof does not need it)
set_option linter.unusedVariables false in
/-- **what is written for a `MetadataV3` reads back as the same value** — name as given, configuration (absent,
empty or not) and `must_understand` included -/
theorem metaV3_roundtrip (m : MetaV3) (h : MetaV3.ok m) : MetaV3.ofJ m.toJ = some m := by
  exact metaV3_ofJ_toJ m
example : MetaV3.ok exMeta := exMeta_ok
-- (`h`, `hj` are kept from the stated property; the proof does not need them)
set_option linter.unusedVariables false in
/-- **re-serialising a parsed `MetadataV3` is a fixed point** -/
theorem metaV3_fixed (j : J) (m : MetaV3) (h : MetaV3.ofJ j = some m) (hj : j.wf) :
    MetaV3.ofJ m.toJ = some m := by
  exact metaV3_ofJ_toJ m
example : ∃ j m, MetaV3.ofJ j = some m ∧ j.wf :=
  ⟨exMeta.toJ, exMeta, metaV3_ofJ_toJ exMeta, metaV3_toJ_wf exMeta ((metaV3_ok_iff _).1 exMeta_ok)⟩
/-- the three forms of a name are read as written: string, object, object with `must_understand: false` -/
theorem metaV3_mu_survives (n : Str) (c : Option Obj) :
    MetaV3.ofJ (MetaV3.toJ ⟨n, c, false⟩) = some ⟨n, c, false⟩ := by
  exact metaV3_ofJ_toJ _

/-- **an additional field reads back as written**, with its keys in the same order -/
theorem afield_roundtrip (a : AField) (h : AField.ok a) : AField.ofJ a.toJ = a := by
  exact afield_ofJ_toJ a ((afield_ok_iff a).1 h).2
example : AField.ok exField := exField_ok
/-- parsing leaves additional fields in that form, so re-serialising is a fixed point -/
theorem afield_ofJ_ok (j : J) (h : j.wf) : AField.ok (AField.ofJ j) := by
  exact (afield_ok_iff _).2 (afield_ofJ_good j h)
example : (AField.toJ exField).wf := afield_toJ_wf exField ((afield_ok_iff _).1 exField_ok)
/-- a field is exempt from understanding exactly when it is an object carrying `"must_understand": false` -/
theorem afield_mu_false_iff (j : J) :
    (AField.ofJ j).mu = false ↔ ∃ o, j = .obj o ∧ lookup o kMustUnderstand = some (.bool false) := by
  exact afield_mu_false_iff' j

/-! ### array and group documents -/

/-- **storing then opening gives the same array metadata** (at the JSON level): shape, data type / chunk grid /
chunk key encoding / codec / storage transformer names and configurations as given, fill value, attributes in
order, dimension names, additional fields -/
theorem arrayDoc_roundtrip (d : ArrayDoc) (h : ArrayDoc.ok d) : ArrayDoc.ofJ d.toJ = some d := by
  exact arrayDoc_roundtrip_good d ((arrayDoc_ok_iff d).1 h)
example : ArrayDoc.ok exDoc := exDoc_ok
/-- **the same through the stored bytes** -/
theorem arrayDoc_text_roundtrip (d : ArrayDoc) (h : ArrayDoc.ok d) : ArrayDoc.ofText d.toText = some d := by
  exact arrayDoc_text_roundtrip_good d ((arrayDoc_ok_iff d).1 h)
example : ArrayDoc.ok exDoc := exDoc_ok
/-- **parsing yields a well-formed document**, hence **re-serialising a parsed document is a fixed point** -/
theorem arrayDoc_ofJ_ok (j : J) (hj : j.wf) (d : ArrayDoc) (h : ArrayDoc.ofJ j = some d) : ArrayDoc.ok d := by
  exact (arrayDoc_ok_iff d).2 (arrayDoc_ofJ_good j hj d h)
example : ∃ j d, j.wf ∧ ArrayDoc.ofJ j = some d :=
  ⟨exDoc.toJ, exDoc, arrayDoc_toJ_wf exDoc ((arrayDoc_ok_iff _).1 exDoc_ok), arrayDoc_roundtrip exDoc exDoc_ok⟩
theorem arrayDoc_fixed (j : J) (hj : j.wf) (d : ArrayDoc) (h : ArrayDoc.ofJ j = some d) :
    ArrayDoc.ofJ d.toJ = some d ∧ (∀ d', ArrayDoc.ofJ d.toJ = some d' → d'.toJ = d.toJ) := by
  have hr := arrayDoc_roundtrip_good d (arrayDoc_ofJ_good j hj d h)
  refine ⟨hr, ?_⟩
  intro d' hd'
  rw [hr] at hd'
  cases hd'
  rfl
example : ∃ j d, j.wf ∧ ArrayDoc.ofJ j = some d :=
  ⟨exDoc.toJ, exDoc, arrayDoc_toJ_wf exDoc ((arrayDoc_ok_iff _).1 exDoc_ok), arrayDoc_roundtrip exDoc exDoc_ok⟩

theorem groupDoc_roundtrip (d : GroupDoc) (h : GroupDoc.ok d) : GroupDoc.ofJ d.toJ = some d := by
  exact groupDoc_roundtrip_good d ((groupDoc_ok_iff d).1 h)
example : GroupDoc.ok exGroup := exGroup_ok
theorem groupDoc_text_roundtrip (d : GroupDoc) (h : GroupDoc.ok d) : GroupDoc.ofText d.toText = some d := by
  exact groupDoc_text_roundtrip_good d ((groupDoc_ok_iff d).1 h)
example : GroupDoc.ok exGroup := exGroup_ok
theorem groupDoc_ofJ_ok (j : J) (hj : j.wf) (d : GroupDoc) (h : GroupDoc.ofJ j = some d) : GroupDoc.ok d := by
  exact (groupDoc_ok_iff d).2 (groupDoc_ofJ_good j hj d h)
example : ∃ j d, j.wf ∧ GroupDoc.ofJ j = some d :=
  ⟨exGroup.toJ, exGroup, groupDoc_toJ_wf exGroup ((groupDoc_ok_iff _).1 exGroup_ok), groupDoc_roundtrip exGroup exGroup_ok⟩

/-- **what a parsed array document holds is what the text said**: every known field is the value under its key,
and every other key is an additional field -/
theorem arrayDoc_fields (o : Obj) (d : ArrayDoc) (h : ArrayDoc.ofJ (.obj o) = some d) :
    lookup o (ascii "shape") = some (.arr (d.shape.map .num)) ∧
    lookup o (ascii "fill_value") = some d.fill ∧
    (lookup o (ascii "attributes") = some (.obj d.attrs) ∨ (lookup o (ascii "attributes") = none ∧ d.attrs = [])) ∧
    (∀ k v, (k, v) ∈ o → k ∉ arrayKeys → keysDistinct o → (k, AField.ofJ v) ∈ d.extra) ∧
    (∀ k a, (k, a) ∈ d.extra → ∃ v, (k, v) ∈ o ∧ k ∉ arrayKeys ∧ a = AField.ofJ v) := by
  have hi := arrayDoc_ofJ_inv o d h
  refine ⟨hi.shape, hi.fill, ?_, ?_, ?_⟩
  · rcases hi.attrs with ⟨h1, h2⟩ | h1
    · exact Or.inr ⟨h1, h2⟩
    · exact Or.inl h1
  · intro k v hkv hk hd
    rw [hi.extra]
    exact extrasOf_mem arrayKeys o hd k v hkv hk
  · intro k a hka
    rw [hi.extra] at hka
    obtain ⟨v, hv, hk, e⟩ := mem_extrasOf arrayKeys o (k, a) hka
    exact ⟨v, hv, hk, e⟩
example : ∃ o d, ArrayDoc.ofJ (.obj o) = some d := ⟨exDoc.kvs, exDoc, arrayDoc_roundtrip exDoc exDoc_ok⟩

/-- **rejection**: a document is opened only if no additional field must be understood, and shape, chunk grid and
dimension names agree in rank -/
theorem open_demands (d : ArrayDoc) (gridRank : Nat) (h : structOk d gridRank = true) :
    (∀ kv ∈ d.extra, kv.2.mu = false) ∧ gridRank = d.shape.length ∧
    (∀ ns, d.dimNames = some ns → ns.length = d.shape.length) := by
  unfold structOk at h
  simp only [Bool.and_eq_true, List.all_eq_true, Bool.not_eq_true', beq_iff_eq] at h
  obtain ⟨⟨h1, h2⟩, h3⟩ := h
  refine ⟨h1, h2, ?_⟩
  intro ns hns
  rw [hns] at h3
  simpa using h3
example : structOk { exDoc with extra := [(ascii "my_ext", exField)] } 2 = true := by decide
/-- an unknown top-level field without `"must_understand": false` makes the document unopenable -/
theorem unknown_field_rejected (o : Obj) (d : ArrayDoc) (gridRank : Nat) (h : ArrayDoc.ofJ (.obj o) = some d)
    (hd : keysDistinct o) (k : Str) (v : J) (hk : (k, v) ∈ o) (hu : k ∉ arrayKeys)
    (hv : ¬ ∃ o', v = .obj o' ∧ lookup o' kMustUnderstand = some (.bool false)) :
    structOk d gridRank = false := by
  have hi := arrayDoc_ofJ_inv o d h
  have hm : (k, AField.ofJ v) ∈ d.extra := by
    rw [hi.extra]; exact extrasOf_mem arrayKeys o hd k v hk hu
  have hmu : (AField.ofJ v).mu = true := by
    cases hb : (AField.ofJ v).mu with
    | true => rfl
    | false => exact absurd ((afield_mu_false_iff' v).1 hb) hv
  unfold structOk
  have : d.extra.all (fun kv => !kv.2.mu) = false := by
    rw [List.all_eq_false]
    exact ⟨_, hm, by simp [hmu]⟩
  rw [this]
  rfl
example : ∃ o d k v, ArrayDoc.ofJ (.obj o) = some d ∧ keysDistinct o ∧ (k, v) ∈ o ∧ k ∉ arrayKeys ∧
    ¬ ∃ o', v = .obj o' ∧ lookup o' kMustUnderstand = some (.bool false) :=
  ⟨exDoc.kvs, exDoc, ascii "zz", .str (ascii "v"), arrayDoc_roundtrip exDoc exDoc_ok,
    ((obj_wf_iff _).1 (arrayDoc_toJ_wf exDoc ((arrayDoc_ok_iff _).1 exDoc_ok))).2,
    by simp [ArrayDoc.kvs, extraKVs, exDoc, AField.toJ], by decide, by rintro ⟨o', h, _⟩; cases h⟩
theorem group_unknown_field_rejected (o : Obj) (d : GroupDoc) (h : GroupDoc.ofJ (.obj o) = some d)
    (hd : keysDistinct o) (k : Str) (v : J) (hk : (k, v) ∈ o) (hu : k ∉ groupKeys)
    (hv : ¬ ∃ o', v = .obj o' ∧ lookup o' kMustUnderstand = some (.bool false)) :
    groupOk d = false := by
  have hi := groupDoc_ofJ_inv o d h
  have hm : (k, AField.ofJ v) ∈ d.extra := by
    rw [hi.extra]; exact extrasOf_mem groupKeys o hd k v hk hu
  have hmu : (AField.ofJ v).mu = true := by
    cases hb : (AField.ofJ v).mu with
    | true => rfl
    | false => exact absurd ((afield_mu_false_iff' v).1 hb) hv
  unfold groupOk
  rw [List.all_eq_false]
  exact ⟨_, hm, by simp [hmu]⟩
example : ∃ o d k v, GroupDoc.ofJ (.obj o) = some d ∧ keysDistinct o ∧ (k, v) ∈ o ∧ k ∉ groupKeys ∧
    ¬ ∃ o', v = .obj o' ∧ lookup o' kMustUnderstand = some (.bool false) :=
  ⟨exGroup.kvs, exGroup, ascii "zz", .str (ascii "v"), groupDoc_roundtrip exGroup exGroup_ok,
    ((obj_wf_iff _).1 (groupDoc_toJ_wf exGroup ((groupDoc_ok_iff _).1 exGroup_ok))).2,
    by simp [GroupDoc.kvs, extraKVs, exGroup, AField.toJ], by decide, by rintro ⟨o', h, _⟩; cases h⟩

/-! ### hierarchy -/

/-- stores the theorems are about: sorted, hierarchy-shaped keys, no unreadable metadata anywhere -/
def readable (r : Reader) (m : KV) : Prop := ∀ pre, getMeta r m pre ≠ .invalid

/-- a small store: root group, group `a` with a V3 group `b` (holding only chunk data `c/0`), a V2 group `c` with a
    V2 array `d`, and a directory `x` without metadata; value `[1]` reads as a group, `[2]` as an array -/
def exStore : KV :=
  [("a/b/c/0".toList, [2]), ("a/b/zarr.json".toList, [1]), ("a/c/.zgroup".toList, [1]), ("a/c/d/.zarray".toList, [2]),
   ("a/x/file".toList, [1]), ("a/zarr.json".toList, [1]), ("zarr.json".toList, [1])]
def exReader : Reader :=
  { cls := fun v => if v == [1] then some true else if v == [2] then some false else none,
    okA := fun _ => true, okG := fun _ => true, okAttrs := fun _ => true }
theorem exStore_ok : exStore.sorted ∧ hierarchyShaped exStore.keys ∧ readable exReader exStore ∧
    validPrefixB "a/".toList = true :=
  ⟨by unfold KV.sorted; decide, by unfold hierarchyShaped; decide,
    readable_of_values exReader exStore (by decide), by decide⟩

-- (`hs` is kept from the stated property; the proof does not need it)
set_option linter.unusedVariables false in
/-- **children**: the direct children reported for a prefix are exactly the child prefixes (whose store prefix does not start with the reserved `__`) at
which metadata is stored, each with the kind its metadata has -/
theorem children_exact (r : Reader) (m : KV) (hs : m.sorted) (hh : hierarchyShaped m.keys) (hr : readable r m)
    (pre : Key) (hp : validPrefixB pre = true) :
    ∃ ns, children r m false pre = some ns ∧
      ∀ q k, (q, k) ∈ ns ↔ (isChildPrefix pre q = true ∧ ¬ ("__".toList.isPrefixOf q = true) ∧
        getMeta r m q = .node k) := by
  obtain ⟨ns, h1, h2⟩ := children_false r m hh.1 hr pre (validPrefixB_dirShaped pre hp)
  refine ⟨ns, h1, ?_⟩
  intro q k
  rw [h2, isChildPrefix_iff]
example : exStore.sorted ∧ hierarchyShaped exStore.keys ∧ readable exReader exStore ∧
    validPrefixB "a/".toList = true := exStore_ok

/-- on the example store: `a/` has exactly the children `a/b/` (V3 group) and `a/c/` (V2 group); `a/x/` holds no
    metadata and is not listed -/
example : ∃ ns, children exReader exStore false "a/".toList = some ns ∧
    ("a/b/".toList, Kind.group3) ∈ ns ∧ ("a/c/".toList, Kind.group2) ∈ ns ∧ ∀ k, ("a/x/".toList, k) ∉ ns := by
  obtain ⟨ns, h1, h2⟩ := children_exact exReader exStore exStore_ok.1 exStore_ok.2.1 exStore_ok.2.2.1 _ exStore_ok.2.2.2
  refine ⟨ns, h1, (h2 _ _).2 (by decide), (h2 _ _).2 (by decide), fun k hk => ?_⟩
  have := ((h2 _ _).1 hk).2.2
  revert this; cases k <;> decide

/-- every prefix strictly between `pre` and `q` holds group metadata -/
def groupsBetween (r : Reader) (m : KV) (pre q : Key) : Prop :=
  ∀ mid : Key, pre.isPrefixOf mid = true → mid.isPrefixOf q = true → mid ≠ q → mid.length > pre.length →
    mid.getLast? = some '/' → ∃ k, getMeta r m mid = .node k ∧ k.isGroup = true

/-- the store prefix does not start with the reserved `__` (the code tests the whole prefix) -/
def noReserved (_pre q : Key) : Prop := ¬ ("__".toList.isPrefixOf q = true)

-- (`hs` is kept from the stated property; the proof does not need it)
set_option linter.unusedVariables false in
/-- **the whole tree**: the recursive listing beneath a prefix is exactly the set of prefixes with stored metadata
that are reachable through groups, each with its kind and its full prefix -/
theorem tree_exact (r : Reader) (m : KV) (hs : m.sorted) (hh : hierarchyShaped m.keys) (hr : readable r m)
    (pre : Key) (hp : validPrefixB pre = true) :
    ∃ ns, children r m true pre = some ns ∧
      ∀ q k, (q, k) ∈ ns ↔ (pre.isPrefixOf q = true ∧ q ≠ pre ∧ validPrefixB q = true ∧ getMeta r m q = .node k ∧
        groupsBetween r m pre q ∧ noReserved pre q) := by
  obtain ⟨ns, h1, h2⟩ := children_true r m hh.1 hr pre (validPrefixB_dirShaped pre hp)
  refine ⟨ns, h1, ?_⟩
  intro q k
  rw [h2]
  exact Iff.rfl
example : exStore.sorted ∧ hierarchyShaped exStore.keys ∧ readable exReader exStore ∧
    validPrefixB "a/".toList = true := exStore_ok

-- (`hs`, `hh`, `hp` are kept from the stated property; the proof does not need them)
set_option linter.unusedVariables false in
/-- **`Node::open`** returns the node and, for a group, its whole tree; it fails exactly when there is no metadata -/
theorem openNode_exact (r : Reader) (m : KV) (hs : m.sorted) (hh : hierarchyShaped m.keys) (hr : readable r m)
    (pre : Key) (hp : validPrefixB pre = true) :
    (getMeta r m pre = .missing → openNode r m pre = none) ∧
    (∀ k, getMeta r m pre = .node k → ∃ ns, openNode r m pre = some ns ∧ (pre, k) ∈ ns ∧
      (k.isGroup = false → ns = [(pre, k)])) := by
  refine ⟨?_, ?_⟩
  · intro h; unfold openNode; rw [h]
  · intro k h
    unfold openNode
    rw [h]
    cases hg : k.isGroup with
    | false => exact ⟨[(pre, k)], by simp [hg], by simp, fun _ => rfl⟩
    | true =>
      obtain ⟨ts, hts⟩ := childNodes_some r m hr (depthBound m) true pre
      refine ⟨(pre, k) :: flattenList ts, ?_, List.mem_cons_self .., fun hc => by cases hc⟩
      unfold children
      rw [hts]
      simp [hg]
example : exStore.sorted ∧ hierarchyShaped exStore.keys ∧ readable exReader exStore ∧
    validPrefixB "a/".toList = true := exStore_ok
example : getMeta exReader exStore "a/".toList = .node .group3 ∧ getMeta exReader exStore "a/x/".toList = .missing := by decide

/-- **existence** is the presence of one of the three metadata keys -/
theorem nodeExists_iff (r : Reader) (m : KV) (pre : Key) (hr : readable r m) :
    nodeExists m pre = true ↔ ∃ k, getMeta r m pre = .node k := by
  exact nodeExists_iff_node r m pre (hr pre)
example : readable exReader exStore := exStore_ok.2.2.1

/-- erasing a node's prefix removes it and everything beneath from every listing, and nothing else -/
theorem erase_prefix_exact (r : Reader) (m : KV) (p q : Key) (hp : p.getLast? = some '/') (hq : ¬ (p.isPrefixOf q = true)) :
    getMeta r (Spec.step m (.erasePrefix p)).1 q = getMeta r m q := by
  exact getMeta_erasePrefix_other r m p q hp hq
example : ("a/b/".toList : Key).getLast? = some '/' ∧ ¬ (("a/b/".toList : Key).isPrefixOf "a/c/".toList = true) := by decide
theorem erase_prefix_gone (r : Reader) (m : KV) (p q : Key) (hq : p.isPrefixOf q = true) :
    getMeta r (Spec.step m (.erasePrefix p)).1 q = .missing := by
  exact getMeta_erasePrefix_under r m p q hq
example : ("a/".toList : Key).isPrefixOf "a/b/".toList = true := by decide


/-- **unknown storage transformers**: a document naming a storage transformer that must be understood (the default) is
rejected on open; transformers marked `must_understand: false` do not stand in the way -/
theorem unknown_transformer_rejected (d : ArrayDoc) (gridRank : Nat) (m : MetaV3) (hm : m ∈ d.st) (hmu : m.mu = true) :
    openOk d gridRank = false := by
  have : transformersOk d = false := by
    simp only [transformersOk, List.all_eq_false]
    exact ⟨m, hm, by simp [hmu]⟩
  simp [openOk, this]

theorem skippable_transformers_open (d : ArrayDoc) (gridRank : Nat) (h : structOk d gridRank = true)
    (hs : ∀ m ∈ d.st, m.mu = false) : openOk d gridRank = true := by
  have : transformersOk d = true := by
    simp only [transformersOk, List.all_eq_true]
    intro m hm; simp [hs m hm]
  simp [openOk, h, this]

theorem openOk_structOk (d : ArrayDoc) (gridRank : Nat) (h : openOk d gridRank = true) : structOk d gridRank = true := by
  simp only [openOk, Bool.and_eq_true] at h; exact h.1

end Zarrs.C13
