import ZarrsModel.Props.C12
import ZarrsModel.Lemmas.DeflateOk
import ZarrsModel.Lemmas.DeflateRender
set_option Elab.async false
/-
C12, read direction, at the level of RFC 1951 itself: the specification-level reader `Zarrs.Inflate.inflate` (the
decoder every gzip / zlib / Zarr-V2-compressor value of the read direction goes through in the model) accepts EVERY
stream a conformant DEFLATE writer may emit — `Zarrs.DeflateSpec`: any sequence of stored, fixed-Huffman and
dynamic-Huffman blocks, any valid (also incomplete, also non-optimal) code-length assignment, any run-length encoding
of the dynamic header, literals and back-references (overlapping ones included), histories carried across blocks — and
returns the rendering of its tokens.  `Props/C12.lean` and `Props/C12Fixed.lean` say this only for two particular
writers (`deflateStored`, `deflateFixed`).

What the reader accepts beyond the specification (it never checks a code-length set): over-subscribed sets (Kraft
sum > 1; zlib rejects them) are read with the first listed symbol whose (length, code) matches; incomplete sets of any
kind (zlib: only a single one-bit distance code) are read, unused codes being errors when they occur.  See the
`example`s after `decodeSym_codeOf`.
-/
namespace Zarrs.C12
open Zarrs Zarrs.Inflate Zarrs.DeflateSpec

/-- **canonical Huffman decoding inverts encoding**: for a code-length assignment with lengths ≤ 15 and Kraft sum
    ≤ 1 (complete or not), the reader's table `mkHuff lens` reads the code of every symbol that has one back as that
    symbol, whatever follows (prefix-freeness) -/
theorem decodeSym_codeOf (lens : List Nat) (hv : validLens lens = true) (s : Nat) (code rest : Bits)
    (hc : codeOf lens s = some code) : decodeSym (mkHuff lens) (code ++ rest) = some (s, rest) :=
  decodeSym_codeOf' lens hv s code rest hc

/-- RFC 1951 §3.2.2's own example (lengths 3,3,3,3,3,2,4,4 for A..H): F = 00, A = 010, …, G = 1110, H = 1111 -/
example : validLens [3, 3, 3, 3, 3, 2, 4, 4] = true ∧ codeOf [3, 3, 3, 3, 3, 2, 4, 4] 5 = some [false, false] ∧
    codeOf [3, 3, 3, 3, 3, 2, 4, 4] 0 = some [false, true, false] ∧
    codeOf [3, 3, 3, 3, 3, 2, 4, 4] 7 = some [true, true, true, true] ∧
    decodeSym (mkHuff [3, 3, 3, 3, 3, 2, 4, 4]) ([true, true, true, false] ++ [true]) = some (6, [true]) :=
  ⟨by decide, by decide, by decide, by decide, decodeSym_codeOf _ (by decide) 6 _ _ (by decide)⟩
/-- an incomplete set (one distance code of one bit, RFC 1951 §3.2.7) is valid -/
example : validLens [1] = true ∧ decodeSym (mkHuff [1]) ([false] ++ [true]) = some (0, [true]) :=
  ⟨by decide, decodeSym_codeOf _ (by decide) 0 _ _ (by decide)⟩
/-- outside the specification: the reader does not reject an over-subscribed set (three codes of one bit) -/
example : validLens [1, 1, 1] = false ∧ decodeSym (mkHuff [1, 1, 1]) [true] = some (1, []) := by decide

/-- the Kraft sum of `validLens` is the sum over the lengths of RFC 1951's `bl_count`: `codeEnd lens 15` is
    `next_code[15] + bl_count[15]`, which a prefix code keeps within 15 bits -/
theorem kraft_by_length (lens : List Nat) (h15 : ∀ l ∈ lens, l ≤ 15) :
    kraft lens = firstCode lens 15 + lenCount lens 15 := kraft_eq lens h15
example : kraft [3, 3, 3, 3, 3, 2, 4, 4] = 2 ^ 15 := by decide

/-- **what `render` means for a copy**, without the byte-by-byte recursion: `len` more bytes, the earlier output
    untouched, every new byte equal to the byte `dist` positions before it — also for `dist < len`, where the source
    runs into the bytes being written (RFC 1951 §3.2.3) -/
theorem copy_semantics (len dist : Nat) (out res : Bytes) (h : renderTok out (.copy len dist) = some res) :
    res.length = out.length + len ∧ res.take out.length = out ∧
    ∀ i, i < len → res.getD (out.length + i) 0 = res.getD (out.length + i - dist) 0 := by
  simp only [renderTok] at h
  split at h
  · rename_i hc
    simp only [Option.some.injEq] at h
    subst h
    exact copyFrom_spec len dist out hc.2.2.1 hc.2.2.2.2
  · cases h
example : renderTok [7, 8] (.copy 5 2) = some [7, 8, 7, 8, 7, 8, 7] ∧ renderTok [7, 8] (.copy 3 3) = none ∧
    renderTok [7] (.copy 2 1) = none ∧ renderTok [7] (.lit 256) = none := by decide

/-- **a writer can encode every block whose tokens are representable and whose used symbols have codes** -/
theorem encodeStream_total (bl : List Block) (fill : Bits) (hne : bl ≠ []) (hok : ∀ b ∈ bl, b.ok = true) :
    ∃ bytes, encodeStream bl fill = some bytes := encodeStream_isSome bl fill hne hok

/-- **THE theorem: any conformant stream inflates to the concatenated rendering of its blocks.**  `bl`: any
    non-empty sequence of stored / fixed / dynamic blocks (the last is marked final by `encodeStream`); `fill`: the
    unused bits of the last byte; `rest`: whatever follows the stream (it is returned untouched).  `renderBlocks`
    carries the history across blocks: distances up to 32768 may reach into earlier blocks of any kind. -/
theorem inflate_stream (bl : List Block) (fill : Bits) (bytes out rest : Bytes)
    (he : encodeStream bl fill = some bytes) (hr : renderBlocks bl [] = some out) :
    inflate (bytes ++ rest) = some (out, rest) := inflate_encodeStream bl fill bytes out rest he hr

/-- the same with the writer's side discharged: blocks that are `ok` have a stream, and it inflates -/
theorem inflate_stream_ok (bl : List Block) (fill : Bits) (out rest : Bytes) (hne : bl ≠ [])
    (hok : ∀ b ∈ bl, b.ok = true) (hr : renderBlocks bl [] = some out) :
    ∃ bytes, encodeStream bl fill = some bytes ∧ inflate (bytes ++ rest) = some (out, rest) := by
  obtain ⟨bytes, hb⟩ := encodeStream_isSome bl fill hne hok
  exact ⟨bytes, hb, inflate_encodeStream bl fill bytes out rest hb hr⟩

/-- **one fixed-Huffman block of ANY representable token list** (literals and copies) inflates to `render tokens` -/
theorem inflate_fixed_tokens (toks : List Token) (fill : Bits) (out rest : Bytes)
    (hok : ∀ t ∈ toks, t.ok = true) (hr : render toks [] = some out) :
    ∃ bytes, encodeStream [.fixed toks] fill = some bytes ∧ inflate (bytes ++ rest) = some (out, rest) :=
  inflate_stream_ok [.fixed toks] fill out rest (by simp)
    (by intro b hb; simp only [List.mem_singleton] at hb; subst hb; simpa [Block.ok] using hok)
    (by simp only [renderBlocks, renderBlock, hr])

/-- **one dynamic block**: ANY valid literal/length and distance code lengths under which every used symbol has a
    code, ANY code-length code, any HCLEN covering it, ANY valid run-length encoding of the lengths (`h.ok` and the
    `hasCode` conditions are exactly that) -/
theorem inflate_dynamic_tokens (h : DynHeader) (toks : List Token) (fill : Bits) (out rest : Bytes)
    (hh : h.ok = true) (hcl : ∀ c ∈ h.rle, hasCode h.clLens (clSymOf c) = true)
    (hok : ∀ t ∈ toks, t.ok = true) (hlit : ∀ s ∈ litSymsOf toks, hasCode h.litLens s = true)
    (hdist : ∀ s ∈ distSymsOf toks, hasCode h.distLens s = true) (hr : render toks [] = some out) :
    ∃ bytes, encodeStream [.dynamic h toks] fill = some bytes ∧ inflate (bytes ++ rest) = some (out, rest) :=
  inflate_stream_ok [.dynamic h toks] fill out rest (by simp)
    (by
      intro b hb
      simp only [List.mem_singleton] at hb
      subst hb
      simp only [Block.ok, Bool.and_eq_true, List.all_eq_true]
      exact ⟨⟨⟨⟨hh, hcl⟩, hok⟩, hlit⟩, hdist⟩)
    (by simp only [renderBlocks, renderBlock, hr])

/-! ### non-vacuity -/

/-- a dynamic header: 'a' (97) one bit, end-of-block and length symbol 259 (length 5) two bits, ONE distance code of
    one bit (an incomplete set); code-length code over {0, 1, 2, 18} with two bits each, HCLEN = 14; the lengths are
    run-length encoded with three `18`s (one of them the maximal run of 138) -/
def exHeader : DynHeader :=
  { litLens := (List.range 260).map (fun s => if s == 97 then 1 else if s == 256 || s == 259 then 2 else 0),
    distLens := [1],
    clLens := (List.range 19).map (fun s => if s == 0 || s == 1 || s == 2 || s == 18 then 2 else 0),
    hclen := 14,
    rle := [.c18 97, .len 1, .c18 138, .c18 20, .len 2, .len 0, .len 0, .len 2, .len 1] }

/-- **a back-reference overlapping its own output** (`copy 5 1` after one literal: the run "aaaaaa") in a dynamic
    block -/
example : inflate ([29, 192, 1, 9, 0, 0, 0, 128, 160, 173, 254, 63, 17, 164, 5] ++ [7, 7]) =
    some ([97, 97, 97, 97, 97, 97], [7, 7]) :=
  inflate_stream [.dynamic exHeader [.lit 97, .copy 5 1]] [] _ _ [7, 7] (by decide +kernel) (by decide +kernel)

example : ∃ bytes, encodeStream [.dynamic exHeader [.lit 97, .copy 5 1]] [true, true] = some bytes ∧
    inflate (bytes ++ [9]) = some ([97, 97, 97, 97, 97, 97], [9]) :=
  inflate_dynamic_tokens exHeader [.lit 97, .copy 5 1] [true, true] _ [9] (by decide +kernel) (by decide +kernel)
    (by decide) (by decide +kernel) (by decide +kernel) (by decide +kernel)

/-- fixed block with copies: the longest length (258, code 285), a copy overlapping its output -/
example : ∃ bytes, encodeStream [.fixed [.lit 1, .lit 2, .copy 258 2, .lit 200, .copy 3 261]] [] = some bytes ∧
    inflate (bytes ++ []) = some ([1, 2] ++ ((List.range 258).map (fun i => 1 + i % 2) ++ [200, 1, 2, 1]), []) :=
  inflate_fixed_tokens _ [] _ [] (by decide) (by decide +kernel)

/-- **a stream of three blocks of different kinds** (dynamic, stored after padding bits that are not zero, fixed) and a
    final empty fixed block; the fixed block copies from the dynamic and the stored block (history across blocks) -/
example : ∃ bytes,
    encodeStream [.dynamic exHeader [.lit 97, .copy 5 1], .stored [true, true, true, true, true, true, true] [1, 2, 3],
      .fixed [.copy 4 2, .lit 200, .copy 6 9], .fixed []] [true] = some bytes ∧
    inflate (bytes ++ [7]) = some ([97, 97, 97, 97, 97, 97, 1, 2, 3, 2, 3, 2, 3, 200, 97, 1, 2, 3, 2, 3], [7]) :=
  inflate_stream_ok _ [true] _ [7] (by simp) (by decide +kernel) (by decide +kernel)

/-! ### containers -/

/-- **gzip**: a member with ANY combination of the optional header fields (FTEXT, FEXTRA, FNAME, FCOMMENT, FHCRC —
    all that `gunzip` of the model handles), any MTIME/XFL/OS, around any conformant stream -/
theorem gunzip_stream (h : GzHeader) (hh : h.ok = true) (bl : List Block) (fill : Bits) (stream data : Bytes)
    (he : encodeStream bl fill = some stream) (hr : renderBlocks bl [] = some data) :
    gunzip (gzipMember h stream data) = some data :=
  gunzip_gzipMember h hh stream data (fun rest => inflate_encodeStream bl fill stream data rest he hr)
    (encodeStream_data_wf bl fill stream data he hr)

/-- **zlib**: any window size and compression-level bits, around any conformant stream -/
theorem unzlib_stream (cinfo level : Nat) (bl : List Block) (fill : Bits) (stream data : Bytes)
    (he : encodeStream bl fill = some stream) (hr : renderBlocks bl [] = some data) :
    unzlib (zlibStream cinfo level stream data) = some data :=
  unzlib_zlibStream cinfo level stream data (fun rest => inflate_encodeStream bl fill stream data rest he hr)

/-- what the containers hold are bytes (so that they can be stored) -/
theorem stream_wf (bl : List Block) (fill : Bits) (stream : Bytes) (he : encodeStream bl fill = some stream) :
    wfBytes stream := encodeStream_wf bl fill stream he

def exGzHeader : GzHeader :=
  { ftext := true, extra := some [1, 2, 3], name := some [65], comment := some [66, 67], hcrc := some (1, 2),
    mtime := [1, 2, 3, 4], xfl := 2, os := 3 }

/-- **every conformant writer is a legal choice for the specification writer of `Props/C12.lean`**: a function
    that maps data to SOME conformant stream rendering it satisfies the two facts `DeflateOk` asks of the DEFLATE
    flavour of a `Layout` (so the layout theorems there do not depend on the two flavours that exist) -/
theorem conformant_writer_ok (deflate : Bytes → Bytes)
    (h : ∀ bs, wfBytes bs → ∃ bl fill, encodeStream bl fill = some (deflate bs) ∧ renderBlocks bl [] = some bs) :
    (∀ bs rest, wfBytes bs → wfBytes rest → inflate (deflate bs ++ rest) = some (bs, rest)) ∧
    (∀ bs, wfBytes bs → wfBytes (deflate bs)) := by
  refine ⟨?_, ?_⟩
  · intro bs rest hb _
    obtain ⟨bl, fill, he, hr⟩ := h bs hb
    exact inflate_encodeStream bl fill _ bs rest he hr
  · intro bs hb
    obtain ⟨bl, fill, he, _⟩ := h bs hb
    exact encodeStream_wf bl fill _ he

/-- the two existing flavours are conformant writers on this input: `deflateFixed` is one fixed block of literals -/
example : encodeStream [.fixed [.lit 1, .lit 200]] [] = some (deflateFixed [1, 200]) ∧
    renderBlocks [.fixed [.lit 1, .lit 200]] [] = some [1, 200] ∧
    encodeStream [.stored [] [1, 200]] [] = some (deflateStored [1, 200]) := by decide +kernel

example : gunzip (gzipMember exGzHeader
    [29, 192, 1, 9, 0, 0, 0, 128, 160, 173, 254, 63, 17, 164, 5] [97, 97, 97, 97, 97, 97]) =
    some [97, 97, 97, 97, 97, 97] :=
  gunzip_stream _ (by decide) [.dynamic exHeader [.lit 97, .copy 5 1]] [] _ _ (by decide +kernel) (by decide +kernel)

example : unzlib (zlibStream 7 2 [29, 192, 1, 9, 0, 0, 0, 128, 160, 173, 254, 63, 17, 164, 5] [97, 97, 97, 97, 97, 97]) =
    some [97, 97, 97, 97, 97, 97] :=
  unzlib_stream 7 2 [.dynamic exHeader [.lit 97, .copy 5 1]] [] _ _ (by decide +kernel) (by decide +kernel)

end Zarrs.C12
