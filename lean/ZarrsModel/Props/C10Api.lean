import ZarrsModel.Model.GridApi
import ZarrsModel.Lemmas.Grid
import ZarrsModel.Lemmas.GridApi
import ZarrsModel.Props.C09
import ZarrsModel.Props.C10
set_option Elab.async false
/-
C10, API-coverage additions — the region covered by a box of chunks (`chunks_subset`, for which Props/C10 had no
theorem) and the grid-related `Array` methods (zarrs/src/array.rs), which are separate code from the
`ChunkGridTraits` methods: each is shown to be the trait-level query on matching ranks, and `Array::chunks_subset` /
`chunks_subset_bounded` to be exactly the union of the chunk subsets of the box (clipped to the array).
Grids are `Grid.new cfg` (regular = all dimensions fixed, rectangular = any mixture).
Property theorems only; helper lemmas live in ZarrsModel/Lemmas/GridApi.lean.
-/
namespace Zarrs.C10Api
open Zarrs

/-- `ChunkGridTraits::chunks_subset`: for a non-empty box of chunk indices, when the method answers `Some(sub)`
every chunk of the box exists and `sub` is exactly the union of their subsets -/
theorem chunks_subset_union (cfg : List DimCfg) (chunks sub : Subset) (hwf : chunks.wf = true)
    (hr : chunks.rank = cfg.length) (hne : chunks.isEmpty = false)
    (h : (Grid.new cfg).chunksSubset chunks = some sub) :
    (∀ c, chunks.contains c = true → ∃ csub, (Grid.new cfg).subset c = some csub) ∧
    ∀ i, sub.contains i = true ↔
      ∃ c csub, chunks.contains c = true ∧ (Grid.new cfg).subset c = some csub ∧ csub.contains i = true := by
  obtain ⟨cs, sh⟩ := chunks
  simp only [Subset.wf, beq_iff_eq] at hwf
  simp only [Subset.rank] at hr
  have hne' : sh.any (· == 0) = false := hne
  simp only [Grid.chunksSubset, Subset.endInc, hne, Bool.false_eq_true, if_false] at h
  split at h
  · rename_i c0 c1 h0 h1
    obtain ⟨o0, s0, ho0, _, rfl⟩ := Grid.subset_eq_some.mp h0
    obtain ⟨o1, s1, ho1, hs1, rfl⟩ := Grid.subset_eq_some.mp h1
    simp only [Option.some.injEq] at h
    subst h
    obtain ⟨hdef, hiff⟩ := Grid.cover cfg cs sh o0 o1 s1 hr (by omega) hne' ho0 ho1 hs1
    refine ⟨?_, ?_⟩
    · intro c hc
      obtain ⟨o, s, h1, h2⟩ := hdef c hc
      exact ⟨⟨o, s⟩, Grid.subset_eq_some.mpr ⟨o, s, h1, h2, rfl⟩⟩
    · intro i
      simp only [Subset.contains, Subset.ofStartEndExc, Subset.endExc]
      rw [hiff i]
      constructor
      · rintro ⟨c, o, s, a1, a2, a3, a4⟩
        exact ⟨c, ⟨o, s⟩, a1, Grid.subset_eq_some.mpr ⟨o, s, a2, a3, rfl⟩, a4⟩
      · rintro ⟨c, csub, a1, a2, a4⟩
        obtain ⟨o, s, b2, b3, rfl⟩ := Grid.subset_eq_some.mp a2
        exact ⟨c, o, s, a1, b2, b3, a4⟩
  · cases h

/-- non-vacuity: a 2-D box over a grid with one overhanging fixed dimension and one varying dimension whose first
and last chunks differ in size -/
example : ∃ (cfg : List DimCfg) (chunks sub : Subset), chunks.wf = true ∧ chunks.rank = cfg.length ∧
    chunks.isEmpty = false ∧ (Grid.new cfg).chunksSubset chunks = some sub ∧ sub = ⟨[3, 2], [6, 4]⟩ :=
  ⟨[.fixed 3, .varying [2, 3, 1]], ⟨[1, 1], [2, 2]⟩, ⟨[3, 2], [6, 4]⟩, by decide⟩

/-- the chunk queries of `Array` are the trait queries of its grid on indices of the array's rank (and
`InvalidChunkGridIndicesError`, `none`, on any other rank) -/
theorem array_queries_forward (a : ArrGrid) (ha : a.shape.length = a.grid.length) (c : Idx) :
    (c.length = a.grid.length →
      a.chunkOrigin c = a.grid.chunkOrigin c ∧ a.chunkShape c = a.grid.chunkShape c ∧
      a.chunkSubset c = a.grid.subset c) ∧
    (c.length ≠ a.grid.length →
      a.chunkOrigin c = none ∧ a.chunkShape c = none ∧ a.chunkSubset c = none) := by
  simp only [ArrGrid.chunkOrigin, ArrGrid.chunkShape, ArrGrid.chunkSubset, ha]
  constructor <;> intro h <;> simp [h]

example : ∃ (a : ArrGrid) (c : Idx), a.shape.length = a.grid.length ∧ c.length = a.grid.length ∧
    a.chunkSubset c = some ⟨[3, 2], [3, 3]⟩ :=
  ⟨⟨Grid.new [.fixed 3, .varying [2, 3, 1]], [7, 6]⟩, [1, 1], by decide⟩

/-- `Array::chunks_subset` (the Array-level copy) agrees with `ChunkGridTraits::chunks_subset` on every box of the
array's rank -/
theorem array_chunks_subset_eq_trait (a : ArrGrid) (ha : a.shape.length = a.grid.length) (chunks : Subset)
    (hwf : chunks.wf = true) (hr : chunks.rank = a.grid.length) :
    a.chunksSubset chunks = a.grid.chunksSubset chunks := by
  obtain ⟨cs, sh⟩ := chunks
  simp only [Subset.wf, beq_iff_eq] at hwf
  simp only [Subset.rank] at hr
  simp only [ArrGrid.chunksSubset, Grid.chunksSubset, Subset.endInc]
  by_cases he : (Subset.mk cs sh).isEmpty = true
  · simp only [he, if_true]
  · have h1 : ((addIdx cs sh).map (· - 1)).length = a.grid.length := by
      rw [List.length_map, addIdx_length_eq cs sh hwf]; exact hr
    simp only [he, if_false, ArrGrid.chunkSubset, ha, hr, h1, bne_self_eq_false, Bool.or_self,
      Bool.false_eq_true]
    cases a.grid.subset cs <;> cases a.grid.subset ((addIdx cs sh).map (· - 1)) <;> rfl

/-- a non-empty box of another rank is an error at the Array level -/
theorem array_chunks_subset_rank (a : ArrGrid) (chunks : Subset)
    (hne : chunks.isEmpty = false) (hr : chunks.rank ≠ a.grid.length) : a.chunksSubset chunks = none := by
  simp only [Subset.rank] at hr
  simp only [ArrGrid.chunksSubset, Subset.endInc, hne, Bool.false_eq_true, if_false, ArrGrid.chunkSubset]
  have : (chunks.start.length != a.grid.length) = true := by simp [hr]
  simp [this]

example : ∃ (a : ArrGrid) (chunks : Subset), chunks.isEmpty = false ∧
    chunks.rank ≠ a.grid.length := ⟨⟨Grid.new [.fixed 3], [7]⟩, ⟨[0, 0], [1, 1]⟩, by decide⟩

/-- `Array::chunks_subset` on a regular or rectangular grid: exactly the union of the chunk subsets of the box -/
theorem array_chunks_subset_union (cfg : List DimCfg) (shape : Shape) (hs : shape.length = cfg.length)
    (chunks sub : Subset) (hwf : chunks.wf = true) (hr : chunks.rank = cfg.length)
    (hne : chunks.isEmpty = false)
    (h : (ArrGrid.mk (Grid.new cfg) shape).chunksSubset chunks = some sub) :
    (∀ c, chunks.contains c = true → ∃ csub, (ArrGrid.mk (Grid.new cfg) shape).chunkSubset c = some csub) ∧
    ∀ i, sub.contains i = true ↔
      ∃ c csub, chunks.contains c = true ∧ (ArrGrid.mk (Grid.new cfg) shape).chunkSubset c = some csub ∧
        csub.contains i = true := by
  have hlen : (Grid.new cfg).length = cfg.length := by simp [Grid.new]
  have ha : (ArrGrid.mk (Grid.new cfg) shape).shape.length = (ArrGrid.mk (Grid.new cfg) shape).grid.length := by
    simp only [hlen, hs]
  rw [array_chunks_subset_eq_trait _ ha chunks hwf (by simp only [hlen, hr])] at h
  obtain ⟨hdef, hiff⟩ := chunks_subset_union cfg chunks sub hwf hr hne h
  have hcl : ∀ c, chunks.contains c = true → c.length = (Grid.new cfg).length := by
    intro c hc
    have := (mem_length hc).1
    simp only [Subset.rank] at hr
    omega
  have hfw : ∀ c, chunks.contains c = true →
      (ArrGrid.mk (Grid.new cfg) shape).chunkSubset c = (Grid.new cfg).subset c :=
    fun c hc => ((array_queries_forward _ ha c).1 (hcl c hc)).2.2
  refine ⟨fun c hc => by rw [hfw c hc]; exact hdef c hc, ?_⟩
  intro i
  rw [hiff i]
  constructor
  · rintro ⟨c, csub, a1, a2, a3⟩; exact ⟨c, csub, a1, by rw [hfw c a1]; exact a2, a3⟩
  · rintro ⟨c, csub, a1, a2, a3⟩; exact ⟨c, csub, a1, by rw [← hfw c a1]; exact a2, a3⟩

example : ∃ (cfg : List DimCfg) (shape : Shape) (chunks sub : Subset), shape.length = cfg.length ∧
    chunks.wf = true ∧ chunks.rank = cfg.length ∧ chunks.isEmpty = false ∧
    (ArrGrid.mk (Grid.new cfg) shape).chunksSubset chunks = some sub ∧ sub = ⟨[3, 2], [6, 4]⟩ :=
  ⟨[.fixed 3, .varying [2, 3, 1]], [7, 6], ⟨[1, 1], [2, 2]⟩, ⟨[3, 2], [6, 4]⟩, by decide⟩

/-- `Array::chunks_subset_bounded`: the in-array part of that union -/
theorem array_chunks_subset_bounded_union (cfg : List DimCfg) (shape : Shape) (hs : shape.length = cfg.length)
    (chunks b : Subset) (hwf : chunks.wf = true) (hr : chunks.rank = cfg.length)
    (hne : chunks.isEmpty = false)
    (h : (ArrGrid.mk (Grid.new cfg) shape).chunksSubsetBounded chunks = some b) :
    ∀ i, b.contains i = true ↔
      (inB i shape = true ∧ ∃ c csub, chunks.contains c = true ∧
        (ArrGrid.mk (Grid.new cfg) shape).chunkSubset c = some csub ∧ csub.contains i = true) := by
  simp only [ArrGrid.chunksSubsetBounded, Option.map_eq_some_iff] at h
  obtain ⟨sub, hsub, rfl⟩ := h
  obtain ⟨_, hiff⟩ := array_chunks_subset_union cfg shape hs chunks sub hwf hr hne hsub
  -- shape of `sub`: origin and extent lists of the grid's rank
  have hlen : (Grid.new cfg).length = cfg.length := by simp [Grid.new]
  have hsubwf : sub.wf = true ∧ sub.rank = cfg.length := by
    obtain ⟨cs, sh⟩ := chunks
    simp only [Subset.wf, beq_iff_eq] at hwf
    simp only [Subset.rank] at hr
    simp only [ArrGrid.chunksSubset, Subset.endInc, hne, Bool.false_eq_true, if_false] at hsub
    split at hsub
    · rename_i c0 c1 h0 h1
      simp only [ArrGrid.chunkSubset] at h0 h1
      split at h0
      · cases h0
      · split at h1
        · cases h1
        · rename_i hc0 hc1
          simp only [Bool.or_eq_true, bne_iff_ne, ne_eq, not_or, Decidable.not_not] at hc0 hc1
          obtain ⟨o0, s0, ho0, hs0, rfl⟩ := Grid.subset_eq_some.mp h0
          obtain ⟨o1, s1, ho1, hs1, rfl⟩ := Grid.subset_eq_some.mp h1
          simp only [Option.some.injEq] at hsub
          subst hsub
          have l0 := zipOpt_length _ _ _ _ (by rw [hc0.1]) ho0
          have l1 := zipOpt_length _ _ _ _ (by rw [hc1.1]) ho1
          have l2 := zipOpt_length _ _ _ _ (by rw [hc1.1]) hs1
          have l3 : (addIdx o1 s1).length = o0.length := by
            rw [addIdx_length_eq o1 s1 (by omega)]; omega
          simp only [Subset.wf, Subset.rank, Subset.ofStartEndExc, Subset.endExc, beq_iff_eq,
            zipSub_length_eq _ _ l3]
          omega
    · cases hsub
  intro i
  have := C09.bound_mem sub shape hsubwf.1 (by omega) i
  rw [this, Bool.and_eq_true, hiff i, and_comm]

example : ∃ (cfg : List DimCfg) (shape : Shape) (chunks b : Subset), shape.length = cfg.length ∧
    chunks.wf = true ∧ chunks.rank = cfg.length ∧ chunks.isEmpty = false ∧
    (ArrGrid.mk (Grid.new cfg) shape).chunksSubsetBounded chunks = some b ∧ b = ⟨[3, 2], [4, 4]⟩ :=
  ⟨[.fixed 3, .varying [2, 3, 1]], [7, 6], ⟨[1, 1], [2, 2]⟩, ⟨[3, 2], [4, 4]⟩, by decide⟩

/-- `Array::chunks_in_array_subset` is the trait method on the array's own shape for every region of the array's
rank (Props/C10 `chunks_in_subset_exact` then applies), an error on a non-empty region of another rank -/
theorem array_chunks_in_array_subset_forward (a : ArrGrid) (ha : a.shape.length = a.grid.length) (r : Subset) :
    (r.rank = a.grid.length → a.chunksInArraySubset r = some (a.grid.chunksInArraySubset r a.shape)) ∧
    (r.rank ≠ a.grid.length → r.isEmpty = false → a.chunksInArraySubset r = none) := by
  constructor
  · intro hr
    simp only [ArrGrid.chunksInArraySubset, Grid.chunksInArraySubset, Subset.endInc]
    split
    · rfl
    · simp [hr, ha]
  · intro hr hne
    simp [ArrGrid.chunksInArraySubset, hne, hr]

example : ∃ (a : ArrGrid) (r : Subset), a.shape.length = a.grid.length ∧ r.rank = a.grid.length ∧
    a.chunksInArraySubset r = some (some ⟨[0, 0], [3, 2]⟩) :=
  ⟨⟨Grid.new [.fixed 3, .varying [2, 3, 1]], [7, 6]⟩, ⟨[2, 1], [5, 3]⟩, by decide⟩

/-- `Array::chunk_subset_bounded`: the in-array part of the chunk -/
theorem array_chunk_subset_bounded_mem (cfg : List DimCfg) (shape : Shape) (hs : shape.length = cfg.length)
    (c : Idx) (b : Subset) (h : (ArrGrid.mk (Grid.new cfg) shape).chunkSubsetBounded c = some b) :
    ∃ csub, (ArrGrid.mk (Grid.new cfg) shape).chunkSubset c = some csub ∧
      ∀ i, b.contains i = true ↔ (csub.contains i = true ∧ inB i shape = true) := by
  simp only [ArrGrid.chunkSubsetBounded, Option.map_eq_some_iff] at h
  obtain ⟨csub, hc, rfl⟩ := h
  refine ⟨csub, hc, ?_⟩
  have hlen : (Grid.new cfg).length = cfg.length := by simp [Grid.new]
  simp only [ArrGrid.chunkSubset] at hc
  split at hc
  · cases hc
  · rename_i hcl
    simp only [Bool.or_eq_true, bne_iff_ne, ne_eq, not_or, Decidable.not_not] at hcl
    obtain ⟨o, s, ho, hs', rfl⟩ := Grid.subset_eq_some.mp hc
    have l0 := zipOpt_length _ _ _ _ (by rw [hcl.1]) ho
    have l1 := zipOpt_length _ _ _ _ (by rw [hcl.1]) hs'
    intro i
    have := C09.bound_mem ⟨o, s⟩ shape (by simp only [Subset.wf, beq_iff_eq]; omega)
      (by simp only [Subset.rank]; omega) i
    rw [this, Bool.and_eq_true]

example : ∃ (cfg : List DimCfg) (shape : Shape) (c : Idx) (b : Subset), shape.length = cfg.length ∧
    (ArrGrid.mk (Grid.new cfg) shape).chunkSubsetBounded c = some b ∧ b = ⟨[6, 5], [1, 1]⟩ :=
  ⟨[.fixed 3, .varying [2, 3, 1]], [7, 6], [2, 2], ⟨[6, 5], [1, 1]⟩, by decide⟩

end Zarrs.C10Api
