import ZarrsModel.Model.Store
import ZarrsModel.Lemmas.Store
/-
C08 — every store behaves as the same ordered key-value map.
`Spec.step` is the plain ordered-map model; `Mem.step` is the algorithm of `MemoryStore`;
`rmwPartial` is the generic read-modify-write `store_set_partial_values` used by the filesystem store and
by every store without native partial writes.
-/
namespace Zarrs.C08
open Zarrs

/-- a small sorted, hierarchy-shaped store used to document that hypotheses are satisfiable -/
def exStore : KV := [("a/b".toList, [1, 2]), ("a/c/d".toList, [3]), ("e".toList, [])]
/-- a valid directory prefix for `exStore` -/
def exPrefix : Key := "a/".toList

example : exStore.sorted := by unfold KV.sorted; decide
example : hierarchyShaped exStore.keys := by unfold hierarchyShaped; decide
example : validPrefixB exPrefix = true := by decide
example : Spec.listDir exStore exPrefix = (["a/b".toList], ["a/c/".toList]) := by decide

/-- map laws of the ordered association list -/
theorem get_put_same (m : KV) (k : Key) (v : Bytes) : (m.put k v).get k = some v :=
  KV.get_put_same m k v
theorem get_put_other (m : KV) (k k' : Key) (v : Bytes) (h : k' ≠ k) : (m.put k v).get k' = m.get k' :=
  KV.get_put_other m k k' v h
example : ("e".toList : Key) ≠ "a/b".toList := by decide
theorem get_erase (m : KV) (k k' : Key) : (m.erase k).get k' = if k' = k then none else m.get k' :=
  KV.get_erase m k k'
theorem put_sorted (m : KV) (hs : m.sorted) (k : Key) (v : Bytes) : (m.put k v).sorted :=
  KV.put_sorted m hs k v
example : exStore.sorted := by unfold KV.sorted; decide
-- (`hs` is kept from the stated property; the proof does not need it)
set_option linter.unusedVariables false in
theorem keys_put (m : KV) (hs : m.sorted) (k : Key) (v : Bytes) (k' : Key) :
    k' ∈ (m.put k v).keys ↔ (k' = k ∨ k' ∈ m.keys) :=
  KV.keys_put m k v k'
example : exStore.sorted := by unfold KV.sorted; decide
theorem mem_keys_iff_get (m : KV) (k : Key) : k ∈ m.keys ↔ m.get k ≠ none :=
  KV.mem_keys_iff_get m k

/-- every operation keeps the key list sorted and duplicate-free -/
theorem step_sorted (m : KV) (hs : m.sorted) (op : StoreOp) : (Spec.step m op).1.sorted :=
  Spec.step_sorted m hs op
example : exStore.sorted := by unfold KV.sorted; decide

/-- full writes replace -/
theorem set_replaces (old v : Bytes) : setImpl old v 0 true = v :=
  setImpl_full old v

/-- `MemoryStore::set_impl` without truncation is the specified partial write -/
theorem setImpl_partial (old v : Bytes) (off : Nat) : setImpl old v off false = specSetPartial old off v :=
  setImpl_noTrunc old v off

/-- partial writes zero-extend and never truncate: the length is the maximum, the written window holds the new
bytes, every other position keeps its old byte or is zero -/
theorem setPartial_zero_extends (old v : Bytes) (off : Nat) :
    (specSetPartial old off v).length = max old.length (off + v.length) ∧
    slice (specSetPartial old off v) off (off + v.length) = v ∧
    ∀ i, i < max old.length (off + v.length) → ¬ (off ≤ i ∧ i < off + v.length) →
      (specSetPartial old off v)[i]? = some (old.getD i 0) :=
  specSetPartial_spec old v off

/-- an in-bounds ranged read equals the slice, for every range form -/
theorem getPartial_slice (b : Bytes) (rs : List ByteRange) (h : ∀ r ∈ rs, r.valid b.length = true) :
    Mem.getPartial b rs = some (rs.map (fun r => slice b (r.start b.length) (r.stop b.length))) ∧
    ∀ r ∈ rs, r.start b.length ≤ r.stop b.length ∧ r.stop b.length ≤ b.length ∧
      (slice b (r.start b.length) (r.stop b.length)).length = r.length b.length := by
  refine ⟨?_, ?_⟩
  · rw [Mem.getPartial_eq]
    unfold extractByteRanges
    rw [if_pos (List.all_eq_true.2 h)]
    rfl
  · intro r hr
    obtain ⟨h1, h2, h3⟩ := ByteRange.valid_bounds r b.length (h r hr)
    exact ⟨h1, h2, by rw [slice_length b _ _ h2, h3]⟩
example : ∀ r ∈ [ByteRange.fromStart 1 (some 2), .fromStart 3 none, .suffix 2],
    r.valid ([1, 2, 3] : Bytes).length = true := by decide

/-- a ranged read reaching outside the value is an error (never bytes from elsewhere) -/
theorem getPartial_oob (b : Bytes) (rs : List ByteRange) (h : ∃ r ∈ rs, r.valid b.length = false) :
    Mem.getPartial b rs = none := by
  rw [Mem.getPartial_eq]
  unfold extractByteRanges
  obtain ⟨r, hr, hv⟩ := h
  rw [if_neg]
  intro hall
  rw [List.all_eq_true.1 hall r hr] at hv
  cases hv
example : ∃ r ∈ [ByteRange.fromStart 1 (some 2), .suffix 4], r.valid ([1, 2, 3] : Bytes).length = false := by decide

/-- the tolerated alternative for out-of-bounds reads is the truncated slice; on valid ranges it is the slice -/
theorem extractTrunc_valid (b : Bytes) (r : ByteRange) (h : r.valid b.length = true) :
    r.extractTrunc b = r.extract b :=
  ByteRange.extractTrunc_of_valid b r h
example : (ByteRange.fromStart 1 (some 2)).valid ([1, 2, 3] : Bytes).length = true := by decide

/-- `MemoryStore` refines the ordered-map specification: same state, same result, for every operation
(directory listing: see `listDir_refines`) -/
theorem mem_refines (m : KV) (hs : m.sorted) (op : StoreOp) (hop : ∀ p, op ≠ .listDir p) :
    Mem.step m op = Spec.step m op :=
  Mem.step_eq_spec m op hs hop
example : exStore.sorted ∧ ∀ p, StoreOp.sizePrefix exPrefix ≠ .listDir p :=
  ⟨by unfold KV.sorted; decide, fun _ h => by cases h⟩

-- (`hs` is kept from the stated property; the proof does not need it)
set_option linter.unusedVariables false in
/-- directory listing of `MemoryStore` is the specified one on hierarchy-shaped key sets -/
theorem listDir_refines (m : KV) (hs : m.sorted) (hh : hierarchyShaped m.keys) (p : Key) (hp : validPrefixB p = true) :
    Mem.listDir m p = Spec.listDir m p :=
  Mem.listDir_eq_spec m p (validPrefixB_dirShaped p hp) hh.1
example : exStore.sorted ∧ hierarchyShaped exStore.keys ∧ validPrefixB exPrefix = true :=
  ⟨by unfold KV.sorted; decide, by unfold hierarchyShaped; decide, by decide⟩

-- (`hs` is kept from the stated property; the proof does not need it)
set_option linter.unusedVariables false in
/-- the specified directory listing is exact: keys whose parent is the prefix; prefixes are exactly the
immediate child prefixes that have at least one key beneath them; both sorted, no duplicates -/
theorem listDir_exact (m : KV) (hs : m.sorted) (hh : hierarchyShaped m.keys) (p : Key) (hp : validPrefixB p = true) :
    (∀ k, k ∈ (Spec.listDir m p).1 ↔ (k ∈ m.keys ∧ parentOf k = p)) ∧
    (∀ q, q ∈ (Spec.listDir m p).2 ↔
      ∃ k ∈ m.keys, ∃ c : Key, c ≠ [] ∧ '/' ∉ c ∧ q = p ++ c ++ ['/'] ∧ q.isPrefixOf k = true) ∧
    (Spec.listDir m p).2.Pairwise (fun a b => keyLt a b = true) :=
  ⟨Spec.listDir_keys m p, Spec.listDir_prefixes m p (validPrefixB_dirShaped p hp) hh.1,
    Spec.listDir_prefixes_sorted m p⟩
example : exStore.sorted ∧ hierarchyShaped exStore.keys ∧ validPrefixB exPrefix = true :=
  ⟨by unfold KV.sorted; decide, by unfold hierarchyShaped; decide, by decide⟩

/-- key and prefix listings are exact and sorted -/
theorem list_exact (m : KV) (hs : m.sorted) (p : Key) :
    (∀ k, k ∈ m.keys.filter (hasPrefix · p) ↔ (m.get k ≠ none ∧ p.isPrefixOf k = true)) ∧
    (m.keys.filter (hasPrefix · p)).Pairwise (fun a b => keyLt a b = true) := by
  refine ⟨?_, KV.sorted_keys_filter m hs _⟩
  intro k
  rw [List.mem_filter, KV.mem_keys_iff_get]
  rfl
example : exStore.sorted := by unfold KV.sorted; decide

/-- erase-prefix removes exactly the keys with the prefix -/
theorem erasePrefix_exact (m : KV) (p k : Key) :
    ((Spec.step m (.erasePrefix p)).1).get k = if hasPrefix k p then none else m.get k :=
  Spec.erasePrefix_get m p k

-- (`hs` is kept from the stated property; the proof does not need it)
set_option linter.unusedVariables false in
/-- the generic read-modify-write partial write equals sequential specified partial writes,
whether or not entries for one key are adjacent -/
theorem rmw_refines (m : KV) (hs : m.sorted) (kovs : List (Key × Nat × Bytes)) :
    rmwPartial m kovs = (Spec.step m (.setPartial kovs)).1 :=
  rmwPartial_eq_spec m kovs
example : exStore.sorted := by unfold KV.sorted; decide
example : rmwPartial exStore [("e".toList, 2, [7]), ("e".toList, 0, [9]), ("a/b".toList, 1, [5, 6, 7]), ("e".toList, 4, [1])]
    = [("a/b".toList, [1, 5, 6, 7]), ("a/c/d".toList, [3]), ("e".toList, [9, 0, 7, 0, 1])] := by decide

end Zarrs.C08
