import ZarrsModel.Model.FsStore
import ZarrsModel.Lemmas.FsStoreInv
/-
C08 for `FilesystemStore` (zarrs_filesystem/src/lib.rs): the algorithm over a directory tree
(`Model/FsStore.lean`: `fsStep`) refines the ordered key-value map (`Spec.step`).

* state: `Fs.FsState` = `Option Tree` (base directory absent / its content), directories may be empty;
* abstraction: `absFs` = the files found by the directory walk, as the sorted key -> bytes map;
* invariant: `FsInv` (every directory: plain names, strictly increasing, recursively) - kept by EVERY operation
  (`fs_inv_preserved`);
* hypothesis of the refinement: `opOk s op` - the paths of the KEYS the operation names are free in the tree (no
  directory where a key is to be written/read, no file on the way); prefixes need nothing beyond being modelled
  (`erase_prefix` since its repair F-C08-9: `fs_erasePrefix_refines`, `fs_erasePrefix_on_key_ok`).  This is stronger than "the key set stays prefix-free": `erase`
  leaves empty directories, and an emptied directory `a/b/` makes a later `set a/b` fail although no key has the prefix
  (`fs_leftover_dir_blocks_key`; confirmed on the implementation).  Over one fixed hierarchy-shaped key universe -
  the way the store is used by arrays and groups and by the harness - `opOk` always holds (`fs_history_refines`).
-/
set_option Elab.async false
namespace Zarrs.C08Fs
open Zarrs Zarrs.Fs

/-! ### running examples: nested directories and an emptied directory left behind -/

/-- set `a/b/c/k`, `a/b/m`, `e`, then erase `a/b/c/k`: the directory `a/b/c/` stays, empty -/
def exHistory : List StoreOp :=
  [.set "a/b/c/k".toList [1, 2], .set "a/b/m".toList [3], .set "e".toList [], .erase "a/b/c/k".toList]
def exState : FsState := fsRun (some .nil) exHistory
def exUniverse : List Key := ["a/b/c/k".toList, "a/b/m".toList, "a/n".toList, "e".toList]

example : exState = some (.dir "a".toList (.dir "b".toList (.dir "c".toList .nil (.file "m".toList [3] .nil)) .nil)
    (.file "e".toList [] .nil)) := by decide
example : absFs exState = [("a/b/m".toList, [3]), ("e".toList, [])] := by decide
example : univOk exUniverse = true := by decide
example : ∀ op ∈ exHistory, opIn exUniverse op = true := by decide

/-! ### the invariant -/

/-- every operation keeps the tree well formed - from every well-formed state, also when it fails -/
theorem fs_inv_preserved (s : FsState) (hi : FsInv s) (op : StoreOp) : FsInv (fsStep s op).1 :=
  fsStep_inv s hi op
example : FsInv exState := fsRun_inv (some .nil) trivial _

/-- the keys a directory tree holds are always hierarchy-shaped: valid keys, none a directory prefix of another -/
theorem absFs_hierarchyShaped (s : FsState) (hi : FsInv s) : hierarchyShaped (absFs s).keys := by
  refine ⟨absFs_keys_valid s hi, ?_⟩
  intro a ha b hb hpre
  obtain ⟨va, hfa⟩ := (mem_absFs_keys s hi a).1 ha
  obtain ⟨vb, hfb⟩ := (mem_absFs_keys s hi b).1 hb
  obtain ⟨_, ka⟩ := file_key s hi _ va hfa
  obtain ⟨_, kb⟩ := file_key s hi _ vb hfb
  rw [join_split] at ka kb
  obtain ⟨h1, h2⟩ := (dirPrefixOf_iff ka kb).1 hpre
  rw [List.isPrefixOf_iff_prefix] at h1
  obtain ⟨rest, hr⟩ := h1
  have hne : rest ≠ [] := by intro e; subst e; simp at hr; exact h2 hr
  have hst : (FsState.content s).stat (splitPath a) = .file va := by
    unfold Tree.fileAt at hfa
    cases hs : (FsState.content s).stat (splitPath a) with
    | file b' => rw [hs] at hfa; simp only [Option.some.injEq] at hfa; rw [hfa]
    | noent => rw [hs] at hfa; cases hfa
    | notdir => rw [hs] at hfa; cases hfa
    | dir c => rw [hs] at hfa; cases hfa
  rw [← hr] at hfb
  unfold Tree.fileAt at hfb
  rw [Tree.stat_ext_file _ _ rest va hst hne] at hfb
  cases hfb
example : FsInv exState := fsRun_inv (some .nil) trivial _

/-- `absFs` is a sorted map -/
theorem absFs_is_sorted (s : FsState) : (absFs s).sorted := absFs_sorted s

/-! ### which operations avoid the error cases -/

/-- a key fits the tree when it is plain, no stored key is a directory prefix of it and no directory (with or
without keys beneath) has its name -/
theorem keyOk_of_prefixFree (s : FsState) (hi : FsInv s) (k : Key) (path : List Name) (hk : keyPath k = some path)
    (h1 : ∀ k' ∈ (absFs s).keys, dirPrefixOf k' k = false) (h2 : ∀ c, s.stat path ≠ .dir c) :
    keyOk s k = true := by
  apply keyOk_of hk
  have hne := (keyPath_spec hk).2.1
  rw [statFree_kind s path hne]
  rw [stat_content s path hne] at h2
  cases hs : (FsState.content s).stat path with
  | noent => rfl
  | file b => rfl
  | dir c => exact absurd hs (h2 c)
  | notdir =>
    obtain ⟨pp, rest, b, e1, e2, _, e4⟩ := Tree.stat_notdir _ path hs
    obtain ⟨f1, f2⟩ := file_key s hi pp b e4
    have : dirPrefixOf (joinPath pp) k = true := by
      rw [dirPrefixOf_iff f2 hk, e1, List.isPrefixOf_iff_prefix]
      refine ⟨⟨rest, rfl⟩, ?_⟩
      intro e
      have := congrArg List.length e
      simp only [List.length_append] at this
      exact e2 (List.length_eq_zero_iff.1 (by omega))
    rw [h1 _ f1] at this
    cases this
example : keyPath "a/n".toList = some ["a".toList, "n".toList] ∧
    (∀ k' ∈ (absFs exState).keys, dirPrefixOf k' "a/n".toList = false) ∧
    (∀ c, exState.stat ["a".toList, "n".toList] ≠ .dir c) := by
  refine ⟨by decide, by decide, ?_⟩
  intro c h
  have : exState.stat ["a".toList, "n".toList] = .noent := by decide
  rw [this] at h
  cases h

/-- conversely a key that fits leaves the key set prefix-free -/
theorem keyOk_compat (s : FsState) (hi : FsInv s) (k : Key) (hok : keyOk s k = true) :
    ∀ k' ∈ (absFs s).keys, dirPrefixOf k' k = false ∧ dirPrefixOf k k' = false := by
  obtain ⟨path, hk, hfree⟩ := keyOk_spec hok
  have hne := (keyPath_spec hk).2.1
  have hfree' := (statFree_iff s path hne).1 hfree
  intro k' hk'
  obtain ⟨v, hf⟩ := (mem_absFs_keys s hi k').1 hk'
  obtain ⟨_, kk'⟩ := file_key s hi _ v hf
  rw [join_split] at kk'
  constructor
  · cases hd : dirPrefixOf k' k with
    | false => rfl
    | true =>
      obtain ⟨h1, h2⟩ := (dirPrefixOf_iff kk' hk).1 hd
      rw [Tree.fileAt_of_free_prefix _ path _ hfree' h2 (Or.inl h1)] at hf
      cases hf
  · cases hd : dirPrefixOf k k' with
    | false => rfl
    | true =>
      obtain ⟨h1, h2⟩ := (dirPrefixOf_iff hk kk').1 hd
      rw [Tree.fileAt_of_free_prefix _ path _ hfree' (fun e => h2 e.symm) (Or.inr h1)] at hf
      cases hf
example : keyOk exState "a/n".toList = true := by decide

/-! ### refinement of one operation -/

/-- `FilesystemStore` refines the ordered map: from a well-formed tree, for an operation whose paths are free, the
tree stays well formed, the files afterwards are exactly the specified map, and the outcome is the specified one
(`acceptable`: equal; listings compared sorted; for a ranged read reaching outside the value an error or the truncated
slices).  Covers get, ranged get, size, set, set_partial (the generic read-modify-write), erase, erase_values,
erase_prefix, list, list_prefix, list_dir, size_prefix. -/
theorem fs_refines (s : FsState) (hi : FsInv s) (op : StoreOp) (hok : opOk s op = true) :
    FsInv (fsStep s op).1 ∧
    absFs (fsStep s op).1 = (Spec.step (absFs s) op).1 ∧
    acceptable (absFs s) op (Spec.step (absFs s) op).2 (fsStep s op).2 = true :=
  let h := fsStep_refines s hi op hok
  ⟨h.1, h.2.1, h.2.2.1⟩
example : FsInv exState ∧
    opOk exState (.setPartial [("a/n".toList, 2, [7]), ("a/b/c/k".toList, 0, [9]), ("a/n".toList, 0, [5])]) = true ∧
    opOk exState (.getPartial "a/b/m".toList [.fromStart 0 (some 1), .suffix 3]) = true ∧
    opOk exState (.erasePrefix "a/b/c/".toList) = true ∧ opOk exState (.listDir "a/b/".toList) = true :=
  ⟨fsRun_inv (some .nil) trivial _, by decide, by decide, by decide, by decide⟩
-- the step computed: the emptied directory `a/b/c/` is filled again, `a/n` is created zero-extended
example : absFs (fsStep exState (.setPartial [("a/n".toList, 2, [7]), ("a/b/c/k".toList, 0, [9]), ("a/n".toList, 0, [5])])).1
    = [("a/b/c/k".toList, [9]), ("a/b/m".toList, [3]), ("a/n".toList, [5, 0, 7]), ("e".toList, [])] := by decide
-- an out-of-bounds ranged read: the implementation errs (every range is validated against the file length first)
example : (fsStep exState (.getPartial "a/b/m".toList [.fromStart 0 (some 1), .suffix 3])).2 = .res .err := by decide
-- since the repair F-C08-10 also for empty reads from beyond the end (they used to give the truncated, empty slice):
-- the outcome now EQUALS the ordered map's, the truncated alternative of `acceptable` is no longer used by this store
example : (fsStep exState (.getPartial "a/b/m".toList [.fromStart 4 none])).2 = .res .err ∧
    (fsStep exState (.getPartial "a/b/m".toList [.fromStart 4 (some 0)])).2 = .res .err ∧
    (fsStep exState (.getPartial "a/b/m".toList [.fromStart 1 none, .fromStart 1 (some 0)])).2
      = .res (.parts (some [[], []])) ∧
    (Spec.step (absFs exState) (.getPartial "a/b/m".toList [.fromStart 4 none])).2 = .err := by decide

/-- ranged reads since the repair F-C08-10 (all ranges validated against the file length before any seek): the
outcome is EXACTLY the ordered map's - the slices when every range is in bounds, an error otherwise -/
theorem fs_getPartial_exact (s : FsState) (hi : FsInv s) (k : Key) (rs : List ByteRange) (hok : keyOk s k = true) :
    (fsStep s (.getPartial k rs)).2 = .res (Spec.step (absFs s) (.getPartial k rs)).2 :=
  getPartial_exact s hi k rs hok
example : keyOk exState "a/b/m".toList = true := by decide

/-- `get` returns what was last set -/
theorem fs_get_after_set (s : FsState) (hi : FsInv s) (k : Key) (v : Bytes) (hok : keyOk s k = true) :
    (fsStep (fsStep s (.set k v)).1 (.get k)).2 = .res (.bytes (some v)) := by
  obtain ⟨path, hk, hfree⟩ := keyOk_spec hok
  obtain ⟨t', h1, h2, h3, h4⟩ := set_abs s hi k v path hk hfree
  have e : (fsStep s (.set k v)).1 = some t' := by simp only [fsStep, hk, h1]
  rw [e]
  have hst : FsState.stat (some t') path = Stat.file v := by
    have := h4 path
    unfold Tree.afterSet at this
    rw [if_pos rfl] at this
    show t'.stat path = .file v
    cases hs : t'.stat path with
    | file b => rw [hs] at this; simp only [Stat.kind, Kind.file.injEq] at this; rw [this]
    | noent => rw [hs] at this; cases this
    | notdir => rw [hs] at this; cases this
    | dir c => rw [hs] at this; cases this
  simp only [fsStep, hk, getKey, hst]
example : keyOk exState "a/b/c/k".toList = true := by decide

/-! ### erase -/

/-- `erase` removes exactly the named key (its directories stay) -/
theorem fs_erase_leaves_no_key (s : FsState) (hi : FsInv s) (k : Key) (hok : keyOk s k = true) (k' : Key) :
    (absFs (fsStep s (.erase k)).1).get k' = if k' = k then none else (absFs s).get k' := by
  rw [(fs_refines s hi (.erase k) hok).2.1]
  exact Zarrs.KV.get_erase _ _ _
example : keyOk exState "a/b/m".toList = true := by decide
example : (fsStep exState (.erase "a/b/m".toList)).1 =
    some (.dir "a".toList (.dir "b".toList (.dir "c".toList .nil .nil) .nil) (.file "e".toList [] .nil)) := by decide

/-- for `erase_prefix` the hypothesis `opOk` is only "the prefix is a modelled prefix" -/
theorem opOk_erasePrefix (s : FsState) (p : Key) : opOk s (.erasePrefix p) = (prefixPath p).isSome := rfl

/-- the repaired `erase_prefix` refines the ordered map from EVERY well-formed tree for EVERY modelled prefix (plain
components), whether the prefix is a directory, is missing, names a key or lies below a key: the outcome is `ok`,
exactly the keys with the prefix are gone, the tree stays well formed -/
theorem fs_erasePrefix_refines (s : FsState) (hi : FsInv s) (p : Key) (path : List Name)
    (hp : prefixPath p = some path) :
    (fsStep s (.erasePrefix p)).2 = .res .unit ∧ FsInv (fsStep s (.erasePrefix p)).1 ∧
    absFs (fsStep s (.erasePrefix p)).1 = (Spec.step (absFs s) (.erasePrefix p)).1 := by
  obtain ⟨s', h1, h2, h3, _⟩ := erasePrefix_abs s hi p path hp
  have e : fsStep s (.erasePrefix p) = (s', .res .unit) := by simp only [fsStep, hp, h1]
  rw [e]
  exact ⟨rfl, h2, h3⟩
example : FsInv exState ∧ prefixPath "e/".toList = some ["e".toList] ∧
    prefixPath "a/b/m/x/".toList = some ["a".toList, "b".toList, "m".toList, "x".toList] :=
  ⟨fsRun_inv (some .nil) trivial _, by decide, by decide⟩
-- `e` and `a/b/m` are keys: nothing is erased, the outcome is ok
example : fsStep exState (.erasePrefix "e/".toList) = (exState, .res .unit) ∧
    fsStep exState (.erasePrefix "a/b/m/x/".toList) = (exState, .res .unit) := by decide

/-- `erase_prefix` removes exactly the keys with the prefix -/
theorem fs_erasePrefix_exact (s : FsState) (hi : FsInv s) (p : Key) (hok : opOk s (.erasePrefix p) = true) (k : Key) :
    (absFs (fsStep s (.erasePrefix p)).1).get k = if hasPrefix k p then none else (absFs s).get k := by
  rw [(fs_refines s hi (.erasePrefix p) hok).2.1]
  exact Spec.erasePrefix_get _ _ _
example : opOk exState (.erasePrefix "a/b/".toList) = true := by decide
example : absFs (fsStep exState (.erasePrefix "a/b/".toList)).1 = [("e".toList, [])] := by decide

/-! ### list_dir and the directories left behind -/

/-- the repaired `list_dir` (F-C08-2): after ANY history - successful or failed operations, however many emptied
directories remain - a child prefix is reported iff some key lies beneath it, and the keys are those directly in
the directory -/
theorem fs_listDir_ignores_empty_dirs (ops : List StoreOp) (p : Key) (path : List Name)
    (hp : prefixPath p = some path) :
    let s := fsRun (some .nil) ops
    (fsStep s (.listDir p)).2 = .res (.dir (s.listDir p path).1 (s.listDir p path).2) ∧
    (∀ q, q ∈ (s.listDir p path).2 ↔
      ∃ k ∈ (absFs s).keys, ∃ c : Key, c ≠ [] ∧ '/' ∉ c ∧ q = p ++ c ++ ['/'] ∧ q.isPrefixOf k = true) ∧
    (∀ k, k ∈ (s.listDir p path).1 ↔ (k ∈ (absFs s).keys ∧ parentOf k = p)) := by
  intro s
  have hi : FsInv s := fsRun_inv (some .nil) trivial _
  obtain ⟨hpk, hpl⟩ := prefixPath_spec hp
  refine ⟨by simp only [fsStep, hp], ?_, ?_⟩
  · intro q; rw [hpk]; exact listDir_prefixes_abs s hi path hpl q
  · intro k; rw [hpk]; exact listDir_keys_abs s hi path hpl k
example : prefixPath "a/b/".toList = some ["a".toList, "b".toList] := by decide
-- `a/b/c/` is an emptied directory: not reported
example : (fsStep exState (.listDir "a/b/".toList)).2 = .res (.dir ["a/b/m".toList] []) := by decide
example : (fsStep exState (.listDir "a/".toList)).2 = .res (.dir [] ["a/b/".toList]) := by decide

/-- the unrepaired `list_dir` (every directory entry is a prefix) violates it: set `a/b/k`, erase `a/b/k`,
`list_dir a/` reports `a/b/` although no key is left -/
theorem fs_listDir_unrepaired_violates :
    let s := fsRun (some .nil) [.set "a/b/k".toList [1], .erase "a/b/k".toList]
    absFs s = [] ∧
    (fsStepUnrepaired s (.listDir "a/".toList)).2 = .res (.dir [] ["a/b/".toList]) ∧
    (Spec.step (absFs s) (.listDir "a/".toList)).2 = .dir [] [] ∧
    (fsStep s (.listDir "a/".toList)).2 = .res (.dir [] []) := by decide

/-! ### histories -/

/-- a universe accepted by `univOk` is hierarchy-shaped -/
theorem univOk_hierarchyShaped (U : List Key) (hU : univOk U = true) : hierarchyShaped U := by
  obtain ⟨h1, h2⟩ := univOk_spec hU
  refine ⟨?_, ?_⟩
  · intro k hk
    obtain ⟨path, hp⟩ := h1 k hk
    obtain ⟨_, hne, hpl, hj⟩ := keyPath_spec hp
    rw [← hj]
    exact validKeyB_joinPath path hne hpl
  · intro a ha b hb hpre
    have := h2 a ha b hb
    unfold dirPrefixOf at this
    rw [hpre] at this
    cases this
example : univOk exUniverse = true := by decide

/-- refinement along histories: from the empty base directory, for every sequence of operations over one
hierarchy-shaped universe of plain keys (and any modelled prefixes), the files are the
specified map after the whole history, the tree is well formed, and the next operation's outcome is acceptable -/
theorem fs_history_refines (U : List Key) (hU : univOk U = true) (ops : List StoreOp)
    (hops : ∀ op ∈ ops, opIn U op = true) :
    FsInv (fsRun (some .nil) ops) ∧
    absFs (fsRun (some .nil) ops) = specRun [] ops ∧
    ∀ op, opIn U op = true →
      acceptable (specRun [] ops) op (Spec.step (specRun [] ops) op).2 (fsStep (fsRun (some .nil) ops) op).2 = true := by
  obtain ⟨h1, h2⟩ := hinv_run hU ops hops (some .nil) (hinv_init U)
  have h2' : absFs (fsRun (some .nil) ops) = specRun [] ops := h2
  refine ⟨h1.1, h2', ?_⟩
  intro op hop
  rw [← h2']
  exact (fsStep_refines _ h1.1 op (hinv_opOk hU h1 op hop)).2.2.1
example : univOk exUniverse = true ∧ (∀ op ∈ exHistory, opIn exUniverse op = true) ∧
    opIn exUniverse (.listDir "a/b/c/".toList) = true ∧ opIn exUniverse (.erasePrefix "a/b/".toList) = true ∧
    opIn exUniverse (.erasePrefix "e/".toList) = true :=
  ⟨by decide, by decide, by decide, by decide, by decide⟩
example : specRun [] exHistory = [("a/b/m".toList, [3]), ("e".toList, [])] := by decide

/-! ### the error cases: where the filesystem store is NOT the ordered map (each confirmed on the implementation) -/

/-- a key below a file: `a/b` is a file, `set a/b/c` fails (`create_dir_all`: ENOTDIR/EEXIST) -/
theorem fs_set_below_file_errs :
    let s := fsRun (some .nil) [.set "a/b".toList [1]]
    fsStep s (.set "a/b/c".toList [2]) = (s, .res .err) ∧ fsStep s (.get "a/b/c".toList) = (s, .res .err) := by
  decide

/-- a key that names a directory: `a/b/c` is set, `set a/b` fails (EISDIR), `get a/b` errs -/
theorem fs_set_on_dir_errs :
    let s := fsRun (some .nil) [.set "a/b/c".toList [1]]
    fsStep s (.set "a/b".toList [2]) = (s, .res .err) ∧ fsStep s (.get "a/b".toList) = (s, .res .err) ∧
      (fsStep s (.sizeKey "a/b".toList)).2 = .outside := by
  decide

/-- `opOk` cannot be weakened to prefix-freeness of the key sets: the directory emptied by `erase` blocks the key of
the same name.  set `a/b/k`; erase `a/b/k` (no key left); set `a/b`: the ordered map accepts, the store fails. -/
theorem fs_leftover_dir_blocks_key :
    let s := fsRun (some .nil) [.set "a/b/k".toList [1], .erase "a/b/k".toList]
    absFs s = [] ∧ hierarchyShaped ["a/b".toList] ∧
    fsStep s (.set "a/b".toList [2]) = (s, .res .err) ∧ fsStep s (.get "a/b".toList) = (s, .res .err) ∧
    (Spec.step (absFs s) (.set "a/b".toList [2])) = ([("a/b".toList, [2])], .unit) := by
  refine ⟨by decide, by unfold hierarchyShaped; decide, by decide, by decide, by decide⟩

/-- (was an error case until the repair F-C08-9) `erase_prefix` of a prefix that names a key (a file) or lies below
one: `remove_dir_all` fails with ENOTDIR, `prefix_path.is_dir()` is false, the outcome is `ok` and the state is
unchanged - as the ordered map does (no key has such a prefix) -/
theorem fs_erasePrefix_on_key_ok (s : FsState) (p : Key) (path : List Name) (hp : prefixPath p = some path)
    (hblk : (∃ b, s.stat path = .file b) ∨ s.stat path = .notdir) :
    fsStep s (.erasePrefix p) = (s, .res .unit) := by
  have hne : path ≠ [] := by
    intro e
    subst e
    cases s with
    | none => rcases hblk with ⟨b, h⟩ | h <;> cases h
    | some t => rcases hblk with ⟨b, h⟩ | h <;> cases h
  rw [stat_content s path hne] at hblk
  simp only [fsStep, hp, erasePrefix_blocked s path hne hblk]
example : prefixPath "u/".toList = some ["u".toList] ∧
    (fsRun (some .nil) [.set "u".toList [1]]).stat ["u".toList] = .file [1] ∧
    (fsRun (some .nil) [.set "u".toList [1]]).stat ["u".toList, "v".toList] = .notdir := by decide

/-- the concrete history of the former finding, with the contrast: set `u`; erase_prefix `u/` (and `u/v/`) is `ok`
with the state unchanged, as in the ordered map; the unrepaired `erase_prefix` answered `err` -/
theorem fs_erasePrefix_on_key_example :
    let s := fsRun (some .nil) [.set "u".toList [1]]
    fsStep s (.erasePrefix "u/".toList) = (s, .res .unit) ∧
    fsStep s (.erasePrefix "u/v/".toList) = (s, .res .unit) ∧
    Spec.step (absFs s) (.erasePrefix "u/".toList) = (absFs s, .unit) ∧
    fsStepErasePrefixUnrepaired s (.erasePrefix "u/".toList) = (s, .res .err) ∧
    fsStepErasePrefixUnrepaired s (.erasePrefix "u/v/".toList) = (s, .res .err) := by
  decide

end Zarrs.C08Fs
