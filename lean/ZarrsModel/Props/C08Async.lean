import ZarrsModel.Model.AsyncRmw
import ZarrsModel.Lemmas.AsyncRmw
/-
C08 (asynchronous stores) — the generic asynchronous read-modify-write partial write
`async_store_set_partial_values` (zarrs_storage/src/storage_async.rs; the `set_partial_values` of the object_store and
opendal asynchronous stores) behaves as the ordered key-value map: one call equals the sequential application of its
entries, for EVERY order in which the gets and sets of its concurrently running per-key futures take effect.

`Props/C08.lean: rmw_refines` is the same statement for the synchronous, sequential `store_set_partial_values`; there the
way entries are grouped is irrelevant.  Here it is essential: the theorems hold because the loop groups by key over the
whole call (`groupByKey`), so no two concurrent futures touch the same key.  The last section shows that the variant that
only looks at the most recent group (`groupLast`) loses a write under a schedule the executor can produce.
-/
set_option Elab.async false
namespace Zarrs.C08Async
open Zarrs Zarrs.AsyncRmw

/-- **the groups of a call**: one group per key that occurs in the call, holding exactly the entries of that key in
call order; no key has two groups -/
theorem groups_by_key (kovs : List (Key × Nat × Bytes)) :
    ((groupByKey kovs).map (·.1)).Nodup ∧
    ∀ k, glookup (groupByKey kovs) k = if entriesOf k kovs = [] then none else some (entriesOf k kovs) :=
  ⟨nodup_groupByKey kovs, glookup_groupByKey kovs⟩

/-- the running example: `[(a/b,0,..),(j,1,..),(a/b,4,..),(a/b,2,..)]` on a store holding `a/b` and `e` -/
def exStore : KV := [("a/b".toList, [1, 2]), ("e".toList, [9])]
def exCall : List (Key × Nat × Bytes) :=
  [("a/b".toList, 0, [7]), ("j".toList, 1, [5, 6]), ("a/b".toList, 4, [8]), ("a/b".toList, 2, [3, 4, 5])]
example : groupByKey exCall =
    [("a/b".toList, [(0, [7]), (4, [8]), (2, [3, 4, 5])]), ("j".toList, [(1, [5, 6])])] := by decide

/-- **any interleaving equals the sequential specification**: when every future of the call has completed, whatever
the order in which their reads and writes took effect, every key holds exactly what the ordered-map specification
`Spec.step m (.setPartial kovs)` (the entries applied one after the other: zero-extend, never truncate) leaves -/
theorem async_rmw_refines (m : KV) (kovs : List (Key × Nat × Bytes)) (evs : List Ev)
    (hdone : allDone (groupByKey kovs) (run (groupByKey kovs) m evs) = true) (k : Key) :
    (run (groupByKey kovs) m evs).m.get k = ((Spec.step m (.setPartial kovs)).1).get k := by
  rw [run_get (groupByKey kovs) (nodup_groupByKey kovs) m evs hdone k]
  rw [seq_get (groupByKey kovs) (nodup_groupByKey kovs), glookup_groupByKey]
  have hspec : (Spec.step m (.setPartial kovs)).1 = kovs.foldl specKov m := rfl
  rw [hspec, spec_get]
  by_cases he : entriesOf k kovs = []
  · simp [he]
  · simp [he]
/-- hypotheses satisfiable: the example call; the future of `j` reads first, the future of `a/b` reads and writes, then
`j` writes — not the order in which they were issued -/
example : allDone (groupByKey exCall) (run (groupByKey exCall) exStore [.read 1, .read 0, .write 0, .write 1]) = true := by
  decide
/-- the conclusion on the example, by evaluation -/
example : (run (groupByKey exCall) exStore [.read 1, .read 0, .write 0, .write 1]).m =
    (Spec.step exStore (.setPartial exCall)).1 ∧
    (Spec.step exStore (.setPartial exCall)).1 =
      [("a/b".toList, [7, 2, 3, 4, 5]), ("e".toList, [9]), ("j".toList, [0, 5, 6])] := by decide

/-- the same key set (a consequence of the previous theorem) -/
theorem async_rmw_keys (m : KV) (kovs : List (Key × Nat × Bytes)) (evs : List Ev)
    (hdone : allDone (groupByKey kovs) (run (groupByKey kovs) m evs) = true) (k : Key) :
    k ∈ (run (groupByKey kovs) m evs).m.keys ↔ k ∈ ((Spec.step m (.setPartial kovs)).1).keys := by
  rw [KV.mem_keys_iff_get, KV.mem_keys_iff_get, async_rmw_refines m kovs evs hdone k]
example : allDone (groupByKey exCall) (run (groupByKey exCall) exStore [.read 0, .write 0, .read 1, .write 1]) = true := by
  decide

/-- the store stays a sorted, duplicate-free map during the whole run (any prefix of any schedule, any grouping) -/
theorem async_rmw_sorted (tasks : List Group) (m : KV) (hs : m.sorted) (evs : List Ev) :
    (run tasks m evs).m.sorted :=
  run_sorted tasks m hs evs
example : exStore.sorted := by unfold KV.sorted; decide

/-- during the run: a key none of whose futures has written yet still holds its original value, and a key whose future
has written already holds its final value (no intermediate state of a value is ever visible) -/
theorem async_rmw_atomic_per_key (m : KV) (kovs : List (Key × Nat × Bytes)) (evs : List Ev) (k : Key) :
    (run (groupByKey kovs) m evs).m.get k = m.get k ∨
    (run (groupByKey kovs) m evs).m.get k = ((Spec.step m (.setPartial kovs)).1).get k := by
  have hI := inv_run (groupByKey kovs) (nodup_groupByKey kovs) m evs
  cases hg : glookup (groupByKey kovs) k with
  | none =>
    left
    apply hI.untouched
    intro i g hi
    exact absurd hi (glookup_none_idx _ k hg i g)
  | some g =>
    obtain ⟨i, hi⟩ := glookup_some_idx _ k g hg
    by_cases hd : i ∈ (run (groupByKey kovs) m evs).done
    · right
      rw [hI.written i k g hi hd]
      have hspec : (Spec.step m (.setPartial kovs)).1 = kovs.foldl specKov m := rfl
      rw [hspec, spec_get]
      rw [glookup_groupByKey] at hg
      by_cases he : entriesOf k kovs = []
      · simp [he] at hg
      · simp only [he, if_false, Option.some.injEq] at hg
        rw [if_neg he, hg]
    · left
      apply hI.untouched
      intro i' g' hi' hd'
      have : i' = i := idx_inj _ (nodup_groupByKey kovs) i' i k g' g hi' hi
      subst this
      exact hd hd'
/-- on the example, in the middle of the run (`a/b` written, `j` only read): `a/b` final, `j` still absent -/
example : (run (groupByKey exCall) exStore [.read 1, .read 0, .write 0]).m =
    [("a/b".toList, [7, 2, 3, 4, 5]), ("e".toList, [9])] := by decide

/-! ### why the grouping must be by key over the whole call -/

/-- the variant that compares only with the most recent group splits the non-adjacent entries of `a/b` -/
example : groupLast exCall =
    [("a/b".toList, [(0, [7])]), ("j".toList, [(1, [5, 6])]), ("a/b".toList, [(4, [8]), (2, [3, 4, 5])])] := by decide

/-- **a lost write**: with that grouping two futures read `a/b` before either writes; the second write replaces the
first, and the write at offset 0 is lost — although every future completed.  (Run one after the other, in issue order,
the same groups give the specified result: the defect is invisible on a store whose futures complete immediately.) -/
theorem groupLast_loses_a_write :
    ∃ (m : KV) (kovs : List (Key × Nat × Bytes)) (evs : List Ev) (k : Key),
      allDone (groupLast kovs) (run (groupLast kovs) m evs) = true ∧
      (run (groupLast kovs) m evs).m.get k ≠ ((Spec.step m (.setPartial kovs)).1).get k ∧
      (run (groupLast kovs) m [.read 0, .write 0, .read 1, .write 1, .read 2, .write 2]).m =
        (Spec.step m (.setPartial kovs)).1 :=
  ⟨exStore, exCall, [.read 0, .read 1, .read 2, .write 0, .write 1, .write 2], "a/b".toList, by decide, by decide, by decide⟩
/-- the values: specified `07 02 03 04 05`, obtained `01 02 03 04 05` -/
example : (run (groupLast exCall) exStore [.read 0, .read 1, .read 2, .write 0, .write 1, .write 2]).m.get "a/b".toList
    = some [1, 2, 3, 4, 5] ∧ ((Spec.step exStore (.setPartial exCall)).1).get "a/b".toList = some [7, 2, 3, 4, 5] := by
  decide

end Zarrs.C08Async
