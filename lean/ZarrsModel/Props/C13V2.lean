import ZarrsModel.Model.MetaV2
import ZarrsModel.Lemmas.MetaV2
import ZarrsModel.Lemmas.MetaV2Parse
import ZarrsModel.Lemmas.MetaV2Wf
import ZarrsModel.Lemmas.MetaV2ConvWf
import ZarrsModel.Props.C13V2Conv
import ZarrsModel.Props.C13
/-
C13 (V2 part) — Zarr V2 metadata documents persist faithfully.

Documents: `MetaV2`, `DType`, `FillV2`, `ArrayDocV2`, `GroupDocV2` (`Model/MetaV2.lean`) model what `serde` reads and
writes for `zarrs_metadata::v2::{ArrayMetadataV2, GroupMetadataV2}`; storing is `toText` (print of `toJ`), opening
is `ofText` (parse, then `ofJ`); `storeTexts`/`openTexts` add the `.zattrs` split of `Array::store_metadata` /
`Array::open`.  The V2 -> V3 interpretation is in `Props/C13V2Conv.lean`.  Theorems only; lemmas are in
`Lemmas/MetaV2*.lean`.
-/
set_option Elab.async false
namespace Zarrs.C13V2
open Zarrs Zarrs.Json Zarrs.Meta Zarrs.MetaV2

/-! ### well-formed values (what parsing produces and what the builders create) -/

/-- a V2 array document in the form the round trip needs (`ArrayDocV2.shapeOk`: `u64` / non-zero `u64` tokens; every
    structured data type field has a shape; a string fill value is not one of `NaN`/`Infinity`/`-Infinity`;
    configurations without an `id` key; filters not the empty list; additional fields sorted by key, outside the named
    fields, objects without `must_understand`, none of them the `"node_type": "array"` tag) holding well-formed JSON
    (`ArrayDocV2.wfParts`: number tokens match the grammar, strings are UTF-8, object keys are distinct) -/
def ArrayDocV2.ok (d : ArrayDocV2) : Prop := d.shapeOk ∧ d.wfParts

def GroupDocV2.ok (d : GroupDocV2) : Prop := d.shapeOk ∧ d.wfParts

/-- no additional field is called `node_type` (such a field is written next to the tag: a repeated key in the text) -/
def noNodeTypeField (d : ArrayDocV2) : Prop := ∀ kv ∈ d.extra, kv.1 ≠ kNodeType

/-! ### concrete values documenting that the hypotheses below are satisfiable -/

/-- an additional field `{"a":1}` that need not be understood -/
def exField : AField := ⟨.obj [(ascii "a", .num ['1'])], false⟩

/-- `exV2` (4x6 big-endian `int16`, F order, a `shuffle` filter, `zlib`, `/` separator, attributes) with two additional
    fields, one exempt from understanding and one not -/
def exV2x : ArrayDocV2 := { exV2 with extra := [(ascii "my_ext", exField), (ascii "zz", ⟨.str (ascii "v"), true⟩)] }

theorem exV2x_ok : ArrayDocV2.ok exV2x := by
  have t1 : tokOk ['1'] := tokOk_of_natTok 1 _ (by decide)
  have t2 : tokOk ['2'] := tokOk_of_natTok 2 _ (by decide)
  refine ⟨⟨by decide, by decide, trivial, ?_, trivial, ⟨(by intro e; cases e), ?_⟩, by decide, ?_, by unfold sortedKeys; decide, ?_⟩,
    ⟨?_, ?_, strOk_ascii _ (by decide), ?_, ?_, ?_, ⟨?_, by unfold keysDistinct; decide⟩, ?_⟩⟩
  · intro m hm; cases hm; exact (lookup_eq_none_iff _ _).2 (by decide)
  · intro fs hfs f hf
    cases hfs
    simp only [List.mem_cons, List.not_mem_nil, or_false] at hf
    subst hf
    exact (lookup_eq_none_iff _ _).2 (by decide)
  · intro kv hkv
    simp only [exV2x, List.mem_cons, List.not_mem_nil, or_false] at hkv
    rcases hkv with rfl | rfl
    · exact (lookup_eq_none_iff _ _).2 (by decide)
    · rfl
  · intro kv hkv
    simp only [exV2x, List.mem_cons, List.not_mem_nil, or_false] at hkv
    rcases hkv with rfl | rfl <;> rfl
  · intro t ht
    simp only [exV2x, exV2, List.mem_cons, List.not_mem_nil, or_false] at ht
    rcases ht with rfl | rfl
    · exact tokOk_of_natTok 4 _ (by decide)
    · exact tokOk_of_natTok 6 _ (by decide)
  · intro t ht
    simp only [exV2x, exV2, List.mem_cons, List.not_mem_nil, or_false] at ht
    rcases ht with rfl | rfl
    · exact t2
    · exact tokOk_of_natTok 3 _ (by decide)
  · intro m hm
    cases hm
    refine ⟨strOk_ascii _ (by decide), ?_, by unfold keysDistinct; decide⟩
    simp only [wfKVs, J.wf, and_true]
    exact ⟨strOk_ascii _ (by decide), t1⟩
  · have e : FillMeta.intTok (-1) = ['-', '1'] := by decide
    exact (num_wf_iff _).2 (e ▸ NumTok.tokOk_intTok (-1))
  · intro fs hfs f hf
    cases hfs
    simp only [List.mem_cons, List.not_mem_nil, or_false] at hf
    subst hf
    refine ⟨strOk_ascii _ (by decide), ?_, by unfold keysDistinct; decide⟩
    simp only [wfKVs, J.wf, and_true]
    exact ⟨strOk_ascii _ (by decide), t2⟩
  · simp only [exV2x, exV2, wfKVs, J.wf, and_true]
    exact ⟨strOk_ascii _ (by decide), strOk_ascii _ (by decide)⟩
  · intro kv hkv
    simp only [exV2x, List.mem_cons, List.not_mem_nil, or_false] at hkv
    rcases hkv with rfl | rfl
    · refine ⟨strOk_ascii _ (by decide), ?_⟩
      show (J.obj _).wf
      simp only [J.wf, wfKVs, and_true]
      exact ⟨⟨strOk_ascii _ (by decide), t1⟩, by unfold keysDistinct; decide⟩
    · exact ⟨strOk_ascii _ (by decide), (str_wf_iff _).2 (strOk_ascii _ (by decide))⟩

theorem exV2x_noNodeType : noNodeTypeField exV2x := by
  intro kv hkv
  simp only [exV2x, List.mem_cons, List.not_mem_nil, or_false] at hkv
  rcases hkv with rfl | rfl <;> decide

/-- a V2 group with attributes and additional fields (one of them `node_type`) -/
def exGroupV2 : GroupDocV2 :=
  ⟨[(ascii "title", .str (ascii "demo"))], [(ascii "my_ext", exField), (ascii "node_type", ⟨.str (ascii "group"), true⟩)]⟩

theorem exGroupV2_ok : GroupDocV2.ok exGroupV2 := by
  refine ⟨⟨by decide, ?_, by unfold sortedKeys; decide⟩, ⟨⟨?_, by unfold keysDistinct; decide⟩, ?_⟩⟩
  · intro kv hkv
    simp only [exGroupV2, List.mem_cons, List.not_mem_nil, or_false] at hkv
    rcases hkv with rfl | rfl
    · exact (lookup_eq_none_iff _ _).2 (by decide)
    · rfl
  · simp only [exGroupV2, wfKVs, J.wf, and_true]
    exact ⟨strOk_ascii _ (by decide), strOk_ascii _ (by decide)⟩
  · intro kv hkv
    simp only [exGroupV2, List.mem_cons, List.not_mem_nil, or_false] at hkv
    rcases hkv with rfl | rfl
    · refine ⟨strOk_ascii _ (by decide), ?_⟩
      show (J.obj _).wf
      simp only [J.wf, wfKVs, and_true]
      exact ⟨⟨strOk_ascii _ (by decide), tokOk_of_natTok 1 _ (by decide)⟩, by unfold keysDistinct; decide⟩
    · exact ⟨strOk_ascii _ (by decide), (str_wf_iff _).2 (strOk_ascii _ (by decide))⟩

/-! ### extension metadata -/

/-- **what is written for a `MetadataV2` reads back as the same value**: the `id` and the configuration keys in order -/
theorem metaV2_roundtrip (m : MetaV2) (h : lookup m.config kId = none) : MetaV2.ofJ m.toJ = some m := by
  exact metaV2_ofJ_toJ m h
example : lookup (⟨ascii "zlib", [(ascii "level", .num ['1'])]⟩ : MetaV2).config kId = none := by decide
/-- parsing leaves a configuration without `id`, so re-serialising a parsed `MetadataV2` is a fixed point -/
theorem metaV2_fixed (j : J) (m : MetaV2) (h : MetaV2.ofJ j = some m) : MetaV2.ofJ m.toJ = some m := by
  exact metaV2_ofJ_toJ m (metaV2_ofJ_shapeOk j m h)
example : ∃ j m, MetaV2.ofJ j = some m :=
  ⟨.obj [(ascii "level", .num ['1']), (ascii "id", .str (ascii "zlib"))], ⟨ascii "zlib", [(ascii "level", .num ['1'])]⟩, by rfl⟩

/-! ### array documents -/

/-- **storing then opening gives the same V2 array metadata** (at the JSON level): shape, chunks, data type,
compressor and filters with their configurations in order, fill value, order, separator, attributes in order,
additional fields -/
theorem arrayDocV2_roundtrip (d : ArrayDocV2) (h : ArrayDocV2.ok d) : ArrayDocV2.ofJ d.toJ = some d := by
  exact arrayDocV2_ofJ_toJ d h.1
example : ArrayDocV2.ok exV2x := exV2x_ok

/-- **the same through the stored bytes** (when no additional field is called `node_type`) -/
theorem arrayDocV2_text_roundtrip (d : ArrayDocV2) (h : ArrayDocV2.ok d) (hn : noNodeTypeField d) :
    ArrayDocV2.ofText d.toText = some d := by
  exact MetaV2.arrayDocV2_text_roundtrip d h.2 h.1 hn
example : ArrayDocV2.ok exV2x ∧ noNodeTypeField exV2x := ⟨exV2x_ok, exV2x_noNodeType⟩

/-- **parsing yields a well-formed document** (up to the empty filter list, which is written as `null`) when every
structured data type field has a shape -/
theorem arrayDocV2_ofJ_ok (j : J) (hj : j.wf) (d : ArrayDocV2) (h : ArrayDocV2.ofJ j = some d) (hs : d.dtype.hasShapes) :
    ArrayDocV2.ok d.norm := by
  exact ⟨arrayDocV2_ofJ_shapeOk j d h hs, ArrayDocV2.wfParts_norm d (arrayDocV2_ofJ_wfParts j hj d h)⟩
example : ∃ j d, j.wf ∧ ArrayDocV2.ofJ j = some d ∧ d.dtype.hasShapes :=
  ⟨exV2x.toJ, exV2x, arrayDocV2_toJ_wf exV2x exV2x_ok.2 exV2x_ok.1 exV2x_noNodeType, arrayDocV2_roundtrip exV2x exV2x_ok, trivial⟩

/-- **re-serialising a parsed V2 array document is a fixed point**, for every JSON value the reader accepts (also one
with a `node_type` additional field, where the written object repeats the key) whose structured data type fields all
have a shape: what is written reads back (as the document with `filters: []` normalised to no filters) and is written
as the same JSON again -/
theorem arrayDocV2_fixed (j : J) (d : ArrayDocV2) (h : ArrayDocV2.ofJ j = some d) (hs : d.dtype.hasShapes) :
    ArrayDocV2.ofJ d.toJ = some d.norm ∧ d.norm.toJ = d.toJ ∧
    (∀ d', ArrayDocV2.ofJ d.toJ = some d' → d'.toJ = d.toJ) := by
  have hr := arrayDocV2_ofJ_toJ d.norm (arrayDocV2_ofJ_shapeOk j d h hs)
  rw [ArrayDocV2.toJ_norm] at hr
  refine ⟨hr, ArrayDocV2.toJ_norm d, ?_⟩
  intro d' hd'
  rw [hr] at hd'
  cases hd'
  exact ArrayDocV2.toJ_norm d
example : ∃ j d, ArrayDocV2.ofJ j = some d ∧ d.dtype.hasShapes :=
  ⟨exV2x.toJ, exV2x, arrayDocV2_roundtrip exV2x exV2x_ok, trivial⟩

/-- **the same through the stored bytes**: the text written for a parsed document reads back and is written as the
same text again -/
theorem arrayDocV2_text_fixed (j : J) (hj : j.wf) (d : ArrayDocV2) (h : ArrayDocV2.ofJ j = some d) (hs : d.dtype.hasShapes)
    (hn : noNodeTypeField d) :
    ArrayDocV2.ofText d.toText = some d.norm ∧ d.norm.toText = d.toText := by
  have hok := arrayDocV2_ofJ_ok j hj d h hs
  have ht : d.norm.toText = d.toText := by unfold ArrayDocV2.toText; rw [ArrayDocV2.toJ_norm]
  refine ⟨?_, ht⟩
  rw [← ht]
  exact arrayDocV2_text_roundtrip d.norm hok hn
example : ∃ j d, j.wf ∧ ArrayDocV2.ofJ j = some d ∧ d.dtype.hasShapes ∧ noNodeTypeField d :=
  ⟨exV2x.toJ, exV2x, arrayDocV2_toJ_wf exV2x exV2x_ok.2 exV2x_ok.1 exV2x_noNodeType, arrayDocV2_roundtrip exV2x exV2x_ok, trivial,
    exV2x_noNodeType⟩

/-- the reader's treatment of structured data types is NOT a fixed point outside that hypothesis: a field written with
a `null` shape is accepted, written back with two elements, and the two-element form is rejected (as is the usual
two-element form on input).  The document
`{"zarr_format":2,"shape":[2],"chunks":[1],"dtype":[["a","<i4",null]],"fill_value":0,"order":"C"}` -/
theorem arrayDocV2_null_shape_not_reread :
    ∃ j d, j.wf ∧ ArrayDocV2.ofJ j = some d ∧ ArrayDocV2.ofJ d.toJ = none := by
  refine ⟨.obj [(ascii "zarr_format", .num ['2']), (ascii "shape", .arr [.num ['2']]), (ascii "chunks", .arr [.num ['1']]),
      (ascii "dtype", .arr [.arr [.str (ascii "a"), .str (ascii "<i4"), .null]]), (ascii "fill_value", .num ['0']),
      (ascii "order", .str (ascii "C"))],
    ⟨[['2']], [['1']], .structured [⟨ascii "a", ascii "<i4", none⟩], none, .num ['0'], .C, none, .dot, [], []⟩, ?_, by rfl, by rfl⟩
  rw [obj_wf_iff]
  refine ⟨?_, by unfold keysDistinct; decide⟩
  rw [wfKVs_iff]
  intro kv hkv
  simp only [List.mem_cons, List.not_mem_nil, or_false] at hkv
  have s1 : ∀ s : String, (∀ b ∈ ascii s, b < 128) → (J.str (ascii s)).wf := fun s hs => (str_wf_iff _).2 (strOk_ascii _ hs)
  rcases hkv with rfl | rfl | rfl | rfl | rfl | rfl
  · exact ⟨strOk_ascii _ (by decide), (num_wf_iff _).2 (tokOk_of_natTok 2 _ (by decide))⟩
  · refine ⟨strOk_ascii _ (by decide), (arr_wf_iff _).2 ?_⟩
    intro x hx; simp only [List.mem_cons, List.not_mem_nil, or_false] at hx; subst hx
    exact (num_wf_iff _).2 (tokOk_of_natTok 2 _ (by decide))
  · refine ⟨strOk_ascii _ (by decide), (arr_wf_iff _).2 ?_⟩
    intro x hx; simp only [List.mem_cons, List.not_mem_nil, or_false] at hx; subst hx
    exact (num_wf_iff _).2 (tokOk_of_natTok 1 _ (by decide))
  · refine ⟨strOk_ascii _ (by decide), (arr_wf_iff _).2 ?_⟩
    intro x hx; simp only [List.mem_cons, List.not_mem_nil, or_false] at hx; subst hx
    refine (arr_wf_iff _).2 ?_
    intro y hy; simp only [List.mem_cons, List.not_mem_nil, or_false] at hy
    rcases hy with rfl | rfl | rfl
    · exact s1 "a" (by decide)
    · exact s1 "<i4" (by decide)
    · simp only [J.wf]
  · exact ⟨strOk_ascii _ (by decide), (num_wf_iff _).2 (tokOk_of_natTok 0 _ (by decide))⟩
  · exact ⟨strOk_ascii _ (by decide), s1 "C" (by decide)⟩

/-- **what a parsed V2 array document holds is what the text said**: shape and chunks are the lists under their keys,
every additional field comes from a key outside the named fields, and the `"node_type": "array"` tag is never one -/
theorem arrayDocV2_fields (o : Obj) (d : ArrayDocV2) (h : ArrayDocV2.ofJ (.obj o) = some d) :
    lookup o (ascii "zarr_format") = some (.num ['2']) ∧
    lookup o (ascii "shape") = some (.arr (d.shape.map .num)) ∧
    lookup o (ascii "chunks") = some (.arr (d.chunks.map .num)) ∧
    (∀ t ∈ d.chunks, ∃ n, asU64 t = some n ∧ n ≠ 0) ∧
    (∀ k a, (k, a) ∈ d.extra → ∃ v, (k, v) ∈ o ∧ k ∉ arrayKeysV2 ∧ a = AField.ofJ v) ∧
    (∀ kv ∈ d.extra, isArrayTag kv = false) := by
  have hi := arrayDocV2_ofJ_inv o d h
  refine ⟨hi.zf, (numList_u64_inv _ _ hi.shape).1, (numList_nz_inv _ _ hi.chunks).1, ?_, ?_, ?_⟩
  · intro t ht
    have := (numList_nz_inv _ _ hi.chunks).2 t ht
    unfold isNzU64Tok at this
    cases hn : asU64 t with
    | none => rw [hn] at this; cases this
    | some n => rw [hn] at this; exact ⟨n, rfl, by simpa using this⟩
  · intro k a hka
    rw [hi.extra] at hka
    have hm := (List.mem_filter.1 hka).1
    rw [extrasV2_eq] at hm
    obtain ⟨v, hv, hk, e⟩ := mem_extrasOf arrayKeysV2 o (k, a) hm
    exact ⟨v, hv, hk, e⟩
  · rw [hi.extra]; exact noArrayTag_dropArrayTag _
example : ∃ o d, ArrayDocV2.ofJ (.obj o) = some d := ⟨exV2x.kvs, exV2x, by rw [← ArrayDocV2.toJ_eq]; exact arrayDocV2_roundtrip exV2x exV2x_ok⟩

/-- **rejection**: an unknown top-level field without `"must_understand": false` makes the V2 array unopenable
(`Array::validate_metadata`), whatever the rest of the document -/
theorem unknown_field_rejected_v2 (o : Obj) (d : ArrayDocV2) (h : ArrayDocV2.ofJ (.obj o) = some d)
    (hd : keysDistinct o) (k : Str) (v : J) (hk : (k, v) ∈ o) (hu : k ∉ arrayKeysV2) (hnt : k ≠ kNodeType)
    (hv : ¬ ∃ o', v = .obj o' ∧ lookup o' kMustUnderstand = some (.bool false)) :
    openOkV2 d = false := by
  have hi := arrayDocV2_ofJ_inv o d h
  have hm0 : (k, AField.ofJ v) ∈ extrasV2 arrayKeysV2 o := by
    rw [extrasV2_eq]; exact extrasOf_mem arrayKeysV2 o hd k v hk hu
  have hm : (k, AField.ofJ v) ∈ d.extra := by
    rw [hi.extra]
    unfold dropArrayTag
    rw [List.mem_filter]
    refine ⟨hm0, ?_⟩
    have : (k == kNodeType) = false := by simpa using hnt
    simp [isArrayTag, this]
  have hmu : (AField.ofJ v).mu = true := by
    cases hb : (AField.ofJ v).mu with
    | true => rfl
    | false => exact absurd ((afield_mu_false_iff' v).1 hb) hv
  unfold openOkV2
  have : d.extra.all (fun kv => !kv.2.mu) = false := by
    rw [List.all_eq_false]
    exact ⟨_, hm, by simp [hmu]⟩
  rw [this]
  rfl
example : ∃ o d k v, ArrayDocV2.ofJ (.obj o) = some d ∧ keysDistinct o ∧ (k, v) ∈ o ∧ k ∉ arrayKeysV2 ∧ k ≠ kNodeType ∧
    ¬ ∃ o', v = .obj o' ∧ lookup o' kMustUnderstand = some (.bool false) :=
  ⟨exV2x.kvs, exV2x, ascii "zz", .str (ascii "v"),
    by rw [← ArrayDocV2.toJ_eq]; exact arrayDocV2_roundtrip exV2x exV2x_ok,
    ((obj_wf_iff _).1 (by rw [← ArrayDocV2.toJ_eq]; exact arrayDocV2_toJ_wf exV2x exV2x_ok.2 exV2x_ok.1 exV2x_noNodeType)).2,
    by simp [ArrayDocV2.kvs, extraKVs, exV2x, AField.toJ], by decide, by decide, by rintro ⟨o', h, _⟩; cases h⟩

/-! ### `.zarray` and `.zattrs` -/

/-- **storing then opening a V2 array** (`Array::store_metadata`, `Array::open`): the attributes travel through
`.zattrs` (written only when there are any), everything else through `.zarray`, and opening puts them together again -/
theorem arrayDocV2_store_open (d : ArrayDocV2) (h : ArrayDocV2.ok d) (hn : noNodeTypeField d) :
    ArrayDocV2.openTexts d.storeTexts.1 d.storeTexts.2 = some d := by
  obtain ⟨hs, hw⟩ := h
  have hs0 : ({ d with attrs := [] } : ArrayDocV2).shapeOk :=
    ⟨hs.shape, hs.chunks, hs.dt, hs.comp, hs.fill, hs.filters, hs.extraKeys, hs.extraShape, hs.sorted, hs.noTag⟩
  have hw0 : ({ d with attrs := [] } : ArrayDocV2).wfParts :=
    ⟨hw.shape, hw.chunks, hw.dt, hw.comp, hw.fill, hw.filters, ⟨by simp [wfKVs], by simp [keysDistinct]⟩, hw.extra⟩
  have h0 := MetaV2.arrayDocV2_text_roundtrip { d with attrs := [] } hw0 hs0 hn
  unfold ArrayDocV2.openTexts ArrayDocV2.storeTexts ArrayDocV2.stored
  simp only
  unfold ArrayDocV2.toText at h0
  rw [h0]
  cases ha : d.attrs with
  | nil =>
    obtain ⟨shape, chunks, dtype, compressor, fill, order, filters, sep, attrs, extra⟩ := d
    simp only at ha
    subst ha
    rfl
  | cons x xs =>
    have hwf : (J.obj d.attrs).wf := (obj_wf_iff _).2 hw.attrs
    rw [ha] at hwf
    simp only [List.isEmpty_cons, Bool.false_eq_true, if_false, Option.map_some, parse_print _ hwf,
      ArrayDocV2.withZattrs]
    obtain ⟨shape, chunks, dtype, compressor, fill, order, filters, sep, attrs, extra⟩ := d
    simp only at ha
    subst ha
    rfl
example : ArrayDocV2.ok exV2x ∧ noNodeTypeField exV2x := ⟨exV2x_ok, exV2x_noNodeType⟩
example : exV2x.stored.2 = some (.obj [(ascii "title", .str (ascii "demo"))]) := by rfl

/-! ### the converted document as a V3 document -/

/-- **what the V2 -> V3 conversion produces from a well-formed V2 document is a well-formed V3 document**, so the V3
theorems of `Props/C13.lean` apply to it: stored as `zarr.json` it reads back as the same metadata.  The hypothesis
`hk` excludes V2 additional fields named like a V3 array field (`codecs`, `node_type`, `dimension_names`, …): the
conversion carries them over and the V3 document would hold that key twice. -/
theorem v2ToV3_persists (d : ArrayDocV2) (h : ArrayDocV2.ok d) (v3 : ArrayDoc) (hc : v2ToV3 d = .ok v3)
    (hk : ∀ kv ∈ d.extra, kv.1 ∉ arrayKeys) :
    C13.ArrayDoc.ok v3 ∧ ArrayDoc.ofJ v3.toJ = some v3 ∧ ArrayDoc.ofText v3.toText = some v3 := by
  have hg := v2ToV3_good d h.1 h.2 v3 hc hk
  exact ⟨(C13.arrayDoc_ok_iff v3).2 hg, arrayDoc_roundtrip_good v3 hg, arrayDoc_text_roundtrip_good v3 hg⟩
example : ArrayDocV2.ok exV2x ∧ (∃ v3, v2ToV3 exV2x = .ok v3) ∧ ∀ kv ∈ exV2x.extra, kv.1 ∉ arrayKeys :=
  ⟨exV2x_ok, ⟨{ exV3 with extra := exV2x.extra }, by rfl⟩, by
    intro kv hkv
    simp only [exV2x, List.mem_cons, List.not_mem_nil, or_false] at hkv
    rcases hkv with rfl | rfl <;> decide⟩

/-! ### group documents -/

theorem groupDocV2_roundtrip (d : GroupDocV2) (h : GroupDocV2.ok d) : GroupDocV2.ofJ d.toJ = some d := by
  exact groupDocV2_ofJ_toJ d h.1
example : GroupDocV2.ok exGroupV2 := exGroupV2_ok
theorem groupDocV2_text_roundtrip (d : GroupDocV2) (h : GroupDocV2.ok d) : GroupDocV2.ofText d.toText = some d := by
  exact MetaV2.groupDocV2_text_roundtrip d h.2 h.1
example : GroupDocV2.ok exGroupV2 := exGroupV2_ok
theorem groupDocV2_ofJ_ok (j : J) (hj : j.wf) (d : GroupDocV2) (h : GroupDocV2.ofJ j = some d) : GroupDocV2.ok d := by
  exact ⟨groupDocV2_ofJ_shapeOk j d h, groupDocV2_ofJ_wfParts j hj d h⟩
example : ∃ j d, j.wf ∧ GroupDocV2.ofJ j = some d :=
  ⟨exGroupV2.toJ, exGroupV2, groupDocV2_toJ_wf exGroupV2 exGroupV2_ok.2 exGroupV2_ok.1, groupDocV2_roundtrip exGroupV2 exGroupV2_ok⟩
/-- **re-serialising a parsed V2 group document is a fixed point**, for every JSON value the reader accepts -/
theorem groupDocV2_fixed (j : J) (d : GroupDocV2) (h : GroupDocV2.ofJ j = some d) :
    GroupDocV2.ofJ d.toJ = some d ∧ (∀ d', GroupDocV2.ofJ d.toJ = some d' → d'.toJ = d.toJ) := by
  have hr := groupDocV2_ofJ_toJ d (groupDocV2_ofJ_shapeOk j d h)
  refine ⟨hr, ?_⟩
  intro d' hd'
  rw [hr] at hd'
  cases hd'
  rfl
example : ∃ j d, GroupDocV2.ofJ j = some d := ⟨exGroupV2.toJ, exGroupV2, groupDocV2_roundtrip exGroupV2 exGroupV2_ok⟩
/-- through the stored bytes -/
theorem groupDocV2_text_fixed (j : J) (hj : j.wf) (d : GroupDocV2) (h : GroupDocV2.ofJ j = some d) :
    GroupDocV2.ofText d.toText = some d := by
  exact groupDocV2_text_roundtrip d (groupDocV2_ofJ_ok j hj d h)
example : ∃ j d, j.wf ∧ GroupDocV2.ofJ j = some d :=
  ⟨exGroupV2.toJ, exGroupV2, groupDocV2_toJ_wf exGroupV2 exGroupV2_ok.2 exGroupV2_ok.1, groupDocV2_roundtrip exGroupV2 exGroupV2_ok⟩
/-- the conversion to V3 carries attributes and additional fields over, and what it gives opens exactly when no
additional field must be understood -/
theorem groupV2ToV3_carried (d : GroupDocV2) :
    (groupV2ToV3 d).attrs = d.attrs ∧ (groupV2ToV3 d).extra = d.extra ∧
    (groupOk (groupV2ToV3 d) = true ↔ ∀ kv ∈ d.extra, kv.2.mu = false) := by
  refine ⟨rfl, rfl, ?_⟩
  unfold groupOk groupV2ToV3
  simp [List.all_eq_true]
example : groupOk (groupV2ToV3 exGroupV2) = false := by decide +kernel

end Zarrs.C13V2
