import ZarrsModel.Model.Builder
import ZarrsModel.Lemmas.Meta
import ZarrsModel.Lemmas.MetaWf
import ZarrsModel.Lemmas.NumTok
import ZarrsModel.Props.C13
/-
C13 (builders) — the document `ArrayBuilder::build` / `GroupBuilder::build` creates is the one the setters described,
it is accepted on re-opening (unless the caller added fields that must be understood, as documented), and
`Array::builder()` of an opened array rebuilds a document denoting the same array.

`Builder.builderDoc` models `ArrayBuilder::build` up to the call of `Array::new_with_metadata`; `Builder.build` adds the
plugins' acceptance (`plug`) of the document.  `F` is `DataType::metadata_fill_value`.
-/
set_option Elab.async false
namespace Zarrs.C13Build
open Zarrs Zarrs.Json Zarrs.Meta Zarrs.Builder

/-! ### concrete values documenting that the hypotheses below are satisfiable -/

/-- `uint8` writes a one-byte fill value as its number -/
def exF (_ : MetaV3) (bs : List Nat) : Option J := match bs with | [b] => some (natNum b) | _ => none

/-- `ArrayBuilder::new(vec![4, 6], DataType::UInt8, vec![2, 3].try_into()?, FillValue::from(7u8))` with dimension names,
    attributes, a `gzip` codec, `.` as separator and an additional field that need not be understood -/
def exB : BuilderState :=
  applyAll (BuilderState.new [4, 6] ⟨ascii "uint8", none, true⟩ .fixed [] (.regular [2, 3]) [7])
    [.dimensionNames (some [some (ascii "y"), none]), .attributes [(ascii "title", .str (ascii "demo"))],
     .b2b [⟨ascii "gzip", some [(ascii "level", .num ['5'])]⟩], .ckeDefaultSeparator .dot,
     .additionalFields [(ascii "my_ext", C13.exField)]]

/-- the document it builds -/
def exBuilt : ArrayDoc :=
  { shape := [['4'], ['6']], dataType := ⟨ascii "uint8", none, true⟩,
    chunkGrid := ⟨ascii "regular", some [(ascii "chunk_shape", .arr [.num ['2'], .num ['3']])], true⟩,
    cke := ⟨ascii "default", some [(ascii "separator", .str (ascii "."))], true⟩, fill := .num ['7'],
    codecs := [⟨ascii "bytes", some [(ascii "endian", .str (ascii "little"))], true⟩,
               ⟨ascii "gzip", some [(ascii "level", .num ['5'])], true⟩],
    attrs := [(ascii "title", .str (ascii "demo"))], st := [], dimNames := some [some (ascii "y"), none],
    extra := [(ascii "my_ext", C13.exField)] }

theorem exB_builds : builderDoc exF exB = .ok exBuilt := by rfl

/-! ### what `build` checks -/

/-- **`build` succeeds exactly when** the chunk grid's dimensionality and the number of dimension names (when there are
names) equal the rank of the shape and the fill value fits the data type; the document is then the one the setters
described: codecs grouped array-to-array, array-to-bytes, bytes-to-bytes (encode-only codecs write nothing) -/
theorem builderDoc_ok_iff (F : MetaV3 → List Nat → Option J) (b : BuilderState) (d : ArrayDoc) :
    builderDoc F b = .ok d ↔
      b.grid.rank = b.shape.length ∧ (∀ ns, b.dimNames = some ns → ns.length = b.shape.length) ∧
      ∃ f, F b.dataType b.fill = some f ∧
        d = { shape := b.shape.map FillMeta.natTok, dataType := b.dataType, chunkGrid := b.grid.toMeta, cke := b.cke.toMeta,
              fill := f, codecs := codecMetas b, attrs := b.attrs, st := b.st, dimNames := b.dimNames, extra := b.extra } := by
  unfold builderDoc
  by_cases hg : b.grid.rank = b.shape.length
  · simp only [hg, bne_self_eq_false, Bool.false_eq_true, if_false, true_and]
    cases hdn : b.dimNames with
    | none =>
      simp only [reduceCtorEq, false_implies, implies_true, true_and]
      cases hf : F b.dataType b.fill with
      | none => simp
      | some f => simp [eq_comm]
    | some ns =>
      by_cases hn : ns.length = b.shape.length
      · simp only [hn, bne_self_eq_false, Bool.false_eq_true, if_false, Option.some.injEq]
        cases hf : F b.dataType b.fill with
        | none => simp
        | some f =>
          simp only [Except.ok.injEq, Option.some.injEq, exists_eq_left']
          constructor
          · intro h; exact ⟨fun ns' e => e ▸ hn, h.symm⟩
          · intro h; exact h.2.symm
      · have : (ns.length != b.shape.length) = true := by simpa using hn
        simp only [this, if_true, reduceCtorEq, Option.some.injEq, false_iff, not_and]
        intro h; exact absurd (h ns rfl) hn
  · have : (b.grid.rank != b.shape.length) = true := by simpa using hg
    simp [this, hg]
example : builderDoc exF exB = .ok exBuilt := exB_builds

/-- **rank-mismatch rejection**: a chunk grid of another dimensionality than the shape -/
theorem build_grid_rank_rejected (F : MetaV3 → List Nat → Option J) (plug : ArrayDoc → Bool) (b : BuilderState)
    (h : b.grid.rank ≠ b.shape.length) : build F plug b = .error (.gridRank b.grid.rank b.shape.length) := by
  have : (b.grid.rank != b.shape.length) = true := by simpa using h
  simp [build, builderDoc, this]
example : (Setter.apply exB (.chunkGrid (.regular [2, 3, 1]))).grid.rank ≠ (Setter.apply exB (.chunkGrid (.regular [2, 3, 1]))).shape.length := by
  decide

/-- **rank-mismatch rejection**: dimension names whose number is not the rank -/
theorem build_dim_names_rejected (F : MetaV3 → List Nat → Option J) (plug : ArrayDoc → Bool) (b : BuilderState)
    (hg : b.grid.rank = b.shape.length) (ns : List (Option Str)) (hn : b.dimNames = some ns)
    (h : ns.length ≠ b.shape.length) : build F plug b = .error (.dimNames ns.length b.shape.length) := by
  have : (ns.length != b.shape.length) = true := by simpa using h
  simp [build, builderDoc, hg, hn, this]
example : build exF (fun _ => true) (Setter.apply exB (.dimensionNames (some [none]))) = .error (.dimNames 1 2) := by rfl

/-- a fill value that does not fit the data type is rejected -/
theorem build_fill_rejected (F : MetaV3 → List Nat → Option J) (plug : ArrayDoc → Bool) (b : BuilderState)
    (hg : b.grid.rank = b.shape.length) (hd : ∀ ns, b.dimNames = some ns → ns.length = b.shape.length)
    (hf : F b.dataType b.fill = none) : build F plug b = .error .fill := by
  unfold build builderDoc
  simp only [hg, bne_self_eq_false, Bool.false_eq_true, if_false]
  cases hdn : b.dimNames with
  | none => simp [hf]
  | some ns => simp [hd ns hdn, hf]
example : build exF (fun _ => true) (Setter.apply exB (.fillValue [0, 0])) = .error .fill := by rfl

/-! ### the defaults -/

/-- **defaults**: without setters the document has the `bytes` codec alone (for a fixed-size data type), the `default`
chunk key encoding with `/`, no attributes, no storage transformers, no dimension names, no additional fields -/
theorem builder_defaults (F : MetaV3 → List Nat → Option J) (shape : List Nat) (dt : MetaV3) (cs : List Nat) (fill : List Nat)
    (d : ArrayDoc) (h : builderDoc F (BuilderState.new shape dt .fixed [] (.regular cs) fill) = .ok d) :
    d.codecs = [⟨ascii "bytes", some [(ascii "endian", .str (ascii "little"))], true⟩] ∧
    d.cke = ⟨ascii "default", some [(ascii "separator", .str (ascii "/"))], true⟩ ∧
    d.chunkGrid = ⟨ascii "regular", some [(ascii "chunk_shape", .arr (cs.map natNum))], true⟩ ∧
    d.attrs = [] ∧ d.st = [] ∧ d.dimNames = none ∧ d.extra = [] ∧ d.dataType = dt ∧ d.shape = shape.map FillMeta.natTok := by
  obtain ⟨_, _, f, _, rfl⟩ := (builderDoc_ok_iff F _ d).1 h
  exact ⟨rfl, rfl, rfl, rfl, rfl, rfl, rfl, rfl, rfl⟩
example : ∃ d, builderDoc exF (BuilderState.new [4, 6] ⟨ascii "uint8", none, true⟩ .fixed [] (.regular [2, 3]) [7]) = .ok d :=
  ⟨_, rfl⟩

/-- a variable-length data type gets its variable-length codec instead of `bytes` -/
theorem builder_default_string (shape : List Nat) (dt : MetaV3) (g : Grid) (fill : List Nat) :
    (BuilderState.new shape dt .string [] g fill).a2b = vlenUtf8 := rfl

/-- **each setter replaces its field and nothing else; the last call wins** (shown for the chunk key encoding, where two
setters write the same field) -/
theorem setter_last_wins (b : BuilderState) (c : Cke) (s : Sep) :
    (Setter.apply (Setter.apply b (.chunkKeyEncoding c)) (.ckeDefaultSeparator s)).cke = .default s ∧
    (Setter.apply (Setter.apply b (.ckeDefaultSeparator s)) (.chunkKeyEncoding c)).cke = c ∧
    (Setter.apply (Setter.apply b (.chunkKeyEncoding c)) (.ckeDefaultSeparator s)) = Setter.apply b (.ckeDefaultSeparator s) :=
  ⟨rfl, rfl, rfl⟩

/-! ### the built document is accepted -/

/-- the rank the chunk grid metadata states is the grid's dimensionality -/
theorem regularRank_toMeta (cs : List Nat) : regularRank (Grid.toMeta (.regular cs)) = some (Grid.rank (.regular cs)) := by
  simp [regularRank, Grid.toMeta, Grid.rank, lookup_cons_eq]

/-- **`builder_doc_accepted`**: whenever `build` succeeds, the document passes the checks of `Array::open` (`openOk`)
provided no additional field and no storage transformer handed to the builder must be understood - `build` itself does
not look at them (the documentation of `additional_fields` says that such an array is expected not to open) -/
theorem builder_doc_accepted (F : MetaV3 → List Nat → Option J) (plug : ArrayDoc → Bool) (b : BuilderState) (d : ArrayDoc)
    (h : build F plug b = .ok d) (he : ∀ kv ∈ b.extra, kv.2.mu = false) (hst : ∀ m ∈ b.st, m.mu = false) :
    openOk d b.grid.rank = true ∧ plug d = true := by
  unfold build at h
  cases hb : builderDoc F b with
  | error e => rw [hb] at h; cases h
  | ok d' =>
    rw [hb] at h
    by_cases hp : plug d' = true
    · simp only [hp, if_true, Except.ok.injEq] at h
      subst h
      obtain ⟨hg, hdn, f, _, rfl⟩ := (builderDoc_ok_iff F b d').1 hb
      refine ⟨?_, hp⟩
      simp only [openOk, structOk, transformersOk, Bool.and_eq_true, List.all_eq_true, Bool.not_eq_true',
        List.length_map, beq_iff_eq]
      refine ⟨⟨⟨he, hg⟩, ?_⟩, hst⟩
      cases hd : b.dimNames with
      | none => rfl
      | some ns => simpa using hdn ns hd
    · simp only [hp, Bool.false_eq_true, if_false, reduceCtorEq] at h
example : build exF (fun _ => true) exB = .ok exBuilt ∧ (∀ kv ∈ exB.extra, kv.2.mu = false) ∧ (∀ m ∈ exB.st, m.mu = false) :=
  ⟨by rfl, by decide, by decide⟩

/-- with a field that must be understood `build` still succeeds, and the stored document does not open again -/
theorem builder_must_understand_not_reopened (F : MetaV3 → List Nat → Option J) (b : BuilderState) (d : ArrayDoc)
    (h : builderDoc F b = .ok d) (kv : Str × AField) (hk : kv ∈ b.extra) (hm : kv.2.mu = true) (r : Nat) :
    openOk d r = false := by
  obtain ⟨_, _, f, _, rfl⟩ := (builderDoc_ok_iff F b d).1 h
  have : (b.extra.all fun kv => !kv.2.mu) = false := by
    rw [List.all_eq_false]; exact ⟨kv, hk, by simp [hm]⟩
  simp [openOk, structOk, this]
example : ∃ d, builderDoc exF (Setter.apply exB (.additionalFields [(ascii "zz", ⟨.str (ascii "v"), true⟩)])) = .ok d :=
  ⟨_, rfl⟩

/-- a builder state whose parts are well-formed JSON (what the domain objects write, and what the caller hands over) -/
structure WfState (F : MetaV3 → List Nat → Option J) (b : BuilderState) : Prop where
  shape : ∀ n ∈ b.shape, n < 18446744073709551616
  dt : MetaV3.good b.dataType
  grid : MetaV3.good b.grid.toMeta
  cke : MetaV3.good b.cke.toMeta
  fill : ∀ f, F b.dataType b.fill = some f → f.wf
  codecs : ∀ c ∈ codecMetas b, MetaV3.good c
  attrs : wfKVs b.attrs ∧ keysDistinct b.attrs
  st : ∀ c ∈ b.st, MetaV3.good c
  dn : ∀ ns, b.dimNames = some ns → ∀ n ∈ ns, ∀ s, n = some s → strOk s
  extra : ∀ kv ∈ b.extra, strOk kv.1 ∧ AField.good kv.2 ∧ kv.1 ∉ arrayKeys
  sorted : sortedKeys b.extra

theorem isU64Tok_natTok (n : Nat) (h : n < 18446744073709551616) : isU64Tok (FillMeta.natTok n) = true := by
  unfold isU64Tok
  rw [NumTok.asU64_natTok]
  have : n < 2 ^ 64 := by simpa using h
  simp [this]

/-- **re-opening gives the same array**: the document `build` creates from a well-formed builder state is written and
read back as itself -/
theorem builder_doc_reopens (F : MetaV3 → List Nat → Option J) (b : BuilderState) (hw : WfState F b) (d : ArrayDoc)
    (h : builderDoc F b = .ok d) : ArrayDoc.ofText d.toText = some d ∧ ArrayDoc.ofJ d.toJ = some d := by
  obtain ⟨_, _, f, hf, rfl⟩ := (builderDoc_ok_iff F b d).1 h
  have hgood : ArrayDoc.good
      { shape := b.shape.map FillMeta.natTok, dataType := b.dataType, chunkGrid := b.grid.toMeta, cke := b.cke.toMeta,
        fill := f, codecs := codecMetas b, attrs := b.attrs, st := b.st, dimNames := b.dimNames, extra := b.extra } := by
    refine ⟨?_, hw.dt, hw.grid, hw.cke, hw.fill f hf, hw.codecs, hw.attrs, hw.st, hw.dn, hw.extra, hw.sorted⟩
    intro t ht
    obtain ⟨n, hn, rfl⟩ := List.mem_map.1 ht
    exact ⟨isU64Tok_natTok n (hw.shape n hn), NumTok.tokOk_natTok n⟩
  exact ⟨arrayDoc_text_roundtrip_good _ hgood, arrayDoc_roundtrip_good _ hgood⟩

theorem exB_wf : WfState exF exB := by
  have sa : ∀ s : String, (∀ b ∈ ascii s, b < 128) → strOk (ascii s) := fun s h => strOk_ascii _ h
  refine ⟨by decide, ⟨sa "uint8" (by decide), (fun c hc => by cases hc)⟩, ⟨sa "regular" (by decide), ?_⟩,
    ⟨sa "default" (by decide), ?_⟩, ?_, ?_, ⟨?_, (by unfold keysDistinct; decide)⟩, (fun c hc => by cases hc), ?_, ?_,
    (by unfold sortedKeys; decide)⟩
  · intro c hc
    cases hc
    refine ⟨?_, by unfold keysDistinct; decide⟩
    simp only [wfKVs, J.wf, wfList, and_true, List.map_cons, List.map_nil, natNum]
    exact ⟨sa "chunk_shape" (by decide), NumTok.tokOk_natTok 2, NumTok.tokOk_natTok 3⟩
  · intro c hc
    cases hc
    refine ⟨?_, by unfold keysDistinct; decide⟩
    simp only [wfKVs, J.wf, and_true, Sep.toJ]
    exact ⟨sa "separator" (by decide), sa "." (by decide)⟩
  · intro f hf
    have : f = natNum 7 := by
      have : exF exB.dataType exB.fill = some (natNum 7) := rfl
      rw [this] at hf; exact (Option.some.inj hf).symm
    subst this
    exact NumTok.tokOk_natTok 7
  · intro c hc
    have : codecMetas exB = [⟨ascii "bytes", some [(ascii "endian", .str (ascii "little"))], true⟩,
        ⟨ascii "gzip", some [(ascii "level", .num ['5'])], true⟩] := rfl
    rw [this] at hc
    simp only [List.mem_cons, List.not_mem_nil, or_false] at hc
    rcases hc with rfl | rfl
    · refine ⟨sa "bytes" (by decide), fun c hc => ?_⟩
      cases hc
      refine ⟨?_, by unfold keysDistinct; decide⟩
      simp only [wfKVs, J.wf, and_true]
      exact ⟨sa "endian" (by decide), sa "little" (by decide)⟩
    · refine ⟨sa "gzip" (by decide), fun c hc => ?_⟩
      cases hc
      refine ⟨?_, by unfold keysDistinct; decide⟩
      simp only [wfKVs, J.wf, and_true]
      exact ⟨sa "level" (by decide), tokOk_of_natTok 5 _ (by decide)⟩
  · show wfKVs [(ascii "title", J.str (ascii "demo"))]
    simp only [wfKVs, J.wf, and_true]
    exact ⟨sa "title" (by decide), sa "demo" (by decide)⟩
  · intro ns hns n hn s hs
    have : exB.dimNames = some [some (ascii "y"), none] := rfl
    rw [this] at hns; cases hns
    simp only [List.mem_cons, List.not_mem_nil, or_false] at hn
    rcases hn with rfl | rfl
    · cases hs; exact sa "y" (by decide)
    · cases hs
  · intro kv hkv
    have : exB.extra = [(ascii "my_ext", C13.exField)] := rfl
    rw [this] at hkv
    simp only [List.mem_cons, List.not_mem_nil, or_false] at hkv
    subst hkv
    exact ⟨sa "my_ext" (by decide), (C13.afield_ok_iff _).1 C13.exField_ok, by decide⟩
example : WfState exF exB ∧ builderDoc exF exB = .ok exBuilt := ⟨exB_wf, exB_builds⟩

/-! ### `Array::builder()` -/

/-- **`builder_roundtrip`**: `array.builder().build()` for an array opened from document `d` (of rank `rank`, with the
shape `shape` that `d.shape` spells) never fails its rank checks, and the document it creates denotes the same array:
shape, attributes, dimension names and additional fields are those of `d`; data type, chunk grid, chunk key encoding
and codecs are what the plugins created from `d` write (`R`); there are no storage transformers -/
theorem builder_roundtrip (F : MetaV3 → List Nat → Option J) (R : Recreate) (d : ArrayDoc) (rank : Nat) (shape fill : List Nat)
    (split : ChainSplit) (a2b : CodecB) (hopen : openOk d rank = true) (hshape : d.shape = shape.map FillMeta.natTok)
    (hgrid : (R.grid d.chunkGrid).rank = rank) (f : J) (hf : F (R.dt d.dataType) fill = some f) :
    ∃ d', builderDoc F (ofArray R d shape fill split a2b) = .ok d' ∧
      d'.shape = d.shape ∧ d'.attrs = d.attrs ∧ d'.dimNames = d.dimNames ∧ d'.extra = d.extra ∧ d'.st = [] ∧
      d'.dataType = R.dt d.dataType ∧ d'.chunkGrid = (R.grid d.chunkGrid).toMeta ∧ d'.cke = (R.cke d.cke).toMeta ∧
      d'.fill = f ∧
      d'.codecs = (split.a2a.filterMap R.codec).filterMap CodecB.toMeta ++ a2b.toMeta.toList ++
        (split.b2b.filterMap R.codec).filterMap CodecB.toMeta ∧
      openOk d' rank = true := by
  have hs := C13.openOk_structOk d rank hopen
  obtain ⟨hex, hr, hdn⟩ := C13.open_demands d rank hs
  have hlen : shape.length = d.shape.length := by rw [hshape, List.length_map]
  refine ⟨_, (builderDoc_ok_iff F _ _).2 ⟨?_, ?_, f, hf, rfl⟩, hshape.symm, rfl, rfl, rfl, rfl, rfl, rfl, rfl, rfl, rfl, ?_⟩
  · show (R.grid d.chunkGrid).rank = shape.length
    rw [hgrid, hr, hlen]
  · intro ns hns
    show ns.length = shape.length
    rw [hlen]; exact hdn ns hns
  · simp only [openOk, structOk, transformersOk, ofArray, Bool.and_eq_true, List.all_eq_true, Bool.not_eq_true',
      List.length_map, beq_iff_eq, List.not_mem_nil, false_implies, implies_true, and_true]
    refine ⟨⟨hex, by rw [hr, hlen]⟩, ?_⟩
    cases hd : d.dimNames with
    | none => rfl
    | some ns => simpa [hlen] using hdn ns hd

/-- the plugins of the example: they write the metadata they were created from -/
def exR : Recreate := ⟨id, fun _ => .regular [2, 3], fun _ => .default .dot, fun m => some ⟨m.name, m.config⟩⟩
example : openOk exBuilt 2 = true ∧ exBuilt.shape = [4, 6].map FillMeta.natTok ∧ (exR.grid exBuilt.chunkGrid).rank = 2 ∧
    exF (exR.dt exBuilt.dataType) [7] = some (natNum 7) := ⟨by decide, by decide, rfl, rfl⟩
/-- on the example the rebuilt document is the document itself -/
example : builderDoc exF (ofArray exR exBuilt [4, 6] [7] ⟨[], ⟨ascii "bytes", none, true⟩, exBuilt.codecs.drop 1⟩
    ⟨ascii "bytes", some [(ascii "endian", .str (ascii "little"))]⟩) = .ok exBuilt := by rfl

/-! ### `GroupBuilder` -/

/-- the group document is the attributes and additional fields last set; it opens again exactly when no additional
field must be understood -/
theorem group_builder_doc (ss : List GroupSetter) :
    (groupBuilderDoc (ss.foldl GroupSetter.apply {})).attrs = (ss.foldl GroupSetter.apply {}).attrs ∧
    (groupOk (groupBuilderDoc (ss.foldl GroupSetter.apply {})) = true ↔
      ∀ kv ∈ (ss.foldl GroupSetter.apply {}).extra, kv.2.mu = false) := by
  refine ⟨rfl, ?_⟩
  simp [groupOk, groupBuilderDoc]
example : groupOk (groupBuilderDoc ([GroupSetter.attributes [(ascii "a", .num ['1'])],
    .additionalFields [(ascii "my_ext", C13.exField)]].foldl GroupSetter.apply {})) = true := by decide

end Zarrs.C13Build
