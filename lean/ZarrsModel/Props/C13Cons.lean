import ZarrsModel.Model.Consolidated
import ZarrsModel.Lemmas.ConsSort
import ZarrsModel.Lemmas.Consolidated
import ZarrsModel.Lemmas.ConsHier
import ZarrsModel.Props.C13
import ZarrsModel.Props.C13V2
/-
C13 (consolidated metadata) — the `consolidated_metadata` member of a V3 group document persists faithfully, and
`Node::consolidate_metadata` collects exactly the hierarchy below a group.

Documents: `Cons.NodeDoc` models `NodeMetadata` (V3/V2 array and group documents, a V3 group with its own consolidated
map), `Cons.GroupDocC` is `GroupMetadataV3` in full (`Model/Consolidated.lean`); storing is `toText` (print of `toJ`),
opening is `ofText` (parse, then `ofJ`).  Hierarchy: `Cons.consolidate` models `Node::open` + `consolidate_metadata`
over the store model, with `Cons.docReader` as the `Hier.Reader` that reads real documents.
Theorems only; lemmas are in `Lemmas/ConsSort.lean`, `Lemmas/Consolidated.lean`, `Lemmas/ConsHier.lean`.
-/
set_option Elab.async false
namespace Zarrs.C13Cons
open Zarrs Zarrs.Json Zarrs.Meta Zarrs.MetaV2 Zarrs.Hier Zarrs.Cons

/-! ### concrete values documenting that the hypotheses below are satisfiable -/

/-- a consolidated map with one member of each kind: a V3 array, a V3 group, a V2 array, a V2 group -/
def exMembers : CMap :=
  [(ascii "arr", .a3 C13.exDoc), (ascii "g/sub", .g3 C13.exGroup none), (ascii "v2a", .a2 C13V2.exV2x),
   (ascii "v2g", .g2 C13V2.exGroupV2)]

/-- a group with attributes, additional fields and that consolidated map -/
def exC : GroupDocC := ⟨C13.exGroup, some exMembers⟩

/-- the same group holding a group that itself holds consolidated metadata -/
def exNested : GroupDocC := ⟨C13.exGroup, some [(ascii "inner", .g3 exC.base exC.cons)]⟩

theorem exMembers_ok : membersOk exMembers := by
  rw [membersOk_iff]
  intro kv hkv
  simp only [exMembers, List.mem_cons, List.not_mem_nil, or_false] at hkv
  rcases hkv with rfl | rfl | rfl | rfl
  · exact ⟨strOk_ascii _ (by decide), (ok_a3 _).2 ((C13.arrayDoc_ok_iff _).1 C13.exDoc_ok)⟩
  · exact ⟨strOk_ascii _ (by decide), (ok_g3_none _).2 ((C13.groupDoc_ok_iff _).1 C13.exGroup_ok)⟩
  · exact ⟨strOk_ascii _ (by decide), (ok_a2 _).2 ⟨C13V2.exV2x_ok.1, C13V2.exV2x_ok.2, C13V2.exV2x_noNodeType⟩⟩
  · exact ⟨strOk_ascii _ (by decide), (ok_g2 _).2 ⟨C13V2.exGroupV2_ok.1, C13V2.exGroupV2_ok.2, by rfl⟩⟩

theorem exC_ok : exC.ok :=
  (ok_g3_some _ _).2 ⟨(C13.groupDoc_ok_iff _).1 C13.exGroup_ok, by unfold sortedKeys; decide, exMembers_ok⟩

theorem exNested_ok : exNested.ok := by
  refine (ok_g3_some _ _).2 ⟨(C13.groupDoc_ok_iff _).1 C13.exGroup_ok, by unfold sortedKeys; decide, ?_⟩
  rw [membersOk_iff]
  intro kv hkv
  simp only [List.mem_cons, List.not_mem_nil, or_false] at hkv
  subst hkv
  exact ⟨strOk_ascii _ (by decide), exC_ok⟩

/-! ### round trip -/

/-- **parse ∘ serialise = id**: what is written for a node document (a member of a consolidated map) reads back as the
same document, of the same kind -/
theorem nodeDoc_roundtrip (d : NodeDoc) (h : d.ok) : nodeOfJ d.toJ = some d := nodeOfJ_toJ d h
example : NodeDoc.ok (.g3 exC.base exC.cons) := exC_ok

/-- **the same for a group document with consolidated metadata**, as `Group::open` reads it -/
theorem groupDocC_roundtrip (g : GroupDocC) (h : g.ok) : GroupDocC.ofJ g.toJ = some g := groupDocC_ofJ_toJ g h
example : exC.ok := exC_ok
example : exNested.ok := exNested_ok

/-- **storing a group with consolidated metadata and re-opening gives the same document**, hence the same map -/
theorem groupDocC_text_roundtrip (g : GroupDocC) (h : g.ok) :
    GroupDocC.ofText g.toText = some g ∧
    ∀ g', GroupDocC.ofText g.toText = some g' → g'.consolidated = g.consolidated := by
  have hr := Cons.groupDocC_text_roundtrip g h
  refine ⟨hr, ?_⟩
  intro g' hg'
  rw [hr] at hg'
  cases hg'
  rfl
example : exC.ok := exC_ok

/-- **serialise ∘ parse is the documented normalisation, and re-serialising a parsed document is a fixed point**:
an accepted group document is written as its normal form (members in key order, unknown keys of the
`consolidated_metadata` object dropped, `kind` written as the string `"inline"`, a V2 array member's empty filter list
as `null`), which reads back as the normalised document and is written as the same JSON again.  (`g.stable`: see
`Cons.NodeDoc.stable` - it excludes the inputs on which the V2 document reader is known not to re-read its own
output.) -/
theorem groupDocC_fixed (j : J) (hj : j.wf) (g : GroupDocC) (h : GroupDocC.ofJ j = some g) (hs : g.stable) :
    GroupDocC.ofJ g.toJ = some g.norm ∧ g.norm.toJ = g.toJ ∧
    (∀ g', GroupDocC.ofJ g.toJ = some g' → g'.toJ = g.toJ) := by
  have hok := groupDocC_ofJ_ok j hj g h hs
  have hr := groupDocC_ofJ_toJ g.norm hok
  rw [groupDocC_norm_toJ] at hr
  refine ⟨hr, groupDocC_norm_toJ g, ?_⟩
  intro g' hg'
  rw [hr] at hg'
  cases hg'
  exact groupDocC_norm_toJ g
example : ∃ j g, j.wf ∧ GroupDocC.ofJ j = some g ∧ g.stable :=
  ⟨exC.toJ, exC, groupDocC_toJ_wf exC exC_ok, groupDocC_roundtrip exC exC_ok, by
    show NodeDoc.stable (.g3 _ (some exMembers))
    rw [NodeDoc.stable, membersStable_iff]
    intro kv hkv
    simp only [exMembers, List.mem_cons, List.not_mem_nil, or_false] at hkv
    rcases hkv with rfl | rfl | rfl | rfl
    · rw [NodeDoc.stable]; trivial
    · rw [NodeDoc.stable]; trivial
    · rw [NodeDoc.stable]; exact ⟨trivial, C13V2.exV2x_noNodeType⟩
    · rw [NodeDoc.stable]; rfl⟩

/-- **the same through the stored bytes** -/
theorem groupDocC_text_fixed (j : J) (hj : j.wf) (g : GroupDocC) (h : GroupDocC.ofJ j = some g) (hs : g.stable) :
    GroupDocC.ofText g.toText = some g.norm ∧ g.norm.toText = g.toText := by
  have hok := groupDocC_ofJ_ok j hj g h hs
  have ht : g.norm.toText = g.toText := by unfold GroupDocC.toText; rw [groupDocC_norm_toJ]
  refine ⟨?_, ht⟩
  rw [← ht]
  exact Cons.groupDocC_text_roundtrip g.norm hok
example : ∃ j g, j.wf ∧ GroupDocC.ofJ j = some g := ⟨exC.toJ, exC, groupDocC_toJ_wf exC exC_ok, groupDocC_roundtrip exC exC_ok⟩

/-! ### the order of the map does not matter -/

/-- **order independence** (the repaired behaviour): two group documents whose consolidated maps hold the same entries
in a different order (a `HashMap` iterates in an arbitrary order) are written identically -/
theorem toJ_perm (d : GroupDoc) (c1 c2 : List (Str × NodeDoc)) (hp : c1.Perm c2) (hd : (c1.map (·.1)).Nodup) :
    GroupDocC.toJ ⟨d, some c1⟩ = GroupDocC.toJ ⟨d, some c2⟩ := by
  unfold GroupDocC.toJ
  rw [toJ_g3_some, toJ_g3_some]
  have : sortKVs (membersToKVs c1) = sortKVs (membersToKVs c2) := by
    refine sortKVs_perm _ _ ?_ (by rw [membersToKVs_keys]; exact hd)
    rw [membersToKVs_eq_map, membersToKVs_eq_map]
    exact hp.map _
  rw [this]
example : exMembers.Perm exMembers.reverse ∧ (exMembers.map (·.1)).Nodup :=
  ⟨(List.reverse_perm _).symm, by decide⟩

/-- hence setting a map in any order stores the same text -/
theorem setCons_perm (g : GroupDocC) (c1 c2 : List (Str × NodeDoc)) (hp : c1.Perm c2) (hd : (c1.map (·.1)).Nodup) :
    (g.setCons (some c1)).toText = (g.setCons (some c2)).toText := by
  unfold GroupDocC.setCons GroupDocC.toText
  simp only [Option.map_some]
  rw [sortKVs_perm c1 c2 hp hd]
example : exMembers.Perm exMembers.reverse ∧ (exMembers.map (·.1)).Nodup :=
  ⟨(List.reverse_perm _).symm, by decide⟩

/-- the unrepaired serialisation ("insertion order": the entries as the map happens to hold them) is NOT order
independent: the same two entries in the two orders give different JSON -/
theorem toJUnsorted_order_matters :
    ∃ (d : GroupDoc) (c1 c2 : List (Str × NodeDoc)), c1.Perm c2 ∧ (c1.map (·.1)).Nodup ∧
      print (GroupDocC.toJUnsorted ⟨d, some c1⟩) ≠ print (GroupDocC.toJUnsorted ⟨d, some c2⟩) ∧
      GroupDocC.toJ ⟨d, some c1⟩ = GroupDocC.toJ ⟨d, some c2⟩ := by
  let g : NodeDoc := .g3 ⟨[], []⟩ none
  refine ⟨⟨[], []⟩, [(ascii "a", g), (ascii "b", g)], [(ascii "b", g), (ascii "a", g)], List.Perm.swap .., by decide, ?_,
    toJ_perm _ _ _ (List.Perm.swap ..) (by decide)⟩
  decide +kernel

/-! ### acceptance -/

/-- **a group document is accepted exactly when** its typed fields read as in `GroupDoc.ofJ` (the document without
the member) **and** the `consolidated_metadata` member is absent, `null`, or reads as `ConsolidatedMetadata` -/
theorem groupDocC_accept_iff (o : Obj) (g : GroupDocC) :
    GroupDocC.ofJ (.obj o) = some g ↔
      (GroupDoc.ofJ (.obj (without o kCons)) = some g.base ∧
       (match lookup o kCons with | none => some none | some v => consOfJ v) = some g.cons) := by
  rw [groupDocC_ofJ_obj, consOfKVs_eq]
  exact And.comm
example : ∃ o g, GroupDocC.ofJ (.obj o) = some g :=
  ⟨_, exC, by
    have := groupDocC_roundtrip exC exC_ok
    rwa [show exC.toJ = .obj _ from toJ_g3_some _ _] at this⟩

/-- **the member, object form**: `metadata` must be an object whose every value reads as a node document (V3 array,
V2 array, V3 group, V2 group, tried in that order), `kind` must be `"inline"` (or `{"inline": null}`), and
`must_understand` must be the boolean `false`; other keys are ignored.  The map is held in key order. -/
theorem consOfJ_obj_iff (o : Obj) (c : CMap) :
    consOfJ (.obj o) = some (some c) ↔
      (∃ ms l, lookup o kMetadata = some (.obj ms) ∧ membersOfKVs ms = some l ∧ c = sortKVs l) ∧
      (∃ v, lookup o kKind = some v ∧ enumName v = some kInline) ∧
      lookup o kMustUnderstand = some (.bool false) := by
  rw [consOfJ, metaOfKVs_eq]
  constructor
  · intro h
    cases hm : lookup o kMetadata with
    | none => simp [hm] at h
    | some mv =>
      cases hc : membersOfJ mv with
      | none => simp [hm, hc] at h
      | some c' =>
        simp only [hm, hc, Option.map_some] at h
        split at h
        next hk =>
          cases h
          simp only [Bool.and_eq_true] at hk
          refine ⟨?_, ?_, ?_⟩
          · cases mv with
            | obj ms =>
              rw [membersOfJ_obj] at hc
              simp only [Option.map_eq_some_iff] at hc
              obtain ⟨l, hl, e⟩ := hc
              exact ⟨ms, l, rfl, hl, e.symm⟩
            | null => simp [membersOfJ] at hc
            | bool _ => simp [membersOfJ] at hc
            | num _ => simp [membersOfJ] at hc
            | str _ => simp [membersOfJ] at hc
            | arr _ => simp [membersOfJ] at hc
          · cases hkk : lookup o kKind with
            | none => simp [kindOk, hkk] at hk
            | some v => exact ⟨v, rfl, by simpa [kindOk, hkk] using hk.1⟩
          · cases hmu : lookup o kMustUnderstand with
            | none => simp [muFalse, hmu] at hk
            | some v =>
              cases v with
              | bool b => cases b <;> simp [muFalse, hmu] at hk ⊢
              | null => simp [muFalse, hmu] at hk
              | num _ => simp [muFalse, hmu] at hk
              | str _ => simp [muFalse, hmu] at hk
              | arr _ => simp [muFalse, hmu] at hk
              | obj _ => simp [muFalse, hmu] at hk
        · cases h
  · rintro ⟨⟨ms, l, hm, hl, rfl⟩, ⟨v, hv, hk⟩, hmu⟩
    simp [hm, membersOfJ_obj, hl, kindOk, hv, hk, muFalse, hmu]
example : ∃ o c, consOfJ (.obj o) = some (some c) :=
  ⟨_, _, consOfJ_consJ (membersToKVs exMembers) exMembers (membersOfKVs_toKVs exMembers exMembers_ok)⟩

/-- a `consolidated_metadata` object is never read as "no consolidated metadata": it is a map or an error -/
theorem consOfJ_obj_ne_none (o : Obj) : consOfJ (.obj o) ≠ some none := by
  intro hc
  rw [consOfJ] at hc
  cases hm : metaOfKVs o with
  | none => simp [hm] at hc
  | some r' => cases r' <;> simp [hm] at hc <;> split at hc <;> cases hc

/-- **`must_understand: true` (or absent, or not a boolean) is rejected** -/
theorem cons_mu_rejected (o : Obj) (h : lookup o kMustUnderstand ≠ some (.bool false)) : consOfJ (.obj o) = none := by
  cases hc : consOfJ (.obj o) with
  | none => rfl
  | some r =>
    cases r with
    | none => exact absurd hc (consOfJ_obj_ne_none o)
    | some c => exact absurd ((consOfJ_obj_iff o c).1 hc).2.2 h
example : lookup [(kMetadata, J.obj []), (kKind, .str kInline), (kMustUnderstand, .bool true)] kMustUnderstand
    ≠ some (.bool false) := by
  rw [lookup_cons_ne _ _ _ _ (by decide), lookup_cons_ne _ _ _ _ (by decide), lookup_cons_eq]
  intro h; cases h

/-- **a `kind` other than `inline` is rejected** (also an absent one) -/
theorem cons_kind_rejected (o : Obj) (h : ∀ v, lookup o kKind = some v → enumName v ≠ some kInline) :
    consOfJ (.obj o) = none := by
  cases hc : consOfJ (.obj o) with
  | none => rfl
  | some r =>
    cases r with
    | none => exact absurd hc (consOfJ_obj_ne_none o)
    | some c =>
      obtain ⟨v, hv, hk⟩ := ((consOfJ_obj_iff o c).1 hc).2.1
      exact absurd hk (h v hv)
example : ∀ v, lookup [(kMetadata, J.obj []), (kKind, .str (ascii "external")), (kMustUnderstand, .bool false)] kKind = some v →
    enumName v ≠ some kInline := by
  intro v hv
  rw [lookup_cons_ne _ _ _ _ (by decide), lookup_cons_eq] at hv
  cases hv
  decide

/-- **a member document that is itself invalid makes the whole group document unreadable** -/
theorem cons_member_rejected (o : Obj) (ms : List (Str × J)) (hm : lookup o kMetadata = some (.obj ms))
    (k : Str) (v : J) (hk : (k, v) ∈ ms) (hv : nodeOfJ v = none) : consOfJ (.obj o) = none := by
  cases hc : consOfJ (.obj o) with
  | none => rfl
  | some r =>
    cases r with
    | none => exact absurd hc (consOfJ_obj_ne_none o)
    | some c =>
      obtain ⟨⟨ms', l, hm', hl, _⟩, _⟩ := (consOfJ_obj_iff o c).1 hc
      rw [hm] at hm'
      cases hm'
      obtain ⟨d, hd⟩ := membersOfKVs_mem ms l hl k v hk
      rw [hv] at hd
      cases hd
example : (nodeOfJ (.obj [(ascii "zarr_format", .num ['3'])])).isNone = true := by decide +kernel

/-- hence the group document: `Group::open` fails on it, whatever the rest of the document is -/
theorem groupDocC_rejected_of_cons (o : Obj) (v : J) (hl : lookup o kCons = some v) (hv : consOfJ v = none) :
    GroupDocC.ofJ (.obj o) = none := by
  cases h : GroupDocC.ofJ (.obj o) with
  | none => rfl
  | some g =>
    have := ((groupDocC_accept_iff o g).1 h).2
    rw [hl] at this
    simp only at this
    rw [hv] at this
    cases this

/-- consolidated metadata never stands in the way of opening: an accepted document opens exactly when no additional
field must be understood, as for a group without it -/
theorem groupOkC_iff (g : GroupDocC) : groupOkC g = true ↔ ∀ kv ∈ g.base.extra, kv.2.mu = false := by
  unfold groupOkC groupOk
  simp only [List.all_eq_true, Bool.not_eq_true']

/-! ### `Node::consolidate_metadata` -/

/-- a small store of written documents: a root group, a group `a` holding a V3 array `a/x` (with a chunk) and a V2
group `a/g2`; `b` holds only a stray file and is not a node -/
def eGroup : GroupDoc := ⟨[], []⟩
def eGroupV2 : GroupDocV2 := ⟨[], []⟩
def gT : Bytes := print (NodeDoc.toJ (.g3 eGroup none))
def aT : Bytes := print (NodeDoc.toJ (.a3 C13.exDoc))
def g2T : Bytes := eGroupV2.toText
def exStore : KV :=
  [("a/g2/.zgroup".toList, g2T), ("a/x/c/0".toList, [7]), ("a/x/zarr.json".toList, aT),
   ("a/zarr.json".toList, gT), ("b/file".toList, [1]), ("zarr.json".toList, gT)]

theorem eGroup_ok : NodeDoc.ok (.g3 eGroup none) :=
  (ok_g3_none _).2 (GroupDoc.good.mk ⟨trivial, by unfold keysDistinct; decide⟩ (fun kv hkv => nomatch hkv)
    (by unfold sortedKeys; decide))
theorem exDoc_nodeOk : NodeDoc.ok (.a3 C13.exDoc) := (ok_a3 _).2 ((C13.arrayDoc_ok_iff _).1 C13.exDoc_ok)
theorem eGroupV2_ok : eGroupV2.wfParts ∧ eGroupV2.shapeOk :=
  ⟨GroupDocV2.wfParts.mk ⟨trivial, by unfold keysDistinct; decide⟩ (fun kv hkv => nomatch hkv),
   GroupDocV2.shapeOk.mk (fun kv hkv => nomatch hkv) (fun kv hkv => nomatch hkv) (by unfold sortedKeys; decide)⟩

/-- **`consolidate_metadata` lists exactly the descendants the hierarchy model reports** (`Hier.children`, recursive,
read with the document reader), each under its path relative to the node, with the document stored for it and the
kind of that document; the map is in key order.  (`hA`: the store keys are ASCII - the model's keys are lists of code
points, the map's keys their UTF-8 bytes.) -/
theorem consolidate_exact (m : KV) (hh : hierarchyShaped m.keys) (hr : ∀ q, getMeta docReader m q ≠ .invalid)
    (hA : ∀ k ∈ m.keys, ∀ c ∈ k, c.toNat < 128) (pre : Key) (hp : validPrefixB pre = true)
    (d : NodeDoc) (hd : getDoc m pre = .node d) (hg : d.kind.isGroup = true) :
    ∃ ns c, children docReader m true pre = some ns ∧ consolidate m pre = some (some c) ∧ sortedKeys c ∧
      ∀ key doc, (key, doc) ∈ c ↔
        ∃ q k, (q, k) ∈ ns ∧ key = relKey pre q ∧ getDoc m q = .node doc ∧ doc.kind = k :=
  consolidate_spec m hh.1 hr hA pre (validPrefixB_dirShaped pre hp) d hd hg
/-- the store shape of `exStore` with the three texts abstract: readable whenever they are -/
theorem exShape_readable (g a g2 : Bytes) (hg : docReader.cls g ≠ none) (ha : docReader.cls a ≠ none)
    (h2 : docReader.okG g2 = true) :
    ∀ q, getMeta docReader [("a/g2/.zgroup".toList, g2), ("a/x/c/0".toList, [7]), ("a/x/zarr.json".toList, a),
      ("a/zarr.json".toList, g), ("b/file".toList, [1]), ("zarr.json".toList, g)] q ≠ .invalid := by
  refine readable_of_metaValues docReader _ ?_
  intro kv hkv
  simp only [List.mem_cons, List.not_mem_nil, or_false] at hkv
  rcases hkv with rfl | rfl | rfl | rfl | rfl | rfl <;> dsimp only <;> refine ⟨?_, ?_, ?_, ?_⟩ <;> intro h
  · exact absurd h (by decide)
  · exact absurd h (by decide)
  · exact h2
  · exact absurd h (by decide)
  · exact absurd h (by decide)
  · exact absurd h (by decide)
  · exact absurd h (by decide)
  · exact absurd h (by decide)
  · exact ha
  · exact absurd h (by decide)
  · exact absurd h (by decide)
  · exact absurd h (by decide)
  · exact hg
  · exact absurd h (by decide)
  · exact absurd h (by decide)
  · exact absurd h (by decide)
  · exact absurd h (by decide)
  · exact absurd h (by decide)
  · exact absurd h (by decide)
  · exact absurd h (by decide)
  · exact hg
  · exact absurd h (by decide)
  · exact absurd h (by decide)
  · exact absurd h (by decide)

theorem exStore_readable : ∀ q, getMeta docReader exStore q ≠ .invalid := by
  have hg : docReader.cls gT ≠ none := by unfold gT; exact cls_written (.g3 eGroup none) eGroup_ok (Or.inr rfl)
  have ha : docReader.cls aT ≠ none := by unfold aT; exact cls_written (.a3 C13.exDoc) exDoc_nodeOk (Or.inl rfl)
  have h2 : docReader.okG g2T = true := by
    simp only [docReader, g2T, groupDocV2_text_roundtrip eGroupV2 eGroupV2_ok.1 eGroupV2_ok.2, Option.isSome_some]
  exact exShape_readable gT aT g2T hg ha h2

theorem exStore_ok : hierarchyShaped exStore.keys ∧ (∀ q, getMeta docReader exStore q ≠ .invalid) ∧
    (∀ k ∈ exStore.keys, ∀ c ∈ k, c.toNat < 128) ∧ validPrefixB [] = true ∧
    ∃ d, getDoc exStore [] = .node d ∧ d.kind.isGroup = true :=
  ⟨by unfold hierarchyShaped; decide, exStore_readable, by decide, by decide,
    ⟨_, getDoc_g3 exStore [] eGroup none (by rfl) eGroup_ok, rfl⟩⟩
example : hierarchyShaped exStore.keys ∧ (∀ q, getMeta docReader exStore q ≠ .invalid) ∧
    (∀ k ∈ exStore.keys, ∀ c ∈ k, c.toNat < 128) ∧ validPrefixB [] = true ∧
    ∃ d, getDoc exStore [] = .node d ∧ d.kind.isGroup = true := exStore_ok
/-- on the example store the root's map has `a` (V3 group), `a/g2` (V2 group) and `a/x` (V3 array), each with its stored
document; `b` (no metadata) is absent -/
example : ∃ c, consolidate exStore [] = some (some c) ∧
    (ascii "a", NodeDoc.g3 eGroup none) ∈ c ∧ (ascii "a/g2", NodeDoc.g2 eGroupV2) ∈ c ∧
    (ascii "a/x", NodeDoc.a3 C13.exDoc) ∈ c ∧ ∀ doc, (ascii "b", doc) ∉ c := by
  obtain ⟨hh, hr, hA, hp, d, hd, hg⟩ := exStore_ok
  obtain ⟨ns, c, hns, hc, _, hmem⟩ := consolidate_exact exStore hh hr hA [] hp d hd hg
  obtain ⟨ns', hns', hch⟩ := C13.tree_exact docReader exStore (by unfold KV.sorted; decide) hh hr [] hp
  rw [hns] at hns'; cases hns'
  have inTree : ∀ q k, getMeta docReader exStore q = .node k → validPrefixB q = true → q ≠ [] →
      C13.groupsBetween docReader exStore [] q → ¬ ("__".toList.isPrefixOf q = true) → (q, k) ∈ ns :=
    fun q k h1 h2 h3 h4 h5 => (hch q k).2 ⟨rfl, h3, h2, h1, h4, h5⟩
  have dA : getDoc exStore "a/".toList = .node (.g3 eGroup none) := getDoc_g3 exStore _ eGroup none (by rfl) eGroup_ok
  have dX : getDoc exStore "a/x/".toList = .node (.a3 C13.exDoc) := getDoc_a3 exStore _ _ (by rfl) exDoc_nodeOk
  have dG : getDoc exStore "a/g2/".toList = .node (.g2 eGroupV2) :=
    getDoc_g2 exStore _ eGroupV2 (by rfl) (by rfl) (by rfl) (by rfl) eGroupV2_ok
  have mA : getMeta docReader exStore "a/".toList = .node .group3 := by rw [getMeta_docReader, dA]; rfl
  have mX : getMeta docReader exStore "a/x/".toList = .node .array3 := by rw [getMeta_docReader, dX]; rfl
  have mG : getMeta docReader exStore "a/g2/".toList = .node .group2 := by rw [getMeta_docReader, dG]; rfl
  -- the only prefix strictly between the root and `a/x/`, `a/g2/` is `a/`
  have mids : ∀ (q : Key), (q = "a/x/".toList ∨ q = "a/g2/".toList) → C13.groupsBetween docReader exStore [] q := by
    intro q hq mid _ h2 h3 h4 h5
    have hm : mid = "a/".toList := by
      rw [List.isPrefixOf_iff_prefix] at h2
      rcases hq with rfl | rfl
      · have := List.prefix_iff_eq_take.1 h2
        have hl : mid.length ≤ 4 := h2.length_le
        have : mid.length = 1 ∨ mid.length = 2 ∨ mid.length = 3 ∨ mid.length = 4 := by omega
        rcases this with e | e | e | e <;> rw [e] at this <;> subst this <;> first | rfl | (exfalso; revert h5 h3; decide)
      · have := List.prefix_iff_eq_take.1 h2
        have hl : mid.length ≤ 5 := h2.length_le
        have : mid.length = 1 ∨ mid.length = 2 ∨ mid.length = 3 ∨ mid.length = 4 ∨ mid.length = 5 := by omega
        rcases this with e | e | e | e | e <;> rw [e] at this <;> subst this <;> first | rfl | (exfalso; revert h5 h3; decide)
    subst hm
    exact ⟨_, mA, rfl⟩
  refine ⟨c, hc, ?_, ?_, ?_, ?_⟩
  · refine (hmem _ _).2 ⟨"a/".toList, .group3, inTree _ _ mA (by decide) (by decide) ?_ (by decide), by decide, dA, rfl⟩
    intro mid _ h2 h3 h4 h5
    exfalso
    rw [List.isPrefixOf_iff_prefix] at h2
    have := List.prefix_iff_eq_take.1 h2
    have hl : mid.length ≤ 2 := h2.length_le
    have : mid.length = 1 ∨ mid.length = 2 := by omega
    rcases this with e | e <;> rw [e] at this <;> subst this <;> revert h5 h3 <;> decide
  · exact (hmem _ _).2 ⟨"a/g2/".toList, .group2, inTree _ _ mG (by decide) (by decide) (mids _ (Or.inr rfl)) (by decide),
      by decide, dG, rfl⟩
  · exact (hmem _ _).2 ⟨"a/x/".toList, .array3, inTree _ _ mX (by decide) (by decide) (mids _ (Or.inl rfl)) (by decide),
      by decide, dX, rfl⟩
  · intro doc hdoc
    obtain ⟨q, k, hq, hkey, hdq, _⟩ := (hmem _ _).1 hdoc
    obtain ⟨_, hne, hv, _, _, _⟩ := (hch q k).1 hq
    -- the relative key `b` is the prefix `b/`, which holds no metadata
    have hqb : q = "b/".toList := by
      have hl := C13.nodeExists_iff docReader exStore q hr
      obtain ⟨p', hp'⟩ : ∃ p', q = p' ++ ['/'] := by
        rcases validPrefixB_dirShaped q hv with h | h
        · exact absurd h hne
        · exact h
      subst hp'
      unfold relKey at hkey
      simp only [List.length_nil, List.drop_zero, List.dropLast_concat] at hkey
      have hasc : ∀ c ∈ p', c.toNat < 128 := by
        obtain ⟨key, hkey', hpk⟩ := node_has_key docReader exStore _ k ((hch _ k).1 hq).2.2.2.1
        rw [List.isPrefixOf_iff_prefix] at hpk
        intro c hc
        exact hA key hkey' c (hpk.subset (by simp [hc]))
      rw [keyBytes_ascii p' hasc] at hkey
      have : p' = "b".toList := map_toNat_inj p' "b".toList (hkey.symm.trans rfl)
      rw [this]; rfl
    subst hqb
    rw [getDoc_missing exStore _ (by rfl) (by rfl) (by rfl)] at hdq
    cases hdq

/-- the hierarchy model's view of the documents is the kind of the document `Node::get_metadata` returns -/
theorem docReader_kind (m : KV) (pre : Key) : getMeta docReader m pre = (getDoc m pre).toMeta :=
  getMeta_docReader m pre
example : getMeta docReader exStore "a/g2/".toList = .node .group2 := by
  rw [docReader_kind, getDoc_g2 exStore _ eGroupV2 (by rfl) (by rfl) (by rfl) (by rfl) eGroupV2_ok]; rfl

/-- an array has no consolidated metadata; a prefix without (readable) metadata does not open -/
theorem consolidate_array (m : KV) (pre : Key) (d : NodeDoc) (hd : getDoc m pre = .node d) (hg : d.kind.isGroup = false) :
    consolidate m pre = some none := by
  unfold consolidate; rw [hd]; simp [hg]
example : getDoc exStore "a/x/".toList = .node (.a3 C13.exDoc) ∧ (NodeDoc.a3 C13.exDoc).kind.isGroup = false :=
  ⟨getDoc_a3 exStore _ _ (by rfl) exDoc_nodeOk, rfl⟩
theorem consolidate_missing (m : KV) (pre : Key) (hd : getDoc m pre = .missing) : consolidate m pre = none := by
  unfold consolidate; rw [hd]
example : getDoc exStore "b/".toList = .missing := getDoc_missing exStore _ (by rfl) (by rfl) (by rfl)

/-- **setting a collected map on a group, storing and re-opening gives the same map**: whatever order the entries are
handed over in (a `HashMap`), the stored document reads back with exactly those entries, in key order -/
theorem setCons_store_reopen (g : GroupDocC) (c : List (Str × NodeDoc)) (hg : (g.setCons (some c)).ok) :
    GroupDocC.ofText (g.setCons (some c)).toText = some (g.setCons (some c)) ∧
    (g.setCons (some c)).consolidated = some (sortKVs c) :=
  ⟨Cons.groupDocC_text_roundtrip _ hg, rfl⟩
example : (exC.setCons (some exMembers.reverse)).ok := by
  have : exC.setCons (some exMembers.reverse) = exC := by
    unfold GroupDocC.setCons
    simp only [Option.map_some]
    rw [← sortKVs_perm exMembers exMembers.reverse (List.reverse_perm _).symm (by decide),
      sortKVs_of_sorted exMembers (by unfold sortedKeys; decide)]
    rfl
  rw [this]; exact exC_ok

/-- what `consolidate` returns is already in key order: setting it on the group changes nothing about it -/
theorem consolidate_sorted (m : KV) (pre : Key) (c : CMap) (hc : consolidate m pre = some (some c)) :
    sortKVs c = c ∧ sortedKeys c := by
  unfold consolidate at hc
  split at hc
  · split at hc
    · split at hc
      · simp only [Option.map_eq_some_iff, Option.some.injEq] at hc
        obtain ⟨es, _, rfl⟩ := hc
        exact ⟨sortKVs_idem es, sortKVs_sorted es⟩
      · cases hc
    · cases hc
  · cases hc
example : ∃ c, consolidate exStore [] = some (some c) := by
  obtain ⟨hh, hr, hA, hp, d, hd, hg⟩ := exStore_ok
  obtain ⟨_, c, _, hc, _⟩ := consolidate_exact exStore hh hr hA [] hp d hd hg
  exact ⟨c, hc⟩

end Zarrs.C13Cons
