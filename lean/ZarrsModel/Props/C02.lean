import ZarrsModel.Model.Partial
import ZarrsModel.Lemmas.Partial
/-
C02 — partial decoding equals full decoding followed by slicing.

Compositional statement: a *served* handle (`BHandleOk h v`: h answers every in-bounds list of byte ranges with
the slices of v; `AHandleOk h sh xs`: h answers every in-bounds list of regions with the regions of chunk xs)
stays served through every partial decoder, hence through every chain, with or without inserted caches; an
absent value reads as fill.
-/
namespace Zarrs.C02
open Zarrs Zarrs.Codec Zarrs.Partial

theorem storeHandle_ok (v : Bytes) : BHandleOk (storeHandle (some v)) v ∧ BHandleAbsent (storeHandle none) := by
  sorry

/-- checksum codecs (`StripSuffixPartialDecoder`, all three range forms) -/
theorem stripSuffix_ok (sum : Bytes → Nat) (h : BHandle) (b : Bytes) (hh : BHandleOk h (checksumEnc sum b)) :
    BHandleOk (stripSuffixPD 4 h) b := by
  sorry
theorem stripSuffix_absent (n : Nat) (h : BHandle) (hh : BHandleAbsent h) : BHandleAbsent (stripSuffixPD n h) := by
  sorry

/-- `ByteIntervalPartialDecoder` serves the interval (all three range forms) -/
theorem byteInterval_ok (h : BHandle) (v : Bytes) (off len : Nat) (hh : BHandleOk h v) (hb : off + len ≤ v.length) :
    BHandleOk (byteIntervalPD off len h) (slice v off (off + len)) := by
  sorry

/-- decode-all fallbacks and compressors: correct for any codec that inverts its encoding -/
theorem decodeAll_ok (enc : Bytes → Bytes) (dec : Bytes → Option Bytes) (h : BHandle) (b : Bytes)
    (hinv : dec (enc b) = some b) (hh : BHandleOk h (enc b)) : BHandleOk (decodeAllPD dec h) b := by
  sorry
theorem decodeAll_absent (dec : Bytes → Option Bytes) (h : BHandle) (hh : BHandleAbsent h) : BHandleAbsent (decodeAllPD dec h) := by
  sorry

/-- a cache is transparent -/
theorem bytesCache_ok (h : BHandle) (v : Bytes) (hh : BHandleOk h v) : BHandleOk (bytesCachePD h) v := by
  sorry
theorem bytesCache_absent (h : BHandle) (hh : BHandleAbsent h) : BHandleAbsent (bytesCachePD h) := by
  sorry

/-- well-formed chunk: `n` elements of `es` bytes each -/
def chunkOk (es : Nat) (sh : Shape) (xs : List Elem) : Prop := xs.length = prod sh ∧ ∀ x ∈ xs, x.length = es

/-- `BytesPartialDecoder`: regions of the chunk from byte ranges of its encoding (either byte order) -/
theorem bytesPD_ok (big : Bool) (es unit : Nat) (sh : Shape) (fill : Elem) (h : BHandle) (xs : List Elem)
    (hes : 0 < es) (hu : 0 < unit ∧ es % unit = 0) (hx : chunkOk es sh xs)
    (hh : BHandleOk h (bytesEnc big unit xs.flatten)) :
    AHandleOk (bytesPD big es unit sh fill h) sh xs := by
  sorry

/-- an absent value reads as fill through the `bytes` partial decoder -/
theorem bytesPD_absent (big : Bool) (es unit : Nat) (sh : Shape) (fill : Elem) (h : BHandle) (hh : BHandleAbsent h) :
    AHandleOk (bytesPD big es unit sh fill h) sh (List.replicate (prod sh) fill) := by
  sorry

theorem transposePD_ok (order : List Nat) (sh : Shape) (h : AHandle) (xs : List Elem)
    (ho : validOrder order sh.length = true) (hx : xs.length = prod sh)
    (hh : AHandleOk h (permute sh order) (transposeEnc order sh xs)) :
    AHandleOk (transposePD order h) sh xs := by
  sorry

theorem squeezePD_ok (sh : Shape) (h : AHandle) (xs : List Elem) (hpos : ∀ d ∈ sh, 0 < d) (hx : xs.length = prod sh)
    (hh : AHandleOk h (AStage.squeeze.encShape sh) xs) :
    AHandleOk (squeezePD sh h) sh xs := by
  sorry

theorem arrayCache_ok (sh : Shape) (h : AHandle) (xs : List Elem) (hx : xs.length = prod sh) (hh : AHandleOk h sh xs) :
    AHandleOk (arrayCachePD sh h) sh xs := by
  sorry

/-- lawful stages of a chain -/
def bStageOk : BStage → Prop
  | .stripSuffix n _ => n = 4
  | .decodeAll enc dec => ∀ b, dec (enc b) = some b
  | .cache => True

def aStagesOk : List AStage → Shape → Prop
  | [], _ => True
  | st :: rest, sh =>
    (match st with
     | .transpose order => validOrder order sh.length = true
     | .squeeze => ∀ d ∈ sh, 0 < d
     | .cache => True) ∧ aStagesOk rest (st.encShape sh)

/-- **C02 for chains**: for every chain of the modelled stages (any number of transposes / squeezes / caches, the
`bytes` codec with either byte order, any number of checksum codecs, invertible compressors and caches in any order)
and every chunk, the chain's partial decoder on the stored encoding answers every in-bounds list of regions with
exactly the regions of the chunk (= full decode followed by slicing) -/
theorem chain_partial_eq_full_slice (c : Chain) (sh : Shape) (fill : Elem) (xs : List Elem)
    (hes : 0 < c.es) (hu : 0 < c.unit ∧ c.es % c.unit = 0) (hx : chunkOk c.es sh xs)
    (ha : aStagesOk c.a2a sh) (hb : ∀ st ∈ c.b2b, bStageOk st) :
    AHandleOk (c.partialDecoder sh fill (storeHandle (some (c.encode sh xs)))) sh xs := by
  sorry

/-- … and on an absent value with the fill value -/
theorem chain_partial_absent (c : Chain) (sh : Shape) (fill : Elem)
    (hes : 0 < c.es) (hfill : fill.length = c.es) (ha : aStagesOk c.a2a sh) :
    AHandleOk (c.partialDecoder sh fill (storeHandle none)) sh (List.replicate (prod sh) fill) := by
  sorry

end Zarrs.C02
