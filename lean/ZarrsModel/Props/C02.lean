import ZarrsModel.Model.Partial
import ZarrsModel.Lemmas.Partial
/-
C02 — partial decoding equals full decoding followed by slicing.

Compositional statement: a *served* handle (`BHandleOk h v`: h answers every in-bounds list of byte ranges with
the slices of v; `AHandleOk h sh xs`: h answers every in-bounds list of regions with the regions of chunk xs)
stays served through every partial decoder, hence through every chain, with or without inserted caches; an
absent value reads as fill.
-/
namespace Zarrs.C02
open Zarrs Zarrs.Codec Zarrs.Partial

theorem storeHandle_ok (v : Bytes) : BHandleOk (storeHandle (some v)) v ∧ BHandleAbsent (storeHandle none) :=
  ⟨storeHandle_some_ok v, storeHandle_none_absent⟩

example : storeHandle (some [1, 2, 3, 4, 5]) [.fromStart 1 (some 2), .fromStart 3 none, .suffix 2] =
    some (some [[2, 3], [4, 5], [4, 5]]) := by decide

/-- checksum codecs (`StripSuffixPartialDecoder`, all three range forms) -/
theorem stripSuffix_ok (sum : Bytes → Nat) (h : BHandle) (b : Bytes) (hh : BHandleOk h (checksumEnc sum b)) :
    BHandleOk (stripSuffixPD 4 h) b :=
  stripSuffixPD_ok h b (le32 (sum b)) hh

example : BHandleOk (storeHandle (some (checksumEnc crc32c [1, 2, 3, 4, 5]))) (checksumEnc crc32c [1, 2, 3, 4, 5]) :=
  (storeHandle_ok _).1
example : stripSuffixPD 4 (storeHandle (some (checksumEnc crc32c [1, 2, 3, 4, 5])))
    [.fromStart 1 (some 2), .fromStart 3 none, .suffix 2] = some (some [[2, 3], [4, 5], [4, 5]]) := by decide

theorem stripSuffix_absent (n : Nat) (h : BHandle) (hh : BHandleAbsent h) : BHandleAbsent (stripSuffixPD n h) :=
  stripSuffixPD_absent n h hh

example : BHandleAbsent (storeHandle none) := (storeHandle_ok []).2

/-- `ByteIntervalPartialDecoder` serves the interval (all three range forms) -/
theorem byteInterval_ok (h : BHandle) (v : Bytes) (off len : Nat) (hh : BHandleOk h v) (hb : off + len ≤ v.length) :
    BHandleOk (byteIntervalPD off len h) (slice v off (off + len)) :=
  byteIntervalPD_ok h v off len hh hb

example : BHandleOk (storeHandle (some [1, 2, 3, 4, 5, 6, 7, 8])) [1, 2, 3, 4, 5, 6, 7, 8] ∧
    2 + 4 ≤ ([1, 2, 3, 4, 5, 6, 7, 8] : Bytes).length := ⟨(storeHandle_ok _).1, by decide⟩
example : byteIntervalPD 2 4 (storeHandle (some [1, 2, 3, 4, 5, 6, 7, 8]))
    [.fromStart 1 (some 2), .fromStart 3 none, .suffix 2] = some (some [[4, 5], [6], [5, 6]]) := by decide

/-- decode-all fallbacks and compressors: correct for any codec that inverts its encoding -/
theorem decodeAll_ok (enc : Bytes → Bytes) (dec : Bytes → Option Bytes) (h : BHandle) (b : Bytes)
    (hinv : dec (enc b) = some b) (hh : BHandleOk h (enc b)) : BHandleOk (decodeAllPD dec h) b :=
  decodeAllPD_ok enc dec h b hinv hh

example : (fun b : Bytes => some (b.take (b.length - 2))) ((fun b : Bytes => b ++ [9, 9]) [1, 2, 3]) = some [1, 2, 3] ∧
    BHandleOk (storeHandle (some ((fun b : Bytes => b ++ [9, 9]) [1, 2, 3]))) ((fun b : Bytes => b ++ [9, 9]) [1, 2, 3]) :=
  ⟨by decide, (storeHandle_ok _).1⟩

theorem decodeAll_absent (dec : Bytes → Option Bytes) (h : BHandle) (hh : BHandleAbsent h) : BHandleAbsent (decodeAllPD dec h) :=
  decodeAllPD_absent dec h hh

example : BHandleAbsent (stripSuffixPD 4 (storeHandle none)) := stripSuffix_absent 4 _ (storeHandle_ok []).2

/-- a cache is transparent -/
theorem bytesCache_ok (h : BHandle) (v : Bytes) (hh : BHandleOk h v) : BHandleOk (bytesCachePD h) v :=
  bytesCachePD_ok h v hh

example : BHandleOk (stripSuffixPD 4 (storeHandle (some (checksumEnc fletcher32 [1, 2, 3])))) [1, 2, 3] :=
  stripSuffix_ok fletcher32 _ _ (storeHandle_ok _).1

theorem bytesCache_absent (h : BHandle) (hh : BHandleAbsent h) : BHandleAbsent (bytesCachePD h) :=
  bytesCachePD_absent h hh

example : BHandleAbsent (decodeAllPD (fun b => some b) (storeHandle none)) := decodeAll_absent _ _ (storeHandle_ok []).2

/-- well-formed chunk: `n` elements of `es` bytes each -/
def chunkOk (es : Nat) (sh : Shape) (xs : List Elem) : Prop := xs.length = prod sh ∧ ∀ x ∈ xs, x.length = es

/-- `BytesPartialDecoder`: regions of the chunk from byte ranges of its encoding (either byte order) -/
theorem bytesPD_ok (big : Bool) (es unit : Nat) (sh : Shape) (fill : Elem) (h : BHandle) (xs : List Elem)
    (hes : 0 < es) (hu : 0 < unit ∧ es % unit = 0) (hx : chunkOk es sh xs)
    (hh : BHandleOk h (bytesEnc big unit xs.flatten)) :
    AHandleOk (bytesPD big es unit sh fill h) sh xs :=
  bytesPD_ok' big es unit sh fill h xs hes hu.1 hu.2 hx.1 hx.2 hh

/-- six 4-byte elements (complex64-like: swap unit 2) in a 2×3 chunk -/
private def exXs : List Elem := (List.range 6).map (fun i => [i, 10 + i, 20 + i, 30 + i])

example : 0 < 4 ∧ (0 < 2 ∧ 4 % 2 = 0) ∧ chunkOk 4 [2, 3] exXs ∧
    BHandleOk (storeHandle (some (bytesEnc true 2 exXs.flatten))) (bytesEnc true 2 exXs.flatten) :=
  ⟨by decide, by decide, ⟨by decide, by decide⟩, (storeHandle_ok _).1⟩
example : bytesPD true 4 2 [2, 3] [0, 0, 0, 0] (storeHandle (some (bytesEnc true 2 exXs.flatten)))
    [⟨[0, 1], [2, 2]⟩, ⟨[1, 0], [1, 3]⟩, ⟨[2, 0], [0, 3]⟩] =
    some [[[1, 11, 21, 31], [2, 12, 22, 32], [4, 14, 24, 34], [5, 15, 25, 35]],
          [[3, 13, 23, 33], [4, 14, 24, 34], [5, 15, 25, 35]], []] := by decide

/-- an absent value reads as fill through the `bytes` partial decoder -/
theorem bytesPD_absent (big : Bool) (es unit : Nat) (sh : Shape) (fill : Elem) (h : BHandle) (hh : BHandleAbsent h) :
    AHandleOk (bytesPD big es unit sh fill h) sh (List.replicate (prod sh) fill) :=
  bytesPD_absent' big es unit sh fill h hh

example : BHandleAbsent (bytesCachePD (storeHandle none)) := bytesCache_absent _ (storeHandle_ok []).2

/-- the handle that serves a chunk directly (used to show the `AHandleOk` hypotheses satisfiable) -/
private def direct (sh : Shape) (xs : List Elem) : AHandle := fun rs => some (rs.map (fun r => r.extract sh xs))
private theorem direct_ok (sh : Shape) (xs : List Elem) : AHandleOk (direct sh xs) sh xs := fun _ _ => rfl

theorem transposePD_ok (order : List Nat) (sh : Shape) (h : AHandle) (xs : List Elem)
    (ho : validOrder order sh.length = true) (hx : xs.length = prod sh)
    (hh : AHandleOk h (permute sh order) (transposeEnc order sh xs)) :
    AHandleOk (transposePD order h) sh xs :=
  transposePD_ok' order sh h xs ho hx hh

example : validOrder [2, 0, 1] [2, 1, 3].length = true ∧ exXs.length = prod [2, 1, 3] ∧
    AHandleOk (direct (permute [2, 1, 3] [2, 0, 1]) (transposeEnc [2, 0, 1] [2, 1, 3] exXs))
      (permute [2, 1, 3] [2, 0, 1]) (transposeEnc [2, 0, 1] [2, 1, 3] exXs) :=
  ⟨by decide, by decide, direct_ok _ _⟩
example : transposePD [2, 0, 1] (direct (permute [2, 1, 3] [2, 0, 1]) (transposeEnc [2, 0, 1] [2, 1, 3] exXs))
    [⟨[0, 0, 1], [2, 1, 2]⟩, ⟨[1, 0, 0], [1, 1, 3]⟩] =
    some [[[1, 11, 21, 31], [2, 12, 22, 32], [4, 14, 24, 34], [5, 15, 25, 35]],
          [[3, 13, 23, 33], [4, 14, 24, 34], [5, 15, 25, 35]]] := by decide

theorem squeezePD_ok (sh : Shape) (h : AHandle) (xs : List Elem) (hpos : ∀ d ∈ sh, 0 < d) (hx : xs.length = prod sh)
    (hh : AHandleOk h (AStage.squeeze.encShape sh) xs) :
    AHandleOk (squeezePD sh h) sh xs :=
  squeezePD_ok' sh h xs hpos hx hh

example : (∀ d ∈ [1, 2, 1, 3], 0 < d) ∧ exXs.length = prod [1, 2, 1, 3] ∧
    AHandleOk (direct (AStage.squeeze.encShape [1, 2, 1, 3]) exXs) (AStage.squeeze.encShape [1, 2, 1, 3]) exXs :=
  ⟨by decide, by decide, direct_ok _ _⟩
example : squeezePD [1, 2, 1, 3] (direct [2, 3] exXs) [⟨[0, 0, 0, 1], [1, 2, 1, 2]⟩, ⟨[0, 1, 0, 0], [1, 1, 0, 3]⟩] =
    some [[[1, 11, 21, 31], [2, 12, 22, 32], [4, 14, 24, 34], [5, 15, 25, 35]], []] := by decide
/-- a fully squeezed chunk -/
example : squeezePD [1, 1] (direct [1] [[7, 7]]) [⟨[0, 0], [1, 1]⟩, ⟨[0, 1], [1, 0]⟩] = some [[[7, 7]], []] := by decide

theorem arrayCache_ok (sh : Shape) (h : AHandle) (xs : List Elem) (hx : xs.length = prod sh) (hh : AHandleOk h sh xs) :
    AHandleOk (arrayCachePD sh h) sh xs :=
  arrayCachePD_ok sh h xs hx hh

example : exXs.length = prod [2, 3] ∧ AHandleOk (direct [2, 3] exXs) [2, 3] exXs := ⟨by decide, direct_ok _ _⟩

/-- lawful stages of a chain -/
def bStageOk : BStage → Prop
  | .stripSuffix n _ => n = 4
  | .decodeAll enc dec => ∀ b, dec (enc b) = some b
  | .cache => True

def aStagesOk : List AStage → Shape → Prop
  | [], _ => True
  | st :: rest, sh =>
    (match st with
     | .transpose order => validOrder order sh.length = true
     | .squeeze => ∀ d ∈ sh, 0 < d
     | .cache => True) ∧ aStagesOk rest (st.encShape sh)

/-- a lawful bytes-to-bytes stage keeps a served handle served -/
theorem bStage_ok (st : BStage) (hs : bStageOk st) (b : Bytes) (g : BHandle) (hg : BHandleOk g (st.enc b)) :
    BHandleOk (st.pd g) b := by
  cases st with
  | stripSuffix n sum =>
    have : n = 4 := hs
    subst this
    exact stripSuffix_ok sum g b hg
  | decodeAll enc dec => exact decodeAll_ok enc dec g b (hs b) hg
  | cache => exact bytesCache_ok g b hg

theorem aStagesOk_aOk (stages : List AStage) : ∀ sh, aStagesOk stages sh → aOk stages sh := by
  induction stages with
  | nil => intro _ _; trivial
  | cons st rest ih =>
    intro sh h
    refine ⟨?_, ih _ h.2⟩
    cases st <;> exact h.1

/-- **C02 for chains**: for every chain of the modelled stages (any number of transposes / squeezes / caches, the
`bytes` codec with either byte order, any number of checksum codecs, invertible compressors and caches in any order)
and every chunk, the chain's partial decoder on the stored encoding answers every in-bounds list of regions with
exactly the regions of the chunk (= full decode followed by slicing) -/
theorem chain_partial_eq_full_slice (c : Chain) (sh : Shape) (fill : Elem) (xs : List Elem)
    (hes : 0 < c.es) (hu : 0 < c.unit ∧ c.es % c.unit = 0) (hx : chunkOk c.es sh xs)
    (ha : aStagesOk c.a2a sh) (hb : ∀ st ∈ c.b2b, bStageOk st) :
    AHandleOk (c.partialDecoder sh fill (storeHandle (some (c.encode sh xs)))) sh xs :=
  chain_ok c sh fill xs hes hu.1 hu.2 hx.1 hx.2 (aStagesOk_aOk c.a2a sh ha)
    (fun st hst b g hg => bStage_ok st (hb st hst) b g hg)

/-- the chain of the executable sanity test: transpose, array cache, squeeze; big-endian 2-byte elements;
crc32c, bytes cache, a decode-all "compressor", fletcher32 -/
private def exChain : Chain :=
  { a2a := [.transpose [1, 0], .cache, .squeeze], big := true, es := 2, unit := 2,
    b2b := [.stripSuffix 4 crc32c, .cache,
      .decodeAll (fun b => b ++ [9, 9]) (fun b => some (b.take (b.length - 2))), .stripSuffix 4 fletcher32] }
private def exChunk : List Elem := (List.range 6).map (fun i => [i, 100 + i])
private def exRegions : List Subset := [⟨[0, 1], [2, 2]⟩, ⟨[1, 0], [1, 3]⟩, ⟨[0, 0], [2, 3]⟩, ⟨[1, 1], [0, 1]⟩]

private theorem exChain_b : ∀ st ∈ exChain.b2b, bStageOk st := by
  intro st hst
  simp only [exChain, List.mem_cons, List.not_mem_nil, or_false] at hst
  rcases hst with rfl | rfl | rfl | rfl
  · rfl
  · trivial
  · intro b
    simp [List.take_left']
  · rfl

example : 0 < exChain.es ∧ (0 < exChain.unit ∧ exChain.es % exChain.unit = 0) ∧ chunkOk exChain.es [2, 3] exChunk ∧
    aStagesOk exChain.a2a [2, 3] ∧ ∀ st ∈ exChain.b2b, bStageOk st :=
  ⟨by decide, by decide, ⟨by decide, by decide⟩, ⟨by decide, trivial, by decide, trivial⟩, exChain_b⟩

/-- the theorem's conclusion on the sanity-test chain, evaluated: the partial decoder's answer is the list of
regions of the chunk -/
example : exChain.partialDecoder [2, 3] [7, 7] (storeHandle (some (exChain.encode [2, 3] exChunk))) exRegions =
    some (exRegions.map (fun r => r.extract [2, 3] exChunk)) := by decide
example : exRegions.map (fun r => r.extract [2, 3] exChunk) =
    [[[1, 101], [2, 102], [4, 104], [5, 105]], [[3, 103], [4, 104], [5, 105]],
     [[0, 100], [1, 101], [2, 102], [3, 103], [4, 104], [5, 105]], []] := by decide

/-- … and on an absent value with the fill value -/
theorem chain_partial_absent (c : Chain) (sh : Shape) (fill : Elem)
    (hes : 0 < c.es) (hfill : fill.length = c.es) (ha : aStagesOk c.a2a sh) :
    AHandleOk (c.partialDecoder sh fill (storeHandle none)) sh (List.replicate (prod sh) fill) :=
  have _ := hes   -- not needed: an absent value is never decoded
  have _ := hfill
  chain_absent c sh fill (aStagesOk_aOk c.a2a sh ha)

example : 0 < exChain.es ∧ ([7, 7] : Elem).length = exChain.es ∧ aStagesOk exChain.a2a [2, 3] :=
  ⟨by decide, by decide, ⟨by decide, trivial, by decide, trivial⟩⟩
example : exChain.partialDecoder [2, 3] [7, 7] (storeHandle none) exRegions =
    some (exRegions.map (fun r => r.extract [2, 3] (List.replicate (prod [2, 3]) [7, 7]))) := by decide

end Zarrs.C02
