import ZarrsModel.Model.RwLock
import ZarrsModel.Lemmas.RwLock
/-
C19 — library operations never deadlock on the global configuration.
-/
namespace Zarrs.C19
open Zarrs.RwLock

/-- **No deadlock for flat programs**: if no thread ever acquires the configuration while holding it, then in
every reachable state with an unfinished thread some thread can take a step — for any number of threads, any
number and placement of writers. -/
theorem flat_no_deadlock (ps : Progs) (hflat : ∀ p ∈ ps, flat p = true) (s : State) (hr : Reachable ps s) :
    deadlocked ps s = false := by
  have hI := Inv_reachable ps hflat s hr
  cases hd : deadlocked ps s with
  | false => rfl
  | true =>
    exfalso
    simp only [deadlocked, Bool.and_eq_true, List.any_eq_true, List.all_eq_true, List.mem_range] at hd
    obtain ⟨⟨t, _, hunf⟩, hall⟩ := hd
    have hun : nextEv ps s t ≠ none := by
      intro h
      simp [finished, h] at hunf
    obtain ⟨u, sched, s', hrun, _, _⟩ := progress ps hflat s hI t hun
    have hen := enabled_of_run_cons ps s s' u sched hrun
    have := hall u (lt_of_enabled ps s u hen)
    simp [hen] at this

/-- non-vacuity: three flat threads, two of them writers, in a reachable state where thread 0 holds a read
guard and thread 1 is a registered waiting writer -/
example :
    let ps : Progs := [[.acqR, .relR, .acqW, .relW], [.acqW, .relW], [.acqR, .relR]]
    (∀ p ∈ ps, flat p = true) ∧ Reachable ps (step ps (step ps (init ps) 0) 1) ∧
      step ps (step ps (init ps) 0) 1 = ⟨[1, 0, 0], [1, 0, 0], none, [1]⟩ :=
  ⟨by decide, .step _ _ (.step _ _ .init (by decide) (by decide)) (by decide) (by decide), by decide⟩

/-- every flat program runs to completion under any fair-enough scheduler: from every reachable state there is a
schedule that finishes all threads -/
theorem flat_can_finish (ps : Progs) (hflat : ∀ p ∈ ps, flat p = true) (s : State) (hr : Reachable ps s) :
    ∃ sched s', run ps s sched = some s' ∧ ∀ t, t < ps.length → finished ps s' t = true :=
  can_finish_of_Inv ps hflat _ s (Inv_reachable ps hflat s hr) (Nat.le_refl _)

/-- non-vacuity: same three flat threads; from the reachable state above an explicit finishing schedule -/
example :
    let ps : Progs := [[.acqR, .relR, .acqW, .relW], [.acqW, .relW], [.acqR, .relR]]
    (∀ p ∈ ps, flat p = true) ∧ Reachable ps (step ps (step ps (init ps) 0) 1) ∧
      (run ps (step ps (step ps (init ps) 0) 1) [0, 1, 1, 0, 0, 0, 2, 2]).isSome = true ∧
      ((run ps (step ps (step ps (init ps) 0) 1) [0, 1, 1, 0, 0, 0, 2, 2]).map
        (fun s' => (List.range ps.length).all (finished ps s'))) = some true :=
  ⟨by decide, .step _ _ (.step _ _ .init (by decide) (by decide)) (by decide) (by decide),
    by decide, by decide⟩

/-- **A nested read acquisition deadlocks** against one writer: the execution
`t0:acqR, t1:request-write, …` reaches a state where nobody can move. -/
theorem nested_deadlocks :
    ∃ sched s, run [[.acqR, .acqR, .relR, .relR], [.acqW, .relW]] (init [[.acqR, .acqR, .relR, .relR], [.acqW, .relW]]) sched = some s ∧
      deadlocked [[.acqR, .acqR, .relR, .relR], [.acqW, .relW]] s = true :=
  ⟨[0, 1], ⟨[1, 0], [1, 0], none, [1]⟩, by decide, by decide⟩

/-- states reached by `run` from the initial state are reachable -/
theorem run_reachable (ps : Progs) (sched : List Nat) (s : State) (hs : ∀ t ∈ sched, t < ps.length)
    (h : run ps (init ps) sched = some s) : Reachable ps s := by
  suffices H : ∀ s0, Reachable ps s0 → run ps s0 sched = some s → Reachable ps s from H _ .init h
  clear h
  induction sched with
  | nil =>
    intro s0 h0 hrun
    simp [run] at hrun
    exact hrun ▸ h0
  | cons t ts ih =>
    intro s0 h0 hrun
    have hen := enabled_of_run_cons ps s0 s t ts hrun
    simp [run, hen] at hrun
    exact ih (fun u hu => hs u (List.mem_cons_of_mem _ hu)) _
      (Reachable.step s0 t h0 (hs t (List.mem_cons_self ..)) hen) hrun

/-- non-vacuity: a schedule of in-range thread ids that runs -/
example :
    let ps : Progs := [[.acqR, .relR, .acqW, .relW], [.acqW, .relW], [.acqR, .relR]]
    (∀ t ∈ [2, 0, 1, 0, 2, 1], t < ps.length) ∧
      run ps (init ps) [2, 0, 1, 0, 2, 1] = some ⟨[2, 1, 2], [0, 0, 0], some 1, []⟩ :=
  ⟨by decide, by decide⟩

/-- guards held by a thread after executing the event prefix `q` -/
def holds (q : List Ev) : Int :=
  (q.filter (fun e => e == .acqR || e == .acqW)).length - (q.filter (fun e => e == .relR || e == .relW)).length

def isAcq (e : Ev) : Bool := e == .acqR || e == .acqW

/-- an operation's event list is well bracketed: it never releases what it does not hold, releases match the
kind of the guard released, and it ends holding nothing (guards are RAII values in the code) -/
def wellBracketed : List Ev → List Ev → Bool
  | [], [] => true
  | [], _ :: _ => false
  | .acqR :: rest, stack => wellBracketed rest (.acqR :: stack)
  | .acqW :: rest, stack => wellBracketed rest (.acqW :: stack)
  | .relR :: rest, .acqR :: stack => wellBracketed rest stack
  | .relW :: rest, .acqW :: stack => wellBracketed rest stack
  | _, _ => false

/-- what the probe of hook H3 observes on a single call stack: the lock is free at an acquisition iff the
thread holds nothing; a flat operation therefore produces an all-free probe trace … -/
theorem flat_probes_free (p : List Ev) (h : flat p = true) (k : Nat) (e : Ev) (hk : p[k]? = some e)
    (he : isAcq e = true) : holds (p.take k) = 0 := by
  induction p using flat.induct generalizing k with
  | case1 => simp at hk
  | case2 rest ih =>
    simp only [flat] at h
    match k, hk with
    | 0, _ => simp [holds]
    | 1, hk =>
      simp at hk
      subst hk
      simp [isAcq] at he
    | k+2, hk =>
      have := ih h k (by simpa using hk)
      simp [holds] at this ⊢
      omega
  | case3 rest ih =>
    simp only [flat] at h
    match k, hk with
    | 0, _ => simp [holds]
    | 1, hk =>
      simp at hk
      subst hk
      simp [isAcq] at he
    | k+2, hk =>
      have := ih h k (by simpa using hk)
      simp [holds] at this ⊢
      omega
  | case4 p h1 h2 h3 =>
    unfold flat at h
    split at h <;> simp_all

/-- non-vacuity: the second acquisition of a flat two-block program -/
example :
    let p : List Ev := [.acqR, .relR, .acqW, .relW]
    flat p = true ∧ p[2]? = some .acqW ∧ isAcq .acqW = true ∧ holds (p.take 2) = 0 :=
  ⟨by decide, by decide, by decide, by decide⟩

/-- … and conversely an all-free probe trace of a well-bracketed operation means the operation is flat -/
theorem probes_free_flat (p : List Ev) (hwb : wellBracketed p [] = true)
    (h : ∀ k e, p[k]? = some e → isAcq e = true → holds (p.take k) = 0) : flat p = true := by
  induction p using flat.induct with
  | case1 => rfl
  | case2 rest ih =>
    simp only [flat]
    refine ih (by simpa [wellBracketed] using hwb) (fun k e hk he => ?_)
    have := h (k + 2) e (by simpa using hk) he
    simp [holds] at this ⊢
    omega
  | case3 rest ih =>
    simp only [flat]
    refine ih (by simpa [wellBracketed] using hwb) (fun k e hk he => ?_)
    have := h (k + 2) e (by simpa using hk) he
    simp [holds] at this ⊢
    omega
  | case4 p h1 h2 h3 =>
    exfalso
    rcases p with _ | ⟨e1, _ | ⟨e2, rest⟩⟩
    · exact h1 rfl
    · cases e1 <;> simp [wellBracketed] at hwb
    · cases e1 <;> cases e2 <;>
        first
        | exact h2 _ rfl
        | exact h3 _ rfl
        | (simp [wellBracketed] at hwb; done)
        | (have := h 1 _ rfl rfl; simp [holds] at this)

/-- non-vacuity: a well-bracketed operation all of whose acquisitions find the lock free … -/
example :
    let p : List Ev := [.acqR, .relR, .acqW, .relW]
    wellBracketed p [] = true ∧ (∀ k e, p[k]? = some e → isAcq e = true → holds (p.take k) = 0) :=
  ⟨by decide, fun k e hk he => flat_probes_free _ (by decide) k e hk he⟩

/-- … whereas a nested (well-bracketed, non-flat) operation has a non-free probe -/
example :
    let p : List Ev := [.acqR, .acqR, .relR, .relR]
    wellBracketed p [] = true ∧ flat p = false ∧ p[1]? = some .acqR ∧ holds (p.take 1) = 1 :=
  ⟨by decide, by decide, by decide, by decide⟩

end Zarrs.C19
