import ZarrsModel.Model.RwLock
import ZarrsModel.Lemmas.RwLock
/-
C19 — library operations never deadlock on the global configuration.
-/
namespace Zarrs.C19
open Zarrs.RwLock

/-- **No deadlock for flat programs**: if no thread ever acquires the configuration while holding it, then in
every reachable state with an unfinished thread some thread can take a step — for any number of threads, any
number and placement of writers. -/
theorem flat_no_deadlock (ps : Progs) (hflat : ∀ p ∈ ps, flat p = true) (s : State) (hr : Reachable ps s) :
    deadlocked ps s = false := by
  sorry

/-- every flat program runs to completion under any fair-enough scheduler: from every reachable state there is a
schedule that finishes all threads -/
theorem flat_can_finish (ps : Progs) (hflat : ∀ p ∈ ps, flat p = true) (s : State) (hr : Reachable ps s) :
    ∃ sched s', run ps s sched = some s' ∧ ∀ t, t < ps.length → finished ps s' t = true := by
  sorry

/-- **A nested read acquisition deadlocks** against one writer: the execution
`t0:acqR, t1:request-write, …` reaches a state where nobody can move. -/
theorem nested_deadlocks :
    ∃ sched s, run [[.acqR, .acqR, .relR, .relR], [.acqW, .relW]] (init [[.acqR, .acqR, .relR, .relR], [.acqW, .relW]]) sched = some s ∧
      deadlocked [[.acqR, .acqR, .relR, .relR], [.acqW, .relW]] s = true := by
  sorry

/-- states reached by `run` from the initial state are reachable -/
theorem run_reachable (ps : Progs) (sched : List Nat) (s : State) (hs : ∀ t ∈ sched, t < ps.length)
    (h : run ps (init ps) sched = some s) : Reachable ps s := by
  sorry

/-- guards held by a thread after executing the event prefix `q` -/
def holds (q : List Ev) : Int :=
  (q.filter (fun e => e == .acqR || e == .acqW)).length - (q.filter (fun e => e == .relR || e == .relW)).length

def isAcq (e : Ev) : Bool := e == .acqR || e == .acqW

/-- an operation's event list is well bracketed: it never releases what it does not hold, releases match the
kind of the guard released, and it ends holding nothing (guards are RAII values in the code) -/
def wellBracketed : List Ev → List Ev → Bool
  | [], [] => true
  | [], _ :: _ => false
  | .acqR :: rest, stack => wellBracketed rest (.acqR :: stack)
  | .acqW :: rest, stack => wellBracketed rest (.acqW :: stack)
  | .relR :: rest, .acqR :: stack => wellBracketed rest stack
  | .relW :: rest, .acqW :: stack => wellBracketed rest stack
  | _, _ => false

/-- what the probe of hook H3 observes on a single call stack: the lock is free at an acquisition iff the
thread holds nothing; a flat operation therefore produces an all-free probe trace … -/
theorem flat_probes_free (p : List Ev) (h : flat p = true) (k : Nat) (e : Ev) (hk : p[k]? = some e)
    (he : isAcq e = true) : holds (p.take k) = 0 := by
  sorry

/-- … and conversely an all-free probe trace of a well-bracketed operation means the operation is flat -/
theorem probes_free_flat (p : List Ev) (hwb : wellBracketed p [] = true)
    (h : ∀ k e, p[k]? = some e → isAcq e = true → holds (p.take k) = 0) : flat p = true := by
  sorry

end Zarrs.C19
