import ZarrsModel.Model.Array
import ZarrsModel.Lemmas.Array
/-
C01 — array reads return exactly what was written, for every history.
C04 — fill-value elision never drops data; absent chunks read as fill (same refinement invariant).

`cfg` is any array configuration whose codec chain is lossless (C03), whose key encoding is injective (C11)
and whose grid is built from a configuration with non-zero chunk sizes and is compatible with the array shape
(C10).  The abstract array `AArr` assigns one element to every index; `absRun ops` is the obvious effect of a
history on it (later writes override earlier ones, erased chunks revert to fill, everything else is fill).
-/
namespace Zarrs.C01
open Zarrs

variable {α : Type} [DecidableEq α]

/-- the standing assumptions on a configuration -/
structure Ok (cfg : ArrCfg α) (G : Shape) : Prop where
  lossless : cfg.Lossless
  keysInj : cfg.KeysInjective
  gridNew : ∃ gcfg, cfg.grid = Grid.new gcfg
  gridWf : cfg.grid.wf = true
  gridShape : cfg.grid.gridShape cfg.shape = some G
  rank : cfg.shape.length = cfg.grid.length

/-- in-bounds write/erase operations (the quantifier of the property) -/
def opInBounds (cfg : ArrCfg α) (G : Shape) : WriteOp α → Prop
  | .storeChunk c d => inB c G = true ∧ ∃ s, cfg.chunkShape c = some s ∧ d.length = prod s
  | .storeChunks b d => b.wf = true ∧ b.inboundsShape G = true ∧
      ∃ region, cfg.grid.chunksSubset b = some region ∧ d.length = region.numElements
  | .storeChunkSubset c r d => inB c G = true ∧ r.wf = true ∧
      (∃ s, cfg.chunkShape c = some s ∧ r.inboundsShape s = true) ∧ d.length = r.numElements
  | .storeArraySubset r d => r.wf = true ∧ r.inboundsShape cfg.shape = true ∧ d.length = r.numElements
  | .eraseChunk c => inB c G = true
  | .eraseChunks b => b.wf = true ∧ b.inboundsShape G = true

/-- **C01.** After any in-bounds history starting from the empty store, every read route returns, element for
element, the abstract array: the most recently written value, fill where nothing was written or the last write
was erased. -/
theorem read_after_history (cfg : ArrCfg α) (G : Shape) (hok : Ok cfg G)
    (ops : List (WriteOp α)) (hops : ∀ op ∈ ops, opInBounds cfg G op) :
    ∃ st, cfg.run [] ops = some st ∧
      (∀ r : Subset, r.wf = true → r.inboundsShape cfg.shape = true →
        cfg.retrieveArraySubset st r = some (AArr.read (cfg.absRun ops) r)) ∧
      (∀ c, inB c G = true → ∃ cs, cfg.chunkSubset c = some cs ∧
        cfg.retrieveChunk st c = some (AArr.read (cfg.absRun ops) cs)) ∧
      (∀ c r, inB c G = true → r.wf = true →
        (∃ s, cfg.chunkShape c = some s ∧ r.inboundsShape s = true) →
        ∃ cs, cfg.chunkSubset c = some cs ∧
          cfg.retrieveChunkSubset st c r = some (AArr.read (cfg.absRun ops) ⟨addIdx r.start cs.start, r.shape⟩)) ∧
      (∀ b : Subset, b.wf = true → b.inboundsShape G = true →
        ∃ region, cfg.grid.chunksSubset b = some region ∧
          cfg.retrieveChunks st b = some (AArr.read (cfg.absRun ops) region)) := by
  sorry

/-- the abstract array really is "last write wins, else fill": reading one index -/
theorem abs_last_write (cfg : ArrCfg α) (ops : List (WriteOp α)) (op : WriteOp α) (i : Idx) :
    cfg.absRun (ops ++ [op]) i = cfg.absOp (cfg.absRun ops) op i ∧ cfg.absRun [] i = cfg.fill := by
  sorry

/-- **C04 (elision on).** With `store_empty_chunks` off, after any history a chunk key is present exactly when
the chunk holds at least one non-fill element -/
theorem key_present_iff (cfg : ArrCfg α) (G : Shape) (hok : Ok cfg G) (helide : cfg.storeEmpty = false)
    (ops : List (WriteOp α)) (hops : ∀ op ∈ ops, opInBounds cfg G op) :
    ∃ st, cfg.run [] ops = some st ∧
      ∀ c, inB c G = true → ∃ cs, cfg.chunkSubset c = some cs ∧
        (cfg.keyOf c ∈ st.keys ↔ ∃ i, cs.contains i = true ∧ cfg.absRun ops i ≠ cfg.fill) := by
  sorry

/-- **C04.** no other keys are ever written -/
theorem keys_are_chunk_keys (cfg : ArrCfg α) (G : Shape) (hok : Ok cfg G)
    (ops : List (WriteOp α)) (hops : ∀ op ∈ ops, opInBounds cfg G op) :
    ∃ st, cfg.run [] ops = some st ∧ ∀ k ∈ st.keys, ∃ c, inB c G = true ∧ k = cfg.keyOf c := by
  sorry

/-- **C04 (elision off).** every chunk written through the whole-chunk write path is physically stored -/
theorem store_empty_stores (cfg : ArrCfg α) (hempty : cfg.storeEmpty = true) (st st' : KV) (c : Idx) (d : List α)
    (h : cfg.storeChunk st c d = some st') : cfg.keyOf c ∈ st'.keys := by
  sorry

/-- **C04.** a chunk is left out only if all its elements equal the fill value -/
theorem elided_only_if_fill (cfg : ArrCfg α) (st st' : KV) (c : Idx) (d : List α)
    (h : cfg.storeChunk st c d = some st') (hk : cfg.keyOf c ∉ st'.keys) : ∀ x ∈ d, x = cfg.fill := by
  sorry

/-- **C04.** whatever is left out reads back as fill -/
theorem absent_reads_fill (cfg : ArrCfg α) (st : KV) (c : Idx) (s : Shape)
    (hs : cfg.chunkShape c = some s) (hk : cfg.keyOf c ∉ st.keys) :
    cfg.retrieveChunk st c = some (List.replicate (prod s) cfg.fill) ∧
    cfg.retrieveChunkIfExists st c = some none := by
  sorry

/-- the run-based update of the code equals the element-wise scatter specification -/
theorem updateRuns_eq_scatter (sh : Shape) (r : Subset) (xs ys : List α) (hr : r.wf = true)
    (hb : r.inboundsShape sh = true) (hx : xs.length = prod sh) (hy : ys.length = r.numElements) :
    (updateRuns sh r xs ys).map some = scatter sh r xs ys := by
  sorry

end Zarrs.C01
